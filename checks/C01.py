"""C01 — canonicity: equal handles iff equal functions, after any history."""
import random
import vf
import ddgen
from checks import ddcommon

META = {
    "title": "canonicity after any history",
    "technique": "Rocq proof of canonicity for the three rule families (k-ary BDD/MTBDD/TDD, complement-edge, zero-suppressed) on every well-formed table, with the well-formedness checker proved to decide WF; correspondence: after every step of generated histories the real manager is lifted to a snapshot on which the extracted checker and interpreters are run (handle equality vs. value-table equality over all handle pairs, ==/Hash/Ord)",
    "category": "proof",
    "design_ref": "DESIGN.md section 5, C01",
    "level_text": "Theorems (coq/Props/C01.v): on every snapshot satisfying the executable well-formedness predicate wf_full_b (proved equivalent to the Prop WFfull), two handles are the same edge iff their interpretations agree on all assignments — for BDD/MTBDD/TDD (k-ary rule), BCDD (complement edges, then-edge regular) and ZBDD (zero-suppression, Boolean view over all levels). History-independence is obtained by checking wf_full_b on the real manager after every step of every explored history (exhaustive: all 256 three-variable functions built by two routes under all variable orders with gc/drop/reorder in between; random histories on 3..7 variables mixing apply, clone/drop, gc, add_vars, set_var_order), together with the direct comparison of ==, Hash and Ord against value-table equality for all handle pairs. TDD (package TDDx, theorems C01_tdd_*): on every snapshot accepted by td_ok_b two references / handles are equal IFF they denote the same three-valued function of the VARIABLES (tfun_of) IFF their value tables over the 3^n assignments are equal (td_vtable, DD/TddAudit.v: 3^n entries in the index order the driver uses, none undefined; C01_tdd_canon_tfun / _vtable / _handles / _vtable_shape); after ANY history of the TDD manager state machine Mgr/TddHist.v (constants, variables, not, 8 connectives, ite, cofactors, clone / drop, gc, add_vars; any edge order, any lossy cache) two slots hold the same edge iff same function (C01_tdd_hist_canonical, _vtable, _inv_canonical), every call stores the fixed table applied to the operands' functions (C01_tdd_hist_spec) and its result is the only edge with that function (C01_tdd_hist_result_unique). Tie: kind tdd of h_dd: identity cases (functions derived twice through identities of the fixed tables, reorderings / gc in between, == / Hash / Ord) and random histories; on every snapshot td_ok_b, all handle pairs (edge equality vs table equality), the extracted td_vtable against the interpretation, and for every snapshot / call / snapshot the extracted state machine (tddh_step, seeded with the lifted pre-state) must leave the same slots with the same value tables (ocaml/tddh.ml).",
    "level_note": "Trusted: Coq kernel, extraction, OCaml driver, Rust harness, public accessor API. The theorem is per snapshot; that every reachable manager state is well-formed is checked on the explored histories (C03's predicate), not proved for the Rust code. Concurrency is C07. TDD: reordering is not a constructor of the TDD state machine (the swap model is C08's LevelSwapT.v); histories with set_var_order are covered by the per-snapshot theorems + the explored histories.",
}
ALLOWED_AXIOMS = ()


def build(ctx):
    return ddcommon.build_dd(ctx)


def case_two_routes_reorder(cid, kind, rng, orders):
    """all 256 functions by route A; change the order; re-derive by route B; gc and drops in
    between; EQ of all corresponding pairs and a sample of cross pairs"""
    ops, n = ddgen.all_functions_prelude(3, None, both_routes=False)
    ops.append("SNAP")
    for order in orders:
        ops.append("ORDER " + " ".join(map(str, order)))
        ops.append("SNAP")
        for i in range(n):
            ops.append(f"TTI h{n + i} 3 {i:x}")
        for i in range(n):
            ops.append(f"EQ h{i} h{n + i}")
        for _ in range(300):
            a, b = rng.randrange(2 * n), rng.randrange(2 * n)
            ops.append(f"EQ h{a} h{b}")
        ops.append("SNAP")
        for i in range(n):
            ops.append(f"DROP h{n + i}")
        ops.append("GC")
        ops.append("SNAP")
    return (ddgen.header(cid, kind), ops)


def gen_cases(ctx):
    rng = random.Random(ctx.seed * 7919 + 1)
    thorough = ctx.tier == "thorough"
    cases = []
    cid = 0
    for kind in ddgen.KINDS_BOOL:
        orders = list(ddgen.PERMS3)
        rng.shuffle(orders)
        cases.append(case_two_routes_reorder(f"r{cid}", kind, rng, orders if thorough else orders[:3])); cid += 1
        for threads in ([1, 2, 8] if thorough else [1, 4]):
            for _ in range(400 if thorough else 40):
                cases.append(ddgen.case_history(f"h{cid}", kind, rng, nv=rng.randrange(3, 7), length=rng.choice([30, 60, 120]),
                                                threads=threads)); cid += 1
    # MTBDD<F64> (harness kind mtbddf): terminal value = normalised bit pattern (ocaml/dd_types.ml), so a
    # result stored as -0.0 or as a NaN with payload shows up as two handles with equal tables but
    # different edges; divisions produce such results (0 / -1, -1 / +inf, 0 / 0, inf / inf)
    for j, (op, lo, hi) in enumerate([("DIV", 0, 40), ("DIV", 40, 121), ("MUL", 0, 40), ("SUB", 80, 121)]
                                     if thorough else [("DIV", 0, 40), ("MUL", 90, 121)]):
        cases.append(ddgen.mtf_case_pairs_1var(f"fp{cid}", op, bool(j % 2), lo, hi)); cid += 1
    for _ in range(200 if thorough else 20):
        cases.append(ddgen.mtf_case_history(f"fh{cid}", rng, threads=rng.choice([1, 1, 4]))); cid += 1
    # TDD (package TDDx; theorems C01_tdd_*): three-valued functions re-derived through identities of the fixed
    # tables with reorderings / collections in between, and random histories; == / Hash / Ord against the value
    # tables over all 3^n ternary assignments, all handle pairs on every snapshot
    for _ in range(100 if thorough else 12):
        cases.append(ddgen.tdd_case_identities(f"ti{cid}", rng, nv=rng.randrange(1, 5), nident=rng.choice([24, 40, 64]))); cid += 1
    for _ in range(300 if thorough else 30):
        cases.append(ddgen.tdd_case_history(f"th{cid}", rng, length=rng.choice([30, 60, 120]), threads=rng.choice([1, 1, 4]))); cid += 1
    return cases


def run(ctx):
    ddcommon.run_dd(
        ctx, ["C01"], gen_cases(ctx),
        rule="per kind (bdd, bcdd, zbdd): all 256 three-variable functions built by minterm disjunction, order changed to 3 (quick) / 6 (thorough) permutations, each function re-derived by Shannon ite, == / Hash / Ord of all corresponding and sampled cross pairs, drops + gc in between; random histories on 3..6 variables (apply, clone/drop, gc, add_vars, set_var_order, 1/4 or 1/2/8 threads) with a snapshot after every op; on every snapshot all handle pairs are compared (edge equality vs table equality); tdd: 12 (thorough 100) identity cases on 1..4 variables (a pool of functions from variables, the constants f/u/t and random connectives; 24..64 functions derived twice through identities of the fixed tables - nand = not and, De Morgan, xor = not equiv, imp_strict(a,b) = not imp(b,a), contraposition, commutativity, ite(f,g,g) = g, ite(t,g,h) = g, double negation - EQ of the two results and of sampled cross pairs, reorderings and drops + gc in between) and 30 (thorough 300) random histories (constants, variables, not, 8 connectives, ite, cofactors, clone/drop, gc, add_vars, set_var_order, EQ, node_count, eval; value tables over all 3^n ternary assignments, also through the extracted td_vtable). non-trivial = case with >= 3 ops",
        allowed_axioms=ALLOWED_AXIOMS)


def replay(ctx, path):
    ddcommon.replay_dd(ctx, path)
