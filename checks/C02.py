"""C02 — Boolean connectives, ITE, constants, variables, eval, cofactors are pointwise correct."""
import random
import vf
import ddgen
from checks import ddcommon

META = {
    "title": "connectives / ite / constants / variables / eval / cofactors",
    "technique": "Rocq proof over Gallina models of apply for the BDD and the complement-edge BDD (BCDD) kind (terminal cases + Shannon expansion + arbitrary cache; BCDD: reduce with tag normalisation, terminal_and/terminal_xor, the 8 operators derived by tag flips, ite, eval with complement parity, cofactors, var/const) refining the pointwise spec layer; correspondence: every result of the real BDD/BCDD/ZBDD managers is lifted to a snapshot and compared, by the extracted interpreter and spec, on all assignments; for BCDD and for ZBDD additionally the extracted apply model of the kind is replayed on every snapshot and must return the real result edge itself; ZBDD kind: Gallina model of the Boolean interface (coq/DD/ZbddBool.v after oxidd-rules-zbdd/src/apply_rec.rs and lib.rs: tautology chain lookup, apply_not = taut(0) \\ f, apply_symm_diff, apply_ite with its level-dependent tautology short-cuts and the intsec/diff hi-branch patterns, the derivation of the 8 operators, var_edge with its don't-care chain, eval_edge with bit set + ones counter, cofactors) proved against the set-family semantics of C09 and its Boolean view",
    "category": "proof",
    "design_ref": "DESIGN.md section 5, C02",
    "level_text": "Theorems (coq/Props/C02.v): the apply model with its terminal short-cuts returns, for every well-formed table, cache and operand tuple, an edge whose interpretation is the pointwise connective; eval-walk equals the interpretation; children are the Shannon cofactors - proved for the plain BDD kind (C02_*) and for the complement-edge kind (C02_bcdd_*: coq/DD/ApplyBcdd.v mirrors complement_edge/mod.rs and apply_rec.rs; not, and, or, nand, nor, xor, equiv, imp, imp_strict, ite, var, not_var, f, t, eval, cofactors; for every lossy cache and every operand order; the result is the unique edge of its function, so it does not depend on cache or history). ZBDD kind (C02_zbdd_*, 25 theorems; model coq/DD/ZbddBool.v on top of the C09 model coq/DD/ZbddOps.v): for every ZbddOK table whose tautology chain is present (zchain_ok_b, decided on every real snapshot; C02_zbdd_chain_after_add_vars: holds after add_vars / post_reorder_mut, C02_zbdd_chain_extends: kept by every table extension; C02_zbdd_taut_den / _taut_canon: the chain edge of level l denotes all subsets of the levels below and is the only such edge), every lossy cache satisfying the invariant ZCacheOKB (all nine operator codes), every operand order and fuel >= nlevels+1: not, and, or, nand, nor, xor, equiv, imp, imp_strict (C02_zbdd_apply_op_sound / _bfun, exactly as the code derives them: intsec, union, symm_diff, diff(g,f), not = taut(0) \\ f, imp = ite(f,g,taut(0))), ite (C02_zbdd_apply_ite_sound / _bfun: all terminal cases incl. the two level-dependent tautology short-cuts, the six recursion patterns), constants, var (with its don't-care nodes above), not_var return an edge whose Boolean view over all levels (semz / C09_bool_view, zbfun_of per assignment) is the pointwise connective; table only extended, ZbddOK + chain + cache invariant preserved; C02_zbdd_apply_op_families gives the family reading (C09); C02_zbdd_result_unique / _view_canon / _history_independent: the result is the only edge with its view (independent of cache, order, history); C02_zbdd_eval_walk_sem / _eval_edge_assignment: the eval walk with the level bit set and the ones counter equals the interpretation and never underflows; C02_zbdd_cofactors: cofactors = children = (subset1, subset0) of the top variable, as families and literally as what the C09 subset model returns. Tie to the code: all pairs of the 256 three-variable functions for each of the 8 binary operators, not, sampled ite triples, constants/variables, eval and cofactors, per kind (BDD, BCDD, ZBDD) under a seed-chosen variable order (all 6 in the thorough tier), random operands over 4..7 variables, 1/2/8 worker threads; each result is checked by the extracted sem on the lifted node table against the extracted spec. BCDD cases are run a second time through ocaml/c02b_main.ml: every not/binary/ite/var/const/eval/cofactors operation is replayed by the extracted BCDD model on the lifted snapshot (every 8th also without cache and with the reverse operand order) and must yield the real result edge without needing a new node. ZBDD cases are run a second time through ocaml/c02z_main.ml in the same way on the extracted ZBDD model (zapply_not / zapply_op / zapply_ite / zvar / znot_var / zconst / zeval_edge / zcofactors; hypotheses zbdd_ok_b and zchain_ok_b evaluated per snapshot; restrict operations of the histories through zrestrict_edge, see C04): quick tier ~565 k binary, 30 k ite, 300 not / eval / cofactors replays, every one returning the real edge. Plain BDD kind at EDGE LEVEL (C02_bdd_edge_*, 15 theorems, coq/DD/ApplyBddEdge.v): for apply_not / apply_bin (all arms of terminal_bin) / apply_ite (all short-cuts) / var without any hypothesis: the table is only extended and every added node belongs to the diagram of the result (tight: no garbage node); on a well-formed table the result table and edge do not depend on the cache implementation, its content or the operand order (deterministic); an existing edge of the result function is returned with the table unchanged (existing); the instance with the direct-mapped cache of coq/DD/Cache.v under any hash function (dm). Tie: the bdd cases are run a third time through ocaml/c02_main.ml (extraction coq/Extract/ExC02.v): every not / binary / ite / var / const is replayed by the extracted Apply.apply_* (direct-mapped cache model; every 8th also cache-free with the reverse operand order: identical table and edge) on the snapshot taken BEFORE the operation: no pre-state node changed, every node the model creates exists as a new node of the implementation, the renamed model result is the real result edge, equal value tables, and (segments in which every node-creating operation was replayed) the implementation created no node the model does not create; eval (also with duplicated arguments) through the extracted eval_edge, cofactors through the extracted cofactors.",
    "level_note": "Trusted: Coq kernel, extraction, OCaml drivers, Rust harness, public accessor API. The models of apply are hand-written (BDD: coq/DD/Apply.v, BCDD: coq/DD/ApplyBcdd.v); ZBDD: coq/DD/ZbddBool.v on top of coq/DD/ZbddOps.v (C09); the manager's ZBDDCache vector of tautology edges is modelled as a lookup of the chain in the unique table (equal by C02_zbdd_taut_canon whenever the chain exists, checked on every snapshot through CONST 1 = taut(0)); nested union/intsec/diff calls of apply_ite get the fuel of the enclosing call (proved sufficient); schedule independence of the parallel recursor is C07. The edge order f < g / f > g used by the BCDD and ZBDD code to normalise commutative operand pairs is a parameter of the models (theorems hold for every order).",
}
ALLOWED_AXIOMS = ()


C02B_VOS = ddcommon.MODEL_VOS + ["DD/Build.vo", "DD/Apply.vo", "DD/ApplyBcdd.vo"]


def build(ctx):
    return ddcommon.build_dd(ctx)


def build_c02b(ctx):
    """second driver (BCDD cases only): ocaml/c02b_main.ml linked against the extraction of
    coq/Extract/ExC02b.v (DD/Table.v + DD/ApplyBcdd.v); same harness (h_dd)."""
    pid = ctx.pid
    ctx.pid = "C02b"
    try:
        drv = vf.ocaml_build(ctx, "ExC02b.v", "c02b_main.ml", extra_ml=["dd_types.ml"], model_vos=C02B_VOS)
    finally:
        ctx.pid = pid
    bins = vf.cargo_build(["h_dd"])
    return bins["h_dd"], drv


C02Z_VOS = ddcommon.MODEL_VOS + ["DD/Build.vo", "DD/Apply.vo", "DD/ZbddBool.vo"]


def build_c02z(ctx):
    """third driver (ZBDD cases only; also used by checks/C04.py for the ZBDD restrict sweep):
    ocaml/c02z_main.ml linked against the extraction of coq/Extract/ExC02z.v (DD/Table.v + DD/ZbddOps.v +
    DD/ZbddBool.v); same harness (h_dd)."""
    pid = ctx.pid
    ctx.pid = "C02z"
    try:
        drv = vf.ocaml_build(ctx, "ExC02z.v", "c02z_main.ml", extra_ml=["dd_types.ml"], model_vos=C02Z_VOS)
    finally:
        ctx.pid = pid
    bins = vf.cargo_build(["h_dd"])
    return bins["h_dd"], drv


C02S_VOS = ddcommon.MODEL_VOS + ["DD/Build.vo", "DD/Cache.vo", "DD/Apply.vo"]


def build_c02s(ctx):
    """fourth driver (plain BDD cases only): ocaml/c02_main.ml linked against the extraction of
    coq/Extract/ExC02.v (DD/Table.v + DD/Build.v + DD/Cache.v + DD/Apply.v): edge-level replay of every
    operation on the PRE snapshot (same result edge, same new nodes, no pre-state node changed); same harness."""
    pid = ctx.pid
    ctx.pid = "C02s"
    try:
        drv = vf.ocaml_build(ctx, "ExC02.v", "c02_main.ml", extra_ml=["dd_types.ml"], model_vos=C02S_VOS)
    finally:
        ctx.pid = pid
    bins = vf.cargo_build(["h_dd"])
    return bins["h_dd"], drv


class _c02s_driver:
    """ddcommon.run_dd / replay_dd with the plain-BDD edge-level driver"""
    def __enter__(self):
        self.orig = ddcommon.build_dd
        ddcommon.build_dd = build_c02s

    def __exit__(self, *a):
        ddcommon.build_dd = self.orig


class _c02z_driver:
    """ddcommon.run_dd / replay_dd with the ZBDD model driver"""
    def __enter__(self):
        self.orig = ddcommon.build_dd
        ddcommon.build_dd = build_c02z

    def __exit__(self, *a):
        ddcommon.build_dd = self.orig


class _c02b_driver:
    """ddcommon.run_dd / replay_dd with the BCDD model driver"""
    def __enter__(self):
        self.orig = ddcommon.build_dd
        ddcommon.build_dd = build_c02b

    def __exit__(self, *a):
        ddcommon.build_dd = self.orig


def wide_case(cid, kind, rng):
    """65..200 variables (eval packs the assignment into machine words; value tables stop at 7 variables): the driver
    follows every handle as the specification function of the expression that built it and compares eval under
    sampled assignments (no snapshots)"""
    nv = rng.choice([33, 63, 64, 65, 66, 100, 127, 128, 129, 200])
    ops = [f"VARS {nv}"]
    if rng.random() < 0.5:
        o = list(range(nv)); rng.shuffle(o)
        ops.append("ORDER " + " ".join(map(str, o)))
    slots = []
    nxt = 0
    for v in sorted(set([0, nv - 1, 31, 32, 63 % nv, 64 % nv] + [rng.randrange(nv) for _ in range(8)])):
        ops.append(f"{rng.choice(['VAR', 'VAR', 'NVAR'])} h{nxt} {v}"); slots.append(nxt); nxt += 1

    def asg():
        p = rng.choice([0.1, 0.5, 0.9])
        return "".join("1" if rng.random() < p else "0" for _ in range(nv))
    for h in slots:
        for _ in range(2):
            ops.append(f"EVALA h{h} {asg()}")
    for _ in range(rng.randrange(10, 30)):
        r = rng.random()
        pick = lambda: rng.choice(slots)
        if r < 0.12:
            ops.append(f"{rng.choice(['NOT', 'NOTO'])} h{nxt} h{pick()}")
        elif r < 0.25:
            ops.append(f"ITE h{nxt} h{pick()} h{pick()} h{pick()}")
        elif r < 0.33 and nv <= 62:
            pos = rng.randrange(1 << nv) & rng.randrange(1 << nv) & rng.randrange(1 << nv)
            neg = rng.randrange(1 << nv) & rng.randrange(1 << nv) & rng.randrange(1 << nv) & ~pos
            ops.append(f"RESTRICT h{nxt} h{pick()} {pos} {neg}")
        else:
            ops.append(f"{rng.choice(ddgen.BIN_OPS)} h{nxt} h{pick()} h{pick()}")
        slots.append(nxt); nxt += 1
        for _ in range(4):
            ops.append(f"EVALA h{nxt - 1} {asg()}")
        if rng.random() < 0.1:
            ops.append("GC")
    return (ddgen.header(cid, kind, cache=rng.choice([16, 4096])) + " wide=1", ops)


def gen_cases(ctx):
    rng = random.Random(ctx.seed * 7919 + 2)
    cases = []
    cid = 0
    thorough = ctx.tier == "thorough"
    for kind in ddgen.KINDS_BOOL:
        orders = ddgen.PERMS3 if thorough else [rng.choice(ddgen.PERMS3[1:])]
        for order in orders:
            cases.append(ddgen.case_unary_and_consts(f"u{cid}", kind, order)); cid += 1
            for op in ddgen.BIN_OPS:
                cases.append(ddgen.case_pairs(f"p{cid}", kind, order, op)); cid += 1
            cases.append(ddgen.case_ite(f"i{cid}", kind, order, rng, 200000 if thorough else 30000)); cid += 1
        # worker threads > 1 (the *MT function types split the recursion)
        for threads in (2, 8):
            op = rng.choice(ddgen.BIN_OPS)
            cases.append(ddgen.case_pairs(f"t{cid}", kind, rng.choice(ddgen.PERMS3), op, threads=threads,
                                          sample=None if thorough else 20000, rng=rng)); cid += 1
        for _ in range(200 if thorough else 24):
            cases.append(ddgen.case_history(f"h{cid}", kind, rng, nv=rng.randrange(4, 8), length=50,
                                            reorder=False, quant=False, threads=rng.choice([1, 1, 2, 8]))); cid += 1
        for _ in range(120 if thorough else 16):
            cases.append(wide_case(f"w{cid}", kind, rng)); cid += 1
    return cases


def run(ctx):
    cases = gen_cases(ctx)
    # pass 1 (proof gate + BCDD model replay): the BCDD cases through the extracted model of
    # coq/DD/ApplyBcdd.v; violations are reported here, the evidence is written by pass 2
    bcdd = [c for c in cases if " kind=bcdd " in c[0] + " " and "wide=1" not in c[0]]
    with _c02b_driver():
        ok_b, bad_b = ddcommon.run_dd(ctx, ["C02"], bcdd, rule="", allowed_axioms=ALLOWED_AXIOMS, drv_args=["--c02b"],
                                      write_ev=False, debug_cases=None, sig_extra="bcdd-model")
    # pass 1z (ZBDD model replay): the ZBDD cases through the extracted model of coq/DD/ZbddBool.v
    zbdd = [c for c in cases if " kind=zbdd " in c[0] + " " and "wide=1" not in c[0]]
    with _c02z_driver():
        ok_z, bad_z = ddcommon.run_dd(ctx, ["C02"], zbdd, rule="", allowed_axioms=ALLOWED_AXIOMS, drv_args=["--c02z"],
                                      proofs=False, write_ev=False, debug_cases=None, sig_extra="zbdd-model")
    # pass 1s (plain BDD, edge level): every operation of the bdd cases replayed by the extracted model of
    # coq/DD/Apply.v (direct-mapped cache model) on the snapshot BEFORE the operation: same result edge, the
    # same new nodes, no node of the pre-state changed (theorems C02_bdd_edge_*)
    bdd = [c for c in cases if " kind=bdd " in c[0] + " " and "wide=1" not in c[0]]
    with _c02s_driver():
        ok_s, bad_s = ddcommon.run_dd(ctx, ["C02"], bdd, rule="", allowed_axioms=ALLOWED_AXIOMS, drv_args=["--c02s"],
                                      proofs=False, write_ev=False, debug_cases=None, sig_extra="bdd-edge")
    ddcommon.run_dd(
        ctx, ["C02"], cases, proofs=False,
        extra_cov={"bcdd_model_cases_ok": ok_b, "bcdd_model_cases_bad": len(bad_b),
                   "zbdd_model_cases_ok": ok_z, "zbdd_model_cases_bad": len(bad_z),
                   "bdd_edge_cases_ok": ok_s, "bdd_edge_cases_bad": len(bad_s)},
        rule="per kind (bdd, bcdd, zbdd): all 65536 ordered pairs of the 256 three-variable functions for each of the 8 binary operators, not/eval/node_count/cofactors of all 256, sampled ite triples, constants and (negated) variables, under one seed-chosen order (quick) or all 6 (thorough); sampled pairs with 2 and 8 worker threads; random histories over 4..7 variables; wide cases with 33..200 variables (optional reordering; every handle followed as the specification function of its building expression, eval under sampled assignments); the bcdd cases are additionally replayed operation by operation on the extracted BCDD apply model (correspondence_stats c02b_*), the zbdd cases on the extracted ZBDD model (c02z_*), the bdd cases at edge level on the pre-state snapshot by the extracted plain-BDD model (c02s_*: same edge, same new nodes, frame). non-trivial = case with >= 3 ops; distinct = distinct (header, op list)",
        allowed_axioms=ALLOWED_AXIOMS)


def replay(ctx, path):
    import json
    args = json.load(open(path)).get("drv_args", [])
    if "--c02b" in args:
        with _c02b_driver():
            ddcommon.replay_dd(ctx, path)
    elif "--c02z" in args:
        with _c02z_driver():
            ddcommon.replay_dd(ctx, path)
    elif "--c02s" in args:
        with _c02s_driver():
            ddcommon.replay_dd(ctx, path)
    else:
        ddcommon.replay_dd(ctx, path)
