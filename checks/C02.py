"""C02 — Boolean connectives, ITE, constants, variables, eval, cofactors are pointwise correct."""
import random
import vf
import ddgen
from checks import ddcommon

META = {
    "title": "connectives / ite / constants / variables / eval / cofactors",
    "technique": "Rocq proof over a Gallina model of apply (terminal cases + Shannon expansion + arbitrary cache) refining the pointwise spec layer; correspondence: every result of the real BDD/BCDD/ZBDD managers is lifted to a snapshot and compared, by the extracted interpreter and spec, on all assignments",
    "category": "proof",
    "design_ref": "DESIGN.md section 5, C02",
    "level_text": "Theorems (coq/Props/C02.v): the apply model with its terminal short-cuts returns, for every well-formed table, cache and operand tuple, an edge whose interpretation is the pointwise connective; eval-walk equals the interpretation; children are the Shannon cofactors. Tie to the code: all pairs of the 256 three-variable functions for each of the 8 binary operators, not, sampled ite triples, constants/variables, eval and cofactors, per kind (BDD, BCDD, ZBDD) under a seed-chosen variable order (all 6 in the thorough tier), random operands over 4..7 variables, 1/2/8 worker threads; each result is checked by the extracted sem on the lifted node table against the extracted spec.",
    "level_note": "Trusted: Coq kernel, extraction, OCaml driver, Rust harness, public accessor API. The model of apply is hand-written; schedule independence of the parallel recursor is C07.",
}
ALLOWED_AXIOMS = ()


def build(ctx):
    return ddcommon.build_dd(ctx)


def gen_cases(ctx):
    rng = random.Random(ctx.seed * 7919 + 2)
    cases = []
    cid = 0
    thorough = ctx.tier == "thorough"
    for kind in ddgen.KINDS_BOOL:
        orders = ddgen.PERMS3 if thorough else [rng.choice(ddgen.PERMS3[1:])]
        for order in orders:
            cases.append(ddgen.case_unary_and_consts(f"u{cid}", kind, order)); cid += 1
            for op in ddgen.BIN_OPS:
                cases.append(ddgen.case_pairs(f"p{cid}", kind, order, op)); cid += 1
            cases.append(ddgen.case_ite(f"i{cid}", kind, order, rng, 200000 if thorough else 30000)); cid += 1
        # worker threads > 1 (the *MT function types split the recursion)
        for threads in (2, 8):
            op = rng.choice(ddgen.BIN_OPS)
            cases.append(ddgen.case_pairs(f"t{cid}", kind, rng.choice(ddgen.PERMS3), op, threads=threads,
                                          sample=None if thorough else 20000, rng=rng)); cid += 1
        for _ in range(200 if thorough else 24):
            cases.append(ddgen.case_history(f"h{cid}", kind, rng, nv=rng.randrange(4, 8), length=50,
                                            reorder=False, quant=False, threads=rng.choice([1, 1, 2, 8]))); cid += 1
    return cases


def run(ctx):
    cases = gen_cases(ctx)
    ddcommon.run_dd(
        ctx, ["C02"], cases,
        rule="per kind (bdd, bcdd, zbdd): all 65536 ordered pairs of the 256 three-variable functions for each of the 8 binary operators, not/eval/node_count/cofactors of all 256, sampled ite triples, constants and (negated) variables, under one seed-chosen order (quick) or all 6 (thorough); sampled pairs with 2 and 8 worker threads; random histories over 4..7 variables. non-trivial = case with >= 3 ops; distinct = distinct (header, op list)",
        allowed_axioms=ALLOWED_AXIOMS)


def replay(ctx, path):
    ddcommon.replay_dd(ctx, path)
