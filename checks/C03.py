"""C03 — stored diagram ordered, reduced, duplicate-free; level bookkeeping consistent."""
import random
import vf
import ddgen
from checks import ddcommon

META = {
    "title": "structural invariant of the stored diagram",
    "technique": "Rocq proof that the executable checker wf_full_b decides the structural invariant WF (ordered, reduced per kind, per-level unique, stored level = listed level, var/level maps inverse, then-edge regular) and that interpretation is total on WF tables; correspondence: wf_full_b, the node-count comparison and the counter consistency are evaluated on a snapshot of the real manager after every step of every explored history",
    "category": "proof",
    "design_ref": "DESIGN.md section 5, C03",
    "level_text": "Theorems (coq/Props/C03.v): wf_b_spec / wf_full_b_spec (the checker run on real snapshots is a decision procedure for the invariant in the property text, not an approximation), totality and fuel-independence of the interpreters on WF tables. The invariant itself is established for the Rust code by evaluating the checker after every step of the explored histories (apply, clone/drop, gc, add_vars, set_var_order, failed operations) for BDD, BCDD, ZBDD; node_count of handles is compared with the size of the reachable sub-diagram computed by the extracted count_reach (by canonicity the reachable sub-diagram of a WF table is the unique reduced diagram).",
    "level_note": "Trusted: Coq kernel, extraction, OCaml driver, Rust harness, public accessor API. 'Whenever no operation is in progress': mid-operation states are not observed. The preservation of WF by the Rust operations is checked on explored histories, not proved for the Rust text.",
}
ALLOWED_AXIOMS = ()


def build(ctx):
    return ddcommon.build_dd(ctx)


def case_two_routes_reorder(cid, kind, rng, orders):
    """all 256 functions by route A; change the order; re-derive by route B; gc and drops in
    between; EQ of all corresponding pairs and a sample of cross pairs"""
    ops, n = ddgen.all_functions_prelude(3, None, both_routes=False)
    ops.append("SNAP")
    for order in orders:
        ops.append("ORDER " + " ".join(map(str, order)))
        ops.append("SNAP")
        for i in range(n):
            ops.append(f"TTI h{n + i} 3 {i:x}")
        for i in range(n):
            ops.append(f"EQ h{i} h{n + i}")
        for _ in range(300):
            a, b = rng.randrange(2 * n), rng.randrange(2 * n)
            ops.append(f"EQ h{a} h{b}")
        ops.append("SNAP")
        for i in range(n):
            ops.append(f"DROP h{n + i}")
        ops.append("GC")
        ops.append("SNAP")
    return (ddgen.header(cid, kind), ops)


def case_node_counts(cid, kind, rng, nv, nfun, norders):
    """node_count of every handle vs. the size of the reduced diagram built (extracted build_kind,
    coq/DD/BuildCanon.v) from the handle's value table: nv <= 6 variables, all (nv = 3) or random
    functions, under the initial and norders random variable orders"""
    ops = [f"VARS {nv}"]
    if nv == 3:
        n = 256
        for i in range(n):
            ops.append(f"TT h{i} 3 {i:x}")
    else:
        n = nfun
        for i in range(n):
            ops.append(f"{rng.choice(['TT', 'TTI'])} h{i} {nv} {ddgen.rand_tt(rng, nv):x}")
    for i in range(n):
        ops.append(f"NC h{i}")
    ops.append("SNAP")
    for _ in range(norders):
        order = list(range(nv))
        rng.shuffle(order)
        ops.append("ORDER " + " ".join(map(str, order)))
        for i in range(n):
            ops.append(f"NC h{i}")
        ops.append("SNAP")
    return (ddgen.header(cid, kind), ops)


def gen_cases(ctx):
    rng = random.Random(ctx.seed * 7919 + 3)
    thorough = ctx.tier == "thorough"
    cases = []
    cid = 0
    for kind in ddgen.KINDS_BOOL:
        orders = list(ddgen.PERMS3)
        rng.shuffle(orders)
        cases.append(case_two_routes_reorder(f"r{cid}", kind, rng, orders if thorough else orders[:3])); cid += 1
        cases.append(case_node_counts(f"n{cid}", kind, rng, 3, 256, 5 if thorough else 2)); cid += 1
        for nv in (4, 5, 6):
            for _ in range(12 if thorough else 3):
                cases.append(case_node_counts(f"n{cid}", kind, rng, nv, 60 if thorough else 24, 4 if thorough else 2)); cid += 1
        for threads in ([1, 2, 8] if thorough else [1, 4]):
            for _ in range(400 if thorough else 40):
                cases.append(ddgen.case_history(f"h{cid}", kind, rng, nv=rng.randrange(3, 7), length=rng.choice([30, 60, 120]),
                                                threads=threads)); cid += 1
    return cases


def run(ctx):
    ddcommon.run_dd(
        ctx, ["C03"], gen_cases(ctx),
        rule="per kind (bdd, bcdd, zbdd): all 256 three-variable functions built by minterm disjunction, order changed to 3 (quick) / 6 (thorough) permutations, each function re-derived by Shannon ite, == / Hash / Ord of all corresponding and sampled cross pairs, drops + gc in between; random histories on 3..6 variables (apply, clone/drop, gc, add_vars, set_var_order, 1/4 or 1/2/8 threads) with a snapshot after every op; on every snapshot all handle pairs are compared (edge equality vs table equality). non-trivial = case with >= 3 ops",
        allowed_axioms=ALLOWED_AXIOMS)


def replay(ctx, path):
    ddcommon.replay_dd(ctx, path)
