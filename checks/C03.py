"""C03 — stored diagram ordered, reduced, duplicate-free; level bookkeeping consistent."""
import random
import vf
import ddgen
from checks import ddcommon

META = {
    "title": "structural invariant of the stored diagram",
    "technique": "Rocq proof that the executable checker wf_full_b decides the structural invariant WF (ordered, reduced per kind, per-level unique, stored level = listed level, var/level maps inverse, then-edge regular) and that interpretation is total on WF tables; Rocq construction build_bdd / build_bcdd / build_zbdd of the reduced ordered diagram of a function under a variable order (coq/DD/BuildCanon.v) with proofs that it denotes the function, that every edge of every well-formed table denoting the same function has an isomorphic sub-diagram, and that node counts agree (canonical_count s e = Some (count_reach s e)); correspondence: wf_full_b, the node-count comparison (Function::node_count vs count_reach of the snapshot AND vs the size of the diagram built by the extracted build_kind from the handle's value table under the snapshot's order, and vs the extracted textbook counts canon_size_bdd / canon_size_bcdd / canon_size_zbdd; <= 6 variables) and the counter consistency are evaluated on a snapshot of the real manager after every step of every explored history",
    "category": "proof",
    "design_ref": "DESIGN.md section 5, C03",
    "level_text": "Theorems (coq/Props/C03.v): wf_b_spec / wf_full_b_spec (the checker run on real snapshots is a decision procedure for the invariant in the property text, not an approximation), totality and fuel-independence of the interpreters on WF tables. Last clause (C03_node_count_canonical*): for BDD, BCDD and ZBDD, build_* constructs in a table of its own the reduced ordered diagram of an arbitrary function of the levels (unbounded number of levels, induction); the result is well-formed and its root denotes the function (C03_node_count_canonical_build_*); any edge of any well-formed table of the kind that denotes the same function has the same complement tag, an isomorphic sub-diagram (one-to-one relation preserving terminals' values, levels, children, child tags; no node id compared) and the same node count (C03_node_count_canonical_unique_* / _iso_*); hence canonical_count s e = Some (count_reach s e) for every existing edge of every snapshot accepted by bool_kind_ok_b (C03_node_count_canonical, _handles; _bfun: the same stated for a function of the variables under the table's order). count_reach is the number of reachable references (_count_reach_spec) and an iso restricts to a bijection of the reachable sub-diagrams (_iso_reachable). Textbook characterisation, all three kinds: the references reachable from a reference denoting phi are exactly the subfunctions of phi with the upper levels fixed (BCDD: up to complement; ZBDD: the non-empty sub-families), a node sitting at level L iff the subfunction depends on level L (ZBDD: iff some member contains L) (_reachable_is_sub, _sub_is_reachable, _sub_level_iff and their _bcdd_ / _zbdd_ forms), and count_reach = canon_size_bdd / canon_size_bcdd / canon_size_zbdd n phi, executable counts of distinct cofactor-table pairs per level plus terminals that build no diagram (_size, _size_edge, _size_build and _size_bcdd*, _size_zbdd*). The invariant itself is established for the Rust code by evaluating the checker after every step of the explored histories (apply, clone/drop, gc, add_vars, set_var_order, failed operations) for BDD, BCDD, ZBDD; node_count of handles is compared with count_reach of the snapshot and, on <= 6 variables, with count_reach of the diagram built by the extracted build_kind from the handle's value table under the snapshot's order (all 256 three-variable functions and random 4..6-variable functions under several orders per kind, plus every NC of the random histories). TDD (package TDDx, theorems C03_tdd_*): td_ok_b (wf_b + kind TDD + exactly the terminals False / Unknown / True) and td_wf3_b (DD/TddAudit.v: the invariant spelled out for ternary nodes: exactly the children (true, unknown, false), untagged, stored, strictly below, NOT all three equal = the rule of TDDRules::reduce, stored = listed level, per-level uniqueness) are the same Boolean function of EVERY snapshot and decide TdOK (C03_tdd_wf3_b_ok_b, _spec, _node_shape, _unique_table, _ok_wf_full); the invariant holds for a fresh manager, is preserved by every well-formed call of the TDD manager state machine Mgr/TddHist.v (constants, variables, not, 8 connectives, ite, cofactors, clone / drop, gc, add_vars: C03_tdd_hist_step with frame and post-condition, _run_ok, _never_stuck) and the checkers accept the table after ANY history (C03_tdd_hist_wf). Tie: kind tdd of h_dd (node-count cases under several orders, identity cases, random histories incl. set_var_order and failing operations): wf_full_b, td_ok_b and td_wf3_b on every snapshot, node_count against count_reach, and the replay of the extracted state machine for every snapshot / call / snapshot.",
    "level_note": "Trusted: Coq kernel, extraction, OCaml driver, Rust harness, public accessor API. 'Whenever no operation is in progress': mid-operation states are not observed. The preservation of WF by the Rust operations is checked on explored histories, not proved for the Rust text. Node count: 'size of the unique reduced diagram' is formalised as the node count of the diagram build_* constructs plus uniqueness up to isomorphism among well-formed (reduced, ordered, duplicate-free) tables; minimality among non-reduced diagrams and the textbook count of distinct subfunctions are not stated. MTBDD and TDD node counts are compared with count_reach only (no build_* for these kinds). ZBDD textbook count: for functions of the n levels (levels_only; holds for every handle's function). The comparison with the built diagram is limited to <= 6 variables (2^n calls of the function).",
}
ALLOWED_AXIOMS = ()


def build(ctx):
    return ddcommon.build_dd(ctx)


def case_two_routes_reorder(cid, kind, rng, orders):
    """all 256 functions by route A; change the order; re-derive by route B; gc and drops in
    between; EQ of all corresponding pairs and a sample of cross pairs"""
    ops, n = ddgen.all_functions_prelude(3, None, both_routes=False)
    ops.append("SNAP")
    for order in orders:
        ops.append("ORDER " + " ".join(map(str, order)))
        ops.append("SNAP")
        for i in range(n):
            ops.append(f"TTI h{n + i} 3 {i:x}")
        for i in range(n):
            ops.append(f"EQ h{i} h{n + i}")
        for _ in range(300):
            a, b = rng.randrange(2 * n), rng.randrange(2 * n)
            ops.append(f"EQ h{a} h{b}")
        ops.append("SNAP")
        for i in range(n):
            ops.append(f"DROP h{n + i}")
        ops.append("GC")
        ops.append("SNAP")
    return (ddgen.header(cid, kind), ops)


def case_node_counts(cid, kind, rng, nv, nfun, norders):
    """node_count of every handle vs. the size of the reduced diagram built (extracted build_kind,
    coq/DD/BuildCanon.v) from the handle's value table: nv <= 6 variables, all (nv = 3) or random
    functions, under the initial and norders random variable orders"""
    ops = [f"VARS {nv}"]
    if nv == 3:
        n = 256
        for i in range(n):
            ops.append(f"TT h{i} 3 {i:x}")
    else:
        n = nfun
        for i in range(n):
            ops.append(f"{rng.choice(['TT', 'TTI'])} h{i} {nv} {ddgen.rand_tt(rng, nv):x}")
    for i in range(n):
        ops.append(f"NC h{i}")
    ops.append("SNAP")
    for _ in range(norders):
        order = list(range(nv))
        rng.shuffle(order)
        ops.append("ORDER " + " ".join(map(str, order)))
        for i in range(n):
            ops.append(f"NC h{i}")
        ops.append("SNAP")
    return (ddgen.header(cid, kind), ops)


def gen_cases(ctx):
    rng = random.Random(ctx.seed * 7919 + 3)
    thorough = ctx.tier == "thorough"
    cases = []
    cid = 0
    for kind in ddgen.KINDS_BOOL:
        orders = list(ddgen.PERMS3)
        rng.shuffle(orders)
        cases.append(case_two_routes_reorder(f"r{cid}", kind, rng, orders if thorough else orders[:3])); cid += 1
        cases.append(case_node_counts(f"n{cid}", kind, rng, 3, 256, 5 if thorough else 2)); cid += 1
        for nv in (4, 5, 6):
            for _ in range(12 if thorough else 3):
                cases.append(case_node_counts(f"n{cid}", kind, rng, nv, 60 if thorough else 24, 4 if thorough else 2)); cid += 1
        for threads in ([1, 2, 8] if thorough else [1, 4]):
            for _ in range(400 if thorough else 40):
                cases.append(ddgen.case_history(f"h{cid}", kind, rng, nv=rng.randrange(3, 7), length=rng.choice([30, 60, 120]),
                                                threads=threads)); cid += 1
    # TDD (package TDDx; theorems C03_tdd_*): ternary nodes (true, unknown, false), reduction rule "all three children
    # equal"; on every snapshot wf_full_b, td_ok_b and the invariant spelled out for ternary nodes (td_wf3_b);
    # node_count against count_reach of the snapshot, under several orders
    for _ in range(60 if thorough else 8):
        cases.append(ddgen.tdd_case_node_counts(f"tn{cid}", rng, rng.randrange(1, 6), rng.choice([12, 24, 40]), 4 if thorough else 2)); cid += 1
    for _ in range(60 if thorough else 6):
        cases.append(ddgen.tdd_case_identities(f"ti{cid}", rng, nv=rng.randrange(1, 5), nident=rng.choice([24, 40]))); cid += 1
    for _ in range(300 if thorough else 30):
        cases.append(ddgen.tdd_case_history(f"th{cid}", rng, length=rng.choice([30, 60, 120]), threads=rng.choice([1, 1, 4]))); cid += 1
    return cases


def run(ctx):
    ddcommon.run_dd(
        ctx, ["C03"], gen_cases(ctx),
        rule="per kind (bdd, bcdd, zbdd): all 256 three-variable functions built by minterm disjunction, order changed to 3 (quick) / 6 (thorough) permutations, each function re-derived by Shannon ite, == / Hash / Ord of all corresponding and sampled cross pairs, drops + gc in between; random histories on 3..6 variables (apply, clone/drop, gc, add_vars, set_var_order, 1/4 or 1/2/8 threads) with a snapshot after every op; on every snapshot all handle pairs are compared (edge equality vs table equality); node-count cases: all 256 three-variable functions and 24 (quick) / 60 (thorough) random functions of 4, 5, 6 variables, NC of each under the initial and 2..5 random orders, compared with the diagram built from the value table; tdd: 8 (thorough 60) node-count cases (12..40 random three-valued functions of 1..5 variables, NC of each under the initial and 2 (thorough 4) random orders, drops + gc in between), 6 (thorough 60) identity cases and 30 (thorough 300) random histories (constants, variables, not, 8 connectives, ite, cofactors, clone/drop, gc, add_vars, set_var_order) with wf_full_b, td_ok_b and td_wf3_b on every snapshot. non-trivial = case with >= 3 ops",
        allowed_axioms=ALLOWED_AXIOMS)


def replay(ctx, path):
    ddcommon.replay_dd(ctx, path)
