"""C04 — quantification, restriction, apply-and-quantify and substitution are correct."""
import itertools
import random
import vf
import ddgen
from checks import ddcommon

META = {
    "title": "exists / forall / unique, restrict, apply_exists/forall/unique, substitute",
    "technique": "Rocq proofs: (1) Gallina models of the recursive algorithms of the plain BDD kind (coq/DD/Quant.v, function by function after oxidd-rules-bdd/src/simple/apply_rec.rs and lib.rs) and of the complement-edge kind (coq/DD/QuantBcdd.v after complement_edge/apply_rec.rs): set_pop, quant with the popped cache key and the unique-quantifier 'variable above f' rule, restrict with its tail-recursive literal walk (BCDD: with the f_neg / vars_neg polarity tracking and the untagged cache key), substitute_prepare + substitute via ite cached under the substitution id, the fused apply_quant (BCDD: instances And / Xor / UniqueNand and the two dispatch tables), the *_edge entry points; each proved sound against the spec layer coq/DD/Sem.v for every well-formed table, every cache satisfying the invariant (any implementation that never invents entries), every operand order and every sufficient fuel; (2) spec-layer laws (order/duplicate independence, duality, support, restrict = cofactor, simultaneous substitution, the dispatch tables as identities); (3) a state machine over table, cache, registry of substitution objects, id counter and cache clears (histories). Correspondence: exhaustive 3-variable sweeps and random instances on the real BDD/BCDD/ZBDD managers decided by the extracted spec functions, and for the BDD and BCDD kinds every operation replayed on the extracted models, which must return the very edge the real code returned; ZBDD restrict: Gallina model (coq/DD/ZbddBool.v zrestrict / zrestrict_base after oxidd-rules-zbdd/src/apply_rec.rs restrict / restrict_base: level-threaded recursion, cube read by skipped level = negative literal / equal children = no literal / lo = Empty = positive literal, reduce1 don't-care nodes, re-insertion of don't-care nodes below the cube, cache only when both operands have a node at the level) proved against the set-family semantics of C09 and replayed on the real ZBDD manager",
    "category": "proof",
    "design_ref": "DESIGN.md section 5, C04",
    "level_text": "Theorems (coq/Props/C04.v, 64, all closed under the global context). Entry points of the plain BDD kind, in terms of the Boolean function a handle denotes (bfun_of) and coq/DD/Sem.v: C04_exists / C04_forall / C04_unique (result = exists_s / forall_s / unique_s over the caller's variable list, where the vars handle denotes the conjunction of those variables; any list order, duplicates allowed for exists/forall), C04_apply_exists / C04_apply_forall / C04_apply_unique (all 8 operators: result = the quantifier applied to lift2 op f g), C04_apply_quant_is_apply_then_quant (the fused form and apply-then-quantify both terminate and denote the same function whatever the caches hold), C04_restrict (result = restrict_s lits f for the literal cube denoted by the vars handle), C04_substitute (result = subst_s of the pairs' functions, simultaneous, for every use of every substitution object registered under its id, in any interleaving, with whatever the cache accumulated before), C04_subst_register / C04_subst_fresh_no_entry (an id never handed out serves nothing, registering it keeps the invariant), C04_qinv_init / C04_qstep_ok / C04_qrun_ok (state machine over table, cache, registry of substitution objects, id counter and cache clears: every operation of every history terminates, keeps the invariant and returns the spec function). The same for the complement-edge kind: C04_bcdd_quant, C04_bcdd_apply_quant (through apply_quant_dispatch::<Q,QN> and apply_quant_unique_dispatch incl. UniqueNand, all 8 operators), C04_bcdd_restrict (f_neg / vars_neg tracking), C04_bcdd_substitute, C04_bcdd_subst_register, C04_bcdd_subst_fresh_no_entry. Each of these also states: the model never gets stuck with fuel S(nlevels), the table is only extended, the table invariant (BddOK / BcOK) and the cache invariant (QCacheOK / QCacheOKC) are preserved. Recursive algorithms for arbitrary sufficient fuel: C04_quant_rec_ok, C04_restrict_ok, C04_prepare_ok, C04_substitute_ok, C04_apply_quant_ok and C04_bcdd_quant_rec_ok, C04_bcdd_apply_quant_ok, C04_bcdd_restrict_ok, C04_bcdd_substitute_ok; C04_cube_chain / C04_bcdd_cube_chain (a handle that denotes a cube has exactly that cube as the literal chain the code walks - canonicity). Spec laws: C04_quant_perm, C04_exists/forall_same_elems, C04_unique_perm, C04_unique_dup, C04_forall_exists_dual, C04_exists_forall_dual, C04_quant_not_support, C04_unique_not_support, C04_restrict_s_over, C04_over_spec, C04_restrict_s_perm, C04_subst_s_var/lift2/id/unused/shannon, C04_aext_bfun_of, C04_bcdd_dispatch_spec, C04_bcdd_unique_dispatch_spec. ZBDD restrict (11 theorems C04_zbdd_*): C04_zbdd_restrict_is_cube (the statement of the property text: for every ZbddOK table with its tautology chain, lossy cache satisfying ZCacheOKB, operand f and ANY handle vars whose Boolean function is the conjunction of the literals lits (distinct variables): restrict_edge returns an edge whose Boolean function is restrict_s lits (zbfun_of f); via C04_zbdd_cube_shape: a reference that denotes a cube has the shape the code walks - canonicity - and C04_zbdd_cube_lits_complete: the run-time reader accepts it), C04_zbdd_restrict (the same for a handle accepted by the executable reader zcube_lits: for every ZbddOK table with its tautology chain, lossy cache satisfying ZCacheOKB, operand f and cube handle vars that the executable reader zcube_lits accepts: restrict_edge returns an edge whose Boolean function is restrict_s lits (zbfun_of f), lits = the literals read off vars, and vars denotes exactly the conjunction of those literals; table only extended, invariants kept), C04_zbdd_restrict_view (per level-indexed choice, any fuel >= nlevels+1, any reference of cube shape ZCube), C04_zbdd_restrict_ok (the level-threaded recursion at every level: result family = prestr, C04_zbdd_prestr_spec), C04_zbdd_restrict_base_ok, C04_zbdd_cube_den (cube shape => denotes the conjunction of its literals), C04_zbdd_cube_lits (the executable reader is sound), C04_zbdd_cube_agree (the shape determines the literals: cache entries keyed by (f, vars) are unambiguous). Tie to the code (BDD and BCDD; ZBDD has no quantifier API, its restrict shares the sweep and is replayed on the extracted ZBDD model through ocaml/c02z_main.ml: cube built with the extracted zvar / znot_var / intersection, zcube_lits must read back exactly the requested literals, zrestrict_edge must return the edge of the real result; 256 functions x 27 cubes under a seed-chosen order, random functions x random cubes over 4..6 (thorough: 7) variables under random orders, random ZBDD histories): all 256 three-variable functions x all 8 variable subsets x {exists, forall, unique}, x all 27 literal cubes for restrict, sampled pairs x 8 operators x 3 quantifiers x random subsets for the fused forms, replacement vectors from a function pool with one substitution object reused many times and several substitutions alternated with gc and drops in between, under a seed-chosen order (all 6 in thorough); random histories over 4..7 variables; every result's value table (extracted interpreter on the lifted snapshot) must equal the extracted spec (Sem.exists_s / forall_s / unique_s / restrict_s / subst_s) of the operands' tables. BDD and BCDD cases run a second time through ocaml/c04_main.ml: each of these operations is replayed by the extracted models of coq/DD/Quant.v / coq/DD/QuantBcdd.v on the lifted snapshot (table and cache threaded through a snapshot window, a fresh model id per MKSUBST; every 8th operation again without cache and with the reverse operand order) and must return the edge of the real result.",
    "level_note": "Trusted: Coq kernel, extraction, OCaml drivers, Rust harness, public accessor API. The models are hand-written (coq/DD/Quant.v on top of coq/DD/Apply.v; coq/DD/QuantBcdd.v on top of coq/DD/ApplyBcdd.v). Modelling choices: the cache key (Substitute, numeric operand id) is encoded into the abstract operator code 39+id (BCDD: 15+id), injective; the unobservable edge order is a parameter; inner apply/quant calls get fuel S(nlevels) (proved sufficient); reference counts, the parallel recursor (C07) and out-of-memory paths are not modelled. ZBDD restrict: modelled and proved (coq/DD/ZbddRestrictProofs.v, ZbddRestrictTop.v, ZbddCubeCanon.v); the recursion theorems take the cube handle by its shape (ZCube / zcube_lits), the entry-point theorem C04_zbdd_restrict_is_cube by its meaning (shape <=> denotes the conjunction of the literals: C04_zbdd_cube_den, C04_zbdd_cube_shape). Partial: The history state machine (C04_qstep_ok / C04_qrun_ok) is stated for the plain BDD kind only. unique over a list with a repeated variable is outside the API (a variable set has no multiplicities): C04_unique_dup states what the spec gives. new_substitution_id's global counter is represented by the registry Sg (id |-> object); that ids are never reused is the hypothesis Sg id = Some pairs / Sg id = None of the theorems (and the id counter of the state machine); that gc/reorder clear the cache is C06.",
}
ALLOWED_AXIOMS = ()


C04M_VOS = ddcommon.MODEL_VOS + ["DD/Build.vo", "DD/Apply.vo", "DD/Quant.vo", "DD/ApplyBcdd.vo", "DD/QuantBcdd.vo"]


def build(ctx):
    return ddcommon.build_dd(ctx)


def build_c04m(ctx):
    """second driver (BDD and BCDD cases): ocaml/c04_main.ml linked against the extraction of
    coq/Extract/ExC04.v (DD/Table.v, Apply.v, Quant.v, ApplyBcdd.v, QuantBcdd.v); same harness (h_dd)."""
    pid = ctx.pid
    ctx.pid = "C04m"
    try:
        drv = vf.ocaml_build(ctx, "ExC04.v", "c04_main.ml", extra_ml=["dd_types.ml"], model_vos=C04M_VOS)
    finally:
        ctx.pid = pid
    bins = vf.cargo_build(["h_dd"])
    return bins["h_dd"], drv


class _c04m_driver:
    """ddcommon.run_dd / replay_dd with the BDD / BCDD model replay driver"""
    def __enter__(self):
        self.orig = ddcommon.build_dd
        ddcommon.build_dd = build_c04m

    def __exit__(self, *a):
        ddcommon.build_dd = self.orig


def build_c04z(ctx):
    """third driver (ZBDD restrict cases): ocaml/c02z_main.ml (shared with checks/C02.py) linked against the
    extraction of coq/Extract/ExC02z.v (DD/ZbddOps.v + DD/ZbddBool.v); same harness (h_dd)."""
    from checks import C02 as _c02
    return _c02.build_c02z(ctx)


class _c04z_driver:
    """ddcommon.run_dd / replay_dd with the ZBDD model replay driver"""
    def __enter__(self):
        self.orig = ddcommon.build_dd
        ddcommon.build_dd = build_c04z

    def __exit__(self, *a):
        ddcommon.build_dd = self.orig


def case_quant_all(cid, kind, order):
    ops, n = ddgen.all_functions_prelude(3, order, both_routes=False)
    ops.append("SNAP")
    k = 1000
    for i in range(n):
        for mask in range(8):
            for q in ("EXISTS", "FORALL", "UNIQUE"):
                ops.append(f"{q} h{k} h{i} {mask}"); k += 1
    ops.append("SNAP")
    return (ddgen.header(cid, kind), ops)


def case_restrict_all(cid, kind, order):
    ops, n = ddgen.all_functions_prelude(3, order, both_routes=False)
    ops.append("SNAP")
    k = 1000
    for i in range(n):
        for lits in itertools.product((0, 1, 2), repeat=3):
            pos = sum(1 << v for v, l in enumerate(lits) if l == 1)
            neg = sum(1 << v for v, l in enumerate(lits) if l == 2)
            ops.append(f"RESTRICT h{k} h{i} {pos} {neg}"); k += 1
    ops.append("SNAP")
    return (ddgen.header(cid, kind), ops)


def case_apply_quant(cid, kind, order, rng, pairs):
    ops, n = ddgen.all_functions_prelude(3, order, both_routes=False)
    ops.append("SNAP")
    k = 1000
    for _ in range(pairs):
        a, b = rng.randrange(n), rng.randrange(n)
        for op in ddgen.BIN_OPS:
            for q in ("AEX", "AFA", "AUQ"):
                mask = rng.randrange(8)
                ops.append(f"{q} {op} h{k} h{a} h{b} {mask}"); k += 1
    ops.append("SNAP")
    return (ddgen.header(cid, kind, cache=rng.choice([2, 64, 4096])), ops)


def case_subst(cid, kind, order, rng, rounds):
    """substitution objects reused many times / alternated, gc and drops in between"""
    ops, n = ddgen.all_functions_prelude(3, order, both_routes=False)
    ops.append("SNAP")
    k = 1000
    nsub = 0
    pool = [rng.randrange(n) for _ in range(16)]
    for r in range(rounds):
        vs = rng.sample(range(3), rng.randrange(1, 4))
        ops.append(f"MKSUBST {nsub} " + " ".join(f"{v}=h{rng.choice(pool)}" for v in vs))
        nsub += 1
        for _ in range(40):
            sid = rng.randrange(max(0, nsub - 3), nsub)     # alternate between the last few objects
            ops.append(f"SUBST h{k} h{rng.randrange(n)} {sid}"); k += 1
            if rng.random() < 0.08:
                ops.append("GC")
            if rng.random() < 0.05:
                ops.append("SNAP")
                for j in range(max(1000, k - 30), k):
                    ops.append(f"DROP h{j}")
                ops.append("GC")
        ops.append("SNAP")
        if nsub > 3 and rng.random() < 0.5:
            ops.append(f"DROPSUBST {nsub - 4}")
    ops.append("SNAP")
    return (ddgen.header(cid, kind, cache=rng.choice([1, 16, 4096])), ops)


def case_zbdd_restrict_random(cid, rng, nv, nfun, nops):
    """ZBDD restrict over nv variables under a random order: random functions x random literal cubes
    (cube variables above, between and below the operand's levels; operands Empty / Base / the tautology included)"""
    order = list(range(nv))
    rng.shuffle(order)
    ops = [f"VARS {nv}", "ORDER " + " ".join(map(str, order))]
    for i in range(nfun):
        ops.append(f"TT h{i} {nv} {ddgen.rand_tt(rng, nv):x}")
    ops += [f"CONST h{nfun} 0", f"CONST h{nfun + 1} 1", f"VAR h{nfun + 2} {rng.randrange(nv)}", "SNAP"]
    k = 1000
    for _ in range(nops):
        pos = rng.randrange(1 << nv)
        neg = rng.randrange(1 << nv) & ~pos
        if rng.random() < 0.3:        # sparse cubes: most variables untouched
            keep = rng.randrange(1 << nv) & rng.randrange(1 << nv)
            pos, neg = pos & keep, neg & keep
        ops.append(f"RESTRICT h{k} h{rng.randrange(nfun + 3)} {pos} {neg}"); k += 1
    ops.append("SNAP")
    return (ddgen.header(cid, "zbdd", cache=rng.choice([2, 64, 4096])), ops)


def gen_cases(ctx):
    rng = random.Random(ctx.seed * 7919 + 4)
    thorough = ctx.tier == "thorough"
    cases = []
    cid = 0
    for kind in ("bdd", "bcdd"):
        orders = ddgen.PERMS3 if thorough else [rng.choice(ddgen.PERMS3[1:])]
        for order in orders:
            cases.append(case_quant_all(f"q{cid}", kind, order)); cid += 1
            cases.append(case_restrict_all(f"r{cid}", kind, order)); cid += 1
            cases.append(case_apply_quant(f"a{cid}", kind, order, rng, 4000 if thorough else 600)); cid += 1
            for _ in range(6 if thorough else 2):
                cases.append(case_subst(f"s{cid}", kind, order, rng, 12)); cid += 1
        for _ in range(400 if thorough else 40):
            cases.append(ddgen.case_history(f"h{cid}", kind, rng, nv=rng.randrange(4, 8), length=70, quant=True,
                                            threads=rng.choice([1, 1, 4]))); cid += 1
    # ZBDD restrict
    for order in (ddgen.PERMS3 if thorough else [rng.choice(ddgen.PERMS3[1:])]):
        cases.append(case_restrict_all(f"z{cid}", "zbdd", order)); cid += 1
    for _ in range(24 if thorough else 6):
        # (the model replay looks nodes up by scanning the table: keep the 6/7-variable cases small)
        nv = rng.randrange(4, 8 if thorough else 7)
        cases.append(case_zbdd_restrict_random(f"zr{cid}", rng, nv, 16, 300 if nv < 6 else (120 if nv == 6 else 60))); cid += 1
    for _ in range(100 if thorough else 12):
        cases.append(ddgen.case_history(f"zh{cid}", "zbdd", rng, nv=rng.randrange(4, 8), length=70, quant=False,
                                        threads=rng.choice([1, 1, 4]))); cid += 1
    return cases


def run(ctx):
    cases = gen_cases(ctx)
    # pass 1 (proof gate + model replay): the BDD / BCDD cases through the extracted models of coq/DD/Quant*.v;
    # violations are reported here, the evidence is written by pass 2
    bdd = [c for c in cases if " kind=bdd " in c[0] + " " or " kind=bcdd " in c[0] + " "]
    with _c04m_driver():
        ok_m, bad_m = ddcommon.run_dd(ctx, ["C04"], bdd, rule="", allowed_axioms=ALLOWED_AXIOMS, drv_args=["--c04m"],
                                      write_ev=False, debug_cases=None, sig_extra="model")
    # pass 1z (ZBDD restrict): the ZBDD cases through the extracted model of coq/DD/ZbddBool.v (zrestrict)
    zbdd = [c for c in cases if " kind=zbdd " in c[0] + " "]
    with _c04z_driver():
        ok_z, bad_z = ddcommon.run_dd(ctx, ["C04"], zbdd, rule="", allowed_axioms=ALLOWED_AXIOMS, drv_args=["--c04z"],
                                      proofs=False, write_ev=False, debug_cases=None, sig_extra="zbdd-model")
    ddcommon.run_dd(
        ctx, ["C04"], cases, proofs=False,
        extra_cov={"model_replay_cases_ok": ok_m, "model_replay_cases_bad": len(bad_m),
                   "zbdd_restrict_model_cases_ok": ok_z, "zbdd_restrict_model_cases_bad": len(bad_z)},
        rule="per kind (bdd, bcdd): 256 functions x 8 variable subsets x 3 quantifiers; x 27 literal cubes (restrict, also zbdd; zbdd additionally: random functions x random cubes over 4..7 variables under random orders, random histories with restrict, all replayed on the extracted ZBDD restrict model); sampled pairs x 8 operators x 3 fused quantifier forms x random subsets under cache sizes {2,64,4096}; substitutions (1..3 variables, replacements from a 16-function pool) with each object applied 40 times, the last three objects alternated, gc/drop in between; one seed-chosen order (quick) / all 6 (thorough); random histories over 4..7 variables incl. quantification and substitution. non-trivial = case with >= 3 ops",
        allowed_axioms=ALLOWED_AXIOMS)


def replay(ctx, path):
    import json
    args = json.load(open(path)).get("drv_args", [])
    if "--c04m" in args:
        with _c04m_driver():
            ddcommon.replay_dd(ctx, path)
    elif "--c04z" in args:
        with _c04z_driver():
            ddcommon.replay_dd(ctx, path)
    else:
        ddcommon.replay_dd(ctx, path)
