"""C04 — quantification, restriction, apply-and-quantify and substitution are correct."""
import itertools
import random
import vf
import ddgen
from checks import ddcommon

META = {
    "title": "exists / forall / unique, restrict, apply_exists/forall/unique, substitute",
    "technique": "Rocq proofs: spec-level laws of the quantifiers/restriction/substitution (order independence, fusion apply+quantify, untouched variables) and soundness of Gallina models of the recursive algorithms (quant with set_pop, restrict, substitute via ite) against the spec layer; correspondence: exhaustive 3-variable sweeps and random instances on the real BDD/BCDD managers decided by the extracted spec functions",
    "category": "proof",
    "design_ref": "DESIGN.md section 5, C04",
    "level_text": "Theorems in coq/Props/C04.v. Tie to the code (BDD and BCDD; ZBDD has no quantifier API): all 256 three-variable functions x all 8 variable subsets x {exists, forall, unique}, x all 27 literal cubes for restrict, sampled pairs x 8 operators x 3 quantifiers x 8 subsets for the fused forms, replacement vectors from a function pool with one substitution object reused many times and several substitutions alternated with gc and drops in between, under a seed-chosen order (all 6 in thorough); random instances over 4..7 variables; every result's value table (extracted interpreter on the lifted snapshot) must equal the extracted spec (Sem.exists_s / forall_s / unique_s / restrict_s / subst_s) of the operands' tables.",
    "level_note": "Trusted: Coq kernel, extraction, OCaml driver, Rust harness. ZBDD restrict shares the sweep. The algorithmic models are hand-written.",
}
ALLOWED_AXIOMS = ()


def build(ctx):
    return ddcommon.build_dd(ctx)


def case_quant_all(cid, kind, order):
    ops, n = ddgen.all_functions_prelude(3, order, both_routes=False)
    ops.append("SNAP")
    k = 1000
    for i in range(n):
        for mask in range(8):
            for q in ("EXISTS", "FORALL", "UNIQUE"):
                ops.append(f"{q} h{k} h{i} {mask}"); k += 1
    ops.append("SNAP")
    return (ddgen.header(cid, kind), ops)


def case_restrict_all(cid, kind, order):
    ops, n = ddgen.all_functions_prelude(3, order, both_routes=False)
    ops.append("SNAP")
    k = 1000
    for i in range(n):
        for lits in itertools.product((0, 1, 2), repeat=3):
            pos = sum(1 << v for v, l in enumerate(lits) if l == 1)
            neg = sum(1 << v for v, l in enumerate(lits) if l == 2)
            ops.append(f"RESTRICT h{k} h{i} {pos} {neg}"); k += 1
    ops.append("SNAP")
    return (ddgen.header(cid, kind), ops)


def case_apply_quant(cid, kind, order, rng, pairs):
    ops, n = ddgen.all_functions_prelude(3, order, both_routes=False)
    ops.append("SNAP")
    k = 1000
    for _ in range(pairs):
        a, b = rng.randrange(n), rng.randrange(n)
        for op in ddgen.BIN_OPS:
            for q in ("AEX", "AFA", "AUQ"):
                mask = rng.randrange(8)
                ops.append(f"{q} {op} h{k} h{a} h{b} {mask}"); k += 1
    ops.append("SNAP")
    return (ddgen.header(cid, kind, cache=rng.choice([2, 64, 4096])), ops)


def case_subst(cid, kind, order, rng, rounds):
    """substitution objects reused many times / alternated, gc and drops in between"""
    ops, n = ddgen.all_functions_prelude(3, order, both_routes=False)
    ops.append("SNAP")
    k = 1000
    nsub = 0
    pool = [rng.randrange(n) for _ in range(16)]
    for r in range(rounds):
        vs = rng.sample(range(3), rng.randrange(1, 4))
        ops.append(f"MKSUBST {nsub} " + " ".join(f"{v}=h{rng.choice(pool)}" for v in vs))
        nsub += 1
        for _ in range(40):
            sid = rng.randrange(max(0, nsub - 3), nsub)     # alternate between the last few objects
            ops.append(f"SUBST h{k} h{rng.randrange(n)} {sid}"); k += 1
            if rng.random() < 0.08:
                ops.append("GC")
            if rng.random() < 0.05:
                ops.append("SNAP")
                for j in range(max(1000, k - 30), k):
                    ops.append(f"DROP h{j}")
                ops.append("GC")
        ops.append("SNAP")
        if nsub > 3 and rng.random() < 0.5:
            ops.append(f"DROPSUBST {nsub - 4}")
    ops.append("SNAP")
    return (ddgen.header(cid, kind, cache=rng.choice([1, 16, 4096])), ops)


def gen_cases(ctx):
    rng = random.Random(ctx.seed * 7919 + 4)
    thorough = ctx.tier == "thorough"
    cases = []
    cid = 0
    for kind in ("bdd", "bcdd"):
        orders = ddgen.PERMS3 if thorough else [rng.choice(ddgen.PERMS3)]
        for order in orders:
            cases.append(case_quant_all(f"q{cid}", kind, order)); cid += 1
            cases.append(case_restrict_all(f"r{cid}", kind, order)); cid += 1
            cases.append(case_apply_quant(f"a{cid}", kind, order, rng, 4000 if thorough else 600)); cid += 1
            for _ in range(6 if thorough else 2):
                cases.append(case_subst(f"s{cid}", kind, order, rng, 12)); cid += 1
        for _ in range(400 if thorough else 40):
            cases.append(ddgen.case_history(f"h{cid}", kind, rng, nv=rng.randrange(4, 8), length=70, quant=True,
                                            threads=rng.choice([1, 1, 4]))); cid += 1
    # ZBDD restrict
    for order in (ddgen.PERMS3 if thorough else [rng.choice(ddgen.PERMS3)]):
        cases.append(case_restrict_all(f"z{cid}", "zbdd", order)); cid += 1
    return cases


def run(ctx):
    ddcommon.run_dd(
        ctx, ["C04"], gen_cases(ctx),
        rule="per kind (bdd, bcdd): 256 functions x 8 variable subsets x 3 quantifiers; x 27 literal cubes (restrict, also zbdd); sampled pairs x 8 operators x 3 fused quantifier forms x random subsets under cache sizes {2,64,4096}; substitutions (1..3 variables, replacements from a 16-function pool) with each object applied 40 times, the last three objects alternated, gc/drop in between; one seed-chosen order (quick) / all 6 (thorough); random histories over 4..7 variables incl. quantification and substitution. non-trivial = case with >= 3 ops",
        allowed_axioms=ALLOWED_AXIOMS)


def replay(ctx, path):
    ddcommon.replay_dd(ctx, path)
