"""C05 — reference counts are exact; GC frees exactly the unreferenced nodes."""
import random
import vf
import ddgen
from checks import ddcommon

META = {
    "title": "exact reference counts and garbage collection",
    "technique": "Rocq proof that the executable audit rc_exact_b decides 'reported count = handles + stored parent edges (+ manager-owned chain edges)' and that exact counts with no zero-count node imply every stored node is reachable from a handle; correspondence: the audit runs on a snapshot of the real manager after every step of histories with clone/drop (also on other threads), explicit and automatic gc, reordering and failing operations, plus a capacity probe",
    "category": "proof",
    "design_ref": "DESIGN.md section 5, C05",
    "level_text": "Theorems (coq/Props/C05.v): rc_exact_b_spec (the audit is exactly the property's counting equation), no_dead_b_spec and no_dead_reachable (on a well-formed table with exact counts, 'no node with count 0' means every stored node is reachable from a live handle, i.e. a collection left exactly the referenced nodes). Tie to the code: after every step of every history the extracted audit is evaluated on the lifted manager (for ZBDD the manager's own tautology chain is included as owner); after each gc() no unreferenced node may remain and every handle must denote the same value table as before; after dropping all handles and gc() the node count must be that of a fresh manager; a capacity probe fills a small manager with single-node functions that are all kept alive and requires the store to be completely full at the first out-of-memory, before and after a history (no slot is lost).",
    "level_note": "Trusted: Coq kernel, extraction, OCaml driver, Rust harness, public accessor API (ref_count). Free lists, chunked slot allocation and the timing of the background collector are not modelled: their effect is observed at quiescence (snapshots are taken under the exclusive manager lock).",
}
ALLOWED_AXIOMS = ()


def build(ctx):
    return ddcommon.build_dd(ctx)


def case_capacity(cid, kind, rng, cap):
    """probe, history on a small manager (automatic gc, failing ops), drop all, gc, probe again"""
    h, ops = ddgen.case_history(cid, kind, rng, nv=rng.randrange(4, 7), length=rng.choice([40, 80]), cap=cap,
                                addvars=False, reorder=False)
    # (reordering is left out here: level_swap aborts the process by documented design when the
    # capacity does not suffice; the ZBDD probe is left out because slots parked in another
    # thread's local free list make the count inexact there)
    if kind != "zbdd":
        ops = ops[:1] + ["FILL", "GC", "SNAP"] + ops[1:] + ["FILL", "GC", "SNAP"]
    return (h, ops)


def gen_cases(ctx):
    rng = random.Random(ctx.seed * 7919 + 5)
    thorough = ctx.tier == "thorough"
    cases = []
    cid = 0
    for kind in ddgen.KINDS_BOOL:
        for _ in range(300 if thorough else 40):
            cases.append(ddgen.case_history(f"h{cid}", kind, rng, nv=rng.randrange(3, 7), length=rng.choice([40, 80, 150]),
                                            threads=rng.choice([1, 1, 4]))); cid += 1
        for _ in range(200 if thorough else 30):
            cases.append(case_capacity(f"c{cid}", kind, rng, rng.choice([120, 160, 200, 250]))); cid += 1
    # large managers (several allocation chunks of 65536 slots): sessions that allocate, drop and collect without
    # leaving the manager, then the capacity probe: every slot must be available again
    for kind in ("bdd", "bcdd"):
        for capk in ((2, 3) if not thorough else (2, 3, 4, 5)):
            ops = ["VARS 1200"]      # (no snapshots here: the driver's value tables are exponential in the variable count)
            for _ in range(rng.randrange(1, 4)):
                ops.append(f"SESSION {rng.choice([1, 10, 500, 1000, 1200])}")
                if rng.random() < 0.5:
                    ops.append("VAR h0 3"); ops.append("DROP h0")
            ops += ["GC", "BIGFILL", "GC", f"SESSION {rng.choice([700, 1100])}", "BIGFILL", "GC"]
            cases.append((ddgen.header(f"L{cid}", kind, cap=capk * 65536, threads=1), ops)); cid += 1
    # MTBDD: inner nodes and the reference-counted terminals of the dynamic terminal manager
    for _ in range(300 if thorough else 40):
        h, ops = ddgen.mt_case_history(f"m{cid}", rng, length=rng.choice([40, 80]), threads=rng.choice([1, 1, 4]))
        cases.append((h, ops + ["SNAP", "DROPALL", "GC", "SNAP"])); cid += 1
    return cases


def run(ctx):
    ddcommon.run_dd(
        ctx, ["C05"], gen_cases(ctx),
        rule="large managers (2-3 allocation chunks; thorough 2-5): sessions that create up to 1200 nodes, drop them and collect inside one manager session, then a capacity probe that fills the store completely; MTBDD histories (arithmetic, ite, restrict, constants; gc; final drop all + gc: no inner node and no terminal left, after every gc no unreferenced terminal survives); per kind (bdd, bcdd, zbdd): random histories (apply, quantification, substitution, clone, drop, drop on another thread, gc, add_vars, set_var_order) with a snapshot and the reference-count audit after every op and a final 'drop all; gc; snapshot'; small-capacity managers (120..500 nodes, automatic collection at the high-water mark, failing operations) framed by the capacity probe. non-trivial = case with >= 3 ops",
        allowed_axioms=ALLOWED_AXIOMS)


def replay(ctx, path):
    ddcommon.replay_dd(ctx, path)
