"""C05 — reference counts are exact; GC frees exactly the unreferenced nodes."""
import random
import vf
import ddgen
from checks import ddcommon
from checks import alloccommon
from checks import arcslabcommon
from checks import termcommon
from checks import gcthreadcommon
from checks import corecommon

META = {
    "title": "exact reference counts and garbage collection",
    "technique": "Rocq proof that the executable audit rc_exact_b decides 'reported count = handles + stored parent edges (+ manager-owned chain edges)' and that exact counts with no zero-count node imply every stored node is reachable from a handle; state-machine theorems on the interleaving model (whole collection frees exactly the unreferenced nodes); for MTBDDs a model of the dynamic terminal manager (hash-consed, reference-counted terminals in slots with a free chain) with the invariant 'values distinct, slots partitioned, count = owned edges + parent edges' preserved under every interleaving; correspondence: the audits run on a snapshot of the real manager after every step of histories with clone/drop (also on other threads), explicit and automatic gc, reordering and failing operations, plus capacity probes for inner nodes and terminals, and the extracted terminal-manager model is replayed on the lifted snapshot for every gc() and every constant()",
    "category": "proof",
    "design_ref": "DESIGN.md section 5, C05",
    "level_text": "Theorems (coq/Props/C05.v): rc_exact_b_spec (the audit is exactly the property's counting equation), no_dead_b_spec and no_dead_reachable (on a well-formed table with exact counts, 'no node with count 0' means every stored node is reachable from a live handle, i.e. a collection left exactly the referenced nodes). Tie to the code: after every step of every history the extracted audit is evaluated on the lifted manager (for ZBDD the manager's own tautology chain is included as owner); after each gc() no unreferenced node may remain and every handle must denote the same value table as before; after dropping all handles and gc() the node count must be that of a fresh manager; a capacity probe fills a small manager with single-node functions that are all kept alive and requires the store to be completely full at the first out-of-memory, before and after a history (no slot is lost). MTBDD terminals (coq/Mgr/Terminals.v mirrors terminal_manager/dynamic.rs: get_edge, retain/release, iterator, gc, free chain; 36 theorems C05_term_*): the invariant (ids and values pairwise distinct, ids + free chain partition the slots, count = owner tokens + parent edges of stored inner nodes) holds in every state reachable under any interleaving of the threads' actions, collector steps and whole collections; gc removes exactly the terminals without owner and parent (any visiting order); get_edge returns the same id for a value until that terminal is collected, fails iff the value is absent and all slots are in use, and re-creates a collected value as a new entry; Manager::gc keeps a terminal iff a handle or a surviving inner node refers to it; after dropping all handles nothing is left and every slot is free; the iterator's retain and the consumer's drop_edge cancel. Tie: on every MTBDD snapshot the extracted invariant checker minv_b holds on the lifted state; for every GC the ids of the surviving terminals and inner nodes equal those of the extracted tcollect on the pre-state and gc()'s return value equals tcollect_count; for every constant() the extracted tstep(TGet) decides live terminal (the handle must be exactly it) / new slot (an id not in use) / out of memory; a terminal capacity probe (managers with 3..12 terminal slots) must find every slot in use at the first OutOfMemory, before and after a history with collections. Collector replay (package C02s; C05_sm_collect_keys / _count, C05_gc_snap_lift / _exact / _count / _example, coq/Mgr/ConcGcCount.v): the number of nodes a collection frees (Manager::gc's return value) is the number of stored nodes no owned edge reaches; for a snapshot lifted by of_snap (handles and the ZBDD chain edges as owners) that passes cinv_b, a node is stored after collect iff it was stored and is reachable (TableProofs.reachable) from a handle or chain edge, survivors keep level and children. Tie: every explicit gc() of the Boolean-kind histories is replayed by ocaml/c05s_main.ml on the extracted of_snap + ConcGc.collect: surviving ids, their levels / children / reference counts and gc()'s return value (exact when gc_count advanced by one, <= when the background collector ran first) must equal the model's; reach_own_b / garbage / idempotence cross-checked on tables up to 60 nodes. TDD (package TDDx, theorems C05_tdd_*): td_rc_b (DD/TddAudit.v) decides 'count = handles holding the node + (true, unknown, false) child slots of stored nodes pointing to it' on every snapshot and is the generic audit rc_exact_b on every TdOK table (as booleans: C05_tdd_rc_b_spec, _rc_b_exact, _rc_owners); exact counts + no zero count => every stored node is reachable from a handle, no handle => empty store (C05_tdd_no_dead_reachable, _dropall_empty); a collection of a TdOK table is TdOK, a sub-table, keeps every handle and the function of every surviving reference and leaves nothing unreachable (C05_tdd_collected_ok); gc() inside any history of the TDD manager state machine keeps the invariant, the handles and their functions and exactly the reachable nodes (C05_tdd_hist_gc, _hist_dropall_gc). Tie: kind tdd of h_dd: histories with clone / drop (also on another thread) / gc / reordering / add_vars: rc_first_bad AND td_rc_b after every op, no_dead_b after every gc, empty store after drop-all + gc, for every GC the surviving node ids must be exactly those the extracted gc_model keeps on the lifted pre-state (ocaml/tddh.ml); stores of 6..200 nodes framed by the ternary capacity probe T3FILL (single-node steps until out-of-memory: every slot in use, before and after a history with failing operations).",
    "level_note": "Trusted: Coq kernel, extraction, OCaml driver, Rust harness, public accessor API (ref_count). Free lists, chunked slot allocation and the timing of the background collector are not modelled: their effect is observed at quiescence (snapshots are taken under the exclusive manager lock). Terminal reference counts are not readable through the public API: the lifted terminal table carries the counts the invariant prescribes (handles + parent edges); a wrong stored count shows as a terminal that survives or vanishes against the model at the next gc(). The slot order of the terminal manager's hash table (visiting order of gc and of the iterator, hence the order of the free chain) is not fixed by the model: theorems hold for every order; the overflow guard of retain and memory orderings are not modelled. TDD: the model's collection (gc_model) restricts the node map and does not maintain counters (C05_tdd_example shows the stale count the audit notices); the counters of the real manager after gc() are audited on the lifted snapshot.",
}
# package ALLOC (slot allocator of the index-based manager): coq/Mgr/Alloc*.v, theorems C05_alloc_*, stage checks/alloccommon.py
META["technique"] += "; slot allocator of the index-based manager (package ALLOC; the state anchor 'free lists / allocated'): Rocq proofs over an executable interleaving model (coq/Mgr/Alloc.v) of the shared and thread-local store state, the next links in the slot array and the node count bookkeeping, for every schedule of any number of threads; the allocator events logged by the cfg(oxidd_verif) hooks of /repo are replayed on the extracted model (ocaml/alloc_main.ml)"
META["level_text"] += " Slot allocator (package ALLOC, C05_alloc_*, 18 theorems; out-of-memory theorems under C14_alloc_*): in every state reachable under ANY interleaving of the threads' prepare_local_state / guard drop / add_node / free_slot / collector-epilogue actions the live slots, the slots of the shared free lists, of the threads' local lists, of the threads' pre-allocated ranges and the never-allocated rest of the slot array are pairwise disjoint, duplicate-free and together exactly the slot IDs TERMINALS..TERMINALS+capacity (partition; every stored list head heads a well-formed list: chains_ok); a slot handed out by add_node was in exactly one list / range (the head of the list resp. first slot of the range that belongs to the path taken: handout_source), held no node and holds one afterwards (handout_safe); a slot that holds a node is never handed out again until it is freed, under every schedule (no_double_handout); #live + #free = capacity (free_count); at quiescence every slot without a node is reachable from the shared state (quiescent_no_leak) and the shared node count is exact (quiescent_count); the capacity probe: when no other thread holds slots a thread creates exactly capacity - #live nodes before OutOfMemory - after 'drop all + gc' every slot can be allocated again (capacity_probe); shared node count + the threads' deltas = #live (count_exact), the number compared with the high-water mark is #live minus the other threads' pending deltas (trigger_count); non-vacuity with 2-3 threads, chunk size 2, capacity 6 through every action and path (example); the seeded variants C01e (no_reset_refuted), C05c (tail_zero_refuted), C07b (no_prep_reset_refuted) and the count drift of the hand-over (ho_drift_refuted, fixed in /repo eed63c8) violate these on computed schedules. Tie: see checks/alloccommon.py: the logged allocator events of sequential, parallel, nested and multi-chunk cases are replayed on the extracted model; a slot handed out while it holds a node, a double free, an ID outside the slot array, a shared node count (also approx_num_inner_nodes) that differs from the number of handed-out slots when no thread has a pending delta = violation."
META["level_note"] += " Slot allocator (package ALLOC): the model covers the slot array's free / node / uninitialised states and the counters, not the contents of nodes, integer overflow or memory ordering; see checks/C14.py level_note and notes/ALLOC.md."
# package ARCSLAB (node store of the pointer-based manager, crate arcslab): coq/Tbl/ArcSlab*.v, coq/Tbl/RcStore.v, theorems C05_arcslab_*, stage checks/arcslabcommon.py
META["technique"] += "; node store of the pointer-based manager (package ARCSLAB; the anchor crates/arcslab/src/lib.rs): Rocq proofs over an executable model (coq/Tbl/ArcSlab.v) of the slab (pages of slots, one free list through the slots, item counts, num_items, the slab's own count, IntHandle / ExtHandle) for every script of client operations, tied to the crate by a stand-alone harness (h_slab) that drives arcslab directly with items that log their drops"
META["level_text"] += " Node store of the pointer-based manager (package ARCSLAB, C05_arcslab_*, 26 theorems; model coq/Tbl/ArcSlab.v mirrors crates/arcslab/src/lib.rs: Page::new, PageList::get_slot (eager page allocation), add_item, free_slot (LIFO push), Slot::retain / release / release_move, force_into_inner, ArcSlab::retain / release, Clone / Drop / into_inner / drop_with of IntHandle and ExtHandle, ExtHandle::from): in every state reachable by ANY script no operation meets an inconsistent structure (never_broken); the slots of all pages are partitioned into items, recycled free slots and never-used free slots, the free list is exactly recycled ++ never-used without repetition and num_items is the number of items (partition); add_item returns the head of the free list, a free slot to which no handle refers, and changes nothing else (add_fresh); an item's count is the number of handle variables that refer to it, never 0, every handle refers to a live item (rc_exact, no_dangling, free_slot_no_handle); drop / drop_with / into_inner take the item out of its slot exactly when the handle is the last one (Some / Drop logged exactly then), the slot becomes the head of the free list, an ExtHandle releases the slab after the item and the slab dies (data dropped last) exactly when that was its only reference (end_spec); items added = items dropped or returned + items in slots, per operation and over whole scripts, nothing is in a slot and nothing was leaked once no handle is left (step_conservation, conservation, no_leak, destroyed_leak_free); the slab is alive iff ArcSlabRefs + raw references + ExtHandles > 0 (alive_iff_count); LIFO re-use and the complete address policy incl. the moment a page is added (lifo, policy_*). Tie: checks/arcslabcommon.py: all scripts of acceptable operations up to length 5 over 3 handles on pages of 1 and 3 slots, all scripts of length 3 over the full alphabet, random scripts up to 500 operations on pages of 1..63 slots run on the real crate and on the extracted model: slot addresses (page, index), returned items, counts, num_items, live page allocations, the drop log, the moment the slab's data is dropped and the rejected operations must agree; again on the debug build; thorough tier also under miri."
META["level_note"] += " Node store of the pointer-based manager (package ARCSLAB): sequential model (atomics, memory orderings and the page-list mutex are not modelled), overflow guards and allocation failure are outside the model; unsafety of the pointer arithmetic is only exercised (miri, thorough tier), not proved."

# package STOREREF (node store of the index-based manager = allocator x payloads / counts): coq/Mgr/IndexStore*.v, theorems C05_index_store_*
META["level_text"] += " Node store of the index-based manager (package STOREREF, C05_index_store_*, 4 theorems; coq/Mgr/IndexStore.v = ALLOC's slot allocator x (payload, stored count) per node slot x the edge values that exist): in every state reachable from a new manager under any interleaving of add_node / clone_edge / drop_edge / removals (collector, try_remove_node) / allocator-internal actions of any threads (inside drop_edge's assumption) a slot has a payload iff the allocator counts it as a node, its stored count = edge values held by clients (table entry, thread-local edges, Functions) + child edges stored in nodes, never 0, nothing points to a slot without node, every child edge is held by a live node (index_store_counts, _counts_reachable, _step_inv); the refinement to the abstract store and the OutOfMemory theorems are under C20_index_*."
META["level_note"] += " Package STOREREF: proof-only (not extracted); its allocator component is the replayed ALLOC model, payloads are opaque numbers + child edge variables."# package C07t (trace replay for the dynamic terminal manager): coq/Mgr/ConcTermLog.v, theorems C07_term_log_* of coq/Props/C07.v, stage checks/termcommon.py
META["technique"] += "; trace replay for the dynamic terminal manager (package C07t): the cfg(oxidd_verif) hooks inside terminal_manager/dynamic.rs log every get_edge (found / new / out of memory, with the value's hash), every reference count increment and decrement of a terminal, the terminal collection (begin, removed ids, end) and every iterator item for whole MTBDD<I64> / MTBDD<F64> histories; the log is replayed from the new manager on by the extracted log-level model coq/Mgr/ConcTermLog.v (projection of the interleaving model coq/Mgr/ConcTerm.v, proved to accept the log of every behaviour of that model)"
META["level_text"] += " Terminal manager replay (package C07t; theorems C07_term_log_* in coq/Props/C07.v, stage checks/termcommon.py): the replay ystep accepts the log of every action and every schedule of the interleaving model from a new manager of any capacity (log_sim, log_trace_sim, log_reachable_accepted), keeps ids and values pairwise distinct and the free chain disjoint (log_inv, log_run_inv), accepts a removal only for a stored terminal without counted edge in the sweep phase, a `found` only for the id that holds the value, a new id only if it heads the free chain, is not in use and the value is not stored, a decrement or an unannounced increment only with a counted edge (log_free, log_found, log_new, log_retain, log_release); a replayed table that passes the snapshot comparison forms, with the handles and child edges of the snapshot as tokens, a state satisfying the full invariant XInv (log_match_lift). Tie: 46 (thorough 340) sequential histories over I64 / F64 terminals incl. managers with 3..12 terminal slots: every logged event must be accepted by the extracted ystep (a removal of a terminal with a counted edge, a `found` of a collected slot, a new id that is in use, a hit on an entry naming a collected terminal, an iterator item or hit without its increment = violation), and after EVERY operation the replayed table must equal the lifted snapshot: same ids, replayed count (logged increments - decrements) = handles + child edges of stored nodes, slot |-> value consistent with slot |-> hash."
META["level_note"] += " Terminal manager replay (package C07t): the replayed reference counts are the logged fetch_add / fetch_sub events (the counters themselves are not readable through the public API); terminal values are represented by the FxHasher hash the hook reports; the hooks are trusted."

# package GCTHREAD (collector protocol of the index-based manager): coq/Mgr/GcThread*.v, theorems C05_gcthread_* / C07_gcthread_*, stage checks/gcthreadcommon.py
META["level_text"] += " Collector protocol (package GCTHREAD, C05_gcthread_*, 22 theorems over coq/Mgr/GcThread.v = interleaving model of node_count vs gc_hwm / gc_lwm, gc_state, the gc_signal condition variable, gc_ongoing, the manager lock and the handle drops; mutual exclusion under C07_gcthread_*): under every schedule gc_state becomes Triggered iff a get_slot_from_shared finds Init and the count at or above gc_hwm (trigger_iff); the sleeping collector is woken exactly by that allocation or by the Quit of the handle that sees strong_count == 2, a notification while it is not inside wait is lost (wake_iff, notify_lost); from its wake-up test to the end of its epilogue the collector sees Triggered (coll_active_triggered); gc_state returns to Init iff the collector's epilogue finds the count below gc_lwm, and every schedule from Triggered to Init contains such an epilogue (reset_iff, resume_needs_epilogue); Triggered with a collector that is not on its way to an epilogue is absorbing under every action of every thread: the state stays Triggered and the collector never starts a collection again (stuck_forever, triggered_dichotomy, stuck_entry: the ways in are a lost notification, an epilogue at or above gc_lwm, quit); the Quit is stored iff a drop sees strong_count == 2, it is seen iff the collector is inside wait or notified at that moment, otherwise missed for ever (quit_sent_iff, quit_outcome, quit_seen_forever, quit_seen_exits, quit_missed_forever, asleep_forever); computed schedules next to a control run: automatic collection off after a sweep that ends at or above gc_lwm although the count falls to 0 and reaches gc_hwm again (auto_gc_resumes_refuted), lost wake-up before the first wait / between epilogue and wait (trigger_wakes_refuted), missed quit (quit_seen_refuted), two concurrent drops both reading strong_count == 3 (drop_quit_refuted); the two rules on gc_state are those of the replayed allocator model (trigger_rule_alloc, reset_rule_alloc). These are OBSERVATIONS outside the property texts (nothing demands that automatic collection resumes or that the collector thread ends): /repo is not changed; the stage checks/gcthreadcommon.py reproduces them on the real code (gc_count, thread names) and records the numbers in the evidence, never a verdict."
META["level_note"] += " Package GCTHREAD: the model is proof-only except for its two gc_state rules (shared with the replayed ALLOC model); lock(); wait() of the collector and Quit-store + notify_one are single steps, the RwLock has no fairness, node_count changes are arbitrary integers (their relation to the slots is ALLOC), sweeps remove an unspecified set of nodes."

# package CORETIE (the composed core model coq/Mgr/Core.v replayed against the code): coq/Extract/ExCore.v, ocaml/core_main.ml, stage checks/corecommon.py
META["level_text"] += " Composed core model, tie (package CORETIE, stage checks/corecommon.py): the theorems C05_core_* (and C07_core_*, C14_core_*, C20_core_*, C01_core_*) are about kstep of coq/Mgr/Core.v (unique table + reported counts + ownership tokens on the node store on the slot allocator); that kstep is extracted and folded over ONE merged, mutex-ordered log of the allocator events and the table / count events (get_or_insert found / new with children, collector removals, clone_edge, drop_edge; case parameters alloc=1 core=1) of sequential histories (5..40 slots: out-of-memory, drop, gc, retry) and parallel blocks (2-4 threads + pool workers, PGC; 24..90 slots), from the new manager to the end of the case: the id of every new node must be the slot the model's allocator returns, every found node the model's, every failed call must fail in the model, and at every snapshot kproj of the model state must equal the lifted snapshot (ids, levels, children, REPORTED reference counts) and the allocator component the plain allocator replay; a count that differs, a slot handed out while it holds a node in the model, a release without an owned edge = violation of C05; OutOfMemory where the model inserts = violation of C14."
META["level_note"] += " Package CORETIE: ownership by thread is not observable: the driver inserts KMove / KNot steps (no memory access) before an action that consumes owned edges; the children of a FAILED get_or_insert are not logged (reconstructed from the releases that follow, terminal children tried); Core.v has no apply cache: the clone of a weak cache edge to a node nobody can borrow is emulated by KGoi-found of the node's own shape (statistic cache_revivals_emulated); stores above 130 slots are not replayed on Core.v (unary handle variables; the multi-chunk allocator branches stay with the ALLOC stage)."

ALLOWED_AXIOMS = ()


def build(ctx):
    return ddcommon.build_dd(ctx)


def case_capacity(cid, kind, rng, cap):
    """probe, history on a small manager (automatic gc, failing ops), drop all, gc, probe again"""
    h, ops = ddgen.case_history(cid, kind, rng, nv=rng.randrange(4, 7), length=rng.choice([40, 80]), cap=cap,
                                addvars=False, reorder=False)
    # (reordering is left out here: level_swap aborts the process by documented design when the
    # capacity does not suffice; the ZBDD probe is left out because slots parked in another
    # thread's local free list make the count inexact there)
    if kind != "zbdd":
        ops = ops[:1] + ["FILL", "GC", "SNAP"] + ops[1:] + ["FILL", "GC", "SNAP"]
    if rng.random() < 0.3:
        h += " nested=1"      # inside a session of another manager: no thread-local store state for this one
    return (h, ops)


def export_extra(rng, nv, pick, fresh, live):
    """DDDMP export of 1..3 live handles (the exporter walks the diagram with a map keyed by edges: shared nodes
    are met again and again; the counts must be back to 'handles + stored parents' afterwards)"""
    hs = [pick() for _ in range(rng.randrange(1, 4))]
    return f"EXPORT {rng.choice('ab')} " + " ".join(f"h{h}" for h in hs)


def case_capacity_tdd(cid, rng, cap):
    """TDD: ternary capacity probe (T3FILL: single nodes until out-of-memory, all alive: 12 nodes with terminal children
    per variable, then nodes at level 0 over a base of two-valued functions), history on a small manager
    (automatic gc from 100 slots on, failing ops), drop all, gc, probe again"""
    nv = rng.randrange(2, 6)
    h, ops = ddgen.tdd_case_history(cid, rng, nv=nv, length=rng.choice([40, 80]), cap=cap, addvars=False, reorder=False)
    fill = ddgen.t3fill_op(cap, nv)
    return (h, ops[:1] + [fill, "GC", "SNAP"] + ops[1:] + [fill, "GC", "SNAP"])


def gen_cases(ctx):
    rng = random.Random(ctx.seed * 7919 + 5)
    thorough = ctx.tier == "thorough"
    cases = []
    cid = 0
    for kind in ddgen.KINDS_BOOL:
        for _ in range(300 if thorough else 40):
            cases.append(ddgen.case_history(f"h{cid}", kind, rng, nv=rng.randrange(3, 7), length=rng.choice([40, 80, 150]),
                                            threads=rng.choice([1, 1, 4]), extra_ops=(export_extra,))); cid += 1
        for _ in range(200 if thorough else 30):
            cases.append(case_capacity(f"c{cid}", kind, rng, rng.choice([120, 160, 200, 250]))); cid += 1
    # large managers (several allocation chunks of 65536 slots): sessions that allocate, drop and collect without
    # leaving the manager, then the capacity probe: every slot must be available again
    for kind in ("bdd", "bcdd"):
        for capk in ((2, 3) if not thorough else (2, 3, 4, 5)):
            ops = ["VARS 1200"]      # (no snapshots here: the driver's value tables are exponential in the variable count)
            for _ in range(rng.randrange(1, 4)):
                ops.append(f"SESSION {rng.choice([1, 10, 500, 1000, 1200])}")
                if rng.random() < 0.5:
                    ops.append("VAR h0 3"); ops.append("DROP h0")
            ops += ["GC", "BIGFILL", "GC", f"SESSION {rng.choice([700, 1100])}", "BIGFILL", "GC"]
            cases.append((ddgen.header(f"L{cid}", kind, cap=capk * 65536, threads=1), ops)); cid += 1
    # MTBDD: inner nodes and the reference-counted terminals of the dynamic terminal manager
    for _ in range(300 if thorough else 40):
        h, ops = ddgen.mt_case_history(f"m{cid}", rng, length=rng.choice([40, 80]), threads=rng.choice([1, 1, 4]))
        cases.append((h, ops + ["SNAP", "DROPALL", "GC", "SNAP"])); cid += 1
    # the same over F64 terminals (values normalised by F64::from: -0.0, NaN payloads)
    for _ in range(100 if thorough else 12):
        h, ops = ddgen.mtf_case_history(f"f{cid}", rng, length=rng.choice([40, 80]), threads=1)
        cases.append((h, ops + ["SNAP", "DROPALL", "GC", "SNAP"])); cid += 1
    # MTBDD managers with very few terminal slots: terminal capacity probe (distinct constants, all alive, until
    # OutOfMemory: every slot must be in use), a history whose operations run out of terminals, constants
    # re-created after collections, drop all + gc, probe again (no slot lost); gc before every op in some
    for _ in range(200 if thorough else 30):
        tcap = rng.choice([3, 4, 6, 8, 12])
        gen = ddgen.mtf_case_history if rng.random() < 0.25 else ddgen.mt_case_history
        h, ops = gen(f"t{cid}", rng, length=rng.choice([30, 60]), threads=1)
        body = []
        for o in ops[1:]:
            body.append(o)
            if o == "GC" and rng.random() < 0.5:
                vals = ddgen.MTF_VALUES if gen is ddgen.mtf_case_history else ddgen.MT_VALUES
                body.append(f"CONSTN h{20 + rng.randrange(3)} {rng.choice(vals)}")
        ops = ops[:1] + ["TFILL", "GC"] + body + ["TFILL", "GC", "SNAP"]
        cases.append((h + f" tcap={tcap}" + (" gcall=1" if rng.random() < 0.2 else ""), ops)); cid += 1
    # TDD (package TDDx; theorems C05_tdd_*): ternary nodes: count = handles + (true, unknown, false) child slots of
    # stored nodes; histories with clone / drop (also on another thread), gc, reordering, add_vars; small stores
    # framed by the ternary capacity probe
    for _ in range(300 if thorough else 36):
        cases.append(ddgen.tdd_case_history(f"th{cid}", rng, length=rng.choice([40, 80, 150]), threads=rng.choice([1, 1, 4]))); cid += 1
    for _ in range(200 if thorough else 24):
        cases.append(case_capacity_tdd(f"tc{cid}", rng, rng.choice([6, 12, 20, 30, 45, 60, 90, 120, 160, 200]))); cid += 1
    return cases


C05S_VOS = ddcommon.MODEL_VOS + ["Mgr/Conc.vo", "Mgr/ConcGc.vo", "Mgr/ConcGcCount.vo"]


def build_c05s(ctx):
    """second driver (Boolean kinds): ocaml/c05s_main.ml linked against the extraction of coq/Extract/ExC05s.v
    (Mgr/Conc.v + Mgr/ConcGc.v): every explicit gc() of a history is replayed on the extracted collector
    ConcGc.collect (surviving ids, counts, return value); same harness (h_dd)."""
    pid = ctx.pid
    ctx.pid = "C05s"
    try:
        drv = vf.ocaml_build(ctx, "ExC05s.v", "c05s_main.ml", extra_ml=["dd_types.ml", "zchain.ml"], model_vos=C05S_VOS)
    finally:
        ctx.pid = pid
    bins = vf.cargo_build(["h_dd"])
    return bins["h_dd"], drv


class _c05s_driver:
    """ddcommon.run_dd / replay_dd with the collector-replay driver"""
    def __enter__(self):
        self.orig = ddcommon.build_dd
        ddcommon.build_dd = build_c05s

    def __exit__(self, *a):
        ddcommon.build_dd = self.orig


def run(ctx):
    cases = gen_cases(ctx)
    # pass 1 (proof gate + collector replay): the histories of the Boolean kinds through the extracted
    # ConcGc.collect; violations are reported here, the evidence is written by pass 2
    boolc = [c for c in cases if c[0].split(" kind=")[1].split()[0] in ddgen.KINDS_BOOL and not c[0].startswith("L")]
    with _c05s_driver():
        ok_s, bad_s = ddcommon.run_dd(ctx, ["C05"], boolc, rule="", allowed_axioms=ALLOWED_AXIOMS, drv_args=["--c05s"],
                                      write_ev=False, debug_cases=None, sig_extra="gc-model")
    # package ALLOC: the slot allocator stage (hooks build, event replay on the extracted model coq/Mgr/Alloc.v)
    alloc_cov = alloccommon.run_stage(ctx)
    # package ARCSLAB: the node store of the pointer-based manager (crate arcslab driven directly, extracted model coq/Tbl/ArcSlab.v)
    slab_cov = arcslabcommon.run_stage(ctx)
    # package C07t: the terminal manager replay stage (hooks build, terminal events replayed on the extracted model coq/Mgr/ConcTermLog.v)
    term_cov = termcommon.run_stage(ctx)
    # package GCTHREAD: observations on the collector protocol on the real code (never a verdict)
    gct_cov = gcthreadcommon.run_stage(ctx)
    # package CORETIE: the composed core model coq/Mgr/Core.v folded over the merged allocator + table + count event log
    core_cov = corecommon.run_stage(ctx)
    ddcommon.run_dd(
        ctx, ["C05"], cases, proofs=False,
        extra_cov={"gc_model_cases_ok": ok_s, "gc_model_cases_bad": len(bad_s), "alloc_stage": alloc_cov, "alloc_stage_rule": alloccommon.RULE,
                   "arcslab_stage": slab_cov, "arcslab_stage_rule": arcslabcommon.RULE,
                   "term_stage": term_cov, "term_stage_rule": termcommon.RULE,
                   "gcthread_stage": gct_cov, "gcthread_stage_rule": gcthreadcommon.RULE,
                   "core_stage": core_cov, "core_stage_rule": corecommon.RULE},
        rule="MTBDD terminals: histories over I64 and F64 terminals with a snapshot after every op (model invariant on every lifted snapshot; every gc() and constant() replayed on the extracted terminal-manager model); managers with 3..12 terminal slots framed by the terminal capacity probe, constants re-created right after collections, gc before every op in a fifth of them; large managers (2-3 allocation chunks; thorough 2-5): sessions that create up to 1200 nodes, drop them and collect inside one manager session, then a capacity probe that fills the store completely; MTBDD histories (arithmetic, ite, restrict, constants; gc; final drop all + gc: no inner node and no terminal left, after every gc no unreferenced terminal survives); per kind (bdd, bcdd, zbdd): random histories (apply, quantification, substitution, clone, drop, drop on another thread, gc, add_vars, set_var_order) with a snapshot and the reference-count audit after every op and a final 'drop all; gc; snapshot'; small-capacity managers (120..500 nodes, automatic collection at the high-water mark, failing operations) framed by the capacity probe; tdd: 36 (thorough 300) random histories (constants, variables, not, 8 connectives, ite, cofactors, clone, drop, drop on another thread, gc, add_vars, set_var_order; 1 or 4 workers) with the generic audit AND the ternary audit td_rc_b after every op, no unreferenced node after gc, final 'drop all; gc; snapshot' = empty store; 24 (thorough 200) stores of 6..200 nodes framed by the ternary capacity probe T3FILL (single-node functions, all alive, until out-of-memory: every slot in use; per variable the 12 nodes with terminal children that a connective makes of x and the constant u, then nodes x0 op g at level 0), failing operations in between. non-trivial = case with >= 3 ops",
        allowed_axioms=ALLOWED_AXIOMS)


def replay(ctx, path):
    import json
    if json.load(open(path)).get("driver") == "alloc":
        return alloccommon.replay(ctx, json.load(open(path)))
    if json.load(open(path)).get("driver") == "arcslab":
        return arcslabcommon.replay(ctx, json.load(open(path)))
    if json.load(open(path)).get("driver") == "core":
        return corecommon.replay(ctx, json.load(open(path)))
    if json.load(open(path)).get("driver") == "term":
        return termcommon.replay(ctx, json.load(open(path)))
    if "--c05s" in json.load(open(path)).get("drv_args", []):
        with _c05s_driver():
            ddcommon.replay_dd(ctx, path)
    else:
        ddcommon.replay_dd(ctx, path)
