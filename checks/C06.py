"""C06 — apply cache is transparent: results never depend on cache state or history."""
import os
import random
import re
import vf
import ddgen
from checks import ddcommon

META = {
    "title": "apply cache transparency",
    "technique": "Rocq proofs: the apply model returns the same (unique) edge for any two caches satisfying the cache invariant, history independence, and a model of the direct-mapped cache whose lookups only return entries added for exactly that operator/operand tuple since the last clear; correspondence: identical operation scripts run on real managers with apply-cache capacities {1, 2, 16, 65536}, all ordered operator pairs on the same operands, gc/reorder/add_vars between repetitions; per-script result digests must coincide across capacities and every result must equal the spec",
    "category": "proof",
    "design_ref": "DESIGN.md section 5, C06",
    "level_text": "Theorems in coq/Props/C06.v (cache transparency, history independence and uniqueness of the result edge for the plain BDD apply model, and the same statements for the complement-edge BDD, the ZBDD Boolean interface and MTBDD add/sub/mul/div/min/max/ite/restrict; validity of the quantification/substitution caches incl. fresh substitution ids; soundness of the direct-mapped cache model with numeric operands). Tie to the code: every script (all ordered pairs of operators issued back to back on the same operands, also with swapped operands, repeated after gc(), set_var_order and add_vars; random histories with quantification and substitution; BDD, BCDD, ZBDD, MTBDD<I64>) is executed on four managers that differ only in the apply-cache capacity (1, 2, 16, 65536 entries) and on a fifth one that collects (= clears the cache) before every operation; the driver lifts every result, checks it against the extracted spec and emits a digest of all result tables and node counts per script; a digest that differs between capacities, or a result that is wrong under one capacity but right under another, is a C06 violation (a result that is wrong under every capacity is left to the operator's own property). TDD (package TDDx, theorems C06_tdd_*): the three-valued apply algorithms with the cache keys of the code (normalised operand pair AND operator of terminal_bin; (Not,[f]); (Ite,[f,g,h])): two runs with arbitrary correct caches return the same value under every assignment, a repetition in any later table returns the identical reference and creates nothing, the result is the unique reference with its meaning (per operation: _apply_bin_cache_transparent, _apply_{not,bin,ite}_history_independent, _apply_{bin,ite}_result_unique; direct-mapped cache instance _dm_cache_ok); whole histories of the TDD manager state machine Mgr/TddHist.v incl. gc (cache cleared) and add_vars: two managers in ANY two configurations (edge order, cache type and contents) fed the same calls stay related (C06_tdd_hist_step, _hist_cache_independent, _hist_dm_cache_transparent: direct-mapped cache with any hash / bucket count / capacity vs no cache) and related states have the same occupied slots, the same value of every slot under every three-valued assignment, the same value tables and the same == answers (C06_tdd_hist_observe). Tie: tdd scripts (every ordered pair of the 8 connectives and ite back to back on the same operands, also swapped / repeated operands, not in between, repeated after gc / set_var_order / add_vars; random histories) under apply-cache capacities 1, 2, 16, 65536 and with a collection before every operation: equal digests of all result / cofactor tables, eval results and node counts; every result against the fixed tables.",
    "level_note": "Trusted: Coq kernel, extraction, OCaml driver, Rust harness. The try_lock path of the cache (a busy bucket is a miss) is covered by the arbitrary-cache quantification of the theorem; its atomicity is C07's base. The 'no cache' build configuration is C20.",
}
ALLOWED_AXIOMS = ()
CACHES = [1, 2, 16, 65536]


def build(ctx):
    return ddcommon.build_dd(ctx)


def script_operator_pairs(kind, rng, nv=4):
    """all ordered operator pairs on the same operands, with invalidating events in between"""
    if kind == "mtbdd":
        ops = [f"VARS {nv}"]
        pool = 10
        for i in range(pool):
            ops.append(f"VT h{i} {nv} " + " ".join(ddgen.mt_rand_vt(rng, nv)))
        allops = ddgen.MT_OPS
    else:
        ops = [f"VARS {nv}"]
        pool = 10
        for i in range(pool):
            ops.append(f"TT h{i} {nv} {ddgen.rand_tt(rng, nv):x}")
        allops = ddgen.BIN_OPS
    ops.append("SNAP")
    k = 100
    pairs = [(o1, o2) for o1 in allops for o2 in allops]
    rng.shuffle(pairs)
    for idx, (o1, o2) in enumerate(pairs):
        a, b = rng.randrange(pool), rng.randrange(pool)
        ops.append(f"{o1} h{k} h{a} h{b}"); k += 1
        ops.append(f"{o2} h{k} h{a} h{b}"); k += 1
        ops.append(f"{o2} h{k} h{b} h{a}"); k += 1
        ops.append(f"{o1} h{k} h{a} h{b}"); k += 1
        if idx % 7 == 3:
            ops.append("SNAP")
            for j in range(max(100, k - 40), k):
                ops.append(f"DROP h{j}")
            ops.append(rng.choice(["GC", "GC", "ORDER " + " ".join(map(str, rng.sample(range(nv), nv)))]))
            # repeat the last operations after the invalidating event
            ops.append(f"{o1} h{k} h{a} h{b}"); k += 1
            ops.append(f"{o2} h{k} h{a} h{b}"); k += 1
    ops.append("SNAP")
    if kind != "mtbdd":
        # restrict: a function, its complement and conjunctions with literals (complemented edges above shared
        # sub-diagrams) restricted by a cube, by the cube without its top literal (the sub-problem the first call
        # memoised) and by the cube again
        for a in rng.sample(range(pool), 5):
            na = k
            ops.append(f"NOT h{k} h{a}"); k += 1
            lit = k
            ops.append(f"{rng.choice(['VAR', 'NVAR'])} h{k} {rng.randrange(nv)}"); k += 1
            c1 = k
            ops.append(f"NAND h{k} h{lit} h{a}"); k += 1
            c2 = k
            ops.append(f"AND h{k} h{lit} h{a}"); k += 1
            for _ in range(3):
                pos = rng.randrange(1, 1 << nv)
                neg = rng.randrange(1 << nv) & ~pos
                top = min(v for v in range(nv) if (pos | neg) >> v & 1)
                spos, sneg = pos & ~(1 << top), neg & ~(1 << top)
                for f in (a, na, c1, c2):
                    if spos | sneg:
                        ops.append(f"RESTRICT h{k} h{f} {spos} {sneg}"); k += 1
                for f in (c1, a, c2, na, c1):
                    ops.append(f"RESTRICT h{k} h{f} {pos} {neg}"); k += 1
        ops.append("SNAP")
    # cache keys with NUMERIC operands: the substitution id (bdd, bcdd) resp. the variable number (zbdd
    # subset0/subset1/change) is part of the key; the same function is put through several substitution
    # objects / variables back to back, with ids that are congruent modulo small bucket counts
    if kind in ("bdd", "bcdd"):
        nsub = 34
        for i in range(nsub):
            vs = rng.sample(range(nv), rng.randrange(1, 3))
            ops.append(f"MKSUBST {i} " + " ".join(f"{v}=h{rng.randrange(pool)}" for v in vs))
        for f in rng.sample(range(pool), 4):
            for sid in (0, 1, 2, 16, 17, 32, 33, 0, 16):
                ops.append(f"SUBST h{k} h{f} {sid}"); k += 1
        ops.append("SNAP")
    elif kind == "zbdd":
        for f in rng.sample(range(pool), 4):
            for o in ("SUBSET0", "SUBSET1", "CHANGE"):
                for v in list(range(nv)) + [0]:
                    ops.append(f"{o} h{k} h{f} {v}"); k += 1
        ops.append("SNAP")
    if kind != "mtbdd":
        # memoised results across add_vars: operations whose results / operands include the constant
        # true function (for ZBDDs the top of the tautology chain, which add_vars rebuilds) are issued,
        # their results dropped, a variable is added without a collection in between, and the very
        # same operations are issued again
        # (every earlier result is dropped first: one of them being the constant true function would keep the top of
        # the ZBDD tautology chain alive across the add_vars below)
        for j in range(100, k):
            ops.append(f"DROP h{j}")
        first = k
        round1 = []          # (op, operand slots): operands stay alive, results may be dropped
        drop = []
        for a in rng.sample(range(pool), 4):
            b = rng.randrange(pool)
            nota = k
            ops.append(f"NOT h{k} h{a}"); round1.append(("NOT", [a])); k += 1
            ops.append(f"OR h{k} h{a} h{nota}"); round1.append(("OR", [a, nota])); drop.append(k); k += 1     # = true
            ops.append(f"EQUIV h{k} h{a} h{a}"); round1.append(("EQUIV", [a, a])); drop.append(k); k += 1     # = true
            ops.append(f"IMP h{k} h{b} h{k - 1}"); drop.append(k); k += 1                                     # true as operand, = true
            o = rng.choice(allops)
            ops.append(f"{o} h{k} h{a} h{b}"); round1.append((o, [a, b])); k += 1
            ops.append(f"NAND h{k} h{nota} h{a}"); round1.append(("NAND", [nota, a])); drop.append(k); k += 1  # = true
        ops.append("SNAP")
        for d in drop:
            ops.append(f"DROP h{d}")
        ops.append("VARS 1")
        for o, args in round1:
            ops.append(f"{o} h{k} " + " ".join(f"h{x}" for x in args)); k += 1
        ops.append("SNAP")
        # second round (after the first one: its kept results may be the constant true function and would keep the top
        # of the ZBDD tautology chain alive): restrict with the literal cube given as a kept HANDLE (for ZBDDs the cube
        # denotes another partial assignment once a variable has been added: the new variable is a negative literal)
        round2 = []
        for a in rng.sample(range(pool), 3):
            v1, v2 = rng.sample(range(nv), 2)
            c1 = k
            ops.append(f"VAR h{k} {v1}"); k += 1
            ops.append(f"RESTRICTH h{k} h{a} h{c1}"); round2.append(("RESTRICTH", [a, c1])); k += 1
            lit = k
            ops.append(f"{rng.choice(['VAR', 'NVAR'])} h{k} {v2}"); k += 1
            c2 = k
            ops.append(f"AND h{k} h{c1} h{lit}"); k += 1
            ops.append(f"RESTRICTH h{k} h{a} h{c2}"); round2.append(("RESTRICTH", [a, c2])); k += 1
        ops.append("SNAP")
        ops.append("VARS 1")
        for o, args in round2:
            ops.append(f"{o} h{k} " + " ".join(f"h{x}" for x in args)); k += 1
        ops.append("SNAP")
        for (o1, o2) in pairs[:12]:
            a, b = rng.randrange(pool), rng.randrange(pool)
            ops.append(f"{o1} h{k} h{a} h{b}"); k += 1
            ops.append(f"{o2} h{k} h{a} h{b}"); k += 1
        ops.append("SNAP")
    return ops


def script_operator_pairs_tdd(rng, nv=3):
    """TDD (package TDDx): all ordered pairs of the 8 three-valued connectives + ite issued back to back on the same
    operands (also swapped; ite with its then/else operands swapped and with repeated operands: the short-cuts of
    apply_ite_rec re-enter apply_bin with Or / And / Imp / ImpStrict and share its cache entries), not in between,
    repeated after gc / set_var_order / add_vars"""
    ops = [f"VARS {nv}"]
    pool = []
    for v in range(nv):
        ops.append(f"T3VAR h{len(pool)} {v}"); pool.append(len(pool))
    for c in "fut":
        ops.append(f"T3CONST h{len(pool)} {c}"); pool.append(len(pool))
    while len(pool) < nv + 3 + 10:
        d = len(pool)
        if rng.random() < 0.8:
            ops.append(f"{rng.choice(ddgen.T3_BIN_OPS)} h{d} h{rng.choice(pool)} h{rng.choice(pool)}")
        else:
            ops.append(f"T3ITE h{d} h{rng.choice(pool)} h{rng.choice(pool)} h{rng.choice(pool)}")
        pool.append(d)
    ops.append("SNAP")
    k = 100
    allops = ddgen.T3_BIN_OPS + ["T3ITE"]
    pairs = [(o1, o2) for o1 in allops for o2 in allops]
    rng.shuffle(pairs)

    def emit(o, a, b, c):
        nonlocal k
        if o == "T3ITE":
            ops.append(f"T3ITE h{k} h{a} h{b} h{c}")
        else:
            ops.append(f"{o} h{k} h{a} h{b}")
        k += 1

    for idx, (o1, o2) in enumerate(pairs):
        a, b = rng.choice(pool), rng.choice(pool)
        c = rng.choice([a, b, rng.choice(pool), rng.choice(pool)])
        emit(o1, a, b, c)
        emit(o2, a, b, c)
        emit(o2, b, a, c)
        if rng.random() < 0.3:
            ops.append(f"T3NOT h{k} h{rng.choice([a, b])}"); k += 1
        emit(o1, a, b, c)
        if idx % 7 == 3:
            ops.append("SNAP")
            for j in range(max(100, k - 40), k):
                ops.append(f"DROP h{j}")
            ev = rng.random()
            if ev < 0.5:
                ops.append("GC")
            elif ev < 0.85 and nv >= 2:
                ops.append("ORDER " + " ".join(map(str, rng.sample(range(nv), nv))))
            elif nv < 5:
                ops.append("VARS 1"); nv += 1
            else:
                ops.append("GC")
            emit(o1, a, b, c)
            emit(o2, a, b, c)
    ops.append("SNAP")
    return ops


def gen_scripts(ctx):
    rng = random.Random(ctx.seed * 7919 + 6)
    thorough = ctx.tier == "thorough"
    scripts = []
    # regression (fixed in /repo f8637cd): a memoised ZBDD restrict result served again after add_vars
    for kind in ("zbdd", "bdd", "bcdd"):
        scripts.append((kind, False, ["VARS 2", "VAR h0 0", "VAR h1 1", "RESTRICTH h2 h0 h1", "SNAP", "VARS 1",
                                      "RESTRICTH h3 h0 h1", "EVAL h3", "SNAP", "GC", "RESTRICTH h4 h0 h1", "SNAP"]))
        scripts.append((kind, False, ["VARS 4", "TT h5 4 bf3f", "VAR h8 2", "NVAR h9 1", "AND h10 h8 h9", "RESTRICTH h11 h5 h10",
                                      "SNAP", "VARS 2", "RESTRICTH h12 h5 h10", "SNAP"]))
    for kind in ("bdd", "bcdd", "zbdd", "mtbdd"):
        for _ in range(12 if thorough else 2):
            scripts.append((kind, False, script_operator_pairs(kind, rng)))
        for _ in range(200 if thorough else 20):
            if kind == "mtbdd":
                h, ops = ddgen.mt_case_history("x", rng, length=80)
            else:
                h, ops = ddgen.case_history("x", kind, rng, nv=rng.randrange(3, 7), length=80)
            scripts.append((kind, True, ops))
    # TDD (package TDDx; theorems C06_tdd_*)
    for _ in range(12 if thorough else 3):
        scripts.append(("tdd", False, script_operator_pairs_tdd(rng, nv=rng.randrange(2, 4))))
    for _ in range(200 if thorough else 24):
        h, ops = ddgen.tdd_case_history("x", rng, length=80)
        scripts.append(("tdd", True, ops))
    return scripts


def run_scripts(ctx, binp, drv, scripts, caches, prefix, config):
    """runs every script under the given cache capacities + the cache-free reference on one build of the harness and
    reports scripts whose observables depend on the capacity; returns (ok, bad, badmap)"""
    cases = []
    for i, (kind, each, ops) in enumerate(scripts):
        for c in caches:
            cases.append((ddgen.header(f"{prefix}{i}c{c}", kind, cap=1 << 15, cache=c, snap_each=each), ops))
        # cache-free reference: a collection (= apply cache cleared) before every operation
        cases.append((ddgen.header(f"{prefix}{i}cG", kind, cap=1 << 15, cache=16, snap_each=each, extra="gcall=1"), ops))
    args = ["--props", "C02,C04,C09,C10,C11,C12,C13"]
    ok, bad, digests = vf.lockstep_sharded(ctx, binp, drv, cases, drv_args=args, tag="-" + prefix)
    badmap = {cid: msg for cid, msg in bad}
    nviol = 0
    for i, (kind, each, ops) in enumerate(scripts):
        ids = [f"{prefix}{i}c{c}" for c in caches] + [f"{prefix}{i}cG"]
        ds = {cid: digests.get(cid) for cid in ids}
        bads = [cid for cid in ids if cid in badmap]
        differ = len(set(ds.values())) > 1
        if (bads and len(bads) < len(ids)) or (differ and not bads):
            nviol += 1
            if nviol > 2:
                continue
            cid = bads[0] if bads else ids[0]
            header = [h for h, _ in cases if h.split()[0] == cid][0]
            msg = badmap.get(cid, "result digests differ between cache capacities: " + str(ds))
            small = ops
            if bads:
                cls = ddcommon.msg_class(msg)
                small, smsg = vf.shrink_case(ctx, binp, drv, header, ops, "prop", drv_args=args, budget=120,
                                             protect=lambda o: o.startswith("VARS"),
                                             accept=lambda m2, c=cls: ddcommon.msg_class(m2) == c)
                msg = smsg or msg
            vf.report_violation(
                ctx, f"prop:cache-dependent:{kind}:{config}:" + (";".join(small) if len(small) <= 30 else f"script-{i}"),
                {"stage": "correspondence", "kind": "prop", "case_header": header, "ops": small, "verdict": msg,
                 "drv_args": args, "digests": ds, "bad_under": bads, "config": config,
                 "what": "the same script gives different / partly wrong results depending on the apply-cache capacity",
                 "theorem_or_relation": "C06: cache transparency (coq/Props/C06.v)"},
                nfif=False)
    return ok, bad, badmap


POINTER_CFG = "cfg-pointer"


def run(ctx):
    vf.proof_gate(ctx, ALLOWED_AXIOMS)
    binp, drv = build(ctx)
    scripts = gen_scripts(ctx)
    CFG = "cfg-default"
    ok, bad, badmap = run_scripts(ctx, binp, drv, scripts, CACHES, "s", CFG)
    # the scripted (non-random) part again on the pointer-based manager build (its own node store and its own
    # implementation of add_vars / gc / node removal; no MTBDD there)
    pbin = vf.cargo_build(["h_dd"], features=[POINTER_CFG], no_default=True, target_sub=POINTER_CFG)["h_dd"]
    pscripts = [(k, e, o) for (k, e, o) in scripts if not e and k != "mtbdd"]
    okp, badp, _ = run_scripts(ctx, pbin, drv, pscripts, [16, 65536], "p", POINTER_CFG)
    ok += okp
    bad = list(bad) + list(badp)
    ctx.stats["pointer_manager_scripts"] = len(pscripts)
    ctx.stats["scripts"] = len(scripts)
    ctx.stats["distinct_nontrivial"] = len({tuple(o) for _, _, o in scripts})
    ctx.stats["wrong_under_every_capacity"] = sum(
        1 for i in range(len(scripts)) if all(f"s{i}c{c}" in badmap for c in CACHES) and f"s{i}cG" in badmap)
    ctx.samples = [{"kind": k, "ops": o[:14] + ["..."]} for k, _, o in scripts[:2] + scripts[-1:]]
    vf.write_evidence(
        ctx, "proof",
        rule="script = operation list (operator-pair scripts: every ordered pair of the 8 Boolean resp. 6 arithmetic operators issued back to back on the same operands incl. swapped operands, repeated after gc/set_var_order/add_vars; random histories); each script runs under apply-cache capacities 1, 2, 16, 65536 and once with a collection (apply cache cleared) before every operation as the cache-free reference; compared: per-script digest of all result value tables, node counts, counts; the scripted (non-random) part runs again on the pointer-based manager build under capacities 16, 65536 and the reference; kinds bdd, bcdd, zbdd, mtbdd, tdd (tdd operator-pair scripts: every ordered pair of the 8 three-valued connectives and ite on the same operands, ite also with repeated operands, not in between; tdd histories with cofactors, eval, gc, reordering, add_vars; compared: value tables over all 3^n ternary assignments, cofactor tables, eval results, node counts). non-trivial = every script; distinct = distinct op lists",
        checker_cmd="make -C coq Props/C06.vo (coqc 8.16.1) + Print Assumptions audit; ./check C06",
        extra_cov={"cases_ok": ok, "cases_bad": len(bad), "capacities": CACHES, "tier": ctx.tier})


def replay(ctx, path):
    import json
    r = json.load(open(path))
    if r.get("config") != POINTER_CFG:
        return ddcommon.replay_dd(ctx, path)
    binp, drv = build(ctx)
    pbin = vf.cargo_build(["h_dd"], features=[POINTER_CFG], no_default=True, target_sub=POINTER_CFG)["h_dd"]
    f = os.path.join(ctx.workdir, "replay.txt")
    vf.write_cases(f, [(r["case_header"], r["ops"])])
    ok, bad = vf.lockstep(ctx, pbin, drv, f, tag="-replay", drv_args=r.get("drv_args", []))
    for cid, msg in bad:
        print(f"replay: case {cid}: {msg}")
        vf.report_violation(ctx, "replay:" + ";".join(r["ops"][:30]), r, nfif=False)
    if not bad:
        print("replay: no divergence")
