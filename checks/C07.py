"""C07 — concurrent and parallel execution is equivalent to sequential execution."""
import json
import os
import random
import vf
import ddgen
from checks import ddcommon

META = {
    "title": "operations issued concurrently return the sequential handles; diagram stays well-formed with exact counts; the apply cache never serves a dangling weak edge",
    "technique": "Rocq proof over a Gallina interleaving model of the concurrent unique table and reference counts (atomic actions get_or_insert / retain / release / move / collect-one-node of any number of threads; invariant = well-formed + per-level unique + exact counts, preserved by every action under every schedule; canonicity hence the same handle as a sequential run; collector removes only unowned, unreferenced nodes), extended by the apply cache (buckets with a lock bit and one entry of WEAK operand/value edges; try_lock / set / get+clone / unlock of the workers, pre_gc bucket by bucket / sweep / post_gc of the collector that runs under the shared lock): no dangling weak edge in any reachable state, a hit yields the memoised function, and the two broken protocol variants (empty buckets not kept locked; a lock() two parties can acquire) are refuted by computed witnesses; tie to the code: trace validation on BOTH manager implementations (index-based: crates/oxidd-manager-index; pointer-based: crates/oxidd-manager-pointer, own unique table / gc code, node ids = addresses) - the cfg(oxidd_verif) hooks of /repo log every get_or_insert, every collected node and every apply cache event (insertion, hit, per-bucket pre_gc lock and post_gc unlock, each reported with the bucket locked) inside parallel blocks run by several OS threads with seeded schedule perturbation, the log is replayed by the extracted step functions of the model and the manager's table after the block must equal the model's; results are compared with the sequential specification; C07m: the same for MTBDD<I64> (the kind with a DYNAMIC terminal manager: terminals are hash-consed by value, reference counted and collected by terminal_manager.gc() inside Manager::gc) and TDD: interleaving model coq/Mgr/ConcTerm.v of the terminal table + counted-edge tokens + cache buckets holding weak terminal edges + collector phases, protocol 'terminals are collected only between pre_gc and post_gc' proved safe under every schedule and its violation refuted by a computed schedule; parallel blocks with operations whose results / operands are short-lived terminals next to a collecting thread, end-state audit of the terminal table by the extracted checker; C07t: the terminal manager's own events (get_edge found / new / out of memory with the value's hash, every reference count increment and decrement of a terminal, the terminal collection's begin / removed ids / end, iterator items; fifth hook commit, inside terminal_manager/dynamic.rs) are logged in one total order with the table and cache events and replayed by the extracted log-level projection ystep (coq/Mgr/ConcTermLog.v) of xstep, proved to accept the log of every behaviour of the interleaving model",
    "category": "proof",
    "design_ref": "DESIGN.md section 5, C07",
    "level_text": "Theorems (coq/Props/C07.v) over coq/Mgr/Conc.v: every action of every thread preserves the invariant CInv (keys distinct, node preconditions, per-level uniqueness, owned edges valid, reported count = owner tokens + parent edges), hence every state reachable under ANY interleaving is a well-formed snapshot with exact reference counts to which the canonicity theorems of C01 apply (two threads that build the same function hold the same edge = the handle of a sequential run); a node with a positive count keeps its level and children under every action of other threads and of the collector; the collector can only remove nodes without owner and parent; the table-only projection used for replay is simulated by the full model. C07_cache_* over coq/Mgr/ConcCache.v (apply cache of weak edges + collector phases, the code's protocol): the invariant KInv (CInv + every operand/value edge of every cache entry points to a stored node or terminal + buckets held by the collector are empty, locked and free of workers + one worker per bucket + exact lock bits) is preserved by every action of every thread and of the collector under every schedule; a hit returns valid edges, the thread owns them, and every edge of the entry denotes what it denoted when the entry was written (memoised function); whenever the collector removes a node all buckets are empty and locked; REFUTED by computed schedules: pre_gc skipping empty buckets, and a lock() that ignores the swapped value, both reach a dangling entry in an unlocked bucket whose next hit breaks CInv. The log-level replay lstep accepts the projection of every behaviour of the model (C07_cache_log_sim / trace_sim) and whatever it accepts has no dangling entry (C07_cache_log_inv / clog_inv). C07_term_* over coq/Mgr/ConcTerm.v (MTBDD: DynamicTerminalManager; state = terminal table keyed by value with counts + free chain + tokens of counted terminal edges held by threads / handles / stored nodes + cache buckets with the terminal ids of their weak operand and value edges + collector phase; actions get_terminal (find-or-insert by value), retain, drop, move, try_lock / add / lookup+clone / unlock, pre_gc bucket by bucket, per-terminal collection step, post_gc): the invariant XInv (ids and VALUES pairwise distinct, free chain disjoint, stored count = number of counted edges, every counted edge and every weak edge of every bucket names a stored terminal, buckets held by the collector are empty) is preserved by every action under every schedule from the empty manager (C07_term_step_inv / run_inv / reachable_inv / reachable_checks); a hit returns stored terminals with unchanged values, positive counts, owned by the thread (C07_term_hit_valid); the collector frees a terminal only in the sweep phase, with all buckets empty and locked and no counted edge to it (C07_term_gc_safe); a terminal named by a cache entry or owned by somebody keeps its value under every action (C07_term_value_stable), an entry that is neither overwritten nor cleared is hit with exactly the memoised terminals and values after any schedule (C07_term_entry_memo / hit_memo); REFUTED by a computed schedule: terminal collection after post_gc reaches a dangling weak edge in an unlocked bucket, the next hit hands out a freed slot resp. a terminal with another value (C07_term_refute_late_gc, _hit, _wrong_value; the schedule is impossible under the code\'s protocol). Tie to the code on every run, on the index-based manager build (all cases) and on the pointer-based manager build (--features cfg-pointer; every third history, every second hammer / gcstorm / stress case, ids ptr-*; the model is manager-agnostic: same reference-count convention stored = reported + 1, collector removes iff the stored count is 1, same hook sites): histories with 2-4 OS threads (plus the manager's worker pool: *MT function types with 1/2/4 workers) executing apply / ite / quantification / clone / drop and collections under the shared lock concurrently on one manager (BDD, BCDD, ZBDD), with seeded random yields/spins injected at the hook sites (level lock, apply cache get/add, retain/release, collector); (1) the logged table events are replayed by the extracted model step: no duplicate insertion, no stale hit, no dangling or ill-formed node, no collection of a referenced node, final table identical; (1b) the logged apply cache events are replayed by the extracted lstep/clstep: no insertion or hit in a bucket between its pre_gc lock and post_gc unlock, no removal by the collector unless ALL buckets are locked, post_gc unlocks exactly what pre_gc locked, every hit names stored nodes only and equals the entry written last; (2) every result's value table is compared with the sequential specification and all handles are audited for canonicity (same function => same edge, also across threads), well-formedness and exact reference counts on the snapshot after each block (extracted checkers of C01/C03/C05). C07m: MTBDD<I64> cases (index-based manager only; ids m*): 2-3 blocks of 3-4 threads recomputing ADD / SUB with a constant result (the cache entry's value edge is a terminal nobody else holds), operations with a just created and at once dropped constant operand (weak operand edge), short-lived constants (slot reuse), arithmetic on constants, ITE / RESTRICT / MIN / MAX / MUL / VAR, dropping three quarters of the results at once, while one thread runs collections for as long as they work, with seeded preemption of the collector inside pre_gc / post_gc (gcyield); kept results = pointwise I64 arithmetic of the operands' value tables (extracted Num/I64.v), snapshot after every block: wf, exact inner counts, canonicity, terminal table lifted by the extracted lift_terms and checked by tinv_b (no two slots with one value, no edge to a collected terminal), after gc exactly the referenced terminals remain and none after DROPALL; a crash / abort / hang of the harness in such a case is a violation. TDD cases (ids d*, both managers): churn blocks of three-valued operations next to a collecting thread, same replay and audits, results against the extracted three-valued tables (prop C11 of dd_main.ml).",
    "level_note": "PARTIAL by nature: the theorem is about the model's atomic actions; that the hooked regions of /repo are atomic (correctness of parking_lot mutexes, the hand-written RwLock and the cache's spin lock, Release/Acquire ordering on reference counts, rayon) is assumed, not verified, and data races below the granularity of the hooks cannot be exhibited: a broken bucket lock is only seen when the race actually happens in a run (the gcstorm cases make the collector take 1-2 buckets a few thousand times per case while 3 threads hammer them). The explored interleavings are those the OS scheduler plus the seeded perturbation produce (a search, not an enumeration): a replay re-runs the same case and seed but the interleaving may differ. The cache model's operator is opaque: 'memoised function' = the denotations of operand and value edges are unchanged between insertion and hit (any relation between them that held at insertion holds at the hit); it is not instantiated with the CacheOK predicate of the apply proofs (C02). The log does not contain the operator and numeric operands of an entry nor the cache contents at the start of a block (entries written before are 'unknown': their hits are only checked for dangling edges). Deadlock freedom is covered by the watchdog (a hang is a violation) and by the lock-order lemma of the model only. Direct-mapped cache only. C07m / C07t: the replay of the terminal manager's events uses the log-level projection ystep (table id |-> value hash and count, free chain, collector phase, increments owed per thread); the ownership tokens / holders / bucket locks of xstep (coq/Mgr/ConcTerm.v) are not in the log, xstep and xrun themselves stay proof-only (C07_term_log_sim / _trace_sim connect them to ystep); the value of a terminal is represented by the FxHasher hash the hook reports (a collision of two live values would be reported as a duplicate terminal; slot |-> value string of the snapshots is cross-checked against slot |-> hash); the implementation's terminal reference counts are still not readable through the public API: the replayed counts are the logged fetch_add / fetch_sub events, compared at every snapshot with handles + child edges; an increment is logged after and a decrement before the atomic operation, so the log order of two racing count changes of one terminal may differ from their real order (harmless for the rules checked: each needs a counted edge that is held across the operation); the model abstracts stored inner nodes to holders of counted edges and collects terminals one entry per step (the code holds the terminal manager's mutex for the whole scan: fewer behaviours). MTBDD exists for the index-based manager only; F64 terminals are not in the parallel cases. Pointer-based manager: the table events come from LevelViewSet::get_or_insert / LevelViewSet::gc / Manager::gc of that crate; Function::clone/drop and Edge::drop_inner report retain/release (perturbation sites only, not replayed); try_remove_node (reordering, exclusive lock) and the arcslab slot allocator are not hooked (the allocator is abstracted as 'the proposed slot is not in use', as for the index store). Trusted: Coq kernel, extraction, OCaml drivers, Rust harness, the hooks.",
}
# package C07t (trace replay for the dynamic terminal manager): coq/Mgr/ConcTermLog.v, ConcTermLogProofs.v, theorems C07_term_log_*
META["level_text"] += " C07t (C07_term_log_*, 18 theorems over coq/Mgr/ConcTermLog.v): ystep = the projection of xstep to what the terminal manager hooks log (terminal table id |-> value hash and count, free chain, collector phase, reference count increments owed per thread after a `found` / cache hit / iterator item); it accepts the log xlabs of every action of every holder and of the collector in every state satisfying XInv and ends in the projection of the next state (log_sim), hence the log of every schedule from a new manager of any capacity (log_trace_sim, log_reachable_accepted, log_init); whatever it accepts keeps ids and values pairwise distinct and the free chain disjoint (log_inv, log_run_inv, log_inv_checker); it accepts the scan and a removal only in the sweep phase and a removal only for a stored terminal without counted edge (log_scan, log_free), a `found` only of the id holding the value, a new id only if it heads the free chain, is unused and the value is not stored (log_found, log_new), a decrement and an unannounced increment only with a counted edge (log_retain, log_release); the snapshot comparison ymatch_b accepts every state of the model (log_match_proj) and a replayed table that passes it makes up, with the snapshot's handles and child edges as tokens, a state satisfying XInv (log_match_lift); log_example (a log through every label), log_refused (the logs of seeded C07e - terminal collection after post_gc began -, of a removal of a counted terminal, a `found` of a collected slot, a new id in use, a second slot for a value, clone / release without a counted edge and an iterator item without its increment are refused). Tie: the MTBDD cases m* carry tt=1: the harness logs the terminal manager's events for the whole case (inside the blocks in one total order with the table and cache events), ocaml/c07_main.ml replays them from Model.yinit on with the extracted ystep: every found / new decision, every count change, every removal and the phase of every terminal collection must be the model's (violation: prop=C07 inside a block, prop=C05 in the sequential parts), the replayed table replaces the 'terminal ids named by events count as stored' rule of C07m (so a get_or_insert child, a cache operand or value edge to a collected terminal is seen by the table / cache replay), and at every snapshot the replayed table must equal the lifted snapshot (ids, count = handles + child edges, slot |-> value against slot |-> hash); control logs corpus/C07/terminal-replay-controls.txt (n20..n28 rejected, p3 accepted) on every run."
# package GCTHREAD (collector protocol of the index-based manager): coq/Mgr/GcThread*.v, theorems C07_gcthread_* (C05_gcthread_* in coq/Props/C05.v)
META["level_text"] += " GCTHREAD (C07_gcthread_*, 8 theorems over coq/Mgr/GcThread.v: interleaving model of the collector thread, explicit gc() calls of application threads under the read or the write lock of the manager, gc_ongoing, the condition variable, handle drops; any number of threads, any schedule): in every reachable state at most one sweep is in progress over all threads, exactly when gc_ongoing is set (at_most_one_sweep); while the collector sweeps no application thread is inside a sweep and two application threads never are (coll_sweep_excludes_app, app_sweeps_exclusive); the sweeping collector holds the try-lock and a read lock, no writer exists (no reordering, no exclusive-lock gc) and gc_state is Triggered (coll_sweep_holds); an application thread sweeping under the read lock holds the try-lock and a read lock while no writer exists, under the write lock nobody else - the collector neither - is inside the manager (app_sweep_shared_holds, app_sweep_excl_holds); non-vacuity: a computed schedule through every action in which one thread sweeps while another thread and the collector fail to get gc_ongoing (example = all). Proof-only (the sweeps' mutual exclusion on the real code is what the C07 replay observes as non-overlapping collector phases); the trigger / reset / quit theorems and the observations on the real code are under C05 (checks/gcthreadcommon.py)."

ALLOWED_AXIOMS = ()
MODEL_VOS = ["Base/Conv.vo", "DD/Table.vo", "DD/TableExtra.vo", "Mgr/Conc.vo", "Mgr/ConcCache.vo", "Mgr/ConcTerm.vo", "Mgr/ConcTermLog.vo"]


def build(ctx):
    pid = ctx.pid
    binp_plain, drv_dd = ddcommon.build_dd(ctx)
    ctx.pid = "C07"
    try:
        drv_tr = vf.ocaml_build(ctx, "ExC07.v", "c07_main.ml", model_vos=MODEL_VOS)
    finally:
        ctx.pid = pid
    bins = vf.cargo_build(["h_dd"], hooks=True, target_sub="hooks")
    # C07p: the same harness on the POINTER-based manager (crates/oxidd-manager-pointer: own unique table code,
    # arcslab node store, node ids = addresses) with the hooks of the third hook commit
    bins_p = vf.cargo_build(["h_dd"], hooks=True, features=[POINTER_CFG], no_default=True, target_sub="hooks-" + POINTER_CFG)
    return {"index": bins["h_dd"], "pointer": bins_p["h_dd"]}, drv_dd, drv_tr


POINTER_CFG = "cfg-pointer"
PTR_PREFIX = "ptr-"       # case ids of the runs on the pointer-based manager


def pointer_sample(cases, thorough):
    """The cases that are run a second time on the pointer-based manager build (same scripts, same seeds):
    every third history, every second hammer / gcstorm / stress case."""
    out = []
    seen = {}
    for h, ops in cases:
        fam = h[0]
        if fam == "m":
            continue    # MTBDD: there is no dynamic terminal manager for the pointer-based manager (crates/oxidd/src/mtbdd.rs)
        n = seen.get(fam, 0)
        seen[fam] = n + 1
        if n % (3 if fam == "p" else 2) == 0:
            out.append((PTR_PREFIX + h, ops))
    return out


BOOL_OPS = ddgen.BIN_OPS


def gen_case(cid, kind, rng, thorough):
    nv = rng.randrange(4, 8)      # truth tables of the harness are u128: at most 7 variables
    pool = rng.randrange(6, 12)
    workers = rng.choice([1, 1, 2, 4])
    ops = [f"VARS {nv}"]
    for i in range(pool):
        ops.append(f"{rng.choice(['TT', 'TTI'])} h{i} {nv} {ddgen.rand_tt(rng, nv):x}")
    live = list(range(pool))
    nblocks = rng.randrange(2, 5)
    base = 100
    for b in range(nblocks):
        ops.append("SNAP")
        k = rng.randrange(2, 5)
        ops.append(f"PAR {k}")
        # a few computations are shared: several threads compute the same operation on the same operands
        shared = []
        for _ in range(rng.randrange(1, 4)):
            if kind != "zbdd" and rng.random() < 0.3:
                shared.append(("ITE", rng.choice(live), rng.choice(live), rng.choice(live)))
            else:
                shared.append((rng.choice(BOOL_OPS), rng.choice(live), rng.choice(live)))
        lines = [[] for _ in range(k)]
        new_live = []
        same = []  # groups of slots that must hold the same handle
        for si, sh in enumerate(shared):
            grp = []
            for t in rng.sample(range(k), rng.randrange(2, k + 1)):
                d = base; base += 1
                lines[t].append(" ".join([sh[0], f"h{d}"] + [f"h{x}" for x in sh[1:]]))
                grp.append(d); new_live.append((t, d))
            same.append(grp)
        churn = rng.random() < 0.5
        if churn:
            # churn block: the threads compute a small set of operations over and over, dropping each
            # result at once, while one thread collects continuously: results (and sub-results of the
            # recursion) are memoised, die, are collected and asked for again
            keys = []
            for _ in range(rng.randrange(3, 7)):
                if kind != "zbdd" and rng.random() < 0.3:
                    keys.append(("ITE", rng.choice(live), rng.choice(live), rng.choice(live)))
                else:
                    keys.append((rng.choice(BOOL_OPS), rng.choice(live), rng.choice(live)))
            for t in range(k - 1):
                rounds = rng.randrange(10, 30 if thorough else 22)
                for rd in range(rounds):
                    ky = rng.choice(keys)
                    d = base; base += 1
                    lines[t].append(" ".join([ky[0], f"h{d}"] + [f"h{x}" for x in ky[1:]]))
                    if rd < rounds - 3:
                        lines[t].append(f"DROP h{d}")
                    else:
                        new_live.append((t, d))
            lines[k - 1] += ["PGC"] * rng.randrange(10, 30)
        for t in range(k):
            if churn:
                break
            mine = [d for (tt, d) in new_live if tt == t]
            gc_thread = (t == k - 1 and rng.random() < 0.6)
            for _ in range(rng.randrange(3, 10 if thorough else 8)):
                r = rng.random()
                srcs = live + mine
                if gc_thread and r < 0.5:
                    lines[t].append("PGC")
                elif rng.random() < 0.22:
                    # the remaining operation families (restrict, apply-and-quantify, substitution with a
                    # substitution object made by the thread itself, ZBDD set operations, counting, cube picking)
                    d = base; base += 1
                    q = rng.random()
                    if kind == "zbdd":
                        if q < 0.45:
                            lines[t].append(f"{rng.choice(['UNION', 'INTSEC', 'DIFF'])} h{d} h{rng.choice(srcs)} h{rng.choice(srcs)}")
                        elif q < 0.7:
                            lines[t].append(f"{rng.choice(['SUBSET0', 'SUBSET1', 'CHANGE'])} h{d} h{rng.choice(srcs)} {rng.randrange(nv)}")
                        else:
                            pos = rng.randrange(1 << nv)
                            lines[t].append(f"RESTRICT h{d} h{rng.choice(srcs)} {pos} {rng.randrange(1 << nv) & ~pos}")
                        mine.append(d); new_live.append((t, d))
                    elif q < 0.3:
                        pos = rng.randrange(1 << nv)
                        lines[t].append(f"RESTRICT h{d} h{rng.choice(srcs)} {pos} {rng.randrange(1 << nv) & ~pos}")
                        mine.append(d); new_live.append((t, d))
                    elif q < 0.6:
                        lines[t].append(f"{rng.choice(['AEX', 'AFA', 'AUQ'])} {rng.choice(BOOL_OPS)} h{d} h{rng.choice(srcs)} h{rng.choice(srcs)} {rng.randrange(1 << nv)}")
                        mine.append(d); new_live.append((t, d))
                    elif q < 0.85:
                        sid = d      # a fresh id per substitution object (the driver resolves operations at the next snapshot)
                        vs = rng.sample(range(nv), rng.randrange(1, 3))
                        lines[t].append(f"MKSUBST {sid} " + " ".join(f"{v}=h{rng.choice(srcs)}" for v in vs))
                        lines[t].append(f"SUBST h{d} h{rng.choice(srcs)} {sid}")
                        mine.append(d); new_live.append((t, d))
                    else:
                        base -= 1
                        lines[t].append(rng.choice([f"SAT h{rng.choice(srcs)} {nv} nat", f"PICK h{rng.choice(srcs)} 0"]))
                elif r < 0.55:
                    d = base; base += 1
                    lines[t].append(f"{rng.choice(BOOL_OPS)} h{d} h{rng.choice(srcs)} h{rng.choice(srcs)}")
                    mine.append(d); new_live.append((t, d))
                elif r < 0.65:
                    d = base; base += 1
                    lines[t].append(f"NOT h{d} h{rng.choice(srcs)}")
                    mine.append(d); new_live.append((t, d))
                elif r < 0.75 and kind != "zbdd":
                    d = base; base += 1
                    lines[t].append(f"ITE h{d} h{rng.choice(srcs)} h{rng.choice(srcs)} h{rng.choice(srcs)}")
                    mine.append(d); new_live.append((t, d))
                elif r < 0.82 and kind != "zbdd":
                    d = base; base += 1
                    lines[t].append(f"{rng.choice(['EXISTS', 'FORALL', 'UNIQUE'])} h{d} h{rng.choice(srcs)} {rng.randrange(1 << nv)}")
                    mine.append(d); new_live.append((t, d))
                elif r < 0.88:
                    d = base; base += 1
                    lines[t].append(f"CLONE h{d} h{rng.choice(srcs)}")
                    mine.append(d); new_live.append((t, d))
                elif r < 0.96 and mine:
                    d = mine.pop(rng.randrange(len(mine)))
                    new_live = [(tt, x) for (tt, x) in new_live if x != d]
                    same = [[x for x in g if x != d] for g in same]
                    lines[t].append(f"{rng.choice(['DROP', 'DROPT'])} h{d}")
                else:
                    lines[t].append(f"NC h{rng.choice(srcs)}")
        # interleave the threads' lines in the script (order within a thread is what matters)
        idx = [0] * k
        remaining = sum(len(l) for l in lines)
        while remaining:
            t = rng.choice([i for i in range(k) if idx[i] < len(lines[i])])
            ops.append(f"T{t} {lines[t][idx[t]]}")
            idx[t] += 1
            remaining -= 1
        ops.append("ENDPAR")
        ops.append("SNAP")
        for g in same:
            for a, b2 in zip(g, g[1:]):
                ops.append(f"EQ h{a} h{b2}")
        live += [d for (_, d) in new_live]
        # sequential interlude: drop some, collect, re-derive
        rng.shuffle(live)
        while len(live) > 14:
            ops.append(f"DROP h{live.pop()}")
        if rng.random() < 0.7:
            ops.append("GC")
        ops.append("SNAP")
    ops += ["DROPALL", "GC", "SNAP"]
    hdr = ddgen.header(cid, kind, cap=1 << 16, cache=rng.choice([4, 64, 4096]), threads=workers,
                       extra=f"seed={rng.randrange(1 << 30)} yield={rng.choice([0, 50, 200, 500])}"
                             + rng.choice(["", "", " split=0", " split=2", " split=12"]))
    return (hdr, ops)


def gen_hammer(cid, kind, rng, thorough):
    """One long churn block on an apply cache with 1 or 2 buckets: every cache access of every thread and the
    collector's bucket locks meet on the same bucket(s), a collection runs almost all the time."""
    nv = rng.randrange(5, 8)
    pool = rng.randrange(5, 9)
    ops = [f"VARS {nv}"]
    for i in range(pool):
        ops.append(f"{rng.choice(['TT', 'TTI'])} h{i} {nv} {ddgen.rand_tt(rng, nv):x}")
    ops.append("SNAP")
    k = rng.randrange(3, 5)
    ops.append(f"PAR {k}")
    keys = [(rng.choice(BOOL_OPS), rng.randrange(pool), rng.randrange(pool)) for _ in range(rng.randrange(3, 7))]
    base = 100
    lines = [[] for _ in range(k)]
    keep = []
    for t in range(k - 1):
        rounds = rng.randrange(120, 400 if thorough else 260)
        for rd in range(rounds):
            o, a, b = rng.choice(keys)
            d = base; base += 1
            lines[t].append(f"{o} h{d} h{a} h{b}")
            if rd < rounds - 4:
                lines[t].append(f"DROP h{d}")
            else:
                keep.append(d)
    lines[k - 1] = ["PGC"] * rng.randrange(80, 200)
    idx = [0] * k
    remaining = sum(len(l) for l in lines)
    while remaining:
        t = rng.choice([i for i in range(k) if idx[i] < len(lines[i])])
        ops.append(f"T{t} {lines[t][idx[t]]}")
        idx[t] += 1
        remaining -= 1
    ops += ["ENDPAR", "SNAP", "DROPALL", "GC", "SNAP"]
    hdr = ddgen.header(cid, kind, cap=1 << 16, cache=rng.choice([1, 2]), threads=rng.choice([1, 2, 4]),
                       extra=f"seed={rng.randrange(1 << 30)} yield={rng.choice([0, 20, 100])}")
    return (hdr, ops)


def gen_gcstorm(cid, kind, rng, thorough):
    """Collector against the cache's bucket locks: 3 threads recompute a few operations over and over on an apply
    cache of 1 or 2 buckets while the fourth thread runs one collection after the other for as long as they work
    (`PGC <max>`): every `pre_gc` has to take buckets the workers are hammering with `try_lock` at that moment, a few
    thousand times per case."""
    nv = rng.randrange(5, 8)
    pool = rng.randrange(5, 9)
    ops = [f"VARS {nv}"]
    for i in range(pool):
        ops.append(f"{rng.choice(['TT', 'TTI'])} h{i} {nv} {ddgen.rand_tt(rng, nv):x}")
    ops.append("SNAP")
    k = 4
    ops.append(f"PAR {k}")
    keys = [(rng.choice(BOOL_OPS), rng.randrange(pool), rng.randrange(pool)) for _ in range(rng.randrange(3, 7))]
    base = 100
    lines = [[] for _ in range(k)]
    for t in range(k - 1):
        rounds = rng.randrange(200, 300)
        for rd in range(rounds):
            o, a, b = rng.choice(keys)
            d = base; base += 1
            lines[t].append(f"{o} h{d} h{a} h{b}")
            if rd < rounds - 4:
                lines[t].append(f"DROP h{d}")
    lines[k - 1] = ["PGC 3000"]
    idx = [0] * k
    remaining = sum(len(l) for l in lines)
    while remaining:
        t = rng.choice([i for i in range(k) if idx[i] < len(lines[i])])
        ops.append(f"T{t} {lines[t][idx[t]]}")
        idx[t] += 1
        remaining -= 1
    ops += ["ENDPAR", "SNAP", "DROPALL", "GC", "SNAP"]
    hdr = ddgen.header(cid, kind, cap=1 << 16, cache=rng.choice([1, 2]), threads=rng.choice([1, 2, 4]),
                       extra=f"seed={rng.randrange(1 << 30)} yield={rng.choice([0, 20, 100])}")
    return (hdr, ops)


def gen_stress(cid, kind, rng, thorough):
    """Free-running stress on larger diagrams (11..13 variables, functions built from random connectives): 6
    threads recompute short scripts over a shared pool while one thread collects continuously; the garbage is
    collected before the snapshot (the audits are quadratic in the number of stored nodes)."""
    nv = rng.randrange(11, 14)
    ops = [f"VARS {nv}"]
    for v in range(nv):
        ops.append(f"VAR h{v} {v}")
    pool = list(range(nv))
    nxt = nv
    for _ in range(40):
        ops.append(f"{rng.choice(['AND', 'OR', 'XOR', 'XOR', 'EQUIV', 'IMP'])} h{nxt} h{rng.choice(pool)} h{rng.choice(pool)}")
        pool.append(nxt); nxt += 1
    pool = pool[-24:]
    ops.append("GC")
    ops.append("SNAP")
    k = 7
    ops.append(f"PAR {k}")
    base = 1000
    lines = [[] for _ in range(k)]
    scripts = []
    for _ in range(10):
        scripts.append([(rng.choice(['AND', 'OR', 'XOR', 'IMP']), rng.choice(pool), rng.choice(pool)) for _ in range(3)])
    for t in range(k - 1):
        rounds = rng.randrange(25, 60 if thorough else 40)
        for rd in range(rounds):
            sc = rng.choice(scripts)
            d0 = base; base += 3
            lines[t].append(f"{sc[0][0]} h{d0} h{sc[0][1]} h{sc[0][2]}")
            lines[t].append(f"{sc[1][0]} h{d0 + 1} h{d0} h{sc[1][2]}")
            lines[t].append(f"{sc[2][0]} h{d0 + 2} h{d0 + 1} h{sc[2][1]}")
            lines[t].append(f"DROP h{d0}")
            lines[t].append(f"DROP h{d0 + 1}")
            if rd < rounds - 2:
                lines[t].append(f"DROP h{d0 + 2}")
    lines[k - 1] = ["PGC"] * rng.randrange(60, 150)
    idx = [0] * k
    remaining = sum(len(l) for l in lines)
    while remaining:
        t = rng.choice([i for i in range(k) if idx[i] < len(lines[i])])
        ops.append(f"T{t} {lines[t][idx[t]]}")
        idx[t] += 1
        remaining -= 1
    ops += ["ENDPAR", "GC", "SNAP", "DROPALL", "GC", "SNAP"]
    hdr = ddgen.header(cid, kind, cap=1 << 20, cache=rng.choice([64, 1024]), threads=rng.choice([2, 4, 8]),
                       extra=f"seed={rng.randrange(1 << 30)} yield={rng.choice([0, 10])}")
    return (hdr, ops)


def gen_mtbdd(cid, rng, thorough):
    """C07m: MTBDD<I64> -- the only kind whose terminals are reference counted and collected
    (`DynamicTerminalManager::gc` inside `Manager::gc`, between pre_gc and post_gc).  2-3 blocks; in each 3-4
    threads recompute, over and over, operations whose result or operand is a terminal that nobody else refers to,
    and drop most results at once, while one thread collects continuously:
      (A) ADD f g / SUB f g' with f + g = f - g' = c pointwise: the apply cache entry's VALUE edge is the terminal c,
      (B) CONSTN e v; <op> d f e; DROP e: the cache entry's OPERAND edge is the short-lived terminal v,
      (C) short-lived constants (slot reuse), (D) arithmetic on two constants (fresh terminal, no cache),
      (E) ITE / RESTRICT / MIN / MAX / VAR.
    About a quarter of the results is kept until the snapshot after the block and compared with the sequential
    specification (pointwise I64 arithmetic of the operands' value tables)."""
    nv = rng.randrange(2, 5)
    n = 1 << nv
    ops = [f"VARS {nv}"]
    for v in range(nv):
        ops.append(f"VAR h{v} {v}")
    nxt = nv
    consts = []
    for _ in range(rng.randrange(3, 6)):
        ops.append(f"CONSTN h{nxt} {rng.choice([2, 3, 5, -4, 7, 10, -1])}")
        consts.append(nxt); nxt += 1
    pairs = []       # (op, f, g): op f g is the constant c
    funs = []
    cbase = rng.randrange(1000, 9000)
    for i in range(rng.randrange(5, 10)):
        c = cbase + 13 * i
        vals = rng.sample(range(20000 + 40 * i, 20000 + 40 * i + 39), rng.randrange(2, min(n, 4) + 1))
        f = [rng.choice(vals) for _ in range(n)]
        f[0], f[-1] = vals[0], vals[1]          # not constant: an inner node, the operation goes through the cache
        o = rng.choice(["ADD", "ADD", "SUB"])
        g = [c - x for x in f] if o == "ADD" else [x - c for x in f]
        ops.append(f"VT h{nxt} {nv} " + " ".join(map(str, f)))
        ops.append(f"VT h{nxt + 1} {nv} " + " ".join(map(str, g)))
        pairs.append((o, nxt, nxt + 1)); funs += [nxt, nxt + 1]; nxt += 2
    base = 1000
    ops.append("SNAP")
    for blk in range(rng.randrange(2, 4)):
        k = rng.randrange(3, 5)
        collector = rng.random() < 0.85
        workers = k - 1 if collector else k
        lines = [[] for _ in range(k)]
        kept = []
        for t in range(workers):
            rounds = rng.randrange(150, 600 if thorough else 320)
            for rd in range(rounds):
                keep = rng.random() * rounds < 14     # about 14 results per thread, spread over the block
                r = rng.random()
                d = base; base += 2
                if r < 0.45:
                    o, f, g = rng.choice(pairs)
                    lines[t].append(f"{o} h{d} h{f} h{g}")
                    mine = [d]
                elif r < 0.75:
                    # values recur within and across the threads: the same key is asked for again and again
                    v = 1000000 + rng.randrange(24)
                    lines[t].append(f"CONSTN h{d + 1} {v}")
                    lines[t].append(f"{rng.choice(['ADD', 'ADD', 'MUL', 'SUB', 'MIN', 'MAX'])} h{d} h{rng.choice(funs)} h{d + 1}")
                    mine = [d, d + 1]
                elif r < 0.85:
                    lines[t].append(f"CONSTN h{d} {2000000 + rng.randrange(40)}")
                    mine = [d]
                elif r < 0.92:
                    a, b = rng.choice(consts), rng.choice(consts)
                    lines[t].append(f"{rng.choice(['ADD', 'MUL', 'SUB', 'MIN', 'MAX'])} h{d} h{a} h{b}")
                    mine = [d]
                else:
                    q = rng.random()
                    if q < 0.4:
                        lines[t].append(f"ITE h{d} h{rng.randrange(nv)} h{rng.choice(funs + consts)} h{rng.choice(funs + consts)}")
                    elif q < 0.7:
                        pos = rng.randrange(1 << nv)
                        neg = rng.randrange(1 << nv) & ~pos
                        lines[t].append(f"RESTRICT h{d} h{rng.choice(funs)} {pos} {neg}")
                    elif q < 0.9:
                        lines[t].append(f"{rng.choice(['MIN', 'MAX', 'MUL'])} h{d} h{rng.choice(funs)} h{rng.choice(funs)}")
                    else:
                        lines[t].append(f"VAR h{d} {rng.randrange(nv)}")
                    mine = [d]
                if keep:
                    kept += mine
                else:
                    for x in reversed(mine):
                        lines[t].append(f"DROP h{x}")
        if collector:
            lines[k - 1] = ["PGC 3000"]
        ops.append(f"PAR {k}")
        idx = [0] * k
        remaining = sum(len(l) for l in lines)
        while remaining:
            t = rng.choice([i for i in range(k) if idx[i] < len(lines[i])])
            ops.append(f"T{t} {lines[t][idx[t]]}")
            idx[t] += 1
            remaining -= 1
        ops += ["ENDPAR", "SNAP"]
        # sequential interlude: most of the kept results go, a collection, the terminal audit
        rng.shuffle(kept)
        for x in kept[8:]:
            ops.append(f"DROP h{x}")
        ops += ["GC", "SNAP"]
    ops += ["DROPALL", "GC", "SNAP"]
    hdr = ddgen.header(cid, "mtbdd", cap=1 << 16, cache=rng.choice([256, 1024, 1024, 4096]), threads=1,
                       extra=f"seed={rng.randrange(1 << 30)} yield={rng.choice([0, 20, 100])} gcyield={rng.choice([0, 2, 5, 10])}")
    # C07t: the terminal manager's events (get_edge, retain / release, gc, iterator) are logged for the whole case and
    # replayed by the extracted ystep of coq/Mgr/ConcTermLog.v
    return (hdr + " tt=1", ops)


T3_BIN = ["T3AND", "T3OR", "T3XOR", "T3EQUIV", "T3NAND", "T3NOR", "T3IMP", "T3IMPS"]


def gen_tdd(cid, rng, thorough):
    """C07m: TDD (ternary nodes, three static terminals): blocks in which 2-4 threads recompute a few three-valued
    operations over a shared pool (most results dropped at once, the last ones kept) while one thread collects;
    the kept results are compared with the extracted three-valued tables (dd_main.ml, prop C11) at the snapshot."""
    nv = rng.randrange(2, 5)
    ops = [f"VARS {nv}"]
    nxt = 0
    for v in range(nv):
        ops.append(f"T3VAR h{nxt} {v}"); nxt += 1
    for c in "fut":
        ops.append(f"T3CONST h{nxt} {c}"); nxt += 1
    pool = list(range(nxt))

    def rand_op(d, src):
        r = rng.random()
        if r < 0.12:
            return f"T3NOT h{d} h{rng.choice(src)}"
        if r < 0.3:
            return f"T3ITE h{d} h{rng.choice(src)} h{rng.choice(src)} h{rng.choice(src)}"
        return f"{rng.choice(T3_BIN)} h{d} h{rng.choice(src)} h{rng.choice(src)}"

    for _ in range(rng.randrange(6, 12)):
        ops.append(rand_op(nxt, pool)); pool.append(nxt); nxt += 1
    live = pool[nv + 3:] + pool[:nv]
    base = 1000
    for blk in range(rng.randrange(2, 4)):
        ops.append("SNAP")
        k = rng.randrange(3, 5)
        lines = [[] for _ in range(k)]
        keys = [rand_op(0, live).split(" ", 2) for _ in range(rng.randrange(3, 7))]     # [op, "h0", operands]
        kept = []
        for t in range(k - 1):
            rounds = rng.randrange(12, 60 if thorough else 36)
            for rd in range(rounds):
                o, _, rest = rng.choice(keys)
                d = base; base += 1
                lines[t].append(f"{o} h{d} {rest}")
                if rd < rounds - 3:
                    lines[t].append(f"DROP h{d}")
                else:
                    kept.append(d)
        lines[k - 1] = ["PGC"] * rng.randrange(10, 40)
        ops.append(f"PAR {k}")
        idx = [0] * k
        remaining = sum(len(l) for l in lines)
        while remaining:
            t = rng.choice([i for i in range(k) if idx[i] < len(lines[i])])
            ops.append(f"T{t} {lines[t][idx[t]]}")
            idx[t] += 1
            remaining -= 1
        ops += ["ENDPAR", "SNAP"]
        if nv <= 3:
            for x in kept[:3]:
                ops.append(f"T3EVAL h{x}")
        live += kept
        rng.shuffle(live)
        while len(live) > 12:
            ops.append(f"DROP h{live.pop()}")
        if rng.random() < 0.7:
            ops.append("GC")
    ops += ["SNAP", "DROPALL", "GC", "SNAP"]
    hdr = ddgen.header(cid, "tdd", cap=1 << 16, cache=rng.choice([4, 64, 4096]), threads=rng.choice([1, 2, 4]),
                       extra=f"seed={rng.randrange(1 << 30)} yield={rng.choice([0, 50, 200])}")
    return (hdr, ops)


def gen_cases(ctx):
    rng = random.Random(ctx.seed * 7919 + 7)
    thorough = ctx.tier == "thorough"
    cases = []
    cid = 0
    for kind in ("bdd", "bcdd", "zbdd"):
        for _ in range(1500 if thorough else 160):
            cases.append(gen_case(f"p{cid}", kind, rng, thorough)); cid += 1
        for _ in range(60 if thorough else 14):
            cases.append(gen_hammer(f"k{cid}", kind, rng, thorough)); cid += 1
        if kind != "zbdd":
            for _ in range(24 if thorough else 6):
                cases.append(gen_stress(f"s{cid}", kind, rng, thorough)); cid += 1
    # appended after the other families so that their cases do not depend on these
    for kind in ("bdd", "bcdd", "zbdd"):
        for _ in range(48 if thorough else 12):
            cases.append(gen_gcstorm(f"g{cid}", kind, rng, thorough)); cid += 1
    # C07m: MTBDD (dynamic, reference-counted terminals); index-based manager only
    for _ in range(200 if thorough else 40):
        cases.append(gen_mtbdd(f"m{cid}", rng, thorough)); cid += 1
    for _ in range(120 if thorough else 24):
        cases.append(gen_tdd(f"d{cid}", rng, thorough)); cid += 1
    return cases


# C10 / C11: the sequential specification of the MTBDD / TDD operations (C07m)
DD_PROPS = ["--props", "C01,C02,C03,C04,C05,C09,C12,C10,C11"]


def run_both(ctx, binp, drv_dd, drv_tr, cases, tag="", stat_prefix=""):
    """sharded: implementation trace -> DD driver verdicts + trace-replay verdicts"""
    from concurrent.futures import ThreadPoolExecutor
    nsh = max(1, min(8, len(cases)))     # 8 shards: every case runs several threads itself
    shards = [cases[i::nsh] for i in range(nsh)]
    props = DD_PROPS

    def one(k):
        f = os.path.join(ctx.workdir, f"cases{tag}-{k}.txt")
        vf.write_cases(f, shards[k])
        impl = os.path.join(ctx.workdir, f"impl{tag}-{k}.txt")
        restarts = vf.run_impl(binp, f, impl, timeout=1800, env={"VERIF_HANG_MS": os.environ.get("VERIF_HANG_MS", "20000")})
        ok1, bad1, st1 = vf.run_driver(drv_dd, impl, os.path.join(ctx.workdir, f"vd{tag}-{k}.txt"), args=props)
        ok2, bad2, st2 = vf.run_driver(drv_tr, impl, os.path.join(ctx.workdir, f"vt{tag}-{k}.txt"))
        return ok1, bad1, st1, ok2, bad2, st2, restarts, impl

    res = {"ok": 0, "bad_dd": [], "bad_tr": [], "impl": {}}
    with ThreadPoolExecutor(max_workers=nsh) as ex:
        for k, (ok1, bad1, st1, ok2, bad2, st2, restarts, impl) in enumerate(ex.map(one, range(nsh))):
            res["ok"] += min(ok1, ok2)
            res["bad_dd"] += bad1
            res["bad_tr"] += bad2
            for cid, _ in bad1 + bad2:
                res["impl"][cid] = impl
            for kk, v in st1.items():
                ctx.add_stat(stat_prefix + ("dd_" + kk if not kk.startswith(("chk_", "bad_", "op_")) else kk), v)
            for kk, v in st2.items():
                ctx.add_stat(stat_prefix + "trace_" + kk, v)
            ctx.add_stat(stat_prefix + "restarts", restarts)
    return res


def shrink_racy(ctx, binp, drv, dargs, header, ops, tries=4, budget=30):
    """C07m: ddmin over the op lines of a case whose failure depends on the interleaving: every candidate is run
    `tries` times (as `tries` copies of the case in one harness / driver invocation) and kept iff one of the copies
    fails with kind=prop.  Returns (ops, message) or (ops, None) if not even the full case fails again."""
    tmp = os.path.join(ctx.workdir, "shrink-racy.txt")
    rest = header.split(" ", 1)[1]

    def bad(cand):
        vf.write_cases(tmp, [(f"s{i} {rest}", cand) for i in range(tries)])
        try:
            vf.run_impl(binp, tmp, tmp + ".impl", timeout=600, env={"VERIF_HANG_MS": "20000"})
            _ok, bads, _st = vf.run_driver(drv, tmp + ".impl", tmp + ".verdicts", args=dargs)
        except Exception:
            return None
        for _c, m in bads:
            if "kind=prop" in m and not vf.RESOURCE_RE.search(m):
                return m
        return None

    def protect(o):
        return o.split()[0] in ("VARS", "PAR", "ENDPAR") or " PGC" in o

    cur = list(ops)
    cur_msg = bad(cur)
    if cur_msg is None:
        return ops, None
    n, runs = 2, 0
    while len(cur) >= 2 and runs < budget:
        chunk = max(1, len(cur) // n)
        reduced = False
        i = 0
        while i < len(cur) and runs < budget:
            cand = [o for j, o in enumerate(cur) if not (i <= j < i + chunk) or protect(o)]
            if len(cand) == len(cur):
                i += chunk
                continue
            runs += 1
            m = bad(cand)
            if m is not None:
                cur, cur_msg = cand, m
                n = max(n - 1, 2)
                reduced = True
            else:
                i += chunk
        if not reduced:
            if chunk == 1:
                break
            n = min(n * 2, len(cur))
    return cur, cur_msg


def case_trace(impl_file, cid):
    for h, ops in vf.parse_cases(open(impl_file).read()):
        if h.split()[0] == cid:
            return ops
    return []


def replay_controls(ctx, drv_tr):
    """The replay of the apply cache events must reject the hand-written protocol violations of
    corpus/C07/cache-protocol-controls.txt (cases n*) and accept the protocol-conforming log (p1); the end-state
    audit of the terminal table (C07m) must reject the snapshots of corpus/C07/terminal-audit-controls.txt (two slots
    with one value, handle / child edge to a terminal the manager does not list) and accept p2; the replay of the
    terminal manager's events (C07t) must reject the logs n20..n28 of corpus/C07/terminal-replay-controls.txt (removal of
    a counted terminal, `found` of a collected slot, new id in use, terminal collection after post_gc began, iterator
    item / hit without increment, inexact count at a snapshot, hit on a collected terminal, clone without a counted
    edge, second slot for a value) and accept p3."""
    for name in ("cache-protocol-controls.txt", "terminal-audit-controls.txt", "terminal-replay-controls.txt"):
        f = os.path.join(vf.ROOT, "corpus", "C07", name)
        ok, bad, _ = vf.run_driver(drv_tr, f, os.path.join(ctx.workdir, "controls-" + name))
        want_bad = {l.split()[1] for l in open(f) if l.startswith("CASE n")}
        got_bad = {c for c, m in bad if "kind=prop" in m}
        if ok != 1 or got_bad != want_bad or len(bad) != len(want_bad):
            raise vf.CheckFailure(f"the trace driver does not classify the control logs of corpus/C07/{name} as expected: ok={ok} bad={sorted(c for c, _ in bad)}")
        ctx.add_stat({"cache-protocol-controls.txt": "cache_protocol_controls_rejected", "terminal-audit-controls.txt": "terminal_audit_controls_rejected",
                      "terminal-replay-controls.txt": "terminal_replay_controls_rejected"}[name], len(got_bad))


def run(ctx):
    vf.proof_gate(ctx, ALLOWED_AXIOMS)
    bins, drv_dd, drv_tr = build(ctx)
    replay_controls(ctx, drv_tr)
    cases = gen_cases(ctx)
    pcases = pointer_sample(cases, ctx.tier == "thorough")
    by_id = {h.split()[0]: (h, ops) for h, ops in cases + pcases}
    bin_of = lambda cid: bins["pointer" if cid.startswith(PTR_PREFIX) else "index"]
    res = run_both(ctx, bins["index"], drv_dd, drv_tr, cases)
    res_p = run_both(ctx, bins["pointer"], drv_dd, drv_tr, pcases, tag="-ptr", stat_prefix="ptr_")
    res_index_ok = res["ok"]
    for key in ("bad_tr", "bad_dd"):
        res[key] = res[key] + res_p[key]
    res["impl"].update(res_p["impl"])
    res["ok"] += res_p["ok"]
    # the tie is vacuous if a build logs nothing (hook commit missing / flag not passed): machinery failure, not a pass
    for which, pre in (("index", ""), ("pointer", "ptr_")):
        for st in ("trace_ev_goi", "trace_chk_C07_table_after_block"):
            # (only if parallel blocks ran to their end: a build that crashes in every block is a verdict, reported below)
            if int(ctx.stats.get(pre + st, 0)) == 0 and int(ctx.stats.get(pre + "op_ENDPAR", 0)) > 0:
                raise vf.CheckFailure(f"the {which}-based manager build logged no {st[6:]} events: the cfg(oxidd_verif) hooks of /repo (hooks.json) are missing or inactive")
    # C07m: the MTBDD family is vacuous if no terminal table was audited after a block / no result was compared
    if any(h.startswith("m") for h, _ in cases) and not any(c.startswith("m") for c, _ in res["bad_tr"] + res["bad_dd"]):
        for st, what in (("trace_chk_C07_terminal_table_after_block", "no terminal table of an MTBDD case was audited after a parallel block"),
                         ("trace_ev_term_retain_in_blocks", "the log of the MTBDD cases holds no terminal manager event inside a parallel block: the cfg(oxidd_verif) terminal manager hooks of /repo (hooks.json) are missing or inactive"),
                         ("trace_chk_term_replay_vs_snapshot", "no replayed terminal table was compared with a snapshot"),
                         ("chk_C10", "no result of an MTBDD operation was compared with the sequential specification")):
            if int(ctx.stats.get(st, 0)) == 0:
                raise vf.CheckFailure(what + " (drivers out of date?)")
    # failures caused by the operating system refusing threads / memory are not verdicts: re-run those cases
    for attempt in range(3):
        rid = {cid for cid, m in res["bad_tr"] + res["bad_dd"] if vf.RESOURCE_RE.search(m)}
        if not rid:
            break
        ctx.add_stat("resource_failures_retried", len(rid))
        import time as _t
        _t.sleep(5 + 5 * attempt)
        for key in ("bad_tr", "bad_dd"):
            res[key] = [(c, m) for c, m in res[key] if c not in rid]
        for which in ("index", "pointer"):
            again = [by_id[c] for c in sorted(rid) if bin_of(c) == bins[which]]
            if not again:
                continue
            res2 = run_both(ctx, bins[which], drv_dd, drv_tr, again, tag=f"-resretry{attempt}-{which}", stat_prefix="retry_")
            for key in ("bad_tr", "bad_dd"):
                res[key] += res2[key]
            res["impl"].update(res2["impl"])
    if any(vf.RESOURCE_RE.search(m) for _, m in res["bad_tr"] + res["bad_dd"]):
        raise vf.CheckFailure("operating-system resources exhausted (threads / memory) while running the parallel cases; not a verdict")
    seen = set()
    for src, bads in (("trace", res["bad_tr"]), ("dd", res["bad_dd"])):
        for cid, msg in bads:
            cls = (src,) + ddcommon.msg_class(msg)
            if cls in seen or len(seen) >= 3:
                continue
            seen.add(cls)
            header, ops = by_id[cid]
            kind = "prop" if "kind=prop" in msg else "corr"
            trace = case_trace(res["impl"][cid], cid)
            events = [l for l in trace if l.startswith("EV ")]
            hk = " ".join(t for t in header.split()[1:] if t.split("=")[0] in ("kind", "threads", "seed", "yield"))
            mgr = "pointer" if cid.startswith(PTR_PREFIX) else "index"
            sig = f"{kind}:{src}:{cls[1]}:{cls[2]}:{hk}:manager={mgr}:case-{cid}"
            unshrunk = len(ops)
            fam = (cid[len(PTR_PREFIX):] if cid.startswith(PTR_PREFIX) else cid)[:1]
            if kind == "prop" and fam in ("m", "d"):
                # C07m: ddmin over the op lines (4 runs per candidate: a candidate is only kept if it failed again;
                # the failing interleaving need not recur, then the case stays as generated)
                try:
                    drv, dargs = (drv_tr, ()) if src == "trace" else (drv_dd, DD_PROPS)
                    sh_ops, sh_msg = shrink_racy(ctx, bin_of(cid), drv, dargs, header, ops)
                    if sh_msg is not None and len(sh_ops) < len(ops):
                        ops, msg = sh_ops, sh_msg
                except Exception as e:      # shrinking is best effort
                    vf.log(f"shrinking case {cid} failed: {e}")
            vf.report_violation(
                ctx, sig,
                {"stage": "correspondence", "kind": kind, "source": "trace replay (coq/Mgr/Conc.v step_tbl, coq/Mgr/ConcCache.v clstep)" if src == "trace" else "result / snapshot audit against the sequential specification",
                 "case_header": header, "ops": ops, "ops_before_shrinking": unshrunk, "verdict": msg, "manager": mgr,
                 "build": "h_dd, RUSTFLAGS=--cfg oxidd_verif, " + ("--no-default-features --features " + POINTER_CFG + " (oxidd-manager-pointer)" if mgr == "pointer" else "default features (oxidd-manager-index)"),
                 "logged_table_events_of_the_failing_run": events[:400],
                 "note": "the interleaving is chosen by the OS scheduler and the seeded perturbation; --replay re-runs this case (several times) with the same seed",
                 "replay_cmd": "./check C07 --replay <this file>",
                 "theorem_or_relation": "C07: coq/Props/C07.v (C07_run_inv, C07_conc_canonical, C07_erase_sim; apply cache: C07_cache_run_inv, C07_cache_trace_sim, C07_cache_clog_inv; terminals of MTBDDs: C07_term_run_inv, C07_term_gc_safe, C07_term_hit_memo, C07_term_lift_inv); driver relation named in the verdict"},
                nfif=(kind != "prop"))
    ctx.samples = [{"case": h, "ops": ops[:30] + (["..."] if len(ops) > 30 else [])} for h, ops in (cases[:1] + cases[-1:] + pcases[:1])]
    ctx.stats["cases"] = len(cases) + len(pcases)
    ctx.stats["cases_index_manager"] = len(cases)
    ctx.stats["cases_pointer_manager"] = len(pcases)
    ctx.stats["distinct_nontrivial"] = len({(h.split(" ", 1)[1], tuple(ops)) for h, ops in cases if any(o.startswith("PAR") for o in ops)})
    vf.write_evidence(
        ctx, "proof",
        rule="per kind (bdd, bcdd, zbdd): random histories with 2-4 parallel blocks, each executed by 2-4 OS threads (plus 1/2/4 pool workers) on one manager: apply, not, ite, quantification, clone, drop (also on another thread), node_count and collections under the shared lock; several threads compute the same operation on the same operands; churn blocks (a small set of operations recomputed and dropped over and over while one thread collects continuously); hammer cases (one long churn block, 120-260 rounds per thread against 80-200 collections, on an apply cache of 1 or 2 buckets); gcstorm cases (3 threads recompute a few operations 200-300 times each on a cache of 1 or 2 buckets while the fourth thread runs up to 3000 collections in a row for as long as they work); seeded yield/spin injection (0/5/20/50 percent) at the hook sites; sequential interludes with drops and gc. All cases run on the index-based manager build; every third history and every second hammer / gcstorm / stress case runs a second time (ids ptr-*) on the pointer-based manager build (--no-default-features --features cfg-pointer: node ids are addresses) with the same two replays and audits. C07m: 40 (thorough 200) MTBDD<I64> cases on the index-based manager (2-3 blocks, 3-4 threads, 150-320 rounds per thread of constant-result ADD/SUB, operations with short-lived constant operands, fresh constants, ITE/RESTRICT/MIN/MAX/MUL/VAR, one collecting thread, apply cache of 256/1024/4096 buckets, collector preempted inside pre_gc/post_gc with 0/2/5/10 permille per bucket) and 24 (thorough 120) TDD cases (churn blocks of three-valued operations, every second one also on the pointer-based manager). non-trivial = case with at least one parallel block; distinct = distinct (header, op list), counted once per script (not per manager)",
        checker_cmd="make -C coq Props/C07.vo (coqc 8.16.1) + Print Assumptions audit; ./check C07",
        extra_cov={"cases_ok": res["ok"], "cases_ok_index_manager": res_index_ok, "cases_ok_pointer_manager": res_p["ok"],
                   "cases_bad_trace_replay": len(res["bad_tr"]), "cases_bad_result_audit": len(res["bad_dd"]),
                   "pointer_manager_traces_validated_against_impl": int(ctx.stats.get("ptr_trace_par_blocks", 0)) - int(ctx.stats.get("ptr_trace_par_blocks_not_replayed", 0)),
                   "pointer_manager_logged_get_or_insert_events_replayed": int(ctx.stats.get("ptr_trace_ev_goi", 0)),
                   "pointer_manager_logged_collector_removals_replayed": int(ctx.stats.get("ptr_trace_ev_gc_remove", 0)),
                   "pointer_manager_logged_cache_insertions_replayed": int(ctx.stats.get("ptr_trace_ev_cache_add", 0)),
                   "pointer_manager_logged_cache_hits_replayed": int(ctx.stats.get("ptr_trace_ev_cache_hit", 0)),
                   "pointer_manager_logged_collections_with_cache_protocol_replayed": int(ctx.stats.get("ptr_trace_ev_cache_sweeps", 0)),
                   "traces_validated_against_impl": int(ctx.stats.get("trace_par_blocks", 0)) - int(ctx.stats.get("trace_par_blocks_not_replayed", 0)),
                   "logged_get_or_insert_events_replayed": int(ctx.stats.get("trace_ev_goi", 0)),
                   "logged_collector_removals_replayed": int(ctx.stats.get("trace_ev_gc_remove", 0)),
                   "logged_cache_insertions_replayed": int(ctx.stats.get("trace_ev_cache_add", 0)),
                   "logged_cache_hits_replayed": int(ctx.stats.get("trace_ev_cache_hit", 0)),
                   "logged_collections_with_cache_protocol_replayed": int(ctx.stats.get("trace_ev_cache_sweeps", 0)),
                   "logged_bucket_locks_by_pre_gc_replayed": int(ctx.stats.get("trace_ev_cache_buckets_locked", 0)),
                   "mtbdd_cases": sum(1 for h, _ in cases if h.startswith("m")),
                   "tdd_cases": sum(1 for h, _ in cases + pcases if h.startswith(("d", PTR_PREFIX + "d"))),
                   "mtbdd_terminal_tables_audited_after_blocks": int(ctx.stats.get("trace_chk_C07_terminal_table_after_block", 0)),
                   "mtbdd_terminal_tables_audited": int(ctx.stats.get("trace_chk_C07_terminal_table", 0)),
                   "mtbdd_terminals_audited": int(ctx.stats.get("trace_terminals_audited", 0)),
                   "mtbdd_results_compared_with_sequential_spec": int(ctx.stats.get("chk_C10", 0)),
                   "mtbdd_terminal_events_replayed_in_blocks": sum(int(ctx.stats.get("trace_ev_term_" + k + "_in_blocks", 0)) for k in ("get_found", "get_new", "get_oom", "retain", "release", "gc", "removed", "iter")),
                   "mtbdd_terminal_events_replayed": {k: int(ctx.stats.get("trace_ev_term_" + k, 0)) for k in ("get_found", "get_new", "get_oom", "retain", "retain_announced", "release", "gc", "removed", "iter", "hit_value_edges")},
                   "mtbdd_terminal_collections_replayed_in_blocks": int(ctx.stats.get("trace_ev_term_gc_in_blocks", 0)),
                   "mtbdd_replayed_terminal_tables_compared_with_snapshots": int(ctx.stats.get("trace_chk_term_replay_vs_snapshot", 0)),
                   "mtbdd_replayed_terminal_counts_compared": int(ctx.stats.get("trace_term_replay_terminals_compared", 0)),
                   "tdd_results_compared_with_sequential_spec": int(ctx.stats.get("chk_C11", 0)) + int(ctx.stats.get("ptr_chk_C11", 0)),
                   "tier": ctx.tier},
        assumptions=[
            "atomicity of the hooked regions of /repo (mutexes, the RwLock, atomics with Release/Acquire, rayon) is assumed; the model's actions are atomic by definition",
            "the explored schedules are those produced by the OS scheduler and the seeded perturbation at the hook sites; not an exhaustive enumeration",
            "hooks exist in the index-based manager, the pointer-based manager and the direct-mapped apply cache only (hooks.json: three add-only commits under cfg(oxidd_verif))",
            "the dynamic terminal manager (MTBDD) is hooked inside terminal_manager/dynamic.rs (hooks.json, fifth commit): its events are replayed by the extracted log-level projection ystep (coq/Mgr/ConcTermLog.v) of the interleaving model coq/Mgr/ConcTerm.v; xstep itself (ownership tokens, holders, bucket locks) stays proof-only",
        ])


def replay(ctx, path):
    bins, drv_dd, drv_tr = build(ctx)
    r = json.load(open(path))
    binp = bins["pointer" if r.get("manager") == "pointer" or r["case_header"].startswith(PTR_PREFIX) else "index"]
    bad_any = False
    for attempt in range(20):
        res = run_both(ctx, binp, drv_dd, drv_tr, [(r["case_header"], r["ops"])], tag=f"-replay{attempt}")
        for cid, msg in res["bad_tr"] + res["bad_dd"]:
            print(f"replay (attempt {attempt + 1}): case {cid}: {msg}")
            bad_any = True
        if bad_any:
            break
    if bad_any:
        vf.report_violation(ctx, "replay:" + r.get("signature", ""), r, nfif=False)
    else:
        print("replay: no divergence in 20 attempts (the failing interleaving did not recur)")
