"""C07 — concurrent and parallel execution is equivalent to sequential execution."""
import json
import os
import random
import vf
import ddgen
from checks import ddcommon

META = {
    "title": "operations issued concurrently return the sequential handles; diagram stays well-formed with exact counts; the apply cache never serves a dangling weak edge",
    "technique": "Rocq proof over a Gallina interleaving model of the concurrent unique table and reference counts (atomic actions get_or_insert / retain / release / move / collect-one-node of any number of threads; invariant = well-formed + per-level unique + exact counts, preserved by every action under every schedule; canonicity hence the same handle as a sequential run; collector removes only unowned, unreferenced nodes), extended by the apply cache (buckets with a lock bit and one entry of WEAK operand/value edges; try_lock / set / get+clone / unlock of the workers, pre_gc bucket by bucket / sweep / post_gc of the collector that runs under the shared lock): no dangling weak edge in any reachable state, a hit yields the memoised function, and the two broken protocol variants (empty buckets not kept locked; a lock() two parties can acquire) are refuted by computed witnesses; tie to the code: trace validation on BOTH manager implementations (index-based: crates/oxidd-manager-index; pointer-based: crates/oxidd-manager-pointer, own unique table / gc code, node ids = addresses) - the cfg(oxidd_verif) hooks of /repo log every get_or_insert, every collected node and every apply cache event (insertion, hit, per-bucket pre_gc lock and post_gc unlock, each reported with the bucket locked) inside parallel blocks run by several OS threads with seeded schedule perturbation, the log is replayed by the extracted step functions of the model and the manager's table after the block must equal the model's; results are compared with the sequential specification",
    "category": "proof",
    "design_ref": "DESIGN.md section 5, C07",
    "level_text": "Theorems (coq/Props/C07.v) over coq/Mgr/Conc.v: every action of every thread preserves the invariant CInv (keys distinct, node preconditions, per-level uniqueness, owned edges valid, reported count = owner tokens + parent edges), hence every state reachable under ANY interleaving is a well-formed snapshot with exact reference counts to which the canonicity theorems of C01 apply (two threads that build the same function hold the same edge = the handle of a sequential run); a node with a positive count keeps its level and children under every action of other threads and of the collector; the collector can only remove nodes without owner and parent; the table-only projection used for replay is simulated by the full model. C07_cache_* over coq/Mgr/ConcCache.v (apply cache of weak edges + collector phases, the code's protocol): the invariant KInv (CInv + every operand/value edge of every cache entry points to a stored node or terminal + buckets held by the collector are empty, locked and free of workers + one worker per bucket + exact lock bits) is preserved by every action of every thread and of the collector under every schedule; a hit returns valid edges, the thread owns them, and every edge of the entry denotes what it denoted when the entry was written (memoised function); whenever the collector removes a node all buckets are empty and locked; REFUTED by computed schedules: pre_gc skipping empty buckets, and a lock() that ignores the swapped value, both reach a dangling entry in an unlocked bucket whose next hit breaks CInv. The log-level replay lstep accepts the projection of every behaviour of the model (C07_cache_log_sim / trace_sim) and whatever it accepts has no dangling entry (C07_cache_log_inv / clog_inv). Tie to the code on every run, on the index-based manager build (all cases) and on the pointer-based manager build (--features cfg-pointer; every third history, every second hammer / gcstorm / stress case, ids ptr-*; the model is manager-agnostic: same reference-count convention stored = reported + 1, collector removes iff the stored count is 1, same hook sites): histories with 2-4 OS threads (plus the manager's worker pool: *MT function types with 1/2/4 workers) executing apply / ite / quantification / clone / drop and collections under the shared lock concurrently on one manager (BDD, BCDD, ZBDD), with seeded random yields/spins injected at the hook sites (level lock, apply cache get/add, retain/release, collector); (1) the logged table events are replayed by the extracted model step: no duplicate insertion, no stale hit, no dangling or ill-formed node, no collection of a referenced node, final table identical; (1b) the logged apply cache events are replayed by the extracted lstep/clstep: no insertion or hit in a bucket between its pre_gc lock and post_gc unlock, no removal by the collector unless ALL buckets are locked, post_gc unlocks exactly what pre_gc locked, every hit names stored nodes only and equals the entry written last; (2) every result's value table is compared with the sequential specification and all handles are audited for canonicity (same function => same edge, also across threads), well-formedness and exact reference counts on the snapshot after each block (extracted checkers of C01/C03/C05).",
    "level_note": "PARTIAL by nature: the theorem is about the model's atomic actions; that the hooked regions of /repo are atomic (correctness of parking_lot mutexes, the hand-written RwLock and the cache's spin lock, Release/Acquire ordering on reference counts, rayon) is assumed, not verified, and data races below the granularity of the hooks cannot be exhibited: a broken bucket lock is only seen when the race actually happens in a run (the gcstorm cases make the collector take 1-2 buckets a few thousand times per case while 3 threads hammer them). The explored interleavings are those the OS scheduler plus the seeded perturbation produce (a search, not an enumeration): a replay re-runs the same case and seed but the interleaving may differ. The cache model's operator is opaque: 'memoised function' = the denotations of operand and value edges are unchanged between insertion and hit (any relation between them that held at insertion holds at the hit); it is not instantiated with the CacheOK predicate of the apply proofs (C02). The log does not contain the operator and numeric operands of an entry nor the cache contents at the start of a block (entries written before are 'unknown': their hits are only checked for dangling edges). Deadlock freedom is covered by the watchdog (a hang is a violation) and by the lock-order lemma of the model only. Direct-mapped cache only. Pointer-based manager: the table events come from LevelViewSet::get_or_insert / LevelViewSet::gc / Manager::gc of that crate; Function::clone/drop and Edge::drop_inner report retain/release (perturbation sites only, not replayed); try_remove_node (reordering, exclusive lock) and the arcslab slot allocator are not hooked (the allocator is abstracted as 'the proposed slot is not in use', as for the index store). Trusted: Coq kernel, extraction, OCaml drivers, Rust harness, the hooks.",
}
ALLOWED_AXIOMS = ()
MODEL_VOS = ["Base/Conv.vo", "DD/Table.vo", "DD/TableExtra.vo", "Mgr/Conc.vo", "Mgr/ConcCache.vo"]


def build(ctx):
    pid = ctx.pid
    binp_plain, drv_dd = ddcommon.build_dd(ctx)
    ctx.pid = "C07"
    try:
        drv_tr = vf.ocaml_build(ctx, "ExC07.v", "c07_main.ml", model_vos=MODEL_VOS)
    finally:
        ctx.pid = pid
    bins = vf.cargo_build(["h_dd"], hooks=True, target_sub="hooks")
    # C07p: the same harness on the POINTER-based manager (crates/oxidd-manager-pointer: own unique table code,
    # arcslab node store, node ids = addresses) with the hooks of the third hook commit
    bins_p = vf.cargo_build(["h_dd"], hooks=True, features=[POINTER_CFG], no_default=True, target_sub="hooks-" + POINTER_CFG)
    return {"index": bins["h_dd"], "pointer": bins_p["h_dd"]}, drv_dd, drv_tr


POINTER_CFG = "cfg-pointer"
PTR_PREFIX = "ptr-"       # case ids of the runs on the pointer-based manager


def pointer_sample(cases, thorough):
    """The cases that are run a second time on the pointer-based manager build (same scripts, same seeds):
    every third history, every second hammer / gcstorm / stress case."""
    out = []
    seen = {}
    for h, ops in cases:
        fam = h[0]
        n = seen.get(fam, 0)
        seen[fam] = n + 1
        if n % (3 if fam == "p" else 2) == 0:
            out.append((PTR_PREFIX + h, ops))
    return out


BOOL_OPS = ddgen.BIN_OPS


def gen_case(cid, kind, rng, thorough):
    nv = rng.randrange(4, 8)      # truth tables of the harness are u128: at most 7 variables
    pool = rng.randrange(6, 12)
    workers = rng.choice([1, 1, 2, 4])
    ops = [f"VARS {nv}"]
    for i in range(pool):
        ops.append(f"{rng.choice(['TT', 'TTI'])} h{i} {nv} {ddgen.rand_tt(rng, nv):x}")
    live = list(range(pool))
    nblocks = rng.randrange(2, 5)
    base = 100
    for b in range(nblocks):
        ops.append("SNAP")
        k = rng.randrange(2, 5)
        ops.append(f"PAR {k}")
        # a few computations are shared: several threads compute the same operation on the same operands
        shared = []
        for _ in range(rng.randrange(1, 4)):
            if kind != "zbdd" and rng.random() < 0.3:
                shared.append(("ITE", rng.choice(live), rng.choice(live), rng.choice(live)))
            else:
                shared.append((rng.choice(BOOL_OPS), rng.choice(live), rng.choice(live)))
        lines = [[] for _ in range(k)]
        new_live = []
        same = []  # groups of slots that must hold the same handle
        for si, sh in enumerate(shared):
            grp = []
            for t in rng.sample(range(k), rng.randrange(2, k + 1)):
                d = base; base += 1
                lines[t].append(" ".join([sh[0], f"h{d}"] + [f"h{x}" for x in sh[1:]]))
                grp.append(d); new_live.append((t, d))
            same.append(grp)
        churn = rng.random() < 0.5
        if churn:
            # churn block: the threads compute a small set of operations over and over, dropping each
            # result at once, while one thread collects continuously: results (and sub-results of the
            # recursion) are memoised, die, are collected and asked for again
            keys = []
            for _ in range(rng.randrange(3, 7)):
                if kind != "zbdd" and rng.random() < 0.3:
                    keys.append(("ITE", rng.choice(live), rng.choice(live), rng.choice(live)))
                else:
                    keys.append((rng.choice(BOOL_OPS), rng.choice(live), rng.choice(live)))
            for t in range(k - 1):
                rounds = rng.randrange(10, 30 if thorough else 22)
                for rd in range(rounds):
                    ky = rng.choice(keys)
                    d = base; base += 1
                    lines[t].append(" ".join([ky[0], f"h{d}"] + [f"h{x}" for x in ky[1:]]))
                    if rd < rounds - 3:
                        lines[t].append(f"DROP h{d}")
                    else:
                        new_live.append((t, d))
            lines[k - 1] += ["PGC"] * rng.randrange(10, 30)
        for t in range(k):
            if churn:
                break
            mine = [d for (tt, d) in new_live if tt == t]
            gc_thread = (t == k - 1 and rng.random() < 0.6)
            for _ in range(rng.randrange(3, 10 if thorough else 8)):
                r = rng.random()
                srcs = live + mine
                if gc_thread and r < 0.5:
                    lines[t].append("PGC")
                elif r < 0.55:
                    d = base; base += 1
                    lines[t].append(f"{rng.choice(BOOL_OPS)} h{d} h{rng.choice(srcs)} h{rng.choice(srcs)}")
                    mine.append(d); new_live.append((t, d))
                elif r < 0.65:
                    d = base; base += 1
                    lines[t].append(f"NOT h{d} h{rng.choice(srcs)}")
                    mine.append(d); new_live.append((t, d))
                elif r < 0.75 and kind != "zbdd":
                    d = base; base += 1
                    lines[t].append(f"ITE h{d} h{rng.choice(srcs)} h{rng.choice(srcs)} h{rng.choice(srcs)}")
                    mine.append(d); new_live.append((t, d))
                elif r < 0.82 and kind != "zbdd":
                    d = base; base += 1
                    lines[t].append(f"{rng.choice(['EXISTS', 'FORALL', 'UNIQUE'])} h{d} h{rng.choice(srcs)} {rng.randrange(1 << nv)}")
                    mine.append(d); new_live.append((t, d))
                elif r < 0.88:
                    d = base; base += 1
                    lines[t].append(f"CLONE h{d} h{rng.choice(srcs)}")
                    mine.append(d); new_live.append((t, d))
                elif r < 0.96 and mine:
                    d = mine.pop(rng.randrange(len(mine)))
                    new_live = [(tt, x) for (tt, x) in new_live if x != d]
                    same = [[x for x in g if x != d] for g in same]
                    lines[t].append(f"{rng.choice(['DROP', 'DROPT'])} h{d}")
                else:
                    lines[t].append(f"NC h{rng.choice(srcs)}")
        # interleave the threads' lines in the script (order within a thread is what matters)
        idx = [0] * k
        remaining = sum(len(l) for l in lines)
        while remaining:
            t = rng.choice([i for i in range(k) if idx[i] < len(lines[i])])
            ops.append(f"T{t} {lines[t][idx[t]]}")
            idx[t] += 1
            remaining -= 1
        ops.append("ENDPAR")
        ops.append("SNAP")
        for g in same:
            for a, b2 in zip(g, g[1:]):
                ops.append(f"EQ h{a} h{b2}")
        live += [d for (_, d) in new_live]
        # sequential interlude: drop some, collect, re-derive
        rng.shuffle(live)
        while len(live) > 14:
            ops.append(f"DROP h{live.pop()}")
        if rng.random() < 0.7:
            ops.append("GC")
        ops.append("SNAP")
    ops += ["DROPALL", "GC", "SNAP"]
    hdr = ddgen.header(cid, kind, cap=1 << 16, cache=rng.choice([4, 64, 4096]), threads=workers,
                       extra=f"seed={rng.randrange(1 << 30)} yield={rng.choice([0, 50, 200, 500])}")
    return (hdr, ops)


def gen_hammer(cid, kind, rng, thorough):
    """One long churn block on an apply cache with 1 or 2 buckets: every cache access of every thread and the
    collector's bucket locks meet on the same bucket(s), a collection runs almost all the time."""
    nv = rng.randrange(5, 8)
    pool = rng.randrange(5, 9)
    ops = [f"VARS {nv}"]
    for i in range(pool):
        ops.append(f"{rng.choice(['TT', 'TTI'])} h{i} {nv} {ddgen.rand_tt(rng, nv):x}")
    ops.append("SNAP")
    k = rng.randrange(3, 5)
    ops.append(f"PAR {k}")
    keys = [(rng.choice(BOOL_OPS), rng.randrange(pool), rng.randrange(pool)) for _ in range(rng.randrange(3, 7))]
    base = 100
    lines = [[] for _ in range(k)]
    keep = []
    for t in range(k - 1):
        rounds = rng.randrange(120, 400 if thorough else 260)
        for rd in range(rounds):
            o, a, b = rng.choice(keys)
            d = base; base += 1
            lines[t].append(f"{o} h{d} h{a} h{b}")
            if rd < rounds - 4:
                lines[t].append(f"DROP h{d}")
            else:
                keep.append(d)
    lines[k - 1] = ["PGC"] * rng.randrange(80, 200)
    idx = [0] * k
    remaining = sum(len(l) for l in lines)
    while remaining:
        t = rng.choice([i for i in range(k) if idx[i] < len(lines[i])])
        ops.append(f"T{t} {lines[t][idx[t]]}")
        idx[t] += 1
        remaining -= 1
    ops += ["ENDPAR", "SNAP", "DROPALL", "GC", "SNAP"]
    hdr = ddgen.header(cid, kind, cap=1 << 16, cache=rng.choice([1, 2]), threads=rng.choice([1, 2, 4]),
                       extra=f"seed={rng.randrange(1 << 30)} yield={rng.choice([0, 20, 100])}")
    return (hdr, ops)


def gen_gcstorm(cid, kind, rng, thorough):
    """Collector against the cache's bucket locks: 3 threads recompute a few operations over and over on an apply
    cache of 1 or 2 buckets while the fourth thread runs one collection after the other for as long as they work
    (`PGC <max>`): every `pre_gc` has to take buckets the workers are hammering with `try_lock` at that moment, a few
    thousand times per case."""
    nv = rng.randrange(5, 8)
    pool = rng.randrange(5, 9)
    ops = [f"VARS {nv}"]
    for i in range(pool):
        ops.append(f"{rng.choice(['TT', 'TTI'])} h{i} {nv} {ddgen.rand_tt(rng, nv):x}")
    ops.append("SNAP")
    k = 4
    ops.append(f"PAR {k}")
    keys = [(rng.choice(BOOL_OPS), rng.randrange(pool), rng.randrange(pool)) for _ in range(rng.randrange(3, 7))]
    base = 100
    lines = [[] for _ in range(k)]
    for t in range(k - 1):
        rounds = rng.randrange(200, 300)
        for rd in range(rounds):
            o, a, b = rng.choice(keys)
            d = base; base += 1
            lines[t].append(f"{o} h{d} h{a} h{b}")
            if rd < rounds - 4:
                lines[t].append(f"DROP h{d}")
    lines[k - 1] = ["PGC 3000"]
    idx = [0] * k
    remaining = sum(len(l) for l in lines)
    while remaining:
        t = rng.choice([i for i in range(k) if idx[i] < len(lines[i])])
        ops.append(f"T{t} {lines[t][idx[t]]}")
        idx[t] += 1
        remaining -= 1
    ops += ["ENDPAR", "SNAP", "DROPALL", "GC", "SNAP"]
    hdr = ddgen.header(cid, kind, cap=1 << 16, cache=rng.choice([1, 2]), threads=rng.choice([1, 2, 4]),
                       extra=f"seed={rng.randrange(1 << 30)} yield={rng.choice([0, 20, 100])}")
    return (hdr, ops)


def gen_stress(cid, kind, rng, thorough):
    """Free-running stress on larger diagrams (11..13 variables, functions built from random connectives): 6
    threads recompute short scripts over a shared pool while one thread collects continuously; the garbage is
    collected before the snapshot (the audits are quadratic in the number of stored nodes)."""
    nv = rng.randrange(11, 14)
    ops = [f"VARS {nv}"]
    for v in range(nv):
        ops.append(f"VAR h{v} {v}")
    pool = list(range(nv))
    nxt = nv
    for _ in range(40):
        ops.append(f"{rng.choice(['AND', 'OR', 'XOR', 'XOR', 'EQUIV', 'IMP'])} h{nxt} h{rng.choice(pool)} h{rng.choice(pool)}")
        pool.append(nxt); nxt += 1
    pool = pool[-24:]
    ops.append("GC")
    ops.append("SNAP")
    k = 7
    ops.append(f"PAR {k}")
    base = 1000
    lines = [[] for _ in range(k)]
    scripts = []
    for _ in range(10):
        scripts.append([(rng.choice(['AND', 'OR', 'XOR', 'IMP']), rng.choice(pool), rng.choice(pool)) for _ in range(3)])
    for t in range(k - 1):
        rounds = rng.randrange(25, 60 if thorough else 40)
        for rd in range(rounds):
            sc = rng.choice(scripts)
            d0 = base; base += 3
            lines[t].append(f"{sc[0][0]} h{d0} h{sc[0][1]} h{sc[0][2]}")
            lines[t].append(f"{sc[1][0]} h{d0 + 1} h{d0} h{sc[1][2]}")
            lines[t].append(f"{sc[2][0]} h{d0 + 2} h{d0 + 1} h{sc[2][1]}")
            lines[t].append(f"DROP h{d0}")
            lines[t].append(f"DROP h{d0 + 1}")
            if rd < rounds - 2:
                lines[t].append(f"DROP h{d0 + 2}")
    lines[k - 1] = ["PGC"] * rng.randrange(60, 150)
    idx = [0] * k
    remaining = sum(len(l) for l in lines)
    while remaining:
        t = rng.choice([i for i in range(k) if idx[i] < len(lines[i])])
        ops.append(f"T{t} {lines[t][idx[t]]}")
        idx[t] += 1
        remaining -= 1
    ops += ["ENDPAR", "GC", "SNAP", "DROPALL", "GC", "SNAP"]
    hdr = ddgen.header(cid, kind, cap=1 << 20, cache=rng.choice([64, 1024]), threads=rng.choice([2, 4, 8]),
                       extra=f"seed={rng.randrange(1 << 30)} yield={rng.choice([0, 10])}")
    return (hdr, ops)


def gen_cases(ctx):
    rng = random.Random(ctx.seed * 7919 + 7)
    thorough = ctx.tier == "thorough"
    cases = []
    cid = 0
    for kind in ("bdd", "bcdd", "zbdd"):
        for _ in range(1500 if thorough else 160):
            cases.append(gen_case(f"p{cid}", kind, rng, thorough)); cid += 1
        for _ in range(60 if thorough else 14):
            cases.append(gen_hammer(f"k{cid}", kind, rng, thorough)); cid += 1
        if kind != "zbdd":
            for _ in range(24 if thorough else 6):
                cases.append(gen_stress(f"s{cid}", kind, rng, thorough)); cid += 1
    # appended after the other families so that their cases do not depend on these
    for kind in ("bdd", "bcdd", "zbdd"):
        for _ in range(48 if thorough else 12):
            cases.append(gen_gcstorm(f"g{cid}", kind, rng, thorough)); cid += 1
    return cases


def run_both(ctx, binp, drv_dd, drv_tr, cases, tag="", stat_prefix=""):
    """sharded: implementation trace -> DD driver verdicts + trace-replay verdicts"""
    from concurrent.futures import ThreadPoolExecutor
    nsh = max(1, min(8, len(cases)))     # 8 shards: every case runs several threads itself
    shards = [cases[i::nsh] for i in range(nsh)]
    props = ["--props", "C01,C02,C03,C04,C05,C09,C12"]

    def one(k):
        f = os.path.join(ctx.workdir, f"cases{tag}-{k}.txt")
        vf.write_cases(f, shards[k])
        impl = os.path.join(ctx.workdir, f"impl{tag}-{k}.txt")
        restarts = vf.run_impl(binp, f, impl, timeout=1800, env={"VERIF_HANG_MS": os.environ.get("VERIF_HANG_MS", "20000")})
        ok1, bad1, st1 = vf.run_driver(drv_dd, impl, os.path.join(ctx.workdir, f"vd{tag}-{k}.txt"), args=props)
        ok2, bad2, st2 = vf.run_driver(drv_tr, impl, os.path.join(ctx.workdir, f"vt{tag}-{k}.txt"))
        return ok1, bad1, st1, ok2, bad2, st2, restarts, impl

    res = {"ok": 0, "bad_dd": [], "bad_tr": [], "impl": {}}
    with ThreadPoolExecutor(max_workers=nsh) as ex:
        for k, (ok1, bad1, st1, ok2, bad2, st2, restarts, impl) in enumerate(ex.map(one, range(nsh))):
            res["ok"] += min(ok1, ok2)
            res["bad_dd"] += bad1
            res["bad_tr"] += bad2
            for cid, _ in bad1 + bad2:
                res["impl"][cid] = impl
            for kk, v in st1.items():
                ctx.add_stat(stat_prefix + ("dd_" + kk if not kk.startswith(("chk_", "bad_", "op_")) else kk), v)
            for kk, v in st2.items():
                ctx.add_stat(stat_prefix + "trace_" + kk, v)
            ctx.add_stat(stat_prefix + "restarts", restarts)
    return res


def case_trace(impl_file, cid):
    for h, ops in vf.parse_cases(open(impl_file).read()):
        if h.split()[0] == cid:
            return ops
    return []


def replay_controls(ctx, drv_tr):
    """The replay of the apply cache events must reject the hand-written protocol violations of
    corpus/C07/cache-protocol-controls.txt (cases n*) and accept the protocol-conforming log (p1)."""
    f = os.path.join(vf.ROOT, "corpus", "C07", "cache-protocol-controls.txt")
    ok, bad, _ = vf.run_driver(drv_tr, f, os.path.join(ctx.workdir, "controls.txt"))
    want_bad = {l.split()[1] for l in open(f) if l.startswith("CASE n")}
    got_bad = {c for c, m in bad if "kind=prop" in m}
    if ok != 1 or got_bad != want_bad or len(bad) != len(want_bad):
        raise vf.CheckFailure(f"the cache protocol replay does not classify its control logs as expected: ok={ok} bad={sorted(c for c, _ in bad)}")
    ctx.add_stat("cache_protocol_controls_rejected", len(got_bad))


def run(ctx):
    vf.proof_gate(ctx, ALLOWED_AXIOMS)
    bins, drv_dd, drv_tr = build(ctx)
    replay_controls(ctx, drv_tr)
    cases = gen_cases(ctx)
    pcases = pointer_sample(cases, ctx.tier == "thorough")
    by_id = {h.split()[0]: (h, ops) for h, ops in cases + pcases}
    bin_of = lambda cid: bins["pointer" if cid.startswith(PTR_PREFIX) else "index"]
    res = run_both(ctx, bins["index"], drv_dd, drv_tr, cases)
    res_p = run_both(ctx, bins["pointer"], drv_dd, drv_tr, pcases, tag="-ptr", stat_prefix="ptr_")
    res_index_ok = res["ok"]
    for key in ("bad_tr", "bad_dd"):
        res[key] = res[key] + res_p[key]
    res["impl"].update(res_p["impl"])
    res["ok"] += res_p["ok"]
    # the tie is vacuous if a build logs nothing (hook commit missing / flag not passed): machinery failure, not a pass
    for which, pre in (("index", ""), ("pointer", "ptr_")):
        for st in ("trace_ev_goi", "trace_chk_C07_table_after_block"):
            # (only if parallel blocks ran to their end: a build that crashes in every block is a verdict, reported below)
            if int(ctx.stats.get(pre + st, 0)) == 0 and int(ctx.stats.get(pre + "op_ENDPAR", 0)) > 0:
                raise vf.CheckFailure(f"the {which}-based manager build logged no {st[6:]} events: the cfg(oxidd_verif) hooks of /repo (hooks.json) are missing or inactive")
    # failures caused by the operating system refusing threads / memory are not verdicts: re-run those cases
    for attempt in range(3):
        rid = {cid for cid, m in res["bad_tr"] + res["bad_dd"] if vf.RESOURCE_RE.search(m)}
        if not rid:
            break
        ctx.add_stat("resource_failures_retried", len(rid))
        import time as _t
        _t.sleep(5 + 5 * attempt)
        for key in ("bad_tr", "bad_dd"):
            res[key] = [(c, m) for c, m in res[key] if c not in rid]
        for which in ("index", "pointer"):
            again = [by_id[c] for c in sorted(rid) if bin_of(c) == bins[which]]
            if not again:
                continue
            res2 = run_both(ctx, bins[which], drv_dd, drv_tr, again, tag=f"-resretry{attempt}-{which}", stat_prefix="retry_")
            for key in ("bad_tr", "bad_dd"):
                res[key] += res2[key]
            res["impl"].update(res2["impl"])
    if any(vf.RESOURCE_RE.search(m) for _, m in res["bad_tr"] + res["bad_dd"]):
        raise vf.CheckFailure("operating-system resources exhausted (threads / memory) while running the parallel cases; not a verdict")
    seen = set()
    for src, bads in (("trace", res["bad_tr"]), ("dd", res["bad_dd"])):
        for cid, msg in bads:
            cls = (src,) + ddcommon.msg_class(msg)
            if cls in seen or len(seen) >= 3:
                continue
            seen.add(cls)
            header, ops = by_id[cid]
            kind = "prop" if "kind=prop" in msg else "corr"
            trace = case_trace(res["impl"][cid], cid)
            events = [l for l in trace if l.startswith("EV ")]
            hk = " ".join(t for t in header.split()[1:] if t.split("=")[0] in ("kind", "threads", "seed", "yield"))
            mgr = "pointer" if cid.startswith(PTR_PREFIX) else "index"
            sig = f"{kind}:{src}:{cls[1]}:{cls[2]}:{hk}:manager={mgr}:case-{cid}"
            vf.report_violation(
                ctx, sig,
                {"stage": "correspondence", "kind": kind, "source": "trace replay (coq/Mgr/Conc.v step_tbl, coq/Mgr/ConcCache.v clstep)" if src == "trace" else "result / snapshot audit against the sequential specification",
                 "case_header": header, "ops": ops, "verdict": msg, "manager": mgr,
                 "build": "h_dd, RUSTFLAGS=--cfg oxidd_verif, " + ("--no-default-features --features " + POINTER_CFG + " (oxidd-manager-pointer)" if mgr == "pointer" else "default features (oxidd-manager-index)"),
                 "logged_table_events_of_the_failing_run": events[:400],
                 "note": "the interleaving is chosen by the OS scheduler and the seeded perturbation; --replay re-runs this case (several times) with the same seed",
                 "replay_cmd": "./check C07 --replay <this file>",
                 "theorem_or_relation": "C07: coq/Props/C07.v (C07_run_inv, C07_conc_canonical, C07_erase_sim; apply cache: C07_cache_run_inv, C07_cache_trace_sim, C07_cache_clog_inv); driver relation named in the verdict"},
                nfif=(kind != "prop"))
    ctx.samples = [{"case": h, "ops": ops[:30] + (["..."] if len(ops) > 30 else [])} for h, ops in (cases[:1] + cases[-1:] + pcases[:1])]
    ctx.stats["cases"] = len(cases) + len(pcases)
    ctx.stats["cases_index_manager"] = len(cases)
    ctx.stats["cases_pointer_manager"] = len(pcases)
    ctx.stats["distinct_nontrivial"] = len({(h.split(" ", 1)[1], tuple(ops)) for h, ops in cases if any(o.startswith("PAR") for o in ops)})
    vf.write_evidence(
        ctx, "proof",
        rule="per kind (bdd, bcdd, zbdd): random histories with 2-4 parallel blocks, each executed by 2-4 OS threads (plus 1/2/4 pool workers) on one manager: apply, not, ite, quantification, clone, drop (also on another thread), node_count and collections under the shared lock; several threads compute the same operation on the same operands; churn blocks (a small set of operations recomputed and dropped over and over while one thread collects continuously); hammer cases (one long churn block, 120-260 rounds per thread against 80-200 collections, on an apply cache of 1 or 2 buckets); gcstorm cases (3 threads recompute a few operations 200-300 times each on a cache of 1 or 2 buckets while the fourth thread runs up to 3000 collections in a row for as long as they work); seeded yield/spin injection (0/5/20/50 percent) at the hook sites; sequential interludes with drops and gc. All cases run on the index-based manager build; every third history and every second hammer / gcstorm / stress case runs a second time (ids ptr-*) on the pointer-based manager build (--no-default-features --features cfg-pointer: node ids are addresses) with the same two replays and audits. non-trivial = case with at least one parallel block; distinct = distinct (header, op list), counted once per script (not per manager)",
        checker_cmd="make -C coq Props/C07.vo (coqc 8.16.1) + Print Assumptions audit; ./check C07",
        extra_cov={"cases_ok": res["ok"], "cases_ok_index_manager": res_index_ok, "cases_ok_pointer_manager": res_p["ok"],
                   "cases_bad_trace_replay": len(res["bad_tr"]), "cases_bad_result_audit": len(res["bad_dd"]),
                   "pointer_manager_traces_validated_against_impl": int(ctx.stats.get("ptr_trace_par_blocks", 0)) - int(ctx.stats.get("ptr_trace_par_blocks_not_replayed", 0)),
                   "pointer_manager_logged_get_or_insert_events_replayed": int(ctx.stats.get("ptr_trace_ev_goi", 0)),
                   "pointer_manager_logged_collector_removals_replayed": int(ctx.stats.get("ptr_trace_ev_gc_remove", 0)),
                   "pointer_manager_logged_cache_insertions_replayed": int(ctx.stats.get("ptr_trace_ev_cache_add", 0)),
                   "pointer_manager_logged_cache_hits_replayed": int(ctx.stats.get("ptr_trace_ev_cache_hit", 0)),
                   "pointer_manager_logged_collections_with_cache_protocol_replayed": int(ctx.stats.get("ptr_trace_ev_cache_sweeps", 0)),
                   "traces_validated_against_impl": int(ctx.stats.get("trace_par_blocks", 0)) - int(ctx.stats.get("trace_par_blocks_not_replayed", 0)),
                   "logged_get_or_insert_events_replayed": int(ctx.stats.get("trace_ev_goi", 0)),
                   "logged_collector_removals_replayed": int(ctx.stats.get("trace_ev_gc_remove", 0)),
                   "logged_cache_insertions_replayed": int(ctx.stats.get("trace_ev_cache_add", 0)),
                   "logged_cache_hits_replayed": int(ctx.stats.get("trace_ev_cache_hit", 0)),
                   "logged_collections_with_cache_protocol_replayed": int(ctx.stats.get("trace_ev_cache_sweeps", 0)),
                   "logged_bucket_locks_by_pre_gc_replayed": int(ctx.stats.get("trace_ev_cache_buckets_locked", 0)),
                   "tier": ctx.tier},
        assumptions=[
            "atomicity of the hooked regions of /repo (mutexes, the RwLock, atomics with Release/Acquire, rayon) is assumed; the model's actions are atomic by definition",
            "the explored schedules are those produced by the OS scheduler and the seeded perturbation at the hook sites; not an exhaustive enumeration",
            "hooks exist in the index-based manager, the pointer-based manager and the direct-mapped apply cache only (hooks.json: three add-only commits under cfg(oxidd_verif))",
        ])


def replay(ctx, path):
    bins, drv_dd, drv_tr = build(ctx)
    r = json.load(open(path))
    binp = bins["pointer" if r.get("manager") == "pointer" or r["case_header"].startswith(PTR_PREFIX) else "index"]
    bad_any = False
    for attempt in range(20):
        res = run_both(ctx, binp, drv_dd, drv_tr, [(r["case_header"], r["ops"])], tag=f"-replay{attempt}")
        for cid, msg in res["bad_tr"] + res["bad_dd"]:
            print(f"replay (attempt {attempt + 1}): case {cid}: {msg}")
            bad_any = True
        if bad_any:
            break
    if bad_any:
        vf.report_violation(ctx, "replay:" + r.get("signature", ""), r, nfif=False)
    else:
        print("replay: no divergence in 20 attempts (the failing interleaving did not recur)")
