"""C08 — reordering establishes the requested order and preserves every function."""
import random
import vf
import ddgen
from checks import ddcommon

META = {
    "title": "set_var_order: requested order, minimal swaps, functions preserved",
    "technique": "Rocq proofs about Gallina models of sort_order (permutation, respects the request, minimal number of inversions), bubble sort (adjacent out-of-order swaps only, sorts), the concurrent swap scheduler's no-overlap invariant, and of level_swap/level_down on node tables (BDD, MTBDD, BCDD, ZBDD and TDD kinds; the TDD model has ternary nodes; the BCDD model handles complement tags as the rules do, the ZBDD model the zero-suppression rule, cofactor_skipped = Empty and the tautology chain dropped before / rebuilt after the reordering: loop invariant -> well-formedness, handles and other levels untouched, function of every surviving edge over the variables unchanged; composition set_var_order_model = sort_order + bubble_sort + one level_swap per reported index); correspondence: the extracted level_swap / set_var_order_model are replayed on snapshots of real managers before every level_down / set_var_order and the manager's table afterwards must be isomorphic to the model's (identity on surviving ids, bijection on created nodes); every source/target order of 3 and 4 variables with all (sampled) functions alive, checked by the extracted interpreters on snapshots before/after",
    "category": "proof",
    "design_ref": "DESIGN.md section 5, C08; notes/C08b.md",
    "level_text": "Theorems (coq/Props/C08.v, 101 incl. the history-level ones, all closed under the global context). Order computation: sort_order is a permutation, respects the request, minimises inversions, keeps unnamed levels in order; bubble sort performs only adjacent strictly-out-of-order swaps and sorts; the concurrent scheduler never runs two swaps sharing a level. Swap itself, for the BDD and MTBDD kinds (binary nodes, no complement tags, rule 'children equal') and every well-formed table s and adjacent levels i, i+1 (Mgr/LevelSwap*.v): level_swap s i is well-formed again (C08_level_swap_wf), the maps are the old ones with the two levels exchanged (C08_level_swap_maps), the handle list is unchanged and every handle's node keeps its id (C08_level_swap_handles), nodes of the other levels keep id/level/children and nothing appears there (C08_level_swap_untouched), only unreferenced nodes of the old lower level disappear (C08_level_swap_removed_only), every edge stored before and after denotes the same Boolean function of the VARIABLES (C08_level_swap_sem_vars; C08_level_swap_handles_vars for handles). Composition (C08_set_var_order_model_correct/_respects/_canonical): sort_order + bubble_sort + one level swap per reported index yields a well-formed, canonical table in which every handle denotes the same function, every variable sits on the level sort_order assigns and the named variables are in the requested relative order, with inv(target) swaps. The same fourteen statements are proved for the BCDD kind (C08_bcdd_*: Mgr/LevelSwapC*.v; cofactors carry the tag of the incoming edge, reduce normalises the then-edge to untagged and moves the tag onto the resulting edge, interpreter semc). Tie to the code: harness op LEVELDOWN i = oxidd_reorder::level_down under Manager::reorder; on BDD, MTBDD and BCDD managers the driver replays every single swap (all 256 functions of 3 variables alive x both positions, with and without dead nodes, subsets where nodes lose their last reference, chains of swaps on random 4..6-variable tables; MTBDD: all 81 functions of 2 variables over 3 values, random 3..5-variable tables) and every set_var_order/set_var_order_seq on tables without empty levels (up to 1200 nodes) on the extracted model and demands a table isomorphic to the manager's (same maps, same handle edges, identity on surviving node ids, bijection on created nodes, same levels/stored levels/children). ZBDD (C08_zbdd_*, 30 theorems, Mgr/LevelSwapZ*.v; ZbddOK = well-formed zero-suppressed table with the terminals Empty and Base): level_swap_zc (the loop with cofactor_skipped hi = Empty and reduce hi = Empty -> lo, the rewritten node not passed through reduce as in the code) keeps ZbddOK, exchanges the maps, keeps handles and their ids, leaves the other levels alone, removes only unreferenced old-lower nodes, and every reference stored before and after keeps its Boolean view (semz; also the edges inside nodes, seen from any level outside the swapped pair), its Boolean function of the VARIABLES (C08_zbdd_swap_core_sem_vars) and its FAMILY of sets of variables (C08_zbdd_swap_core_fam_vars: every set of variables is a member before iff afterwards; C08_zbdd_fam_member_is_set: every listed member is such a set; _fam_image); pre_reorder_mut = zchain_drop removes only chain-shaped nodes nothing else refers to (C08_zbdd_chain_drop), post_reorder_mut = zchain_rebuild only adds nodes and completes the chain taut(l) = all subsets of the levels l.. (C08_zbdd_chain_rebuild); level_swap_z = reorder(level_down) (drop, swap, rebuild): ZbddOK, maps, handles, function and family of every edge that is stored throughout, chain complete (C08_zbdd_level_swap_*); set_var_order_model_z = one bracket around the bubble-sort swaps (nothing if already sorted): C08_zbdd_set_var_order_model_correct/_respects/_canonical/_fam/_chain as for BDDs. Tie: on ZBDD managers every LEVELDOWN and every set_var_order between two snapshots (the levels are never empty when set_var_order tests them, so always applicable; <= 1200 nodes) is replayed step by step on the extracted zchain_drop / level_swap_zc / zchain_rebuild, cross-checked with the extracted level_swap_z / set_var_order_model_z, and the manager's table must be isomorphic (identity on the ids stored throughout, bijection on created nodes incl. the rebuilt chain paired level by level). TDD (C08_tdd_*, 15 theorems, Mgr/LevelSwapT*.v; ternary nodes true/unknown/false, rule 'all three children equal', interpreter semk): level_swap_t (the loop with ARITY = 3: per new child index b the b-th cofactors of the three children go through TDDRules::reduce + lookup/insert) is well-formed again, exchanges the maps, keeps handles and ids, leaves the other levels alone, removes only unreferenced old-lower nodes, and every edge stored before and after denotes the same three-valued function of the VARIABLES under every ternary assignment (C08_tdd_level_swap_sem_vars); C08_tdd_swaps_fold / _set_var_order_model_correct / _respects / _canonical as for BDDs. Tie: harness kind tdd of h_dd (functions built from variables and the three constants by random three-valued operators incl. ite; LEVELDOWN, ORDER/ORDERSEQ, snapshots): every swap and every reordering on a table without empty levels is replayed on the extracted level_swap_t / set_var_order_model_t with the same isomorphism test; value tables are taken over all 3^n ternary assignments (persistence and canonicity audits) and T3EVAL compares the implementation's eval on all 3^n assignments with the extracted interpreter on the snapshot. For all kinds in addition: lifting the manager before and after every set_var_order / level_down of the explored space (all 6 source orders x all 12 total/partial targets for 3 variables with all 256 functions alive, sampled for 4 variables, random orders on 5..7 variables, chains mixed with operations and gc; sequential and pool variants) and evaluating the extracted checkers: requested relative order holds, number of adjacent swaps (inversions w.r.t. the previous order) equals the optimum computed independently, var/level maps inverse, value tables unchanged, wf_full_b (reported under C08 after a reordering), rc audit, re-derived functions equal the old handles.",
    "level_note": "Trusted: Coq kernel, extraction, OCaml driver (incl. its isomorphism test ocaml/lswap.ml and its independent optimum computation for the swap count), Rust harness. Proved for the BDD, MTBDD (binary nodes, no complement tags), BCDD (complement edges), ZBDD (zero-suppression, tautology chain) and TDD kinds; TDD (ternary nodes; no manager-owned nodes, reorder adds nothing around the closure). ZBDD: an edge counts as preserved if it is stored after the chain drop and after the swap (a dropped chain node's id may be re-used by a created node); handles always are. zchain_drop finds the chain structurally in the snapshot (bottom-up from Base, as post_reorder_mut built it) and acts only on a complete chain -- the driver reports a snapshot without a complete chain; the search succeeds on every table zchain_rebuild produces (C08_zbdd_chain_rebuild_found), so consecutive reorderings of the model always drop the real chain. Modelled: level_down on ADJACENT levels with the level numbers updated after each swap; not modelled: the lazy renumbering (to_pre) and the empty-level shortcut of set_var_order_common (non-adjacent swaps of non-empty levels followed by a linear pass for the empty ones) -- reorderings of tables with an empty level are therefore compared by the snapshot audits only; reference counters inside level_swap are not modelled (audited exactly on every snapshot by C05's checker); the iteration order of the unique table is not modelled (result identical up to the ids of created nodes, which is what the isomorphism allows). The segment tree is tied to the naive model only by correspondence. Out-of-memory inside level_swap aborts the process by documented design and is outside the recoverable set. The concurrent bubble sort needs >= 65536 nodes and several workers: exercised in the thorough tier only, and not replayed on the model (no fixed swap order).",
}
ALLOWED_AXIOMS = ()


def build(ctx):
    ddcommon.build_dd_debug(ctx)
    return ddcommon.build_dd(ctx)


def case_all_targets(cid, kind, source, nv, funcs, rng, targets, threads=1):
    ops = [f"VARS {nv}"]
    if list(source) != list(range(nv)):
        ops.append("ORDER " + " ".join(map(str, source)))
    for i, t in enumerate(funcs):
        ops.append(f"TT h{i} {nv} {t:x}")
    ops.append("SNAP")
    n = len(funcs)
    for tgt in targets:
        ops.append(f"{rng.choice(['ORDER', 'ORDERSEQ'])} " + " ".join(map(str, tgt)))
        ops.append("SNAP")
        # re-derive a few functions under the new order: must be the old handles
        for i in rng.sample(range(n), min(n, 12)):
            ops.append(f"TTI h{n + i} {nv} {funcs[i]:x}")
            ops.append(f"EQ h{i} h{n + i}")
        ops.append("SNAP")
        for i in range(n):
            ops.append(f"DROP h{n + i}")
        if rng.random() < 0.5:
            ops.append("GC")
        # back to the source order (another reordering, now from a reordered state)
        ops.append("ORDER " + " ".join(map(str, source)))
        ops.append("SNAP")
    ops += ["DROPALL", "GC", "SNAP"]
    return (ddgen.header(cid, kind, threads=threads), ops)


def case_swaps(cid, kind, nv, funcs, positions, rng, source=None, gc_first=False):
    """single adjacent level swaps (oxidd_reorder::level_down) with a snapshot before and after each:
    on BDDs the driver replays every swap on the extracted level_swap and demands an isomorphic table"""
    ops = [f"VARS {nv}"]
    if source is not None and list(source) != list(range(nv)):
        ops.append("ORDER " + " ".join(map(str, source)))
    for i, t in enumerate(funcs):
        ops.append(f"TT h{i} {nv} {t:x}")
    if gc_first:
        ops.append("GC")          # without dead nodes (otherwise the garbage of the construction takes part)
    ops.append("SNAP")
    n = len(funcs)
    for p in positions:
        ops.append(f"LEVELDOWN {p}")
        ops.append("SNAP")
    # the swapped diagram behaves like a freshly built one
    for i in rng.sample(range(n), min(n, 8)):
        ops.append(f"TTI h{n + i} {nv} {funcs[i]:x}")
        ops.append(f"EQ h{i} h{n + i}")
    ops.append("SNAP")
    ops += ["DROPALL", "GC", "SNAP"]
    return (ddgen.header(cid, kind), ops)


def case_swaps_mt(cid, nv, tables, positions, rng, orders=(), gc_first=False):
    """MTBDD (i64 terminals): single level swaps and whole reorderings between snapshots, replayed by the driver
    on the same extracted model as for BDDs (the theorems cover both kinds)"""
    ops = [f"VARS {nv}"]
    for i, tb in enumerate(tables):
        ops.append(f"VT h{i} {nv} " + " ".join(tb))
    if gc_first:
        ops.append("GC")
    ops.append("SNAP")
    for p in positions:
        ops.append(f"LEVELDOWN {p}")
        ops.append("SNAP")
    for o in orders:
        ops.append(f"{rng.choice(['ORDER', 'ORDERSEQ'])} " + " ".join(map(str, o)))
        ops.append("SNAP")
    for i in rng.sample(range(len(tables)), min(len(tables), 6)):
        ops.append(f"EVAL h{i}")
    ops.append("SNAP")
    ops += ["DROPALL", "GC", "SNAP"]
    return (ddgen.header(cid, "mtbdd"), ops)


T3_BIN = ["T3AND", "T3OR", "T3XOR", "T3EQUIV", "T3NAND", "T3NOR", "T3IMP", "T3IMPS"]


def case_swaps_tdd(cid, nv, nops, positions, rng, orders=(), gc_first=False, drop_vars=False, threads=1):
    """TDD (ternary nodes): functions built from the variables and the three constants by random three-valued
    operators; single level swaps and whole reorderings between snapshots, replayed by the driver on the
    extracted level_swap_t / set_var_order_model_t; T3EVAL = eval over all 3^n ternary assignments"""
    ops = [f"VARS {nv}"]
    slots = []
    for v in range(nv):
        ops.append(f"T3VAR h{v} {v}"); slots.append(v)
    for k, c in enumerate("fut"):
        ops.append(f"T3CONST h{nv + k} {c}"); slots.append(nv + k)
    nxt = nv + 3
    made = []
    for _ in range(nops):
        r = rng.random()
        if r < 0.1:
            ops.append(f"T3NOT h{nxt} h{rng.choice(slots)}")
        elif r < 0.3:
            ops.append(f"T3ITE h{nxt} h{rng.choice(slots)} h{rng.choice(slots)} h{rng.choice(slots)}")
        else:
            ops.append(f"{rng.choice(T3_BIN)} h{nxt} h{rng.choice(slots)} h{rng.choice(slots)}")
        slots.append(nxt); made.append(nxt); nxt += 1
    # some intermediate results (and, if asked, the variable handles) are dropped: nodes lose references
    for h in rng.sample(made, len(made) // 3):
        ops.append(f"DROP h{h}"); slots.remove(h)
    if drop_vars:
        for v in rng.sample(range(nv), rng.randrange(1, nv + 1)):
            ops.append(f"DROP h{v}"); slots.remove(v)
    if gc_first:
        ops.append("GC")
    ops.append("SNAP")
    for p in positions:
        ops.append(f"LEVELDOWN {p}")
        ops.append("SNAP")
    for o in orders:
        ops.append(f"{rng.choice(['ORDER', 'ORDERSEQ'])} " + " ".join(map(str, o)))
        ops.append("SNAP")
    live = [h for h in slots if h >= nv + 3]
    for h in rng.sample(live, min(len(live), 5)):
        ops.append(f"T3EVAL h{h}")
    ops.append("SNAP")
    ops += ["DROPALL", "GC", "SNAP"]
    return (ddgen.header(cid, "tdd", threads=threads), ops)


def gen_cases(ctx):
    rng = random.Random(ctx.seed * 7919 + 8)
    thorough = ctx.tier == "thorough"
    cases = []
    cid = 0
    t3 = ddgen.sublists(3)
    t4 = ddgen.sublists(4)
    for kind in ddgen.KINDS_BOOL:
        sources = list(ddgen.PERMS3)
        rng.shuffle(sources)
        for src in (sources if thorough else sources[:2]):
            cases.append(case_all_targets(f"a{cid}", kind, src, 3, list(range(256)), rng, t3, threads=rng.choice([1, 4]))); cid += 1
        for _ in range(24 if thorough else 3):
            src = list(range(4)); rng.shuffle(src)
            funcs = [ddgen.rand_tt(rng, 4) for _ in range(48)]
            cases.append(case_all_targets(f"b{cid}", kind, src, 4, funcs, rng, rng.sample(t4, 60 if thorough else 14),
                                          threads=rng.choice([1, 8]))); cid += 1
        for _ in range(200 if thorough else 16):
            nv = rng.randrange(5, 8)
            src = list(range(nv)); rng.shuffle(src)
            funcs = [ddgen.rand_tt(rng, nv) for _ in range(10)]
            tg = []
            for _ in range(6):
                p = list(range(nv)); rng.shuffle(p)
                tg.append(p[: rng.randrange(2, nv + 1)])
            cases.append(case_all_targets(f"c{cid}", kind, src, nv, funcs, rng, tg, threads=rng.choice([1, 2, 8]))); cid += 1
        for _ in range(100 if thorough else 12):
            cases.append(ddgen.case_history(f"h{cid}", kind, rng, nv=rng.randrange(3, 7), length=60)); cid += 1
        # single level swaps: all 256 functions of 3 variables alive x both positions (with and without the
        # garbage of the construction), subsets of them (nodes become unreferenced and are removed), chains of
        # swaps on random tables of 4..6 variables
        for pos in (0, 1):
            for gcf in (False, True):
                cases.append(case_swaps(f"s{cid}", kind, 3, list(range(256)), [pos], rng, gc_first=gcf)); cid += 1
        for src in (ddgen.PERMS3 if thorough else rng.sample(ddgen.PERMS3, 2)):
            cases.append(case_swaps(f"s{cid}", kind, 3, list(range(256)), [rng.randrange(2) for _ in range(6)], rng,
                                    source=src, gc_first=rng.random() < 0.5)); cid += 1
        for _ in range(60 if thorough else 10):
            funcs = rng.sample(range(256), rng.randrange(1, 12))
            cases.append(case_swaps(f"s{cid}", kind, 3, funcs, [rng.randrange(2) for _ in range(rng.randrange(1, 6))], rng,
                                    gc_first=rng.random() < 0.7)); cid += 1
        for _ in range(150 if thorough else 16):
            nv = rng.randrange(4, 7)
            funcs = [ddgen.rand_tt(rng, nv) for _ in range(rng.randrange(1, 14))]
            src = list(range(nv)); rng.shuffle(src)
            cases.append(case_swaps(f"s{cid}", kind, nv, funcs, [rng.randrange(nv - 1) for _ in range(rng.randrange(1, 10))], rng,
                                    source=src if rng.random() < 0.5 else None, gc_first=rng.random() < 0.6)); cid += 1
    # MTBDD: all 81 functions of 2 variables over 3 values alive, random tables of 3..5 variables
    import itertools
    for k in range(6 if thorough else 2):
        vals = rng.sample(ddgen.MT_VALUES, 3)
        tabs = [list(tb) for tb in itertools.product(vals, repeat=4)]
        cases.append(case_swaps_mt(f"m{cid}", 2, tabs, [0, 0, 0], rng, orders=[(1, 0), (0, 1)], gc_first=(k % 2 == 1))); cid += 1
    for _ in range(80 if thorough else 12):
        nv = rng.randrange(3, 6)
        tabs = [ddgen.mt_rand_vt(rng, nv) for _ in range(rng.randrange(1, 10))]
        ords = []
        for _ in range(rng.randrange(0, 4)):
            p = list(range(nv)); rng.shuffle(p)
            ords.append(p[: rng.randrange(2, nv + 1)])
        cases.append(case_swaps_mt(f"m{cid}", nv, tabs, [rng.randrange(nv - 1) for _ in range(rng.randrange(1, 8))], rng,
                                   orders=ords, gc_first=rng.random() < 0.6)); cid += 1
    # TDD: random three-valued expressions over 2..5 variables; swaps and reorderings replayed on the ternary model
    for k in range(160 if thorough else 36):
        nv = rng.randrange(2, 6)
        ords = []
        for _ in range(rng.randrange(0, 4)):
            p = list(range(nv)); rng.shuffle(p)
            ords.append(p[: rng.randrange(2, nv + 1)])
        cases.append(case_swaps_tdd(f"t{cid}", nv, rng.randrange(2, 5 * nv), [rng.randrange(nv - 1) for _ in range(rng.randrange(1, 8))], rng,
                                    orders=ords, gc_first=rng.random() < 0.6, drop_vars=rng.random() < 0.25,
                                    threads=rng.choice([1, 1, 4]))); cid += 1
    return cases


def big_cases(ctx):
    """The concurrent bubble sort is only taken with more than one worker and >= 2^16 nodes: BIGORDER builds a
    manager of its own with a 2^19-node function and 2..8 workers (release profile only; observed: resulting
    order, minimal number of adjacent swaps, 256 sampled evaluations of the live handle)."""
    rng = random.Random(ctx.seed * 7919 + 88)
    thorough = ctx.tier == "thorough"
    cases = []
    for kind in ("bdd", "bcdd", "zbdd"):
        ops = ["VARS 2"]
        for _ in range((60 if thorough else 14) if kind != "zbdd" else (30 if thorough else 6)):
            top = rng.choice([6, 8, 12])
            k = rng.randrange(3, min(9, top + 1))
            vs = rng.sample(range(top), k)
            ops.append(f"BIGORDER 18 {rng.choice([2, 4, 8])} {rng.randrange(1 << 30)} " + " ".join(map(str, vs)))
        # variables without nodes (36, 37: unused by the function) change places with variables that have nodes
        for perm in ([36, 0, 1], [37, 36, 0], [36, 2, 0, 37], [1, 36, 0], [37, 3, 2, 1, 0, 36]):
            ops.append(f"BIGORDER 18 {rng.choice([2, 4, 8])} {rng.randrange(1 << 30)} " + " ".join(map(str, perm)))
        # block rotations and reversals of the top levels
        for perm in ([2, 3, 0, 1], [3, 2, 1, 0], [1, 2, 3, 4, 0], [4, 0, 1, 2, 3], [3, 4, 5, 0, 1, 2], [5, 4, 3, 2, 1, 0]):
            ops.append(f"BIGORDER 18 {rng.choice([2, 4, 8])} {rng.randrange(1 << 30)} " + " ".join(map(str, perm)))
        # several short cases instead of a long one: the harness watchdog (VERIF_HANG_MS, 20 s) is per CASE and
        # one BIGORDER takes 0.2..0.5 s on an idle machine, several times that next to 15 other shards
        body = ops[1:]
        for k in range(0, len(body), 5):
            cases.append((ddgen.header(f"big-{kind}-{k // 5}", kind, cap=1024), ["VARS 2"] + body[k:k + 5]))
    return cases


def run(ctx):
    cases = gen_cases(ctx) + big_cases(ctx)
    # every fourth case also on the debug-profile harness (debug assertions of level_swap etc.)
    ddcommon.run_dd(
        ctx, ["C08"], cases, debug_cases=cases[::4] if ctx.tier != "thorough" else cases[::2],
        rule="concurrent bubble sort: per kind (bdd, bcdd; zbdd with fewer random requests) 25 (thorough 71) set_var_order calls on a manager of its own (with or without two node-less levels) holding a 2^19-node function with 2/4/8 workers (random partial orders over the top 6/8/12 variables -- deeper levels of that function hold up to 2^18 nodes and a swap there takes seconds --, block rotations, reversals): resulting order, minimal swap count, 256 sampled evaluations, re-derivation of the function arrives at the live handle, node count after a collection; a quarter of the cases (half in thorough) and the corpus are run a second time on a debug-profile build of /repo (debug assertions, overflow checks); per kind (bdd, bcdd, zbdd): single level swaps (LEVELDOWN i with a snapshot before and after: all 256 functions of 3 variables alive x both positions x with/without dead nodes, chains of 6 swaps from sampled source orders, 1..11 sampled functions alive so that nodes lose their last reference, chains of 1..9 swaps on random tables of 4..6 variables; on bdd every swap is replayed on the extracted level_swap, on bcdd on the extracted level_swap_c, on zbdd on the extracted zchain_drop / level_swap_zc / zchain_rebuild, and the tables must be isomorphic); tdd: 36 (thorough 160) cases of 2..5 variables with 2..24 random three-valued operator applications (and/or/xor/equiv/nand/nor/imp/imp_strict/not/ite over variables and the constants f/u/t), a third of the results and sometimes the variable handles dropped, 1..7 swaps and 0..3 reorderings each replayed on the extracted ternary model, up to 5 T3EVAL; mtbdd: the 81 functions of 2 variables over 3 sampled values and random tables of 3..5 variables, swaps and reorderings replayed likewise; every set_var_order on a bdd/mtbdd/bcdd table without empty levels and on every zbdd table (<= 1200 nodes) is replayed on the extracted set_var_order_model(_c/_z) likewise; for 3 variables every source order (2 in quick) x all 12 total and partial target orders with all 256 functions alive, each followed by re-derivation, optional gc and the way back; 4 variables with 48 sampled functions and sampled targets; 5..7 variables with random functions and orders; random histories mixing reorderings with operations and gc; set_var_order and set_var_order_seq, 1/2/4/8 workers. non-trivial = case with >= 3 ops",
        allowed_axioms=ALLOWED_AXIOMS)


def replay(ctx, path):
    ddcommon.replay_dd(ctx, path)
