"""C09 — ZBDD set-family operations match set semantics."""
import random
import vf
import ddgen
from checks import ddcommon

META = {
    "title": "ZBDD set-family operations",
    "technique": "Rocq proofs over a Gallina model of the ZBDD set operations (union, intsec, diff, subset0/1, change, make_node, singleton, empty, base) on well-formed zero-suppressed tables against finite-family semantics, and of the consistency between the family view and the Boolean view; correspondence: all 256 families over 3 variables on the real ZBDD manager, decided by the extracted family interpreter famz",
    "category": "proof",
    "design_ref": "DESIGN.md section 5, C09",
    "level_text": "Theorems in coq/Props/C09.v. Tie to the code: all 256 families over 3 variables under a seed-chosen variable order (all 6 in thorough): subset0/subset1/change for every variable, union/intsec/diff for every ordered pair, make_node for every legal (var, hi, lo), singleton/empty/base; random families over up to 7 variables; histories that add variables between operations. Every result is lifted to a snapshot, its family is computed by the extracted famz and compared with the set expression of the documentation evaluated on the operands' families; the Boolean view (extracted semz over all levels) of every handle must be the characteristic function of its family, also after variables were added.",
    "level_note": "Trusted: Coq kernel, extraction, OCaml driver (set expressions on sorted integer lists), Rust harness.",
}
ALLOWED_AXIOMS = ()


def build(ctx):
    return ddcommon.build_dd(ctx)


def case_unary(cid, order):
    ops, n = ddgen.all_functions_prelude(3, order, both_routes=False)
    ops.append("SNAP")
    k = 1000
    for i in range(n):
        for v in range(3):
            for op in ("SUBSET0", "SUBSET1", "CHANGE"):
                ops.append(f"{op} h{k} h{i} {v}"); k += 1
    for v in range(3):
        ops.append(f"SINGLETON h{k} {v}"); k += 1
    ops.append(f"EMPTY h{k}"); k += 1
    ops.append(f"BASE h{k}"); k += 1
    ops.append("SNAP")
    return (ddgen.header(cid, "zbdd"), ops)


def case_binary(cid, order, op):
    ops, n = ddgen.all_functions_prelude(3, order, both_routes=False)
    ops.append("SNAP")
    k = 1000
    for a in range(n):
        for b in range(n):
            ops.append(f"{op} h{k} h{a} h{b}"); k += 1
    ops.append("SNAP")
    return (ddgen.header(cid, "zbdd"), ops)


def case_make_node(cid, order, rng, count):
    """make_node(var, hi, lo) is legal when var is above everything hi and lo mention"""
    ops, n = ddgen.all_functions_prelude(3, order, both_routes=False)
    ops.append("SNAP")
    k = 1000
    lvl = {v: l for l, v in enumerate(order)}
    top = order[0]
    # families not mentioning the top variable: truth tables that are 0 whenever top is set
    ok = [t for t in range(n) if all(not ((t >> a) & 1) for a in range(8) if (a >> top) & 1)]
    pairs = [(a, b) for a in ok for b in ok]
    if count < len(pairs):
        pairs = rng.sample(pairs, count)
    for a, b in pairs:
        ops.append(f"MAKENODE h{k} {top} h{a} h{b}"); k += 1
    ops.append("SNAP")
    return (ddgen.header(cid, "zbdd"), ops)


def zb_extra(rng, nv, pick, fresh, live):
    d = fresh()
    live.add(d)
    r = rng.random()
    if r < 0.4:
        return f"{rng.choice(['UNION', 'INTSEC', 'DIFF'])} h{d} h{pick()} h{pick()}"
    if r < 0.8:
        return f"{rng.choice(['SUBSET0', 'SUBSET1', 'CHANGE'])} h{d} h{pick()} {rng.randrange(nv)}"
    if r < 0.9:
        return f"SINGLETON h{d} {rng.randrange(nv)}"
    return f"{rng.choice(['EMPTY', 'BASE'])} h{d}"


def gen_cases(ctx):
    rng = random.Random(ctx.seed * 7919 + 9)
    thorough = ctx.tier == "thorough"
    cases = []
    cid = 0
    for order in (ddgen.PERMS3 if thorough else [rng.choice(ddgen.PERMS3)]):
        cases.append(case_unary(f"u{cid}", order)); cid += 1
        for op in ("UNION", "INTSEC", "DIFF"):
            cases.append(case_binary(f"b{cid}", order, op)); cid += 1
        cases.append(case_make_node(f"m{cid}", order, rng, 100000 if thorough else 4000)); cid += 1
    for _ in range(600 if thorough else 60):
        cases.append(ddgen.case_history(f"h{cid}", "zbdd", rng, nv=rng.randrange(3, 7), length=70, quant=False,
                                        extra_ops=(zb_extra, zb_extra, zb_extra))); cid += 1
    return cases


def run(ctx):
    ddcommon.run_dd(
        ctx, ["C09"], gen_cases(ctx),
        rule="zbdd: 256 families over 3 variables x 3 variables x {subset0, subset1, change}; all 65536 ordered pairs x {union, intsec, diff}; make_node for (sampled) legal (var, hi, lo); singleton/empty/base; one seed-chosen order (quick) / all 6 (thorough); random histories over 3..6 variables mixing set operations with Boolean operations, add_vars, gc and reordering, with the family-view/Boolean-view consistency checked on every snapshot. non-trivial = case with >= 3 ops",
        allowed_axioms=ALLOWED_AXIOMS)


def replay(ctx, path):
    ddcommon.replay_dd(ctx, path)
