"""C09 — ZBDD set-family operations match set semantics."""
import random
import vf
import ddgen
from checks import ddcommon

META = {
    "title": "ZBDD set-family operations",
    "technique": "Rocq proofs over a Gallina model of the ZBDD set operations (coq/DD/ZbddOps.v: reduce with the zero-suppression rule + get_or_insert, apply_union/apply_intsec/apply_diff with their terminal cases, operand normalisation and three-way level comparison, subset<VAL> for subset0/subset1/change incl. the node created above the operand, singleton, make_node, empty, base; abstract lossy apply cache keyed by (operator, edges, variable number)) against the documented set expressions (coq/DD/FamSpec.v), and of the consistency between the family view and the Boolean view (bool_view), also for tables that grow (add_vars); correspondence: the real ZBDD manager's results are lifted to snapshots and compared by the extracted famz/feq_b with the extracted set expressions, and the extracted model is replayed on the same table and operand edges (same family and same edge required)",
    "category": "proof",
    "design_ref": "DESIGN.md section 5, C09",
    "level_text": "Theorems in coq/Props/C09.v (21, all closed under the global context): for every well-formed ZBDD snapshot with both terminals (ZbddOK, decided by zbdd_ok_b), every lossy cache, every operand order and fuel >= nlevels+1 each of union/intsec/diff/subset0/subset1/change/singleton/empty/base/make_node returns an edge, only extends the table, keeps it well-formed (zero-suppressed, unique), keeps the cache valid, and the list famz computes for the result has exactly the members of the documented set expression of the operands' lists (C09_apply_sound, C09_subset_sound, C09_singleton_sound, C09_make_node_sound, C09_empty_sound, C09_base_sound, C09_zmk_node_ok); families are duplicate-free lists of strictly increasing level lists (C09_fam_members, C09_fam_nodup); C09_bool_view / C09_bool_view_sem_edge: semz over all levels is the characteristic function of the family; C09_extends_fam / C09_grows_fam / C09_grows_bool_view: old edges keep their family when nodes or variables are added and their Boolean view gains 'new variables false'. Tie to the code: all 256 families over 3 variables under two seed-chosen non-identity orders (all 6 in thorough): subset0/subset1/change for every variable, union/intsec/diff for every ordered pair, make_node for every legal (var, hi, lo), singleton/empty/base; set-operation histories over 3..8 variables with add_vars, full reorderings, gc, make_node on the top variable; generic random histories. Every result is lifted to a snapshot; expected family = extracted f_bin/f_sub/f_make_node/f_singleton on the operands' families in the level reading of the snapshot, compared by the extracted feq_b with the extracted famz of the result; the extracted model zapply/zsubset_top/zsingleton/zmake_node/zempty/zbase is run on the lifted table with the operands' real edges (three cache/operand-order instances in rotation) and must return the implementation's edge; the Boolean view (extracted semz) of every handle on every snapshot must equal the extracted fam_bool of its family, also after variables were added.",
    "level_note": "Families are sets of *levels* in the theorems; the API's variable numbers are mapped through var_to_level by the model (zsubset_top, zsingleton) and by the driver (trusted glue, cross-checked against an independent bitmask oracle). Proof-only (not replayed by the driver): the cache-hit paths with a non-empty cache (the driver starts every model run with an empty or absent cache), grows/add_vars theorems (checked on real snapshots only through the persistence and Boolean-view checks). Not modelled: the parallel recursor (schedule independence is C07), reference counting inside the operations (C05), apply_ite/restrict/symm_diff (C02/C04). Trusted: Coq kernel, extraction, OCaml driver glue (ocaml/zfam.ml), Rust harness, public accessor API.",
}
ALLOWED_AXIOMS = ()


def build(ctx):
    return ddcommon.build_dd(ctx)


def case_unary(cid, order):
    ops, n = ddgen.all_functions_prelude(3, order, both_routes=False)
    ops.append("SNAP")
    k = 1000
    for i in range(n):
        for v in range(3):
            for op in ("SUBSET0", "SUBSET1", "CHANGE"):
                ops.append(f"{op} h{k} h{i} {v}"); k += 1
    for v in range(3):
        ops.append(f"SINGLETON h{k} {v}"); k += 1
    ops.append(f"EMPTY h{k}"); k += 1
    ops.append(f"BASE h{k}"); k += 1
    ops.append("SNAP")
    return (ddgen.header(cid, "zbdd"), ops)


def case_binary(cid, order, op):
    ops, n = ddgen.all_functions_prelude(3, order, both_routes=False)
    ops.append("SNAP")
    k = 1000
    for a in range(n):
        for b in range(n):
            ops.append(f"{op} h{k} h{a} h{b}"); k += 1
    ops.append("SNAP")
    return (ddgen.header(cid, "zbdd"), ops)


def case_make_node(cid, order, rng, count):
    """make_node(var, hi, lo) is legal when var is above everything hi and lo mention"""
    ops, n = ddgen.all_functions_prelude(3, order, both_routes=False)
    ops.append("SNAP")
    k = 1000
    lvl = {v: l for l, v in enumerate(order)}
    top = order[0]
    # families not mentioning the top variable: truth tables that are 0 whenever top is set
    ok = [t for t in range(n) if all(not ((t >> a) & 1) for a in range(8) if (a >> top) & 1)]
    pairs = [(a, b) for a in ok for b in ok]
    if count < len(pairs):
        pairs = rng.sample(pairs, count)
    for a, b in pairs:
        ops.append(f"MAKENODE h{k} {top} h{a} h{b}"); k += 1
    ops.append("SNAP")
    return (ddgen.header(cid, "zbdd"), ops)


def zb_extra(rng, nv, pick, fresh, live):
    d = fresh()
    live.add(d)
    r = rng.random()
    if r < 0.4:
        return f"{rng.choice(['UNION', 'INTSEC', 'DIFF'])} h{d} h{pick()} h{pick()}"
    if r < 0.8:
        return f"{rng.choice(['SUBSET0', 'SUBSET1', 'CHANGE'])} h{d} h{pick()} {rng.randrange(nv)}"
    if r < 0.9:
        return f"SINGLETON h{d} {rng.randrange(nv)}"
    return f"{rng.choice(['EMPTY', 'BASE'])} h{d}"


def case_set_history(cid, rng, nv, length, slots=16):
    """set-operation history with a snapshot after every op; the variable order is tracked exactly
    (only full reorderings are issued) so that make_node can be called on the top variable"""
    ops = [f"VARS {nv}"]
    order = list(range(nv))          # level -> variable
    live = set()

    def pick():
        return rng.choice(sorted(live))

    def fresh():
        d = rng.randrange(slots)
        live.add(d)
        return d

    for _ in range(length):
        r = rng.random()
        if len(live) < 3 or r < 0.08:
            if nv <= 7 and rng.random() < 0.75:
                ops.append(f"TT h{fresh()} {nv} {ddgen.rand_tt(rng, nv):x}")
            elif rng.random() < 0.7:
                ops.append(f"SINGLETON h{fresh()} {rng.randrange(nv)}")
            else:
                # CONST 1 = t_edge = the top of the tautology chain (the family of all subsets)
                ops.append(rng.choice([f"EMPTY h{fresh()}", f"BASE h{fresh()}", f"BASE h{fresh()}", f"CONST h{fresh()} 1"]))
        elif r < 0.36:
            a, b = pick(), pick()
            ops.append(f"{rng.choice(['UNION', 'INTSEC', 'DIFF'])} h{fresh()} h{a} h{b}")
        elif r < 0.68:
            a = pick()
            ops.append(f"{rng.choice(['SUBSET0', 'SUBSET1', 'CHANGE', 'CHANGE'])} h{fresh()} h{a} {rng.randrange(nv)}")
        elif r < 0.74:
            # make_node on the top variable with children that do not mention it
            top = order[0]
            a, b = pick(), pick()
            x, y = slots, slots + 1
            ops.append(f"SUBSET0 h{x} h{a} {top}")
            ops.append(f"SUBSET0 h{y} h{b} {top}")
            ops.append(f"MAKENODE h{fresh()} {top} h{x} h{y}")
            ops.append(f"DROP h{x}")
            ops.append(f"DROP h{y}")
        elif r < 0.78 and nv < 8:
            k = rng.randrange(1, 3)
            ops.append(f"VARS {k}")
            order += list(range(nv, nv + k))
            nv += k
        elif r < 0.84:
            rng.shuffle(order)
            ops.append("ORDER " + " ".join(map(str, order)))
        elif r < 0.88:
            ops.append("GC")
        elif r < 0.93:
            a = pick()
            ops.append(f"DROP h{a}")
            live.discard(a)
        elif r < 0.96 and nv <= 7:
            ops.append(f"EVAL h{pick()}")
        else:
            a = pick()
            ops.append(f"CLONE h{fresh()} h{a}")
    ops.append("SNAP")
    return (ddgen.header(cid, "zbdd", cap=1 << 14, cache=rng.choice([1, 2, 16, 1 << 10]), snap_each=True), ops)


def gen_cases(ctx):
    rng = random.Random(ctx.seed * 7919 + 9)
    thorough = ctx.tier == "thorough"
    cases = []
    cid = 0
    # quick: two non-identity orders, one of them a rotation (variable numbers and level numbers
    # differ for every variable), so that anything keyed by a level where a variable is meant shows
    rot = rng.choice([(1, 2, 0), (2, 0, 1)])
    other = rng.choice([p for p in ddgen.PERMS3 if tuple(p) not in (rot, (0, 1, 2))])
    for order in (ddgen.PERMS3 if thorough else [list(rot), list(other)]):
        cases.append(case_unary(f"u{cid}", order)); cid += 1
        for op in ("UNION", "INTSEC", "DIFF"):
            cases.append(case_binary(f"b{cid}", order, op)); cid += 1
        cases.append(case_make_node(f"m{cid}", order, rng, 100000 if thorough else 4000)); cid += 1
    for _ in range(400 if thorough else 40):
        cases.append(case_set_history(f"s{cid}", rng, nv=rng.randrange(3, 9), length=60)); cid += 1
    for _ in range(300 if thorough else 30):
        # (2 and 8 workers: the *MT function types split subset0 / subset1 / change and the set operations)
        cases.append(ddgen.case_history(f"h{cid}", "zbdd", rng, nv=rng.randrange(3, 7), length=70, quant=False,
                                        threads=rng.choice([1, 2, 8]),
                                        extra_ops=(zb_extra, zb_extra, zb_extra))); cid += 1
    return cases


def run(ctx):
    ddcommon.run_dd(
        ctx, ["C09"], gen_cases(ctx),
        rule="zbdd: 256 families over 3 variables x 3 variables x {subset0, subset1, change}; all 65536 ordered pairs x {union, intsec, diff}; make_node for (sampled) legal (var, hi, lo); singleton/empty/base; two seed-chosen non-identity orders incl. a rotation (quick) / all 6 (thorough); set-operation histories over 3..8 variables (random families, add_vars, full reorderings, gc, make_node on the top variable, snapshot after every op) and generic random histories over 3..6 variables mixing set operations with Boolean operations, add_vars, gc and reordering; on every snapshot the family-view/Boolean-view consistency of every handle; every set operation replayed on the extracted model (same edge required). non-trivial = case with >= 3 ops",
        allowed_axioms=ALLOWED_AXIOMS)


def replay(ctx, path):
    ddcommon.replay_dd(ctx, path)
