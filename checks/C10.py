"""C10 — MTBDD arithmetic is the pointwise lifting of exact terminal arithmetic: scalar level (I64 over Z with saturation, F64 via Flocq) and function level (Gallina model of terminal_bin / apply_bin / apply_ite / restrict / constant / var / eval)."""
import json
import os
import random
import re
import vf
import ddgen
from checks import ddcommon

META = {
    "title": "MTBDD add/sub/mul/div/min/max/ite/restrict/constant/var/eval are the pointwise lifting of the terminal arithmetic (function-level model with every terminal_bin short-cut, cache keys, hash-consed terminals), and the terminal arithmetic (I64, F64) is exact/saturating resp. IEEE-754 with NaN and -0 normalised",
    "technique": "Rocq proofs over hand-written Gallina models. Scalar level: terminal/i64.rs over Z, terminal/f64.rs as Flocq binary64 + the normalisation of F64::from. Function level: coq/DD/ApplyMtbdd.v (I64) and its generalisation over the terminal type coq/DD/MtG.v (instances: coq/DD/MtF64.v for F64 on bit patterns, coq/DD/MtI64.v) mirror oxidd-rules-mtbdd/src/lib.rs (terminal_bin arm by arm, MTBDDOp codes) and apply_rec.rs (apply_bin, apply_ite, restrict with its tail-recursive inner walk, constant/var/eval) on the node-table state of DD/Table.v with hash-consed terminal values and an abstract apply cache; soundness is proved by fuel induction from the scalar laws. Models tied to /repo by differential runs: scalar operations on boundary-set and random operand pairs; the extracted function-level model replayed on snapshots of real MTBDD<I64> managers with the real operand edges (same value table; same edge where the result exists); MTBDD<F64> results compared pointwise with the extracted F64 model AND replayed at edge level by the extracted generic model instantiated for F64",
    "category": "proof",
    "design_ref": "DESIGN.md section 5, C10; notes/C10b.md, notes/C10f.md",
    "level_text": "Theorems in coq/Props/C10.v (checked by coqc on every run, Print Assumptions audited; the C10_i64_*, C10_mt_* and C10_mtg_* theorems must be closed under the global context). FUNCTION LEVEL, EVERY TERMINAL TYPE (C10_mtg_*; coq/DD/MtG.v is the model of terminal_bin / apply_bin / apply_ite / restrict / constant / var / eval with the terminal type abstracted into the class talg = NumberBase + partial_cmp + the identity of values for Eq/Hash, as the Rust functions are generic in T: NumberBase): for every terminal algebra satisfying the 26 scalar laws of the class tlaws (coding bijection, is_zero/is_one/is_nan = comparison with the constant, 0 /= 1, closure of the values of the type under the operations, 0+x = x+0 = x-0 = x, 1*x = x*1 = x/1 = x, NaN absorbing for all six operators, commutativity of add/mul/min/max, idempotence of min/max - each only required on values of the type), terminal_bin is sound arm by arm and apply_bin / ite / restrict return the pointwise lifting / selection / cofactor with the same invariants, stability and canonicity clauses as for I64 (C10_mtg_terminal_bin_sound, _apply_bin_lifts, _ite_lifts, _restrict_lifts, _canonical); I64 satisfies the laws without axioms (C10_mtg_i64_laws). FUNCTION LEVEL, MTBDD<F64> (C10_f64_*; values = 64-bit patterns, operations = Flocq binary64 round-to-nearest-even followed by the normalisation of F64::from, coq/Num/F64.v): C10_f64_laws - the float type as the code defines it satisfies every law, BECAUSE values are normalised (C10_f64_zero_shortcut_needs_normalisation: with the operand -0.0 the short-cuts x+0 = x and x-0 = x fail; C10_f64_mul_zero_not_law: the short-cut x*0 = 0 that the code deliberately does not have is refuted, x = +inf gives NaN); C10_f64_invariant - MtOK for F64 tables = well-formed + every terminal value a normalised pattern, decided by the extracted f64m_ok_b; C10_f64_apply_pointwise / _apply_assignments - add/sub/mul/div/min/max return (never fail with fuel > levels) a reference whose value under every choice / assignment is the IEEE-754 operation + normalisation of the operand values, table only extended, invariant and cache correctness kept; C10_f64_cache_transparent, C10_f64_history_independent - result independent of cache contents / implementation / operand order, identical reference in every later state; C10_f64_canonical - equal values under all choices = equal reference, the result is THE reference of its meaning; C10_f64_nan - an operand value NaN gives the result value NaN (the one pattern); C10_f64_normalised - in every table satisfying the invariant, in particular every result table: no terminal holds -0.0, every NaN terminal holds 7ff8000000000000, one terminal per value, hence at most one NaN terminal; C10_f64_ite (else-operand where the condition is 0, then-operand elsewhere - also for conditions that are not 0-1-valued, incl. NaN: the release behaviour), C10_f64_restrict, C10_f64_ite_restrict_history_independent, C10_f64_cube, C10_f64_const (constant through F64::from for an arbitrary pattern), C10_f64_var, C10_f64_eval, C10_f64_operators (the model's operators at the F64 instance are the functions of Num/F64.v), C10_f64_hypotheses_satisfiable (table built by the model: x0, x1, 0.5*x0 + x1; runs producing NaN, +inf and -0.0 candidates). FUNCTION LEVEL (C10_mt_*, integer terminals): for every table satisfying MtOK (well-formed MTBDD table whose terminal values are in the i64 range; decided by the extracted checker mt_ok_b), every apply cache of ANY implementation that only serves what was added (lossy) whose servable entries are correct (MCacheOK), every operand order used for the commutative normalisation and fuel > number of levels: mt_apply_bin op returns (never fails) a reference denoting fun a => i64_op (f a) (g a) for add/sub/mul/div/min/max (C10_mt_apply_bin_lifts, _pointwise in terms of the interpreter semk only, _assignments in terms of variable assignments), mt_apply_ite returns fun a => if f a = 0 then h a else g a (then-operand where the condition is 1), mt_restrict returns the operand's function with the levels of the cube's literals forced (Cube = chain of (x, rest, 0) / (x, 0, rest) nodes ending in 1, proved to denote the product of the literals and recognised by the extracted checker cube_lits); constant and var return the obvious functions; eval computes the interpreter. In every case the table is only extended (nodes and terminals), MtOK and MCacheOK are preserved, and if the result function already has a reference this very reference is returned and nothing is created - hence cache transparency and history independence (C10_mt_cache_transparent, C10_mt_*_history_independent, C10_mt_result_unique), also for the direct-mapped cache model (C10_mt_cache_instances). C10_mt_terminal_bin_sound discharges every arm of terminal_bin from a scalar law (0+x, x+0, x-0, 1*x, x*1, x/1, NaN absorbing, min/max of terminals by partial_cmp, f == g for min/max, operand swap only for add/mul/min/max); the cache-key obligation is part of MCacheOK (key (operator code, a, b) determines the pointwise meaning of the value). The two short-cuts fixed earlier in /repo are refuted at diagram level (C10_mt_sub_zero_shortcut_unsound: returning g for 0 - g; C10_mt_max_under_min_key_unsound: a max result is not a correct entry under the Min key). Hypotheses are satisfiable (C10_mt_hypotheses_satisfiable: a table built by the model itself). SCALAR LEVEL: I64 add/sub/mul/div of in-range operands equal the exact extended-integer result saturated to 64 bits (clamp (ext_op a b)); div truncates toward zero, x/0 = +-inf by the sign of x, MIN/-1 = +inf, undefined forms give NaN; results stay in range; partial_cmp is the order of the extended integers with NaN comparable only to itself. F64: the operations are Flocq's binary64 operations (round to nearest even) followed by the normalisation, which is idempotent; all results are normalised; finite non-overflowing results are the correctly rounded exact results; the short-cut laws hold on normalised values. On every run: scalar differential sweep (extracted models, independent Zarith predicate, real I64/F64); real MTBDD<I64> managers vs. pointwise spec (extracted scalar model) AND vs. the extracted function-level model replayed on the lifted snapshots before and after every operation; real MTBDD<F64> managers vs. the extracted F64 model applied pointwise, with wf_b/canonicity audits on normalised terminal values.",
    "level_note": "Two function-level developments: DD/ApplyMtbdd*.v (terminal type I64 built in; C10_mt_*) and its generalisation DD/MtG*.v over a class of terminal algebras (C10_mtg_*, instantiated for F64: C10_f64_*); both are replayed against the real managers (I64 traces against the former, F64 traces against the latter); that the generic model at the I64 instance coincides with DD/ApplyMtbdd.v is not proved (different inductive types), only that I64 satisfies the generic laws (C10_mtg_i64_laws). The F64 values of the model are the bit patterns; that every value of the Rust type F64 is a normalised pattern rests on the code paths that create F64 values all going through F64::from (From<f64>, add/sub/mul/div, zero/one/nan constants, and - since fix fb22d96 - ParseTagged::parse; exercised by the harness ops CONSTN / VT / PARSEC and audited on every snapshot by f64m_ok_b), this is not a theorem about the Rust type system. Not modelled: out-of-memory results (AllocResult), reference counts/gc (C05), the multi-threaded recursion (oxidd-rules-mtbdd has none), the debug_assert in apply_ite that a terminal condition is 0 or 1 (the model is the release behaviour: every non-zero condition selects the then-operand; the ite theorem is stated for arbitrary conditions and specialised to 0-1-valued ones), the unobservable edge order f > g (a parameter of the model; theorems hold for every order). The apply cache is abstract (lossy); the direct-mapped cache of DD/Cache.v is an instance. F64 scalar level: the identification of the hardware FPU with Flocq's binary64 is by correspondence on bit patterns, not proved; transitivity of the F64 order is not proved separately. Axioms reported by Print Assumptions for the F64 theorems only (Flocq / Coq Reals, allow-listed by name): ClassicalDedekindReals.sig_forall_dec, ClassicalDedekindReals.sig_not_dec, FunctionalExtensionality.functional_extensionality_dep, Classical_Prop.classic; every C10_i64_* and C10_mt_* theorem is closed under the global context (enforced by this check). Trusted: Coq kernel, extraction (ExtrOcamlBasic), OCaml drivers (c10_main.ml incl. its Zarith re-statement of the property, c10b_main.ml, dd_main.ml), Rust harnesses, the public snapshot API; models are hand-written.",
}

ALLOWED_AXIOMS = (
    "ClassicalDedekindReals.sig_forall_dec",
    "ClassicalDedekindReals.sig_not_dec",
    "FunctionalExtensionality.functional_extensionality_dep",
    "Classical_Prop.classic",
)
MODEL_VOS = ["Base/Conv.vo", "Num/I64.vo", "Num/F64.vo"]
THOROUGH_PARTS = 20


def build(ctx):
    drv = vf.ocaml_build(ctx, "ExC10.v", "c10_main.ml", model_vos=MODEL_VOS)
    bins = vf.cargo_build(["h_num"])
    return bins["h_num"], drv


MT_MODEL_VOS = ["Base/Conv.vo", "DD/Table.vo", "DD/Sem.vo", "DD/Build.vo", "DD/Apply.vo", "Num/I64.vo", "Num/F64.vo",
                "DD/ApplyMtbdd.vo", "DD/MtG.vo", "DD/MtF64.vo"]


def build_mt(ctx):
    """driver of the function-level model (coq/DD/ApplyMtbdd.v) + the DD harness"""
    pid = ctx.pid
    ctx.pid = "C10b"          # own build directory next to the scalar driver's
    try:
        drv = vf.ocaml_build(ctx, "ExC10b.v", "c10b_main.ml", extra_ml=["dd_types.ml"], model_vos=MT_MODEL_VOS)
    finally:
        ctx.pid = pid
    return vf.cargo_build(["h_dd"])["h_dd"], drv


def run_mt(ctx, cases):
    """function level, second pass: the extracted MODEL of terminal_bin/apply_bin/apply_ite/restrict/constant/var/
    eval replayed on the lifted snapshots (MTBDD<I64>), the extracted F64 scalar model applied pointwise and the
    structure audits with normalised terminal values (MTBDD<F64>)"""
    binp, drv = build_mt(ctx)
    ok, bad, _ = vf.lockstep_sharded(ctx, binp, drv, cases, nshards=16, tag="-mt")
    by_id = {h.split()[0]: (h, ops) for h, ops in cases}
    seen = set()
    for cid, msg in bad:
        cls = ddcommon.msg_class(msg)
        if cls in seen or len(seen) >= 2:
            continue
        seen.add(cls)
        header, ops = by_id[cid]
        kind = "prop" if "kind=prop" in msg else "corr"
        small, smsg = vf.shrink_case(ctx, binp, drv, header, ops, kind, budget=120,
                                     protect=lambda o: o.startswith("VARS"), accept=lambda m2, c=cls: ddcommon.msg_class(m2) == c)
        smsg = smsg or msg
        hk = " ".join(t for t in header.split()[1:] if t.split("=")[0] in ("kind", "threads"))
        body = ";".join(small) if len(small) <= 30 else f"case-{cid}"
        vf.report_violation(
            ctx, f"{kind}:{cls[0]}:{cls[1]}:{hk}:mt:{body}",
            {"stage": "correspondence", "driver": "c10b", "kind": kind, "case_header": header, "ops": small, "verdict": smsg,
             "replay_cmd": "./check C10 --replay <this file>",
             "theorem_or_relation": "C10 function level: coq/Props/C10.v C10_mt_* (model = implementation on the same table and operands); "
                                    "MTBDD<F64>: result value table == extracted F64 scalar model applied pointwise, terminal values normalised"},
            nfif=(kind != "prop"))
    return ok, bad


def report_bad(ctx, binp, drv, cases, bad, seen):
    """Each evaluation is independent: the failing line alone is the minimal case."""
    by_id = {h.split()[0]: (h, ops) for h, ops in cases}
    for cid, msg in bad:
        kind = "prop" if "kind=prop" in msg else "corr"
        header, ops = by_id[cid]
        m = re.search(r"step=(\d+)", msg)
        k = int(m.group(1)) if m else 0
        line = ops[k] if k < len(ops) else ops[-1]
        ty = "f64" if "ty=f64" in header else "i64"
        key = (kind, ty, line.split()[0])
        if key in seen:
            continue
        seen.add(key)
        # confirm on the single line
        one = os.path.join(ctx.workdir, "single.txt")
        hdr = f"min-{cid} ty={ty}"
        vf.write_cases(one, [(hdr, [line])])
        ok1, bad1 = vf.lockstep(ctx, binp, drv, one, tag="-shrink")
        smsg = bad1[0][1] if bad1 else msg
        vf.report_violation(
            ctx, f"{kind}:{ty}:{line}",
            {"stage": "correspondence", "kind": kind, "case_header": hdr, "ops": [line], "verdict": smsg,
             "replay_cmd": "./check C10 --replay <this file>",
             "theorem_or_relation": "C10 scalar: implementation result == exact result saturated (I64) / Flocq binary64 + normalisation (F64); coq/Props/C10.v"},
            nfif=(kind != "prop"))


def nontrivial(ty, line):
    t = line.split()
    if t[0] not in ("add", "sub", "mul", "div", "cmp"):
        return False
    zero = ("0", "0000000000000000")
    return not (t[1] in zero and t[2] in zero)


def audit_axioms(ctx):
    """vf.parse_print_assumptions only sees axiom names whose type starts on the same line;
    re-read the log so that names followed by a line break are audited and recorded too."""
    p = os.path.join(ctx.workdir, "coq.log")
    if not os.path.exists(p):
        return
    names = set()
    inblk = False
    for l in open(p).read().split("\n"):
        if l.startswith("Axioms:"):
            inblk = True
            continue
        if l.startswith("Closed under") or l.startswith("COQ") or l.startswith("make"):
            inblk = False
            continue
        if inblk:
            m = re.match(r"^([A-Za-z_][\w.']*)\s*(:|$)", l)
            if m:
                names.add(m.group(1))
    ctx.axioms_seen = sorted(set(ctx.axioms_seen) | names)
    # the integer-terminal theorems (scalar and function level) must not depend on any axiom at all
    try:
        pa = vf.parse_print_assumptions(open(p).read())
        for name, ax in zip(ctx.theorems, pa):
            if name.startswith(("C10_mt_", "C10_i64_", "C10_mtg_")) and ax:
                vf.report_violation(
                    ctx, f"proof:C10:{name} is not closed under the global context: {ax}",
                    {"stage": "proof", "theorem_file": "coq/Props/C10.v", "what": f"{name} depends on {ax}"}, nfif=True)
    except OSError:
        pass
    extra = [a for a in ctx.axioms_seen if a not in ALLOWED_AXIOMS]
    if extra:
        vf.report_violation(
            ctx, f"proof:C10:axioms outside the allow-list: {extra}",
            {"stage": "proof", "theorem_file": "coq/Props/C10.v", "what": f"axioms outside the allow-list: {extra}"},
            nfif=True)


def run(ctx):
    vf.proof_gate(ctx, ALLOWED_AXIOMS)
    audit_axioms(ctx)
    binp, drv = build(ctx)
    corpus_dir = os.path.join(vf.ROOT, "corpus", "C10")
    corpus = []
    if os.path.isdir(corpus_dir):
        for fn in sorted(os.listdir(corpus_dir)):
            corpus += [c for c in vf.parse_cases(open(os.path.join(corpus_dir, fn)).read()) if " kind=" not in c[0]]
    parts = 1 if ctx.tier == "quick" else THOROUGH_PARTS
    seen = set()
    distinct = set()
    total_ok = total_bad = 0
    samples = []
    for part in range(parts):
        rc, out = vf.sh([binp, "gen", ctx.tier, str(ctx.seed), str(part)])
        if rc != 0:
            raise vf.CheckFailure("generator failed: " + out[-500:])
        cases = vf.parse_cases(out)
        del out
        if part == 0:
            cases = [("corpus-" + h, ops) for h, ops in corpus] + cases
        cases_file = os.path.join(ctx.workdir, "cases.txt")
        vf.write_cases(cases_file, cases)
        ok, bad = vf.lockstep(ctx, binp, drv, cases_file)
        total_ok += ok
        total_bad += len(bad)
        for h, ops in cases:
            ty = "f64" if "ty=f64" in h else "i64"
            for o in ops:
                if nontrivial(ty, o):
                    distinct.add(hash((ty, o)))
        if part == 0:
            pick = [cases[0], cases[len(cases) // 4], cases[len(cases) // 2], cases[-1]]
            impl = {h: ops for h, ops in vf.parse_cases(open(os.path.join(ctx.workdir, "impl.txt")).read())
                    if h in {p[0] for p in pick}}
            samples = [{"case": h, "evaluations": impl.get(h, ops)[:12]} for h, ops in pick]
        if bad:
            report_bad(ctx, binp, drv, cases, bad, seen)
    # ---- function level: MTBDD<I64> diagrams on the real manager (DD harness) ----
    fl_cases = function_level_cases(ctx) + function_level_cases_f64(ctx)
    fl_ok, fl_bad = ddcommon.run_dd(ctx, ["C10"], fl_cases, rule="", proofs=False, write_ev=False)
    # ---- the same traces against the extracted model of the apply algorithms / the F64 scalar model ----
    # (package C10f: plus histories that only this driver sees: ITE with arbitrary conditions, PARSEC, more
    #  boundary values; corpus/C10/*.mtcase first)
    x_cases = function_level_cases_f64x(ctx)
    mt_ok, mt_bad = run_mt(ctx, fl_cases + x_cases)
    ctx.samples = samples + [{"case": h, "ops": ops[:10]} for h, ops in fl_cases[:1] + fl_cases[-1:]]
    ctx.stats["distinct_nontrivial"] = len(distinct) + len({tuple(o) for _, o in fl_cases})
    vf.write_evidence(
        ctx, "proof",
        rule="one evaluation = one line `op a [b]` on I64 or F64 (add, sub, mul, div, partial_cmp, ==, is_zero/is_one/is_nan, F64::from, zero()/one()/nan()); all pairs of the boundary sets (I64: 0, +-1, +-2, 3, -7, MIN, MIN+1, MAX, MAX-1, +-2^31, +-2^32, +-2^62, floor/ceil sqrt(MAX), +-inf, NaN; F64: +-0, subnormals, +-inf, NaNs with payloads, MAX, MIN_POSITIVE, 1, 1+-ulp, 2^53, ...) plus random pairs (50 000 per type and part; quick 1 part, thorough 20 parts) mixing small, near-overflow, power-of-two-neighbourhood and full-range values (I64) resp. subnormal, near-overflow/underflow, cancelling and arbitrary bit patterns (F64); corpus/C10 first; non-trivial = add/sub/mul/div/cmp whose operands are not both zero; distinct = distinct (type, op, operands) lines (counted by hash)",
        checker_cmd="make -C coq Props/C10.vo (coqc 8.16.1, Flocq 4.1.0) + Print Assumptions audit; ./check C10",
        extra_cov={"cases_ok": total_ok, "cases_bad": total_bad, "tier": ctx.tier,
                   "function_level_cases_ok": fl_ok, "function_level_cases_bad": len(fl_bad),
                   "model_replay_cases_ok": mt_ok, "model_replay_cases_bad": len(mt_bad),
                   "model_replay": {k: int(v) for k, v in ctx.stats.items() if k.startswith("c10b_")},
                   "model_replay_f64_rule": "MTBDD<F64> edge level (package C10f; statistics c10b_f64m_*): every snapshot of every mtbddf trace lifted with RAW bit patterns as terminal values, f64m_ok_b evaluated (kind=prop when false); every ADD/SUB/MUL/DIV/MIN/MAX/ITE/RESTRICT/CONSTN/PARSEC/VAR replayed by the extracted generic model at f64_alg (f64m_apply_bin / f64m_apply_ite / f64m_restrict / f64m_const / f64m_var; association-list cache, no cache, two operand orders) on the snapshot before the operation (same value table; same edge when the model finds an existing one) and on the first snapshot after it (the model must return the real result edge and create nothing); RESTRICT cubes rebuilt by the model and recognised by f64m_cube_lits; EVAL vs f64m_eval on all assignments; plus 40 (thorough 400) histories seen only by this driver (ddgen.mtf_case_history_x: ITE with arbitrary condition functions incl. NaN / inf / subnormal values, 0 - x / (0 - x) + x / (-1) * x / 0 / ((-1) * x) chains, max subnormal / min normal / 0.1 / 2^53 / -max / negative subnormal values, PARSEC = constant parsed from a DDDMP terminal description) and corpus/C10/*.mtcase", "model_replay_rule": "the same MTBDD<I64> traces, second driver (ocaml/c10b_main.ml): every snapshot lifted with the model's terminal coding, mt_ok_b (hypothesis MtOK) evaluated; every ADD/SUB/MUL/DIV/MIN/MAX/ITE/RESTRICT/CONSTN/VAR replayed by the extracted model (mt_apply_bin/mt_apply_ite/mt_restrict/mt_const/mt_var; association-list cache, no cache, two operand orders) on the snapshot before the operation (value table of the model's result == value table of the real result; same edge when the model finds an existing node) and on the first snapshot after it (the model must return the real result edge and create nothing); the RESTRICT cube is rebuilt by the model and recognised by cube_lits; EVAL compared with the extracted mt_eval on all assignments. MTBDD<F64> traces (kind mtbddf: all ordered pairs of the 121 one-variable functions over {0, 1, -1, 0.5, 3, -7, max finite, min subnormal, +-inf, NaN} under the six operators, -0.0 / NaN-with-payload inputs, random histories on 1..4 variables with ite, restrict, gc, reordering): raw value table of every result == extracted Flocq F64 operation applied pointwise, wf_b and canonicity over all handle pairs with terminal value = normalised bit pattern",
                   "function_level_rule": "MTBDD<I64> managers: all 121 one-variable functions with terminals from {0,1,-1,2,3,-7,MIN,MAX,+inf,-inf,nan}, every ordered pair under add/sub/mul/div/min/max (both variable orders); random functions over 1..4 variables, histories issuing different operators back to back on the same operands, ite with 0-1-valued conditions, restrict, constant, var, eval, gc and reordering in between; every result lifted to a snapshot, value tables computed by the extracted interpreter, expected values by the extracted I64 model applied pointwise",
                   "evaluations": int(ctx.stats.get("evals", 0)),
                   "cases": int(ctx.stats.get("cases", 0)),
                   "refuted_shortcut_arms": ["terminal_bin Sub: (Terminal(zero), _) => g  [C10_i64_sub_zero_l_refuted, C10_f64_sub_zero_l_refuted]",
                                             "terminal_bin Max: Binary(MTBDDOp::Min, ..)  [C10_i64_max_as_min_refuted, C10_f64_max_as_min_refuted]"]},
        assumptions=["I64 operands are in the i64 range (checked by the driver for every operand: wfb)",
                     "F64 operands are normalised bit patterns (the harness feeds every pattern through F64::from, the driver through the model's f64_from_bits)",
                     "the hardware FPU / rustc's f64 arithmetic is compared with Flocq's binary64 on the sampled bit patterns only"])


def function_level_cases(ctx):
    rng = random.Random(ctx.seed * 7919 + 10)
    thorough = ctx.tier == "thorough"
    cases = []
    cid = 0
    for op in ddgen.MT_OPS:
        for sw in ((False, True) if thorough else (rng.random() < 0.5,)):
            cases.append(ddgen.mt_case_pairs_1var(f"mp{cid}", op, sw)); cid += 1
    for _ in range(1500 if thorough else 120):
        cases.append(ddgen.mt_case_history(f"mh{cid}", rng, threads=rng.choice([1, 1, 4]))); cid += 1
    return cases


def function_level_cases_f64(ctx):
    """MTBDD<F64> (harness kind mtbddf)"""
    rng = random.Random(ctx.seed * 7919 + 11)
    thorough = ctx.tier == "thorough"
    cases = []
    cid = 0
    for op in ddgen.MT_OPS:
        for sw in ((False, True) if thorough else (rng.random() < 0.5,)):
            # two halves per operator (balances the shards)
            cases.append(ddgen.mtf_case_pairs_1var(f"fp{cid}", op, sw, 0, 61)); cid += 1
            cases.append(ddgen.mtf_case_pairs_1var(f"fp{cid}", op, sw, 61, 121)); cid += 1
    for _ in range(600 if thorough else 60):
        cases.append(ddgen.mtf_case_history(f"fh{cid}", rng, threads=rng.choice([1, 1, 4]))); cid += 1
    return cases


def function_level_cases_f64x(ctx):
    """MTBDD<F64> histories for the model replay only (not for the shared DD driver and its debug-profile pass):
    corpus/C10/*.mtcase, then ddgen.mtf_case_history_x"""
    rng = random.Random(ctx.seed * 7919 + 12)
    cases = []
    corpus_dir = os.path.join(vf.ROOT, "corpus", "C10")
    if os.path.isdir(corpus_dir):
        for fn in sorted(os.listdir(corpus_dir)):
            if fn.endswith(".mtcase"):
                cases += [("corpus-" + h, ops) for h, ops in vf.parse_cases(open(os.path.join(corpus_dir, fn)).read())]
    for i in range(400 if ctx.tier == "thorough" else 40):
        cases.append(ddgen.mtf_case_history_x(f"fx{i}", rng, threads=rng.choice([1, 1, 4])))
    return cases


def replay(ctx, path):
    r = json.load(open(path))
    if r.get("driver") == "c10b":
        binp, drv = build_mt(ctx)
        f = os.path.join(ctx.workdir, "replay.txt")
        vf.write_cases(f, [(r["case_header"], r["ops"])])
        ok, bad = vf.lockstep(ctx, binp, drv, f, tag="-replay")
        for cid, msg in bad:
            print(f"replay: case {cid}: {msg}")
            vf.report_violation(ctx, "replay:" + ";".join(r["ops"][:30]), r, nfif=False)
        if not bad:
            print("replay: no divergence")
        return
    if "kind=mtbdd" in r.get("case_header", ""):
        return ddcommon.replay_dd(ctx, path)
    binp, drv = build(ctx)
    f = os.path.join(ctx.workdir, "replay.txt")
    vf.write_cases(f, [(r["case_header"], r["ops"])])
    ok, bad = vf.lockstep(ctx, binp, drv, f, tag="-replay")
    for cid, msg in bad:
        print(f"replay: case {cid}: {msg}")
        vf.report_violation(ctx, "replay:" + ";".join(r["ops"]), r, nfif=False)
    if not bad:
        print("replay: no divergence")
