"""C11 — TDD handles implement one fixed three-valued logic (Kleene not/and/or, Lukasiewicz imp/equiv, ite3)."""
import json
import os
import re
import vf

META = {
    "title": "TDD: constants, var, connectives, ite, eval and cofactors follow one fixed three-valued truth table each",
    "technique": "Rocq proof over a hand-written Gallina model of oxidd-rules-tdd (terminal_bin, apply_not, apply_bin, apply_ite_rec, eval_edge, cofactors, reduction rule): finite case analysis of every terminal short-cut against the fixed tables, lifting to all diagrams and all assignments by induction on the ternary Shannon expansion, canonicity; model tied to /repo by lock-step differential runs (extracted OCaml tables and algorithmic model vs. the real TDD manager built from the working tree)",
    "category": "proof",
    "design_ref": "DESIGN.md section 5, C11",
    "level_text": "Theorems in coq/Props/C11.v (checked by coqc on every run, Print Assumptions audited, all closed under the global context): the tables are Kleene's/Lukasiewicz's (C11_tables), every arm of terminal_bin for all 8 binary operators incl. the f == g short-cuts and operand normalisation denotes its table for operands of any shape and any edge order (C11_terminal_bin, _leaves, _key), every terminal short-cut of apply_ite_rec denotes ite3 (C11_ite_shortcuts), constants/var (C11_constants_var), and for ALL diagrams and ALL assignments: not / the 8 binary connectives / ite return the diagram of the pointwise table, terminate, and preserve ordered + reduced + level bound (C11_not, C11_apply_bin, C11_apply_ite); eval = sem on complete assignments (C11_eval); cofactors are the children = the three restrictions w.r.t. the top variable (C11_cofactors); ordered reduced diagrams are canonical so handle equality is function equality (C11_canonical); every function has such a diagram (C11_representable). On every run the real manager (2 variables, both orders, constants through TDDFunction::f/t/u) is driven over all pairs x 8 connectives and all triples (ite) of the 27 one-variable functions, mixed x0/x1 operands and a seeded sample of two-variable operand tuples; every result's full value table (eval on all 9 complete assignments), node structure (through cofactors()) and handle equalities are compared with the extracted tables (kind=prop) and the extracted algorithmic model (kind=corr).",
    "level_note": "Trusted: Coq kernel, extraction (ExtrOcamlBasic), OCaml driver, Rust harness; the model is hand-written. Not modelled: the apply cache (the model recomputes; C11_terminal_bin_key shows the normalised operand pair is a sound key), reference counting, allocation failure, concurrency. eval with INCOMPLETE assignments is outside the property's quantifier and not checked (unassigned variables select the true child in this tree, the documentation says unknown). The bit-packed choices vector of eval_edge is modelled (eval_packed) and run in the driver; its equality with the abstract eval is proved in DD/TddProofs.v where stated. C11_default_ite_refuted: the default method TVLFunction::ite_edge of oxidd-core computes or(and(f,g), imp_strict(f,h)), which differs from the property's ite at (U,T,T); it is overridden by TDDFunction and unreachable through TDD handles, hence reported but not a violation.",
}

ALLOWED_AXIOMS = ()
MODEL_VOS = ["Base/Conv.vo", "DD/Tdd.vo"]
PID = "C11"


def build_variants(ctx):
    """further builds of the harness: debug profile (debug assertions, overflow checks) of the default
    configuration, and the pointer-based manager in the release and in the debug profile"""
    return [
        ("debug", vf.cargo_build(["h_tdd"], profile="debug")["h_tdd"]),
        ("cfg-pointer", vf.cargo_build(["h_tdd"], features=["cfg-pointer"], no_default=True, target_sub="cfg-pointer")["h_tdd"]),
        ("cfg-pointer debug", vf.cargo_build(["h_tdd"], profile="debug", features=["cfg-pointer"], no_default=True,
                                             target_sub="cfg-pointer")["h_tdd"]),
    ]


def build(ctx):
    build_variants(ctx)
    drv = vf.ocaml_build(ctx, "ExC11.v", "c11_main.ml", model_vos=MODEL_VOS)
    bins = vf.cargo_build(["h_tdd"])
    return bins["h_tdd"], drv


def handle_bad(ctx, binp, drv, cases, bad):
    by_id = {h.split()[0]: (h, ops) for h, ops in cases}
    seen_kinds = set()
    for cid, msg in bad:
        kind = "prop" if "kind=prop" in msg else "corr"
        if kind in seen_kinds:
            continue
        seen_kinds.add(kind)
        header, ops = by_id[cid]
        # prefer the first failing line on its own (the most direct witness), else ddmin
        small, smsg = ops, None
        m = re.search(r"step=(\d+)", msg)
        if m and int(m.group(1)) < len(ops):
            small, smsg = vf.shrink_case(ctx, binp, drv, header, [ops[int(m.group(1))]], kind)
        if smsg is None:
            small, smsg = vf.shrink_case(ctx, binp, drv, header, ops, kind)
        smsg = smsg or msg
        sig = f"{kind}:" + ";".join(small) if len(small) <= 6 else f"{kind}:case-{cid}"
        vf.report_violation(
            ctx, sig,
            {"stage": "correspondence", "kind": kind, "case_header": header, "ops": small, "verdict": smsg,
             "replay_cmd": "./check C11 --replay <this file>",
             "how_to_read": "a table has 9 letters over F/U/T, entry 3*i0+i1 = value under x0=v(i0), x1=v(i1), v = F,U,T; order=0: x0 is VarNo 0 (top), order=1: x0 is VarNo 1; ops: C const, V var, N not, B <op> f g, I f g h (ite), K cofactors, Q handle equality, A all operators on (f,g,h)",
             "theorem_or_relation": "C11: result table == fixed table applied pointwise (coq/Props/C11.v: C11_apply_bin, C11_apply_ite, C11_not, C11_eval, C11_cofactors)"},
            nfif=(kind != "prop"))


def run(ctx):
    vf.proof_gate(ctx, ALLOWED_AXIOMS)
    binp, drv = build(ctx)
    cases_file = os.path.join(ctx.workdir, "cases.txt")
    corpus_dir = os.path.join(vf.ROOT, "corpus", PID)
    corpus = []
    if os.path.isdir(corpus_dir):
        for fn in sorted(os.listdir(corpus_dir)):
            if fn.endswith(".case"):
                corpus += vf.parse_cases(open(os.path.join(corpus_dir, fn)).read())
    rc, out = vf.sh([binp, "gen", ctx.tier, str(ctx.seed)])
    if rc != 0:
        raise vf.CheckFailure("generator failed: " + out[-500:])
    gen_cases = vf.parse_cases(out)
    cases = [("corpus" + h, ops) for h, ops in corpus] + gen_cases
    vf.write_cases(cases_file, cases)
    ok, bad = vf.lockstep(ctx, binp, drv, cases_file)
    pick = [c for c in (cases[:1] + cases[len(cases) // 2:len(cases) // 2 + 1] + cases[-1:])]
    ctx.samples = [{"case": h, "ops": ops[:6]} for h, ops in pick]
    if bad:
        handle_bad(ctx, binp, drv, cases, bad)
    # the corpus and a sample of the cases on the other builds (TDD nodes are the only ternary nodes: the node
    # stores and the debug assertions of the rules see them only here)
    sample = [c for c in cases if c[0].startswith("corpus")] + gen_cases[:: (4 if ctx.tier == "thorough" else 12)]
    for name, vbin in build_variants(ctx):
        f2 = os.path.join(ctx.workdir, "cases-" + name.replace(" ", "-") + ".txt")
        vf.write_cases(f2, sample)
        ok2, bad2 = vf.lockstep(ctx, vbin, drv, f2, tag="-" + name.replace(" ", "-"))
        ctx.add_stat("cases_" + name.replace(" ", "_").replace("-", "_"), ok2 + len(bad2))
        ok += ok2
        if bad2:
            bad2 = [(cid, f"({name} build) {msg}") for cid, msg in bad2]
            handle_bad(ctx, vbin, drv, sample, bad2)
            bad = list(bad) + bad2
    lines = set()
    for h, ops in cases:
        order = "order=1" in h
        for o in ops:
            t = o.split()
            # non-trivial: a connective / ite / cofactor line with at least one non-constant operand
            if t[0] in ("B", "I", "A", "N", "K") and any(len(set(x)) > 1 for x in t[1:] if len(x) == 9):
                lines.add((order, o))
    ctx.stats["distinct_nontrivial"] = len(lines)
    ctx.stats["cases"] = ctx.stats.get("lines", 0)
    vf.write_evidence(
        ctx, "proof",
        rule="a sample of the cases (every 12th, thorough every 4th) and the corpus also on a debug-profile build and on the pointer-based manager (release and debug profile); per variable order (x0 top / x1 top): constants via TDDFunction::f/t/u, var, not and cofactors of the 27 one-variable functions of x0 and of x1; all 27x27 pairs of one-variable functions of x0 x 8 binary connectives, all 27x27 (x0-function, x1-function) and (x1-function, x0-function) pairs x 8 connectives; ite on all 27^3 triples of one-variable functions of x0 and on sampled mixed x0/x1 triples; a seeded sample (quick 2000, thorough 100000 tuples) of two-variable operand triples (uniform tables, one-variable, constant, two-valued, and tables derived from earlier ones incl. equal operands) with not, 8 connectives, ite, cofactors and handle equality each; apply cache capacity 16 and 1024; every result evaluated on all 9 complete three-valued assignments; an evaluation = one op line, non-trivial = a connective/ite/not/cofactor line with a non-constant operand, distinct = distinct (order, line)",
        checker_cmd="make -C coq Props/C11.vo (coqc 8.16.1) + Print Assumptions audit; ./check C11",
        extra_cov={"cases_ok": ok, "cases_bad": len(bad), "tier": ctx.tier},
        assumptions=["eval is only checked on complete assignments (incomplete ones are outside C11)",
                     "two variables in the differential run; the theorems hold for any number of levels",
                     "the apply cache is not part of the model (results are compared, not cache contents)"])


def replay(ctx, path):
    binp, drv = build(ctx)
    r = json.load(open(path))
    f = os.path.join(ctx.workdir, "replay.txt")
    vf.write_cases(f, [(r["case_header"], r["ops"])])
    ok, bad = vf.lockstep(ctx, binp, drv, f, tag="-replay")
    for cid, msg in bad:
        print(f"replay: case {cid}: {msg}")
        vf.report_violation(ctx, "replay:" + ";".join(r["ops"][:6]), r, nfif=("kind=prop" not in msg))
    if not bad:
        print("replay: no divergence")
