"""C11 — TDD handles implement one fixed three-valued logic (Kleene not/and/or, Lukasiewicz imp/equiv, ite3)."""
import json
import os
import random
import re
import vf
import ddgen
from checks import ddcommon

META = {
    "title": "TDD: constants, var, connectives, ite, eval and cofactors follow one fixed three-valued truth table each",
    "technique": "Rocq proof over a hand-written Gallina model of oxidd-rules-tdd (terminal_bin, apply_not, apply_bin, apply_ite_rec, eval_edge, cofactors, reduction rule): finite case analysis of every terminal short-cut against the fixed tables, lifting to all diagrams and all assignments by induction on the ternary Shannon expansion, canonicity; model tied to /repo by lock-step differential runs (extracted OCaml tables and algorithmic model vs. the real TDD manager built from the working tree). Second model of the same functions on the manager state (coq/DD/ApplyTdd.v: node table with unique table, reduce = all three children equal + get_or_insert, the three hash-consed terminals, abstract apply cache keyed by (TDDOp code, normalised operands), unobservable edge order as a parameter), proved sound against the SAME tables by fuel induction with a canonicity-based stability clause, connected to the tree model by an unfolding theorem, and replayed (extracted) on snapshots of real TDD managers with the real operand edges",
    "category": "proof",
    "design_ref": "DESIGN.md section 5, C11; notes/C11s.md",
    "level_text": "Theorems in coq/Props/C11.v (checked by coqc on every run, Print Assumptions audited, all closed under the global context): the tables are Kleene's/Lukasiewicz's (C11_tables), every arm of terminal_bin for all 8 binary operators incl. the f == g short-cuts and operand normalisation denotes its table for operands of any shape and any edge order (C11_terminal_bin, _leaves, _key), every terminal short-cut of apply_ite_rec denotes ite3 (C11_ite_shortcuts), constants/var (C11_constants_var), and for ALL diagrams and ALL assignments: not / the 8 binary connectives / ite return the diagram of the pointwise table, terminate, and preserve ordered + reduced + level bound (C11_not, C11_apply_bin, C11_apply_ite); eval = sem on complete assignments (C11_eval); cofactors are the children = the three restrictions w.r.t. the top variable (C11_cofactors); ordered reduced diagrams are canonical so handle equality is function equality (C11_canonical); every function has such a diagram (C11_representable). On every run the real manager (2 variables, both orders, constants through TDDFunction::f/t/u) is driven over all pairs x 8 connectives and all triples (ite) of the 27 one-variable functions, mixed x0/x1 operands and a seeded sample of two-variable operand tuples; every result's full value table (eval on all 9 complete assignments), node structure (through cofactors()) and handle equalities are compared with the extracted tables (kind=prop) and the extracted algorithmic model (kind=corr). TABLE LEVEL (C11_snap_*, 24 theorems, coq/DD/ApplyTdd*.v): for every table satisfying TdOK (well-formed TDD table with exactly the terminals False/Unknown/True; decided by the extracted checker td_ok_b, C11_snap_invariant_checker), every apply cache of ANY implementation that only serves what was added (lossy) whose servable entries are correct (TCacheOK: the key (operator code, operands) determines the pointwise meaning of the value), every edge order used for the operand normalisation and fuel above the height: td_apply_not / td_apply_bin op / td_apply_ite return (never fail) a reference denoting fn_not phi / fn_bin op phi psi / fn_ite phi psi theta - the pointwise liftings of k_not / table op / ite3 of DD/Tdd.v, i.e. of the one fixed logic (C11_snap_not_lifts, _apply_bin_lifts, _apply_ite_lifts; _pointwise in terms of the interpreter semk only; C11_snap_handles_assignments in terms of three-valued assignments of the VARIABLES under the table's variable order, incl. constants and var); the table is only extended, TdOK and TCacheOK are preserved, and if the result function already has a reference this very reference is returned and nothing is created - hence cache transparency, history independence and result uniqueness (C11_snap_cache_transparent, _*_history_independent, _result_unique), also for the direct-mapped cache model (C11_snap_cache_instances). C11_snap_terminal_bin_sound discharges every arm of terminal_bin on table references (f == g, terminal short-cuts, Not results, operand swap only for commutative tables, key = operands as given or swapped); C11_snap_ite_shortcuts_sound every rewrite of apply_ite_rec after the three equality tests (g == h, f == g -> or, f == h -> and, terminal conditions, (T,inner) -> or, (F,inner) -> imp_strict, (inner,T) -> imp, (inner,F) -> and, (F,T) -> not, (T,F) -> f); C11_snap_constants / _var / _cofactors (children = the three restrictions w.r.t. the root level, which the function depends on) / _eval (the bit-packed choices vector = the abstract map; complete argument lists in any order with repetitions give the handle's function) / _denotation (every reference denotes exactly one function; equal functions -> equal references). C11_snap_unfold + C11_snap_tree_model: every reference unfolds to an ordered, reduced tree of the first model with the same function, the tree determines the reference, and the table algorithms commute with unfolding (result of the table algorithm unfolds to the result of the tree algorithm on the unfolded operands, for all caches and edge orders) - so the tree-level theorems are statements about the manager. Hypotheses satisfiable (C11_snap_hypotheses_satisfiable: fresh manager and an 8-node table with a non-empty cache built by the model). On every run (second stage): harness h_dd kind=tdd, every snapshot lifted and td_ok_b evaluated; every not / connective / ite / const / var compared with the extracted fixed table applied pointwise to the operands over all 3^n assignments (kind=prop), replayed by the extracted table model with the real operand edges on the snapshot before it (same value table; same edge if it existed; the real run creates no more nodes than the model; no pre-state node changed) and on a later snapshot (the model must return the real result edge and create nothing), the unfolding of the real result compared with the tree algorithm on the unfolded operands; eval vs td_eval / td_eval_abs; cofactors vs td_cofactors (kind=corr).",
    "level_note": "Trusted: Coq kernel, extraction (ExtrOcamlBasic), OCaml drivers (c11_main.ml, c11s_main.ml incl. lifting of snapshots and the per-snapshot shift of node ids), Rust harnesses (h_tdd, h_dd), the public snapshot API; the models are hand-written. Tree model: the apply cache is not part of it (the model recomputes; C11_terminal_bin_key shows the normalised operand pair is a sound key). Table model: the cache is abstract (any lossy cache; instances: association list, no cache, the direct-mapped cache of DD/Cache.v), the edge order f > g is a parameter (unobservable; theorems hold for every order), get_terminal(..).unwrap() / unwrap_inner() panics are None results that the theorems exclude under TdOK. Not modelled at either level: reference counting / EdgeDropGuard (C05), allocation failure (AllocResult), statistics counters, concurrency (oxidd-rules-tdd has no multi-threaded recursion). eval with INCOMPLETE assignments is outside the property's quantifier and not checked (unassigned variables select the true child in this tree, the documentation says unknown). The bit-packed choices vector of eval_edge is modelled (eval_packed) and run in the driver; its equality with the abstract eval is proved in DD/TddProofs.v where stated. C11_default_ite_refuted: the default method TVLFunction::ite_edge of oxidd-core computes or(and(f,g), imp_strict(f,h)), which differs from the property's ite at (U,T,T); it is overridden by TDDFunction and unreachable through TDD handles, hence reported but not a violation.",
}

ALLOWED_AXIOMS = ()
MODEL_VOS = ["Base/Conv.vo", "DD/Tdd.vo"]
PID = "C11"


def build_variants(ctx):
    """further builds of the harness: debug profile (debug assertions, overflow checks) of the default
    configuration, and the pointer-based manager in the release and in the debug profile"""
    return [
        ("debug", vf.cargo_build(["h_tdd"], profile="debug")["h_tdd"]),
        ("cfg-pointer", vf.cargo_build(["h_tdd"], features=["cfg-pointer"], no_default=True, target_sub="cfg-pointer")["h_tdd"]),
        ("cfg-pointer debug", vf.cargo_build(["h_tdd"], profile="debug", features=["cfg-pointer"], no_default=True,
                                             target_sub="cfg-pointer")["h_tdd"]),
    ]


def build(ctx):
    build_variants(ctx)
    drv = vf.ocaml_build(ctx, "ExC11.v", "c11_main.ml", model_vos=MODEL_VOS)
    bins = vf.cargo_build(["h_tdd"])
    return bins["h_tdd"], drv


def handle_bad(ctx, binp, drv, cases, bad):
    by_id = {h.split()[0]: (h, ops) for h, ops in cases}
    seen_kinds = set()
    for cid, msg in bad:
        kind = "prop" if "kind=prop" in msg else "corr"
        if kind in seen_kinds:
            continue
        seen_kinds.add(kind)
        header, ops = by_id[cid]
        # prefer the first failing line on its own (the most direct witness), else ddmin
        small, smsg = ops, None
        m = re.search(r"step=(\d+)", msg)
        if m and int(m.group(1)) < len(ops):
            small, smsg = vf.shrink_case(ctx, binp, drv, header, [ops[int(m.group(1))]], kind)
        if smsg is None:
            small, smsg = vf.shrink_case(ctx, binp, drv, header, ops, kind)
        smsg = smsg or msg
        sig = f"{kind}:" + ";".join(small) if len(small) <= 6 else f"{kind}:case-{cid}"
        vf.report_violation(
            ctx, sig,
            {"stage": "correspondence", "kind": kind, "case_header": header, "ops": small, "verdict": smsg,
             "replay_cmd": "./check C11 --replay <this file>",
             "how_to_read": "a table has 9 letters over F/U/T, entry 3*i0+i1 = value under x0=v(i0), x1=v(i1), v = F,U,T; order=0: x0 is VarNo 0 (top), order=1: x0 is VarNo 1; ops: C const, V var, N not, B <op> f g, I f g h (ite), K cofactors, Q handle equality, A all operators on (f,g,h)",
             "theorem_or_relation": "C11: result table == fixed table applied pointwise (coq/Props/C11.v: C11_apply_bin, C11_apply_ite, C11_not, C11_eval, C11_cofactors)"},
            nfif=(kind != "prop"))


# ---------------------------------------------------------------------------------------------------------
# stage 2: the table-level model (coq/DD/ApplyTdd.v) replayed on snapshots of real TDD managers (h_dd kind=tdd)
# ---------------------------------------------------------------------------------------------------------
SNAP_MODEL_VOS = ["Base/Conv.vo", "DD/Table.vo", "Num/I64.vo", "DD/Build.vo", "DD/Apply.vo", "DD/Tdd.vo", "DD/ApplyTdd.vo"]
T3_BIN = ["T3AND", "T3OR", "T3NAND", "T3NOR", "T3XOR", "T3EQUIV", "T3IMP", "T3IMPS"]
FUN_BASE = {0: 100, 1: 200}        # slots of the 27 one-variable functions of variable 0 / 1
CONST_SLOT = {0: 20, 1: 21, 2: 22}  # value code (0 F, 1 U, 2 T) -> slot of the constant


def build_snap(ctx):
    """driver of the table-level model + the DD harness"""
    pid = ctx.pid
    ctx.pid = "C11s"          # own build directory next to the tree-level driver's
    try:
        drv = vf.ocaml_build(ctx, "ExC11s.v", "c11s_main.ml", extra_ml=["dd_types.ml"], model_vos=SNAP_MODEL_VOS)
    finally:
        ctx.pid = pid
    return vf.cargo_build(["h_dd"])["h_dd"], drv


def onevar_prelude(nv=2, order=None):
    """ops that build, for v = 0 and 1, the 27 functions of variable v from var, the three constants and the
    connectives (through the indicator functions I_T = not(x -> not x), I_U = (x -> not x) and (not x -> x),
    I_F = not(not x -> x) of Lukasiewicz's implication): function (cT, cU, cF) in slot FUN_BASE[v] + 9 cT + 3 cU + cF"""
    ops = [f"VARS {nv}"]
    if order:
        ops.append("ORDER " + " ".join(map(str, order)))
    for code, c in ((0, "f"), (1, "u"), (2, "t")):
        ops.append(f"T3CONST h{CONST_SLOT[code]} {c}")
    for v in (0, 1):
        x, nx, a, b, it, iu, if_ = (30 + 10 * v + k for k in range(7))
        ops += [f"T3VAR h{x} {v}", f"T3NOT h{nx} h{x}", f"T3IMP h{a} h{x} h{nx}", f"T3IMP h{b} h{nx} h{x}",
                f"T3AND h{iu} h{a} h{b}", f"T3NOT h{it} h{a}", f"T3NOT h{if_} h{b}"]
        for ct in range(3):
            for cu in range(3):
                for cf in range(3):
                    dst = FUN_BASE[v] + 9 * ct + 3 * cu + cf
                    ops += [f"T3AND h60 h{it} h{CONST_SLOT[ct]}", f"T3AND h61 h{iu} h{CONST_SLOT[cu]}",
                            f"T3AND h62 h{if_} h{CONST_SLOT[cf]}", "T3OR h63 h60 h61", f"T3OR h{dst} h63 h62"]
    ops.append("SNAP")
    return ops


def snap_case_pairs(cid, op, va, vb, order, cache):
    """all 27 x 27 pairs (function of variable va, function of variable vb) under one connective; the results
    are checked on the snapshot at the end (post-state replay, tree model, fixed tables)"""
    ops = onevar_prelude(order=order)
    k = 1000
    for i in range(27):
        for j in range(27):
            ops.append(f"{op} h{k} h{FUN_BASE[va] + i} h{FUN_BASE[vb] + j}")
            k += 1
    ops.append("SNAP")
    return (ddgen.header(cid, "tdd", cache=cache), ops)


def snap_case_unary(cid, order):
    ops = onevar_prelude(order=order)
    k = 1000
    for v in (0, 1):
        for i in range(27):
            f = FUN_BASE[v] + i
            ops += [f"T3NOT h{k} h{f}", f"T3COF h{k + 1} h{k + 2} h{k + 3} h{f}", f"T3EVAL h{f}"]
            k += 4
    for code in range(3):
        ops += [f"T3COF h{k} h{k + 1} h{k + 2} h{CONST_SLOT[code]}", f"T3EVAL h{CONST_SLOT[code]}"]
        k += 3
    ops.append("SNAP")
    return (ddgen.header(cid, "tdd"), ops)


def snap_case_ite(cid, rng, triples, order, cache):
    """ite on sampled triples of one-variable functions (variables mixed) and constants"""
    ops = onevar_prelude(order=order)
    k = 1000
    pool = [FUN_BASE[v] + i for v in (0, 1) for i in range(27)] + list(CONST_SLOT.values())
    for _ in range(triples):
        r = rng.random()
        if r < 0.25:       # all operands over the same variable
            v = rng.randrange(2)
            f, g, h = (FUN_BASE[v] + rng.randrange(27) for _ in range(3))
        elif r < 0.4:      # equal operands (the f == g / f == h / g == h short-cuts)
            f, g = rng.choice(pool), rng.choice(pool)
            f, g, h = rng.choice([(f, f, g), (f, g, f), (g, f, f)])
        else:
            f, g, h = rng.choice(pool), rng.choice(pool), rng.choice(pool)
        ops.append(f"T3ITE h{k} h{f} h{g} h{h}")
        k += 1
    ops.append("SNAP")
    return (ddgen.header(cid, "tdd", cache=cache), ops)


def snap_case_history(cid, rng, nv, nops, cache):
    """random history with a snapshot after every operation (pre-state replay: the model creates the nodes itself):
    operands are variables, constants and earlier results; gc, reordering, drops, eval and cofactors in between"""
    ops = [f"VARS {nv}"]
    slots = []
    for v in range(nv):
        ops.append(f"T3VAR h{v} {v}"); slots.append(v)
    for k, c in enumerate("fut"):
        ops.append(f"T3CONST h{nv + k} {c}"); slots.append(nv + k)
    nxt = nv + 3
    for _ in range(nops):
        r = rng.random()
        pick = lambda: rng.choice(slots) if rng.random() < 0.8 else rng.choice(slots[:nv + 3])
        if r < 0.08:
            ops.append(f"T3NOT h{nxt} h{pick()}")
        elif r < 0.33:
            f, g, h = pick(), pick(), pick()
            if rng.random() < 0.2:
                f, g, h = rng.choice([(f, f, h), (f, g, f), (f, g, g)])
            ops.append(f"T3ITE h{nxt} h{f} h{g} h{h}")
        elif r < 0.86:
            ops.append(f"{rng.choice(T3_BIN)} h{nxt} h{pick()} h{pick()}")
        elif r < 0.89:
            ops.append("GC"); continue
        elif r < 0.92 and nv > 1:
            o = list(range(nv)); rng.shuffle(o)
            ops.append(f"{rng.choice(['ORDER', 'ORDERSEQ'])} " + " ".join(map(str, o))); continue
        elif r < 0.95 and len(slots) > nv + 3:
            h = rng.choice(slots[nv + 3:]); slots.remove(h)
            ops.append(f"DROP h{h}"); continue
        elif r < 0.975:
            ops.append(f"T3EVAL h{pick()}"); continue
        else:
            ops.append(f"T3COF h{nxt} h{nxt + 1} h{nxt + 2} h{pick()}")
            slots += [nxt, nxt + 1, nxt + 2]; nxt += 3      # (no handles are assigned when the operand is a terminal)
            continue
        slots.append(nxt); nxt += 1
    ops.append("SNAP")
    return (ddgen.header(cid, "tdd", cache=cache, snap_each=True), ops)


def wide_case(cid, rng):
    """17..70 variables (the choices of eval are packed 16 per word): value tables are out of reach, so every
    handle is followed as the expression that built it and eval is asked for sampled assignments"""
    nv = rng.choice([17, 18, 24, 31, 32, 33, 40, 48, 49, 64, 65, 70])
    ops = [f"VARS {nv}", "T3CONST h0 f", "T3CONST h1 u", "T3CONST h2 t"]
    if rng.random() < 0.5:
        o = list(range(nv)); rng.shuffle(o)
        ops.append("ORDER " + " ".join(map(str, o)))
    slots = [0, 1, 2]
    nxt = 3
    # variable handles: spread over all words of the packed vector
    vs = sorted(set([0, nv - 1, 15, 16] + [rng.randrange(nv) for _ in range(8)]))
    for v in vs:
        ops.append(f"T3VAR h{nxt} {v}"); slots.append(nxt); nxt += 1
    def asg():
        return "".join(rng.choice("tuf") for _ in range(nv))
    for h in slots[3:]:
        for _ in range(3):
            ops.append(f"T3EVALA h{h} {asg()}")
    for _ in range(rng.randrange(10, 30)):
        r = rng.random()
        pick = lambda: rng.choice(slots)
        if r < 0.15:
            ops.append(f"T3NOT h{nxt} h{pick()}")
        elif r < 0.3:
            ops.append(f"T3ITE h{nxt} h{pick()} h{pick()} h{pick()}")
        else:
            ops.append(f"{rng.choice(T3_BIN)} h{nxt} h{pick()} h{pick()}")
        slots.append(nxt); nxt += 1
        for _ in range(4):
            ops.append(f"T3EVALA h{nxt - 1} {asg()}")
        if rng.random() < 0.1:
            ops.append("GC")
    return (ddgen.header(cid, "tdd", cache=rng.choice([16, 4096]), extra="wide=1"), ops)


def snap_cases(ctx):
    rng = random.Random(ctx.seed * 7919 + 11)
    thorough = ctx.tier == "thorough"
    cases = []
    cid = 0
    orders = [None, [1, 0]]
    for op in T3_BIN:
        combos = [(0, 0), (0, 1), (1, 0), (1, 1)]
        for va, vb in (combos if thorough else rng.sample(combos, 2)):
            cases.append(snap_case_pairs(f"sp{cid}", op, va, vb, rng.choice(orders), rng.choice([16, 1024]))); cid += 1
    for o in orders:
        cases.append(snap_case_unary(f"su{cid}", o)); cid += 1
    for _ in range(24 if thorough else 4):
        cases.append(snap_case_ite(f"si{cid}", rng, 1200, rng.choice(orders), rng.choice([16, 1024]))); cid += 1
    for _ in range(1500 if thorough else 150):
        nv = rng.choice([1, 2, 2, 3, 3, 4, 5])
        cases.append(snap_case_history(f"sh{cid}", rng, nv, rng.randrange(6, 14 * nv), rng.choice([4, 16, 4096]))); cid += 1
    for _ in range(200 if thorough else 30):
        cases.append(wide_case(f"sw{cid}", rng)); cid += 1
    return cases


def run_snap(ctx):
    """second stage; returns (cases, ok, bad)"""
    binp, drv = build_snap(ctx)
    corpus_dir = os.path.join(vf.ROOT, "corpus", PID)
    corpus = []
    if os.path.isdir(corpus_dir):
        for fn in sorted(os.listdir(corpus_dir)):
            if fn.endswith(".ddcase"):
                corpus += [("corpus-" + h, ops) for h, ops in vf.parse_cases(open(os.path.join(corpus_dir, fn)).read())]
    cases = corpus + snap_cases(ctx)
    ok, bad, _ = vf.lockstep_sharded(ctx, binp, drv, cases, nshards=16, tag="-snap")
    by_id = {h.split()[0]: (h, ops) for h, ops in cases}
    bin_of = {}
    # the corpus and every sixth case also on a debug-profile build of /repo (debug assertions, overflow checks)
    binp_dbg = ddcommon.build_dd_debug(ctx)
    dcases = [("dbg-" + h, ops) for h, ops in corpus + cases[len(corpus)::6]]
    ok2, bad2, _ = vf.lockstep_sharded(ctx, binp_dbg, drv, dcases, nshards=16, tag="-snap-dbg")
    ok += ok2
    bad = list(bad) + list(bad2)
    ctx.add_stat("c11s_debug_profile_cases", len(dcases))
    for h, ops in dcases:
        by_id[h.split()[0]] = (h, ops)
        bin_of[h.split()[0]] = binp_dbg
    cases = cases + dcases
    seen = set()
    for cid, msg in bad:
        cls = ddcommon.msg_class(msg)
        if cls in seen or len(seen) >= 2:
            continue
        seen.add(cls)
        header, ops = by_id[cid]
        kind = "prop" if "kind=prop" in msg else "corr"
        small, smsg = vf.shrink_case(ctx, bin_of.get(cid, binp), drv, header, ops, kind, budget=120,
                                     protect=lambda o: o.startswith("VARS"), accept=lambda m2, c=cls: ddcommon.msg_class(m2) == c)
        smsg = smsg or msg
        body = ";".join(small) if len(small) <= 30 else f"case-{cid}"
        vf.report_violation(
            ctx, f"{kind}:{cls[0]}:{cls[1]}:snap:{body}",
            {"stage": "correspondence", "driver": "c11s", "kind": kind, "case_header": header, "ops": small, "verdict": smsg,
             "profile": "debug" if cid in bin_of else "release",
             "replay_cmd": "./check C11 --replay <this file>",
             "how_to_read": "h_dd script, kind=tdd: T3VAR/T3CONST/T3NOT/T3AND../T3ITE dst operands; value tables are indexed by the assignment in base 3 (digit v = child index at variable v: 0 true, 1 unknown, 2 false), values 0 F, 1 U, 2 T",
             "theorem_or_relation": "C11 table level: coq/Props/C11.v C11_snap_* (model = implementation on the same table and operands; result table = fixed table applied pointwise)"},
            nfif=(kind != "prop"))
    return cases, ok, bad



def run(ctx):
    vf.proof_gate(ctx, ALLOWED_AXIOMS)
    binp, drv = build(ctx)
    cases_file = os.path.join(ctx.workdir, "cases.txt")
    corpus_dir = os.path.join(vf.ROOT, "corpus", PID)
    corpus = []
    if os.path.isdir(corpus_dir):
        for fn in sorted(os.listdir(corpus_dir)):
            if fn.endswith(".case"):
                corpus += vf.parse_cases(open(os.path.join(corpus_dir, fn)).read())
    rc, out = vf.sh([binp, "gen", ctx.tier, str(ctx.seed)])
    if rc != 0:
        raise vf.CheckFailure("generator failed: " + out[-500:])
    gen_cases = vf.parse_cases(out)
    cases = [("corpus" + h, ops) for h, ops in corpus] + gen_cases
    vf.write_cases(cases_file, cases)
    ok, bad = vf.lockstep(ctx, binp, drv, cases_file)
    pick = [c for c in (cases[:1] + cases[len(cases) // 2:len(cases) // 2 + 1] + cases[-1:])]
    ctx.samples = [{"case": h, "ops": ops[:6]} for h, ops in pick]
    if bad:
        handle_bad(ctx, binp, drv, cases, bad)
    # the corpus and a sample of the cases on the other builds (TDD nodes are the only ternary nodes: the node
    # stores and the debug assertions of the rules see them only here)
    sample = [c for c in cases if c[0].startswith("corpus")] + gen_cases[:: (4 if ctx.tier == "thorough" else 12)]
    for name, vbin in build_variants(ctx):
        f2 = os.path.join(ctx.workdir, "cases-" + name.replace(" ", "-") + ".txt")
        vf.write_cases(f2, sample)
        ok2, bad2 = vf.lockstep(ctx, vbin, drv, f2, tag="-" + name.replace(" ", "-"))
        ctx.add_stat("cases_" + name.replace(" ", "_").replace("-", "_"), ok2 + len(bad2))
        ok += ok2
        if bad2:
            bad2 = [(cid, f"({name} build) {msg}") for cid, msg in bad2]
            handle_bad(ctx, vbin, drv, sample, bad2)
            bad = list(bad) + bad2
    lines = set()
    for h, ops in cases:
        order = "order=1" in h
        for o in ops:
            t = o.split()
            # non-trivial: a connective / ite / cofactor line with at least one non-constant operand
            if t[0] in ("B", "I", "A", "N", "K") and any(len(set(x)) > 1 for x in t[1:] if len(x) == 9):
                lines.add((order, o))
    # ---- stage 2: the table-level model replayed on snapshots of real TDD managers ----
    sn_cases, sn_ok, sn_bad = run_snap(ctx)
    sn_lines = set()
    for h, ops in sn_cases:
        hk = " ".join(t for t in h.split()[1:] if t.split("=")[0] in ("cache", "snap"))
        for k, o in enumerate(ops):
            if o.split()[0] in T3_BIN + ["T3ITE", "T3NOT", "T3COF", "T3EVAL"]:
                # (operands are slots: a line is identified by the defining prefix of its case)
                sn_lines.add(hash((hk, tuple(ops[:k + 1])))) if "snap=each" in h else sn_lines.add((hk, ops[1] if ops[1].startswith("ORDER") else "", o))
    ctx.samples += [{"case": h, "ops": ops[:3] + ["..."] + ops[-6:]} for h, ops in sn_cases[:1] + sn_cases[-1:]]
    ctx.stats["distinct_nontrivial"] = len(lines) + len(sn_lines)
    ctx.stats["cases"] = ctx.stats.get("lines", 0) + sum(len(ops) for _, ops in sn_cases)
    vf.write_evidence(
        ctx, "proof",
        rule="a sample of the cases (every 12th, thorough every 4th) and the corpus also on a debug-profile build and on the pointer-based manager (release and debug profile); per variable order (x0 top / x1 top): constants via TDDFunction::f/t/u, var, not and cofactors of the 27 one-variable functions of x0 and of x1; all 27x27 pairs of one-variable functions of x0 x 8 binary connectives, all 27x27 (x0-function, x1-function) and (x1-function, x0-function) pairs x 8 connectives; ite on all 27^3 triples of one-variable functions of x0 and on sampled mixed x0/x1 triples; a seeded sample (quick 2000, thorough 100000 tuples) of two-variable operand triples (uniform tables, one-variable, constant, two-valued, and tables derived from earlier ones incl. equal operands) with not, 8 connectives, ite, cofactors and handle equality each; apply cache capacity 16 and 1024; every result evaluated on all 9 complete three-valued assignments; an evaluation = one op line, non-trivial = a connective/ite/not/cofactor line with a non-constant operand, distinct = distinct (order, line)",
        checker_cmd="make -C coq Props/C11.vo (coqc 8.16.1) + Print Assumptions audit; ./check C11",
        extra_cov={"cases_ok": ok, "cases_bad": len(bad), "tier": ctx.tier,
                   "table_model_cases_ok": sn_ok, "table_model_cases_bad": len(sn_bad),
                   "table_model_replay": {k: int(v) for k, v in ctx.stats.items() if k.startswith("c11s_")},
                   "table_model_rule": "second stage (harness h_dd kind=tdd, driver ocaml/c11s_main.ml, extracted coq/DD/ApplyTdd.v): real TDD managers with 2 variables holding the 27 functions of x0 and the 27 functions of x1 (built from var, f/u/t and the connectives), per connective two (thorough: all four) of the (x0|x1, x0|x1) combinations x all 27x27 operand pairs, both variable orders, apply cache 16 / 1024; not, cofactors and eval of all 54 functions and the constants; 4 (thorough 24) cases of 1200 sampled ite triples (same variable, mixed, equal operands, constants); 150 (thorough 1500) random histories on 1..5 variables with a snapshot after every operation (operands: variables, constants, earlier results; gc, set_var_order, drops, eval, cofactors in between; apply cache 4 / 16 / 4096). Every snapshot is lifted and td_ok_b (hypothesis TdOK) evaluated; every not / connective / ite / const / var is (prop) compared with the extracted fixed table applied pointwise to the operands' value tables over all 3^n assignments, (pre) replayed by the extracted model on the snapshot before it with the real operand edges (same value table, same edge if it existed, real run creates no more nodes than the model, no node of the pre-state changed), (post) replayed on the first later snapshot with unchanged handles (the model must return the real edge and create nothing; association-list cache / no cache / pre-filled cache, three edge orders), (tree) the unfolding of the real result must equal the tree algorithm of coq/DD/Tdd.v on the unfolded operands; T3EVAL vs td_eval (packed choices) and td_eval_abs on all 3^n assignments with permuted / repeated arguments; T3COF vs td_cofactors; wide cases (30, thorough 200): managers with 17..70 variables (the choices vector of eval packs 16 variables per word), optional reordering, handles followed as the expressions that built them, eval under sampled assignments against the fixed tables applied to the expression"},
        assumptions=["eval is only checked on complete assignments (incomplete ones are outside C11)",
                     "two variables in the differential run; the theorems hold for any number of levels",
                     "first stage: the apply cache is not part of the tree model (results are compared, not cache contents); second stage: the real cache contents are not lifted (the table model is run with caches of its own; its theorems hold for every correct cache)",
                     "second stage: at most 5 variables (3^5 assignments per value table); the theorems hold for any number of levels"])


def replay(ctx, path):
    r = json.load(open(path))
    if r.get("driver") == "c11s":
        binp, drv = build_snap(ctx)
        if r.get("profile") == "debug":
            binp = ddcommon.build_dd_debug(ctx)
        f = os.path.join(ctx.workdir, "replay.txt")
        vf.write_cases(f, [(r["case_header"], r["ops"])])
        ok, bad = vf.lockstep(ctx, binp, drv, f, tag="-replay")
        for cid, msg in bad:
            print(f"replay: case {cid}: {msg}")
            vf.report_violation(ctx, "replay:" + ";".join(r["ops"][:30]), r, nfif=("kind=prop" not in msg))
        if not bad:
            print("replay: no divergence")
        return
    binp, drv = build(ctx)
    f = os.path.join(ctx.workdir, "replay.txt")
    vf.write_cases(f, [(r["case_header"], r["ops"])])
    ok, bad = vf.lockstep(ctx, binp, drv, f, tag="-replay")
    for cid, msg in bad:
        print(f"replay: case {cid}: {msg}")
        vf.report_violation(ctx, "replay:" + ";".join(r["ops"][:6]), r, nfif=("kind=prop" not in msg))
    if not bad:
        print("replay: no divergence")
