"""C12 (number types) — Natural / Saturating<u64,u128> / F64 compute exactly; NaN / marker only where documented."""
import json
import os
import vf

META = {
    "title": "Model counting number types: the arbitrary-precision Natural (and Saturating<u64/u128>) compute exactly",
    "technique": "Rocq proof over a hand-written Gallina model of util/num/bigint.rs (digit lists + binary exponent, the carry/shift/strip algorithms at u64-digit level) and of Saturating<uW>: representation invariant preserved and every operation equals the N operation on val = mantissa * 2^exp; model tied to /repo by lock-step differential runs of the extracted model against the real oxidd_core::util::num::{Natural, Saturating, F64} with an independent Zarith big-integer oracle",
    "category": "proof",
    "design_ref": "DESIGN.md section 5, C12 (number types part)",
    "level_text": "Theorems C12_nat_* / C12_sat_* in coq/Props/C12.v (checked by coqc on every run, Print Assumptions audited). On every run the real Natural is driven through all operand pairs of the boundary set {0,1,2^k-1,2^k,2^k+1 | k in 31,32,63,64,65,127,128,129,191,192} (sum in both orders, all shifts {0,1,63,64,65,2^40,u64::MAX-1} in both directions, comparisons, conversions, text), conversions from all integer widths and back, f64 rounding at the precision/range limits, clone/clone_from between all representation shapes, random operands up to 512 bits in random op sequences, sat_count-like (a+b)>>1 accumulations, and Saturating<u64>/<u128>/F64 op sequences; every result is compared with the extracted model and with an independent Zarith oracle (kind=prop when the real result is not the exact value). Release and debug (overflow checks, debug assertions) builds of the harness are both run.",
    "level_note": "PLACEHOLDER",
}

ALLOWED_AXIOMS = ()
MODEL_VOS = ["Base/Conv.vo", "Num/Natural.vo", "Num/Saturating.vo"]


def build(ctx):
    drv = vf.ocaml_build(ctx, "ExC12.v", "c12_main.ml", model_vos=MODEL_VOS)
    bins = vf.cargo_build(["h_nat"])
    # second build with debug assertions and overflow checks (the dev profile of the harness)
    dbg = vf.cargo_build(["h_nat"], profile="debug", target_sub="dbg")
    return bins["h_nat"], dbg["h_nat"], drv


def handle_bad(ctx, binp, drv, cases, bad, profile):
    by_id = {h.split()[0]: (h, ops) for h, ops in cases}
    seen = set()
    for cid, msg in bad:
        kind = "prop" if "kind=prop" in msg else "corr"
        m = None
        # one report per (kind, failing operation name)
        opname = msg.split("op=[", 1)[1].split(" ", 1)[0].rstrip("]") if "op=[" in msg else "?"
        key = (kind, opname)
        if key in seen:
            continue
        seen.add(key)
        header, ops = by_id[cid]
        small, smsg = vf.shrink_case(ctx, binp, drv, header, ops, kind)
        smsg = smsg or msg
        sig = f"{kind}:{profile}:" + ";".join(small) if len(small) <= 12 else f"{kind}:{profile}:{opname}:case-{cid}"
        vf.report_violation(
            ctx, sig,
            {"stage": "correspondence", "kind": kind, "profile": profile, "case_header": header, "ops": small,
             "verdict": smsg, "replay_cmd": "./check C12 --replay <this file>",
             "theorem_or_relation": "C12 number types: real Natural/Saturating/F64 result == exact value (Zarith oracle) == extracted model (coq/Props/C12.v)"},
            nfif=(kind != "prop"))


def load_corpus():
    corpus_dir = os.path.join(vf.ROOT, "corpus", "C12")
    corpus = []
    if os.path.isdir(corpus_dir):
        for fn in sorted(os.listdir(corpus_dir)):
            if fn.endswith(".case"):
                corpus += vf.parse_cases(open(os.path.join(corpus_dir, fn)).read())
    return corpus


def run(ctx):
    vf.proof_gate(ctx, ALLOWED_AXIOMS)
    binp, dbgp, drv = build(ctx)
    rc, out = vf.sh([binp, "gen", ctx.tier, str(ctx.seed)])
    if rc != 0:
        raise vf.CheckFailure("generator failed: " + out[-500:])
    gen_cases = vf.parse_cases(out)
    cases = [("corpus-" + h, ops) for h, ops in load_corpus()] + gen_cases
    cases_file = os.path.join(ctx.workdir, "cases.txt")
    vf.write_cases(cases_file, cases)
    ok, bad = vf.lockstep(ctx, binp, drv, cases_file)
    if bad:
        handle_bad(ctx, binp, drv, cases, bad, "release")
    # debug profile: same cases (quick) / a prefix mix (thorough: every 4th random case)
    dcases = cases if ctx.tier != "thorough" else [c for i, c in enumerate(cases) if i < 4000 or i % 4 == 0]
    dfile = os.path.join(ctx.workdir, "cases-dbg.txt")
    vf.write_cases(dfile, dcases)
    okd, badd = vf.lockstep(ctx, dbgp, drv, dfile, tag="-dbg")
    if badd:
        handle_bad(ctx, dbgp, drv, dcases, badd, "debug")
    pick = [cases[0], cases[len(cases) // 3], cases[len(cases) // 2], cases[-1]]
    ctx.samples = [{"case": h, "ops": ops[:12]} for h, ops in pick]
    ctx.stats["distinct_nontrivial"] = len({tuple(ops) for _, ops in cases if len(ops) >= 3})
    vf.write_evidence(
        ctx, "proof",
        rule="boundary-set operand pairs x shifts x conversions x text; integer conversions of all widths; f64 rounding limits; clone shapes; random 512-bit op sequences; sat_count-like accumulations; Saturating<u64/u128>/F64 sequences; each case run in the release and in the debug profile; a case is non-trivial when it has >= 3 ops; distinct = distinct op lists",
        checker_cmd="make -C coq Props/C12.vo (coqc 8.16.1) + Print Assumptions audit; ./check C12",
        extra_cov={"cases_ok": ok, "cases_bad": len(bad), "cases_ok_debug_profile": okd, "cases_bad_debug_profile": len(badd),
                   "tier": ctx.tier},
        assumptions=[
            "Display's decimal digits are produced by dashu_int::UBig (not modelled; compared with Zarith's decimal text on every run); Display prints `?` for exponents above 2^40 (limit in the code)",
            "additions whose operands' exponents differ by more than 2^16 and text of numbers with exponent above 2^16 are not executed (the result would need that many bits / characters); the theorems cover them",
            "F64 (the counting type): IEEE-754 conformance of the FPU and exactness of exp2 on integer arguments are assumed; compared with OCaml doubles on every run",
        ])


def replay(ctx, path):
    binp, dbgp, drv = build(ctx)
    r = json.load(open(path))
    f = os.path.join(ctx.workdir, "replay.txt")
    vf.write_cases(f, [(r["case_header"], r["ops"])])
    b = dbgp if r.get("profile") == "debug" else binp
    ok, bad = vf.lockstep(ctx, b, drv, f, tag="-replay")
    for cid, msg in bad:
        print(f"replay: case {cid}: {msg}")
        vf.report_violation(ctx, "replay:" + ";".join(r["ops"][:12]), r, nfif=False)
    if not bad:
        print("replay: no divergence")
