"""C12 — model counting is exact for every number type and with reused caches; Natural / Saturating<u64,u128> / F64
compute exactly, NaN / marker only where documented."""
import json
import os
import random
import re
import vf
import ddgen
from checks import ddcommon
from checks import c12scommon

META = {
    "title": "Model counting is exact for every number type and with reused caches; the arbitrary-precision Natural (incl. its conversion to f64 and its text), Saturating<u64/u128> and the floating-point counting type F64 compute exactly resp. correctly rounded",
    "technique": "Rocq proofs over hand-written Gallina models: (1) util/num/bigint.rs (Natural as u64 digit list + binary exponent, the carry / shift / strip algorithms at digit level): representation invariant preserved and every operation equals the N operation on val = mantissa * 2^exp, NaN exactly where documented; (2) Saturating<uW>; (3) the three sat_count_edge recursions and SatCountCache: exact counts, exact halvings, and transparency of a cache object reused across arbitrary histories for every number type; (4) Natural -> f64, the Octal/Hex digit loop and the number handed to the decimal printer; (5) util/num/mod.rs F64 as Flocq binary64 (IEEE754.Binary: b64_plus/b64_minus/b64_mult mode_NE, binary_normalize) with exp2 on integer arguments as the correctly rounded power of two, instantiated in the number interface of the counting recursion (MIN_EXP scaling included) and related to the exact run by a simulation. Tie to the code: lock-step differential runs of the extracted Natural/Saturating model against the real oxidd_core::util::num::{Natural, Saturating, F64} with an independent Zarith oracle (release and debug builds), and sat_count on real BDD/BCDD/ZBDD managers with one SatCountCache per number type reused across gc / reorder / recycled node ids / added variables / changing vars, every result compared with the exact count of the handle's value table; (6) caller-side cache objects kept over arbitrary manager histories (coq/DD/SatCache.v: gc / reorder / growth events with the counters as the managers maintain them; invariant-based proof that every served count is the uncached one; refutation of every weakening of the tag rule), tied to the code by replaying every call on kept caches with the extracted sat_query over the extracted number-type models and comparing value and cache map entry by entry",
    "category": "proof",
    "design_ref": "DESIGN.md section 5, C12",
    "level_text": "118 theorems in coq/Props/C12.v (checked by coqc on every run, Print Assumptions audited: 88 closed under the global context; the 30 floating-point theorems C12_nat_to_f64*, C12_f64_*, C12_sat_f64* depend on Flocq's classical axioms only, allow-listed by name). Natural (C12_nat_*), for unbounded operands satisfying the representation invariant Inv (which implies the code's check_inv and is decidable): nat_add = exact sum, NaN iff an operand is NaN or the exponent of the sum reaches u64::MAX; shl = multiplication by 2^k (NaN iff exponent overflow); shr = exact quotient, NaN iff a 1 bit would be shifted out; partial_cmp = order of the denoted numbers (None iff NaN); eq and the hashed data are canonical (equal iff same number, NaN = NaN); From<u8..u128> and from_le_digits denote their argument; TryFrom -> u64/u128 is Some iff the number fits; bit_width = 1 + floor(log2); the Binary output is `?` exactly for NaN and otherwise the bits of the number without leading zeros; every operation preserves Inv. Saturating<uW> (C12_su_*): add and << return the exact result below the marker T::MAX and the marker otherwise, the marker absorbs, >> and - of in-range values are exact. sat_count (C12_sat_*): the BDD / BCDD / ZBDD recursions in exact arithmetic return 2^(vars-levels) * #satisfying assignments; every halving (a+b)>>1 is exact; the in-call cache and a cache object reused over any history of calls (other handles, gc, reordering, added variables, other vars; hypothesis: equal gc_count of consecutive calls means the node table was only extended) are transparent for EVERY number type, hence exact counts for whole histories; an entry is used only under the (gc_count, vars) it was stored under; Saturating<uW> runs: BDD and BCDD exact while 2^vars is representable and the marker otherwise (0 stays 0), ZBDD exact while the count is representable and the marker otherwise. Text (C12_nat_fmt_*): Octal / LowerHex / UpperHex (the digit loop fmt_pow2 for every 1 <= bits per digit <= 63) write `?` exactly for NaN and otherwise the digits of the number in base 8 / 16, most significant first, no leading zero, as many as the digit count announced to the padding code = ceil(bit_width / bits per digit); Display hands exactly the denoted number to dashu_int::UBig (`?` for NaN and for exponents above 2^40, a limit of the code), whose decimal text is specified by the extracted dec_digits (proved: the decimal digits of the number) and compared with the real text on every run. Natural -> f64 (C12_nat_to_f64*): the bit pattern is that of Flocq's correctly rounded conversion binary_normalize mode_NE of the exact value (round to nearest, ties to even; +infinity when the rounded value reaches 2^1024, including roundings that carry into the overflow; f64::NAN for NaN); exact for every number with at most 53 significant bits below 2^1024; C12_nat_to_f64_int (closed) is the integer part of the argument. F64, the counting type (C12_f64_*): +, -, << k (k <= 1023), >> k (k <= 1074) return Flocq's correctly rounded exact result (overflow to infinity), sums / scalings / conversions of values c * 2^j with c <= 2^53 are exact below 2^1024 and +inf from there on, and x << k of such a value is the correctly rounded exact integer product for every k (0 stays 0). sat_count::<F64> (C12_sat_f64*): for well-formed BDDs / BCDDs / ZBDDs with at most 53 levels and EVERY vars >= levels (with the scale-down by MIN_EXP = -1021 for vars >= 1021) the result is f64_of_N(exact count): exactly the count while it is below 2^1024 (in particular all vars <= 1023), +inf from there on, 0 stays 0; the same for whole histories on one reused cache (C12_sat_f64_history); beyond 53 levels the run from the terminal value 2^k (k <= 1022) is the evaluation of the same expression tree over the reals with Flocq's rounding after every addition and halving (C12_sat_f64_rounded_*). Kept caches (C12_cache_*, package C12s; model coq/DD/SatCache.v): a manager state (node table, gc_count, reorder_count) with events EGrow (anything that frees no node id: operations, clone/drop of handles, add_vars), EGc and EReorder (ANY well-formed table of the same kind afterwards: node ids freed and re-used for other functions later; counters as Manager::gc / Manager::reorder maintain them: reorder increments gc_count too) and ECount(cache id, vars, edge) on a table of caller-side cache objects: for EVERY number type and every valid history each call returns the value of the same call on a fresh cache without caching (C12_cache_history_correct; invariant: a cache tag is never ahead of gc_count, and a tag equal to gc_count means the content is exact for the current table), hence the number of satisfying assignments in exact arithmetic (C12_cache_history_exact), a well-formed Natural holding exactly that number, never NaN (C12_cache_history_natural, C12_sat_natural: the counting recursion over the model of bigint.rs), and in Saturating<uW> the number resp. the marker exactly when the type cannot hold 2^vars / ZBDD: the count (C12_cache_history_saturating, C12_sat_saturating_query); the epoch hypothesis hist_ok of the earlier history theorems is DERIVED from the step relation (C12_cache_same_gc_same_table, C12_cache_obs_ok = what the driver checks between snapshots); no entry stored before a collection / reordering is read afterwards (C12_cache_stale_entries_never_read); the two counts the closure of pick_cube_uniform_edge obtains through the cache are those of the cofactors (C12_cache_uni_counts); the tag rule is necessary: without the gc_count comparison, without the vars comparison, or with a reorder that does not increment gc_count a concrete valid history (node id 2 freed and re-used) returns a wrong count (C12_cache_*_refuted). vars below the number of levels (C12_sat_small_vars*): for EVERY vars, BDD / BCDD: if no path below the edge visits more than vars nodes (always so for vars >= levels; so whenever the function depends on at most vars variables) every halving is exact and result * 2^levels = 2^vars * #models; ZBDD: the quotient #models / 2^(levels - vars), exact iff the power of two divides. Non-vacuity examples for every group. On every run: stage 1 drives the real Natural through all operand pairs of the boundary set {0,1,2^k-1,2^k,2^k+1 | k in 31,32,63,64,65,127,128,129,191,192} (sum in both orders, all shifts {0,1,63,64,65,2^40,u64::MAX-1} in both directions, comparisons, conversions, text), conversions from all integer widths and back, f64 rounding at the precision/range limits, clone/clone_from between all representation shapes, random operands up to 512 bits in random op sequences, sat_count-like (a+b)>>1 accumulations, and Saturating<u64>/<u128>/F64 op sequences; every result is compared with the extracted model and with an independent Zarith oracle (kind=prop when the real result is not the exact value); the expected f64 of a Natural is the extracted Flocq conversion of the oracle's value, F64 op sequences are replayed by the extracted Flocq model on bit patterns next to OCaml doubles, the decimal text is compared with the extracted dec_digits; release and debug (overflow checks, debug assertions) builds. Stage 2 runs sat_count on real managers (bdd, bcdd, zbdd): all 256 three-variable functions under a seed-chosen order (thorough: all 6), cache-reuse histories on functions over 4..10 variables with shared sub-DAGs (sat_count(f,a); gc | reorder | drop+gc+rebuild with recycled node ids | add_vars | nothing; exactly one sat_count(g,b); sat_count(h,a) on every handle sharing nodes with g; alternations), random interleavings, small managers with adjacent-level swaps and handle turnover between queries under one vars value (freed node slots re-used by newly built functions); vars in {n, n+1, n+3, n+70, 1021, 1023, 1100}; types Saturating<u64>, Saturating<u128>, F64, Natural on reused caches and Natural on a fresh cache; every history runs on the index-based manager (release; a sample also in the debug profile) and on the pointer-based manager build (cfg-pointer, node ids = addresses); every result must equal the exact count of the handle's value table; every F64 result must be bit-identical to the correctly rounded exact count (the extracted f64_of_N) and to the extracted model of sat_count::<F64> (counting recursion with in-call cache over Flocq binary64, MIN_EXP scaling) run on the snapshot. Stage 3 (package C12s, driver ocaml/c12s_main.ml, snapshot after every operation): SatCountCache objects kept in a table of the harness (2-3 per number type, cache_all for odd ids) and queried in turn with vars in {n-3 .. n+1, n+3, 63, 64, n+70, 128, 1021, 1023, 1100}, interleaved with gc / set_var_order / a single level swap / add_vars / drop + gc + rebuild (node ids recycled while a cache still maps them) and with pick_cube_uniform on the same F64 objects: every call is replayed by the extracted sat_query (clear_if_invalid with the snapshot's gc_count, then the cached recursion over the extracted model of the number type: sat_ops 64 / 128, nat_ops = Num/Natural.v, f64_ops = Flocq) on the model's own copy of the cache object; the value AND the complete cache map (keys with the BCDD tag bit, values) must equal the real ones (the map is a public field); the value must equal the exact count of the value table (vars below the levels: whenever the function depends on at most vars variables; BDD/BCDD additionally #models * 2^vars / 2^levels whenever no path is longer than vars); every pair of consecutive snapshots must satisfy the extracted obs_ok_b (gc_count / reorder_count monotone, a reordering shows in gc_count, unchanged gc_count => every node still stored with the same children).",
    "level_note": "Proved at model level; trusted: Coq kernel, extraction, the OCaml drivers, the Rust harnesses, and that Num/Natural.v / Num/F64Count.v / DD/SatCount.v / DD/SatCountF64.v mirror the code (checked by the lock-step runs on every check). AXIOMS: the floating-point theorems (names starting with C12_nat_to_f64, C12_f64_, C12_sat_f64; 30 of 118) depend on the classical axioms of Coq's real numbers used by Flocq, allow-listed by name in ALLOWED_AXIOMS exactly as in C10: ClassicalDedekindReals.sig_forall_dec, ClassicalDedekindReals.sig_not_dec, FunctionalExtensionality.functional_extensionality_dep, Classical_Prop.classic; every other theorem must be (and is) closed under the global context, enforced by audit_axioms on every run. Floating point: the identification of the hardware FPU's + - * with Flocq's binary64 operations and of libm's exp2 on integer arguments with the correctly rounded power of two (2^k for -1074 <= k <= 1023, +inf above, 0 from -1075 down) is by correspondence on bit patterns, not proved. Limits of the code visible in the F64 statements: x << k is the rounded product only for k <= 1023 or operands >= 1 (exp2(k) = inf above; sat_count only shifts integers), x >> k only for k <= 1074 (exp2(-k) = 0 below). Not proved: sat_count::<F64> for more than 53 levels beyond the rounded-evaluation theorem (vars <= 1020 resp. terminal value <= 2^1022); sat_count(vars) with vars below the number of variables the function depends on (no count is defined there: Saturating truncates at every halving, Natural yields NaN = the documented inexact right shift, F64 a fraction; the model does the same, stage 3 compares value and cache map); F64 with vars < levels; more than 53 levels do not occur in the generated histories (stage 2 would fall back to a 1e-9 relative comparison there). Correspondence only: the padding of all text formats with width/fill/alignment/alternate/plus/zero flags (pad_integral, fmt_nan_layout are modelled and compared on every run); the decimal digits come from dashu_int::UBig (external; specified by dec_digits). The digit loops of Natural::add exist in several variants in the code (in place / fresh vector, zipped / unzipped tails) which are one function in the model; clone/clone_from and memory management are run-time matters covered by the harness only. The epoch discipline of the manager (gc_count increases at every gc and reordering, node ids are not recycled otherwise) is the step relation step_ok / hist_valid of the C12_cache_* theorems (hist_ok of the older history theorems follows from it); that the real managers obey it is not proved: stage 3 checks its decidable consequence obs_ok_b between every two consecutive snapshots (gc_count and reorder_count are read from every snapshot). gc_count wrapping around after 2^64 collections is not modelled. Observation (outside the quantifier vars >= n, not in the generated histories, reported in notes/C12s.md): a ZBDD with at least 64 levels counted as Saturating<u64> with vars < levels returns the marker when the path count exceeds u64 although the quotient is small (70 variables, tautology, sat_count(3) = u64::MAX; exact 8 as u128 / Natural / F64).",
}

# Flocq / Coq Reals (exactly the four axioms C10 lists); allowed for the floating-point theorems only
# (names starting with one of FLOAT_PREFIXES); every other theorem must be closed under the global context
ALLOWED_AXIOMS = (
    "ClassicalDedekindReals.sig_forall_dec",
    "ClassicalDedekindReals.sig_not_dec",
    "FunctionalExtensionality.functional_extensionality_dep",
    "Classical_Prop.classic",
)
FLOAT_PREFIXES = ("C12_nat_to_f64", "C12_f64_", "C12_sat_f64")
MODEL_VOS = ["Base/Conv.vo", "Num/Natural.vo", "Num/Saturating.vo", "Num/F64Count.vo", "Num/NaturalDec.vo"]


def audit_axioms(ctx):
    """closedness audit (same split as checks/C10.py): vf.proof_gate compares every theorem with the allow-list;
    here (1) axiom names whose type is wrapped onto the next line are collected too, (2) every theorem that is
    not one of the floating-point theorems must not depend on any axiom at all."""
    p = os.path.join(ctx.workdir, "coq.log")
    if not os.path.exists(p):
        return
    txt = open(p).read()
    names = set()
    inblk = False
    for l in txt.split("\n"):
        if l.startswith("Axioms:"):
            inblk = True
            continue
        if l.startswith("Closed under") or l.startswith("COQ") or l.startswith("make"):
            inblk = False
            continue
        if inblk:
            m = re.match(r"^([A-Za-z_][\w.']*)\s*(:|$)", l)
            if m:
                names.add(m.group(1))
    ctx.axioms_seen = sorted(set(ctx.axioms_seen) | names)
    pa = vf.parse_print_assumptions(txt)
    closed = 0
    for name, ax in zip(ctx.theorems, pa):
        if not ax:
            closed += 1
        elif not name.startswith(FLOAT_PREFIXES):
            vf.report_violation(
                ctx, f"proof:C12:{name} is not closed under the global context: {ax}",
                {"stage": "proof", "theorem_file": "coq/Props/C12.v", "what": f"{name} depends on {ax}"}, nfif=True)
    ctx.stats["theorems_closed_under_global_context"] = closed
    ctx.stats["theorems_with_flocq_axioms"] = len(ctx.theorems) - closed
    extra = [a for a in ctx.axioms_seen if a not in ALLOWED_AXIOMS]
    if extra:
        vf.report_violation(
            ctx, f"proof:C12:axioms outside the allow-list: {extra}",
            {"stage": "proof", "theorem_file": "coq/Props/C12.v", "what": f"axioms outside the allow-list: {extra}"},
            nfif=True)


def build(ctx):
    drv = vf.ocaml_build(ctx, "ExC12.v", "c12_main.ml", model_vos=MODEL_VOS)
    bins = vf.cargo_build(["h_nat"])
    # second build with debug assertions and overflow checks (the dev profile of the harness)
    dbg = vf.cargo_build(["h_nat"], profile="debug", target_sub="dbg")
    return bins["h_nat"], dbg["h_nat"], drv


def handle_bad(ctx, binp, drv, cases, bad, profile):
    by_id = {h.split()[0]: (h, ops) for h, ops in cases}
    seen = set()
    for cid, msg in bad:
        kind = "prop" if "kind=prop" in msg else "corr"
        m = None
        # one report per (kind, failing operation name)
        opname = msg.split("op=[", 1)[1].split(" ", 1)[0].rstrip("]") if "op=[" in msg else "?"
        key = (kind, opname)
        if key in seen:
            continue
        seen.add(key)
        header, ops = by_id[cid]
        small, smsg = vf.shrink_case(ctx, binp, drv, header, ops, kind)
        smsg = smsg or msg
        sig = f"{kind}:{profile}:" + ";".join(small) if len(small) <= 12 else f"{kind}:{profile}:{opname}:case-{cid}"
        vf.report_violation(
            ctx, sig,
            {"stage": "correspondence", "kind": kind, "profile": profile, "case_header": header, "ops": small,
             "verdict": smsg, "replay_cmd": "./check C12 --replay <this file>",
             "theorem_or_relation": "C12 number types: real Natural/Saturating/F64 result == exact value (Zarith oracle) == extracted model (coq/Props/C12.v)"},
            nfif=(kind != "prop"))


# --------------------------------------------------------------------------
# Stage 2: sat_count on real managers (generic DD harness h_dd + driver dd_main.ml)
# --------------------------------------------------------------------------
# The harness keeps ONE SatCountCache per number type for the whole case (type `nat_fresh` = a fresh
# cache per query): every `SAT h<slot> <vars> <type>` below is a query on a reused cache.  The driver
# computes the exact count from the value table of the handle (extracted interpreter on the lifted
# snapshot) and compares: Natural exactly, Saturating<u64/u128> exactly while 2^vars is representable
# and the marker otherwise (0 stays 0), F64 bit-identical to the correctly rounded exact count and to the
# extracted model of sat_count::<F64> run on the snapshot (diagrams with at most 53 levels; theorem C12_sat_f64).
# A SAT op is resolved at the next SNAP: handles are only created/dropped right after a SNAP, and a
# SNAP precedes every VARS.  ZBDD: the path count shifted by vars - levels; as Saturating<uW> the exact
# count while it fits, the marker otherwise.
DD_TYPES = ["u64", "u128", "f64", "nat", "nat_fresh"]
DD_KINDS = ["bdd", "bcdd", "zbdd"]


def dd_vars(kind, n):
    # (ZBDD: sat_count(vars) is the path count shifted by vars - levels)
    # 1021 / 1023: F64 scales the terminal value down by 2^1021 (MIN_EXP) and the result up again; these are the
    # first scaled value and the largest vars whose count is always a finite f64 (1100 overflows to +inf for every
    # non-zero count, which hides the rescaling)
    return [n, n + 1, n + 3, n + 70, 1021, 1023, 1100]


def dd_case_all3(cid, kind, order, rng, sweeps):
    """all 256 functions of three variables under one order: per number type sweeps over all
    handles with a fixed `vars` (cache hits across handles), then interleaved vars/types/gc/reorder"""
    ops = ["VARS 3"]
    if list(order) != [0, 1, 2]:
        ops.append("ORDER " + " ".join(map(str, order)))
    for i in range(256):
        ops.append(f"{rng.choice(['TT', 'TTI'])} h{i} 3 {i:x}")
    ops.append("SNAP")
    vs = dd_vars(kind, 3)
    for ty in DD_TYPES:
        chosen = [vs[0]] + rng.sample(vs[1:], min(sweeps, len(vs) - 1))
        rng.shuffle(chosen)
        for v in chosen:
            hs = list(range(256))
            rng.shuffle(hs)
            for i in hs:
                ops.append(f"SAT h{i} {v} {ty}")
            if rng.random() < 0.3:
                ops.append("GC")
    ops.append("SNAP")
    for _ in range(700):
        r = rng.random()
        if r < 0.03:
            ops.append("GC")
        elif r < 0.05:
            p = list(range(3))
            rng.shuffle(p)
            ops.append("ORDER " + " ".join(map(str, p)))
        else:
            ops.append(f"SAT h{rng.randrange(256)} {rng.choice(vs)} {rng.choice(DD_TYPES)}")
    ops.append("SNAP")
    return (ddgen.header(cid, kind, cap=1 << 14, cache=1 << 10), ops)


class _Pool:
    """handles with shared sub-DAGs: base functions over at most 7 variables and combinations
    (a combination keeps its operands as sub-graphs; the operands stay referenced by their handles,
    so that their root nodes have more than one incoming edge and are cached by sat_count)"""

    def __init__(self, rng, nv, ops):
        self.rng, self.nv, self.ops = rng, nv, ops
        self.k = 0
        self.live = []

    def fresh(self):
        self.k += 1
        return self.k - 1

    def base(self):
        rng, nv = self.rng, self.nv
        d = self.fresh()
        b = min(nv, 7)
        self.ops.append(f"{rng.choice(['TT', 'TTI'])} h{d} {b} {ddgen.rand_tt(rng, b):x}")
        self.live.append(d)
        return d

    def var(self):
        d = self.fresh()
        self.ops.append(f"{self.rng.choice(['VAR', 'NVAR'])} h{d} {self.rng.randrange(self.nv)}")
        self.live.append(d)
        return d

    def comb(self):
        rng = self.rng
        d = self.fresh()
        r = rng.random()
        if r < 0.6:
            self.ops.append(f"{rng.choice(ddgen.BIN_OPS)} h{d} h{rng.choice(self.live)} h{rng.choice(self.live)}")
        elif r < 0.9:
            self.ops.append(f"ITE h{d} h{rng.choice(self.live)} h{rng.choice(self.live)} h{rng.choice(self.live)}")
        else:
            self.ops.append(f"NOT h{d} h{rng.choice(self.live)}")
        self.live.append(d)
        return d

    def grow(self, nbase, nvar, ncomb):
        for _ in range(nbase):
            self.base()
        for _ in range(nvar):
            self.var()
        for _ in range(ncomb):
            self.comb()

    def drop_some(self, keep=3):
        """(after a SNAP) drop about half of the handles"""
        rng = self.rng
        rng.shuffle(self.live)
        cut = max(keep, len(self.live) // 2)
        for d in self.live[cut:]:
            self.ops.append(f"{rng.choice(['DROP', 'DROP', 'DROPT'])} h{d}")
        self.live = self.live[:cut]


def dd_case_reuse(cid, kind, rng, rounds):
    """cache reuse histories on one cache object per type: sat_count(f, a); an invalidating event;
    exactly one sat_count(g, b); sat_count(h, a) again on handles sharing nodes with g"""
    nv = rng.randrange(4, 11)
    ops = [f"VARS {nv}"]
    pool = _Pool(rng, nv, ops)
    pool.grow(rng.randrange(2, 5), rng.randrange(1, 4), rng.randrange(4, 9))
    ops.append("SNAP")
    for _ in range(rounds):
        ty = rng.choice(["u64", "u128", "f64", "nat", "nat", "nat"]) if rng.random() < 0.9 else "nat_fresh"
        ev = rng.choice(["GC", "GC", "ORDER", "DROPGC", "DROPGC", "VARS", "GCVARS", "NONE", "NONE"])
        add = rng.randrange(1, 3) if ev in ("VARS", "GCVARS") and pool.nv < 11 else 0
        vs = dd_vars(kind, pool.nv + add)
        a = rng.choice(vs)
        b = rng.choice([v for v in vs if v != a] or vs) if rng.random() < 0.8 else a
        cur = lambda x: x
        # phase 1: queries with a
        hs = list(pool.live)
        rng.shuffle(hs)
        for h in hs[: rng.randrange(1, len(hs) + 1)]:
            ops.append(f"SAT h{h} {cur(a)} {ty}")
        # the event
        if ev == "GC":
            ops.append("GC")
        elif ev == "ORDER":
            p = list(range(pool.nv))
            rng.shuffle(p)
            ops.append(f"{rng.choice(['ORDER', 'ORDERSEQ'])} " + " ".join(map(str, p)))
        elif ev == "DROPGC":
            # node ids are recycled: drop, collect, build other functions
            ops.append("SNAP")
            pool.drop_some()
            ops.append("GC")
            pool.grow(rng.randrange(0, 2), rng.randrange(0, 2), rng.randrange(3, 8))
        elif ev in ("VARS", "GCVARS") and add:
            ops.append("SNAP")
            if ev == "GCVARS":
                ops.append("GC")
            ops.append(f"VARS {add}")
            pool.nv += add
            if rng.random() < 0.5:
                pool.var()
                pool.comb()
        # phase 2: exactly one query with b
        g = rng.choice(pool.live)
        ops.append(f"SAT h{g} {cur(b)} {ty}")
        # phase 3: a again, on g and on everything that shares nodes with it
        hs = [g] + [h for h in pool.live if h != g]
        if rng.random() < 0.5:
            rng.shuffle(hs)
        for h in hs:
            ops.append(f"SAT h{h} {cur(a)} {ty}")
        if rng.random() < 0.4:
            # several alternations of the two values
            for i in range(rng.randrange(3, 9)):
                ops.append(f"SAT h{rng.choice(pool.live)} {cur(a) if i % 2 else cur(b)} {ty}")
        ops.append("SNAP")
        if len(pool.live) > 20:
            pool.drop_some(keep=6)
            ops.append("SNAP")
    return (ddgen.header(cid, kind, cap=1 << 15, cache=rng.choice([16, 1 << 10])), ops)


def dd_case_random(cid, kind, rng, length):
    """random interleaving of queries (two or three `vars` values per case, all types), collections,
    reorderings, handle turnover and added variables"""
    nv = rng.randrange(4, 11)
    ops = [f"VARS {nv}"]
    pool = _Pool(rng, nv, ops)
    pool.grow(rng.randrange(2, 4), rng.randrange(1, 3), rng.randrange(4, 10))
    ops.append("SNAP")
    pick_vs = lambda: rng.sample(dd_vars(kind, pool.nv), min(len(dd_vars(kind, pool.nv)), rng.randrange(2, 4)))
    vs = pick_vs()
    for _ in range(length):
        r = rng.random()
        if r < 0.80:
            ops.append(f"SAT h{rng.choice(pool.live)} {rng.choice(vs)} {rng.choice(DD_TYPES)}")
        elif r < 0.86:
            ops.append("GC")
        elif r < 0.89:
            p = list(range(pool.nv))
            rng.shuffle(p)
            ops.append("ORDER " + " ".join(map(str, p)))
        elif r < 0.94:
            ops.append("SNAP")
            if len(pool.live) > 6:
                pool.drop_some()
            if rng.random() < 0.7:
                ops.append("GC")
            pool.grow(0, rng.randrange(0, 2), rng.randrange(2, 6))
        elif r < 0.97 and pool.nv < 11:
            ops.append("SNAP")
            k = rng.randrange(1, 3)
            ops.append(f"VARS {k}")
            pool.nv += k
            vs = pick_vs()
        else:
            pool.comb()
    ops.append("SNAP")
    return (ddgen.header(cid, kind, cap=1 << 15, cache=rng.choice([16, 1 << 10])), ops)


def dd_case_swap(cid, kind, rng, rounds):
    """small managers, queries with ONE vars value and ONE number type around reorderings that exchange
    two adjacent levels (often without changing the number of nodes) and around handle turnover: the
    nodes freed by the reordering / collection are re-used by the functions built afterwards, so a
    cache that survives the event answers for the wrong function"""
    nv = rng.randrange(3, 6)
    ops = [f"VARS {nv}"]
    pool = _Pool(rng, nv, ops)
    pool.grow(rng.randrange(1, 3), rng.randrange(0, 3), rng.randrange(1, 5))
    order = list(range(nv))
    ty = rng.choice(["u64", "u128", "f64", "nat", "nat"])
    a = rng.choice(dd_vars(kind, nv)[:3])
    ops.append("GC")
    ops.append("SNAP")
    for _ in range(rounds):
        for h in pool.live:
            ops.append(f"SAT h{h} {a} {ty}")
        ev = rng.random()
        if ev < 0.7:
            i = rng.randrange(nv - 1)
            order[i], order[i + 1] = order[i + 1], order[i]
            ops.append(f"{rng.choice(['ORDER', 'ORDERSEQ'])} " + " ".join(map(str, order)))
        elif ev < 0.85:
            ops.append("SNAP")
            pool.drop_some(keep=1)
            ops.append("GC")
        if rng.random() < 0.8:
            # new functions take the freed slots
            pool.grow(rng.randrange(0, 2), rng.randrange(0, 2), rng.randrange(1, 4))
        for h in reversed(pool.live):
            ops.append(f"SAT h{h} {a} {ty}")
        ops.append("SNAP")
        if len(pool.live) > 12:
            pool.drop_some(keep=3)
            ops.append("SNAP")
    return (ddgen.header(cid, kind, cap=1 << 14, cache=rng.choice([16, 1 << 10])), ops)


def gen_dd_cases(ctx):
    rng = random.Random(ctx.seed * 104729 + 12)
    thorough = ctx.tier == "thorough"
    cases = []
    for kind in DD_KINDS:
        orders = ddgen.PERMS3 if thorough else [rng.choice(ddgen.PERMS3)]
        for oi, order in enumerate(orders):
            cases.append(dd_case_all3(f"a3-{kind}-{oi}", kind, order, rng, sweeps=4 if thorough else 2))
        for i in range(600 if thorough else 40):
            cases.append(dd_case_reuse(f"ru-{kind}-{i}", kind, rng, rounds=rng.randrange(4, 10)))
        for i in range(300 if thorough else 20):
            cases.append(dd_case_random(f"rn-{kind}-{i}", kind, rng, length=rng.randrange(80, 200)))
        for i in range(1500 if thorough else 100):
            cases.append(dd_case_swap(f"sw-{kind}-{i}", kind, rng, rounds=rng.randrange(2, 6)))
    return cases


DD_RULE = ("stage 2 (sat_count on real managers, kinds bdd/bcdd/zbdd): all 256 three-variable functions under a seed-chosen "
           "order (thorough: all 6), swept per number type with a fixed vars and interleaved with other vars/types/gc/reorder; "
           "cache-reuse histories on functions over 4..10 variables with shared sub-DAGs (one SatCountCache per number type "
           "per case): sat_count(f,a); event in {gc, reorder, drop+gc+rebuild (node ids recycled), add_vars, gc+add_vars, none}; "
           "exactly one sat_count(g,b); sat_count(h,a) on every handle sharing nodes with g; alternations of a and b; random "
           "interleavings; small managers with adjacent-level swaps / handle turnover between queries under one vars value (freed node "
           "slots re-used by newly built functions); every history also on the pointer-based manager build (cfg-pointer: node ids are "
           "addresses); vars in {n, n+1, n+3, n+70, 1021, 1023, 1100}; types Saturating<u64>, Saturating<u128>, F64, Natural "
           "(reused cache) and Natural with a fresh cache per query; every result compared with the exact count of the handle's "
           "value table")


POINTER_CFG = "cfg-pointer"


def build_pointer():
    """h_dd on the pointer-based manager (node ids are addresses; the same target directory as C20)"""
    return vf.cargo_build(["h_dd"], features=[POINTER_CFG], no_default=True, target_sub=POINTER_CFG)["h_dd"]


def run_dd_pointer(ctx, cases):
    """the same cases on the pointer build: same driver, same relation"""
    binp = build_pointer()
    _, drv = ddcommon.build_dd(ctx)
    args = ["--props", "C12"]
    pcases = [("ptr-" + h, ops) for h, ops in cases]
    ok, bad, _ = vf.lockstep_sharded(ctx, binp, drv, pcases, nshards=16, drv_args=args, tag="-ptr")
    by_id = {h.split()[0]: (h, ops) for h, ops in pcases}
    seen = set()
    for cid, msg in bad:
        cls = ddcommon.msg_class(msg)
        if cls in seen or len(seen) >= 2:
            continue
        seen.add(cls)
        header, ops = by_id[cid]
        kind = "prop" if "kind=prop" in msg else "corr"
        small, smsg = vf.shrink_case(ctx, binp, drv, header, ops, kind, drv_args=args, budget=120,
                                     protect=lambda o: o.startswith("VARS"),
                                     accept=lambda m2, c=cls: ddcommon.msg_class(m2) == c)
        smsg = smsg or msg
        hk = " ".join(t for t in header.split()[1:] if t.split("=")[0] in ("kind", "threads"))
        body = ";".join(small) if len(small) <= 30 else f"case-{cid}"
        vf.report_violation(
            ctx, f"{kind}:{cls[0]}:{cls[1]}:{hk}:{POINTER_CFG}:{body}",
            {"stage": "correspondence", "kind": kind, "config": POINTER_CFG, "case_header": header, "ops": small,
             "verdict": smsg, "drv_args": args, "replay_cmd": "./check C12 --replay <this file>",
             "theorem_or_relation": "C12: sat_count on a reused cache == exact count of the handle's value table (pointer-based manager build); coq/Props/C12.v C12_sat_history_exact"},
            nfif=(kind != "prop"))
    return ok, bad


def run_dd_stage(ctx):
    cases = gen_dd_cases(ctx)
    before = dict(ctx.stats)
    samples = list(ctx.samples)
    ok, bad = ddcommon.run_dd(ctx, ["C12"], cases, rule=DD_RULE, proofs=False, write_ev=False,
                              nshards=16, max_reports=2)
    dd_samples = ctx.samples
    dd_distinct = ctx.stats.get("distinct_nontrivial", 0)
    # the same histories on the pointer-based manager (thorough: all; quick: everything but the big sweeps)
    pcases = cases if ctx.tier == "thorough" else [c for c in cases if not c[0].startswith("a3-")]
    okp, badp = run_dd_pointer(ctx, pcases)
    bad = list(bad) + list(badp)
    ctx.samples = samples
    ctx.stats["distinct_nontrivial"] = before.get("distinct_nontrivial", 0)
    if ctx.stats.get("unresolved", 0) and not bad:
        # a SAT op whose handle table was not available at the resolving snapshot was not checked
        # (only meaningful without violations: the candidates of the shrinker may contain such ops)
        raise vf.CheckFailure(f"DD stage: {ctx.stats['unresolved']} operations could not be resolved by the driver")
    return {"dd_cases": len(cases), "dd_cases_ok": ok, "dd_cases_bad": len(bad),
            "dd_pointer_build_cases": len(pcases), "dd_pointer_build_cases_ok": okp,
            "dd_sat_queries_checked": int(ctx.stats.get("chk_C12", 0)),
            "dd_distinct_nontrivial": dd_distinct}, dd_samples


# --------------------------------------------------------------------------
# Stage 3 (package C12s): SatCountCache objects KEPT in a table of the harness (`SATC <cacheid> ...`), cases with
# snap=each, driver ocaml/c12s_main.ml: every call is replayed by the extracted sat_query over the extracted
# model of the number type on the model's own copy of the cache object; value AND cache map must agree; the
# epoch discipline (gc_count / reorder_count / node table) is checked between all consecutive snapshots.
# --------------------------------------------------------------------------
KEPT_RULE = ("stage 3 (kept caches, kinds bdd/bcdd/zbdd, snapshot after every operation): 2-3 SatCountCache objects per number "
             "type kept in a table (cache_all for odd ids) and queried in turn (`SATC cacheid handle vars type`) with vars in "
             "{n-3..n+1, n+3, 63, 64, n+70, 128, 1021, 1023, 1100} (vars below the number of levels included), interleaved with "
             "gc / set_var_order / one adjacent level swap / add_vars / drop + gc + rebuild (node ids recycled while a cache still "
             "maps them) / growth; satisfiable / valid; pick_cube_uniform on the kept F64 caches; all 256 three-variable functions swept "
             "per number type on one kept cache under a seed-chosen order (thorough: all 6) and samples of them counted with vars "
             "in 0..4; a third of the cases also on the pointer-based manager build, a sixth on the debug-profile build; every value compared with the exact count of the value table "
             "(vars < levels: whenever the function depends on at most vars variables), with the extracted model's value, and "
             "the real cache map with the model's cache map after every call")
KEPT_RELATION = ("C12: sat_count through a kept SatCountCache == exact count of the handle's value table == extracted sat_query "
                 "(coq/DD/SatCount.v, DD/SatCache.v count_event) incl. the cache map; consecutive snapshots satisfy obs_ok_b; "
                 "coq/Props/C12.v C12_cache_history_correct / _exact / _natural, C12_cache_obs_ok")


def gen_kept_cases(ctx):
    rng = random.Random(ctx.seed * 611953 + 121)
    thorough = ctx.tier == "thorough"
    cases = []
    for kind in DD_KINDS:
        for i in range(500 if thorough else 50):
            cases.append(c12scommon.case_kept(f"kc-{kind}-{i}", kind, rng, rounds=rng.randrange(4, 10)))
        for oi, order in enumerate(ddgen.PERMS3 if thorough else [rng.choice(ddgen.PERMS3)]):
            cases.append(c12scommon.case_kept_all3(f"ka-{kind}-{oi}", kind, order, rng))
        for i in range(30 if thorough else 4):
            cases.append(c12scommon.case_kept_small(f"ks-{kind}-{i}", kind, rng))
        for i in range(40 if thorough else 4):
            cases.append(c12scommon.case_uniform_kept(f"ku-{kind}-{i}", kind, rng, rounds=rng.randrange(3, 7), draws=200))
    return cases


def run_kept_stage(ctx):
    before = dict(ctx.stats)
    ok, bad, cases = c12scommon.run_stage(ctx, "C12", gen_kept_cases(ctx), ["C12"], KEPT_RELATION)
    # the same histories on the pointer-based manager (node ids = addresses; every third case in the quick tier)
    pcases = [("ptr-" + h, o) for i, (h, o) in enumerate(cases) if ctx.tier == "thorough" or i % 3 == 0]
    okp, badp, _ = c12scommon.run_stage(ctx, "C12", pcases, ["C12"], KEPT_RELATION + " (pointer-based manager build)",
                                        tag="-kept-ptr", harness=build_pointer(), config="kept-cache-pointer", with_corpus=False)
    # ... and a sample on the debug-profile build (debug assertions and overflow checks of /repo active)
    dcases = [("dbg-" + h, o) for i, (h, o) in enumerate(cases) if i % 6 == 1 and not h.startswith("ka-")]
    okd, badd, _ = c12scommon.run_stage(ctx, "C12", dcases, ["C12"], KEPT_RELATION + " (debug-profile build)",
                                        tag="-kept-dbg", harness=ddcommon.build_dd_debug(ctx), config="kept-cache-debug",
                                        with_corpus=False)
    ok, bad = ok + okp + okd, list(bad) + list(badp) + list(badd)
    if ctx.stats.get("c12s_unresolved", 0) and not bad:
        raise vf.CheckFailure(f"kept-cache stage: {ctx.stats['c12s_unresolved']} operations could not be resolved by the driver")
    g = lambda k: int(ctx.stats.get(k, 0)) - int(before.get(k, 0))
    return {"kept_cases": len(cases), "kept_pointer_build_cases": len(pcases), "kept_debug_profile_cases": len(dcases), "kept_cases_ok": ok, "kept_cases_bad": len(bad),
            "kept_sat_queries_replayed": g("c12s_model_replayed"), "kept_cache_entries_compared": g("c12s_cache_entries"),
            "kept_snapshot_pairs_checked": g("c12s_obs_checked"), "kept_epoch_changes": g("c12s_epoch_changes"),
            "kept_queries_vars_below_levels": g("c12s_vars_below_levels"),
            "kept_queries_vars_below_levels_determined": g("c12s_vars_below_levels_determined"),
            "kept_satisfiable_valid_checked": g("c12s_satvalid"), "kept_pick_uniform_ops": g("c12s_pickunic"),
            "kept_distinct_nontrivial": len({(h.split(" ", 1)[1], tuple(o)) for h, o in cases if len(o) >= 3})}, \
        [{"case": h, "ops": o[:12] + ["..."]} for h, o in cases[:1]]


def load_corpus():
    corpus_dir = os.path.join(vf.ROOT, "corpus", "C12")
    corpus = []
    if os.path.isdir(corpus_dir):
        for fn in sorted(os.listdir(corpus_dir)):
            if fn.endswith(".case"):
                # (cases with a `kind=` header belong to the DD stage and are picked up by ddcommon.run_dd)
                corpus += [(h, ops) for h, ops in vf.parse_cases(open(os.path.join(corpus_dir, fn)).read())
                           if " kind=" not in h or h.split(" kind=")[1].split()[0] in ddcommon.NON_DD_KINDS]
    return corpus


def run(ctx):
    vf.proof_gate(ctx, ALLOWED_AXIOMS)
    audit_axioms(ctx)
    binp, dbgp, drv = build(ctx)
    rc, out = vf.sh([binp, "gen", ctx.tier, str(ctx.seed)])
    if rc != 0:
        raise vf.CheckFailure("generator failed: " + out[-500:])
    gen_cases = vf.parse_cases(out)
    cases = [("corpus-" + h, ops) for h, ops in load_corpus()] + gen_cases
    cases_file = os.path.join(ctx.workdir, "cases.txt")
    vf.write_cases(cases_file, cases)
    import time as _t
    t0 = _t.time()
    ok, bad, _ = vf.lockstep_sharded(ctx, binp, drv, cases, nshards=16)
    if bad:
        handle_bad(ctx, binp, drv, cases, bad, "release")
    # debug profile: same cases (quick) / a prefix mix (thorough: every 4th random case)
    dcases = cases if ctx.tier != "thorough" else [c for i, c in enumerate(cases) if i < 4000 or i % 4 == 0]
    dfile = os.path.join(ctx.workdir, "cases-dbg.txt")
    vf.write_cases(dfile, dcases)
    okd, badd, _ = vf.lockstep_sharded(ctx, dbgp, drv, dcases, nshards=16, tag="-dbg")
    if badd:
        handle_bad(ctx, dbgp, drv, dcases, badd, "debug")
    vf.log(f"stage 1 (number types, release + debug): {round(_t.time() - t0)} s")
    t0 = _t.time()
    pick = [cases[0], cases[len(cases) // 3], cases[len(cases) // 2], cases[-1]]
    ctx.samples = [{"case": h, "ops": ops[:12]} for h, ops in pick]
    ctx.stats["distinct_nontrivial"] = len({tuple(ops) for _, ops in cases if len(ops) >= 3})
    # stage 2: sat_count on real managers with reused caches
    dd_cov, dd_samples = run_dd_stage(ctx)
    vf.log(f"stage 2 (sat_count on managers): {round(_t.time() - t0)} s")
    t0 = _t.time()
    ctx.samples = ctx.samples + dd_samples[:3]
    ctx.stats["distinct_nontrivial"] += dd_cov["dd_distinct_nontrivial"]
    # stage 3: kept caches, per-call replay of the cache object
    kept_cov, kept_samples = run_kept_stage(ctx)
    vf.log(f"stage 3 (kept caches): {round(_t.time() - t0)} s")
    ctx.samples = ctx.samples + kept_samples
    ctx.stats["distinct_nontrivial"] += kept_cov["kept_distinct_nontrivial"]
    dd_cov.update(kept_cov)
    vf.write_evidence(
        ctx, "proof",
        rule=DD_RULE + "; " + KEPT_RULE + "; stage 1 (number types): boundary-set operand pairs x shifts x conversions x text; integer conversions of all widths; f64 rounding limits; clone shapes; random 512-bit op sequences; sat_count-like accumulations; Saturating<u64/u128>/F64 sequences; each case run in the release and in the debug profile; a case is non-trivial when it has >= 3 ops; distinct = distinct op lists",
        checker_cmd="make -C coq Props/C12.vo (coqc 8.16.1, Flocq 4.1.0) + Print Assumptions audit (allow-list for the floating-point theorems, closedness of all others); ./check C12",
        extra_cov=dict({"cases_ok": ok, "cases_bad": len(bad), "cases_ok_debug_profile": okd, "cases_bad_debug_profile": len(badd),
                        "tier": ctx.tier}, **dd_cov),
        assumptions=[
            "Display's decimal digits are produced by dashu_int::UBig (not modelled; compared with Zarith's decimal text on every run); Display prints `?` for exponents above 2^40 (limit in the code)",
            "additions whose operands' exponents differ by more than 2^16 and text of numbers with exponent above 2^16 are not executed (the result would need that many bits / characters); the theorems cover them",
            "F64 (the counting type) and Natural -> f64: IEEE-754 conformance of the FPU (+ - * = Flocq binary64, round to nearest even) and libm exp2 on integer arguments = the correctly rounded power of two are assumed; the real results are compared with the extracted Flocq model and with OCaml doubles on every run",
            "stage 2: value tables of handles are computed by the extracted interpreters of coq/DD/Table.v on snapshots taken through the public Manager/LevelView/InnerNode API; F64 counts of diagrams with at most 53 levels must be bit-identical to the correctly rounded exact count and to the extracted model (more levels, which the generators do not produce: 1e-9 relative)",
        ])


def replay(ctx, path):
    r = json.load(open(path))
    hdr = r.get("case_header", "")
    if r.get("config") == "kept-cache":
        return c12scommon.replay(ctx, r)
    if r.get("config") == "kept-cache-pointer":
        return c12scommon.replay(ctx, r, harness=build_pointer())
    if r.get("config") == "kept-cache-debug":
        return c12scommon.replay(ctx, r, harness=ddcommon.build_dd_debug(ctx))
    if r.get("config") == POINTER_CFG:
        binp = build_pointer()
        _, drv = ddcommon.build_dd(ctx)
        f = os.path.join(ctx.workdir, "replay.txt")
        vf.write_cases(f, [(hdr, r["ops"])])
        ok, bad = vf.lockstep(ctx, binp, drv, f, tag="-replay", drv_args=r.get("drv_args", []))
        for cid, msg in bad:
            print(f"replay: case {cid}: {msg}")
            vf.report_violation(ctx, "replay:" + ";".join(r["ops"][:30]), r, nfif=False)
        if not bad:
            print("replay: no divergence")
        return
    if " kind=" in hdr and hdr.split(" kind=")[1].split()[0] not in ddcommon.NON_DD_KINDS:
        # a case of the DD stage
        return ddcommon.replay_dd(ctx, path)
    binp, dbgp, drv = build(ctx)
    f = os.path.join(ctx.workdir, "replay.txt")
    vf.write_cases(f, [(r["case_header"], r["ops"])])
    b = dbgp if r.get("profile") == "debug" else binp
    ok, bad = vf.lockstep(ctx, b, drv, f, tag="-replay")
    for cid, msg in bad:
        print(f"replay: case {cid}: {msg}")
        vf.report_violation(ctx, "replay:" + ";".join(r["ops"][:12]), r, nfif=False)
    if not bad:
        print("replay: no divergence")
