"""C13 — cube picking returns implicants and honours the caller's choices."""
import itertools
import random
import vf
import ddgen
from checks import ddcommon
from checks import c12scommon

META = {
    "title": "pick_cube / pick_cube_dd / pick_cube_dd_set / pick_cube_uniform",
    "technique": "Rocq proofs over a Gallina model (coq/DD/Pick.v) of the cube-picking walks of BDD, BCDD and ZBDD managers on well-formed node tables, for a stateful choice function: nothing iff unsatisfiable, implicant, cube entries, choice called at most once per level / only where both cofactors are satisfiable / respected, pick_cube_dd (incl. add_literal_to_cube) denotes exactly pick_cube's cube, pick_cube_dd_set = pick_cube_dd with the literal set's polarities, uniform picking = pick_cube with the count-weighted choice and trace probability 2^dc/#models as an identity over N; correspondence: the extracted model is run on every snapshot and compared with the real managers (cube vectors, call levels, returned edges, uniform support and exact probabilities), plus the property predicates on value tables (extracted cube_implies)",
    "category": "proof",
    "design_ref": "DESIGN.md section 5, C13",
    "level_text": "Theorems (coq/Props/C13.v, 49, all closed under the global context) for every well-formed table of the kind (BddOK / BcddOK / ZbddOK, decided by extracted checkers that the driver evaluates on every snapshot), every edge, every stateful choice function: C13_*_pick_total (the model never fails), C13_*_pick_none_iff_false, C13_*_pick_implicant, C13_*_pick_cube_entries (entry = value written at the unique visit of the level; off-path levels don't-care, for ZBDD false), C13_*_choice_once_per_level (levels strictly increase; called with an inner node of that level, only where both cofactors are satisfiable; otherwise forced by an unsatisfiable cofactor / ZBDD: hi=lo don't-care), C13_*_choice_respected (recorded values = answers of the choice function replayed in path order with its state), C13_*_pick_same_cube (pick_cube_dd returns, in a well-formed extension of the table, an edge that holds exactly under the assignments agreeing with pick_cube's vector, same trace and final state; BCDD via add_literal_to_cube), C13_*_pick_dd_implicant (false iff false), C13_bdd/bcdd_pick_dd_set (with a cube-diagram literal set: equal to pick_cube_dd with choice = polarity in the set, false if absent; the set denotes the conjunction of its literals), C13_zbdd_pick_dd_set (result is a satisfiable cube implying the function; forced > positive/negative literal > don't-care where hi=lo else true), C13_*_uniform_model / _none_iff_false, C13_*_uniform_prob (for every run: product of count(child)/(count(then)+count(else)) over the drawn nodes = 2^(don't cares)/#models, numerator and denominator positive), C13_*_count_is_model_count, C13_uniform_branch_fraction (of q = m(ct+ce) equally likely draws exactly m*ct take the then-branch), C13_*_dont_care_count, C13_hypotheses_satisfiable. Tie to the code: for bdd, bcdd, zbdd all 256 three-variable functions under a seed-chosen order (all 6 in thorough) x all 8 choice vectors (pick_cube: vector and call levels equal to the model's; pick_cube_dd: returned edge identical to the model's and no node missing) x all 27 literal sets (pick_cube_dd_set: literal set rebuilt by the model's mk_cube, cube_lits hypothesis checked, returned edge identical, and equal to the model's pick_cube_dd with the set's polarities); random functions over 4..7 variables; pick_cube_uniform: 20000 draws per function on fixed seeds, every observed cube must be reproducible by the model and its frequency within 8 sigma + 10 of cnt * trace_weight (the exact branch-probability product), and the model's own pick_uniform is run on pseudo-random streams (result is an implicant). All property predicates of the statement are additionally evaluated on the value tables (ocaml/pick.ml with the extracted cube_implies). Kept-cache stage (package C12s; driver ocaml/c12s_main.ml, snapshot after every operation): pick_cube_uniform with ONE long-lived F64 SatCountCache per case across drop / gc / reorder / add_vars and rebuilt functions on recycled node ids, 20000 draws per sampling; the histogram must satisfy the same predicates and match the exact branch-probability product; every observed cube is replayed by the extracted pick_cube, the closure's two sat_count_edge calls per asked node by the extracted uni_trace (coq/DD/SatCache.v; theorem C12_cache_uni_counts: the counts are those of the cofactors whatever the history of the cache object) on the model's copy of the cache, and the real cache map must equal the model's after every operation.",
    "level_note": "Trusted: Coq kernel, extraction, OCaml driver (trace parsing, comparisons, ocaml/pick.ml reference walk), Rust harness. Not modelled: the real random number generator and the f64 arithmetic of pick_cube_uniform_edge (t_count / (t_count + e_count) in F64; the model uses exact counts and an abstract stream of rational draws) - the statistical clause about the real RNG is a test with a wide tolerance, the theorem is about the branching probabilities; out-of-memory paths of pick_cube_dd* (C14); reference counting of the created nodes (C05). pick_cube_dd_set for BDD/BCDD is characterised for literal sets that are cube diagrams (what the API documents); for arbitrary literal_set edges only the model's behaviour is defined, nothing is claimed. ZBDD pick_cube_dd_set: the 'arbitrary choice' for a variable absent from the set at a node with distinct non-empty children is true (as in the code), for BDD/BCDD false.",
}
ALLOWED_AXIOMS = ()

C13_VOS = ddcommon.MODEL_VOS + ["DD/Build.vo", "DD/Apply.vo", "DD/SatCount.vo", "DD/Pick.vo"]


def build(ctx):
    """C13 has its own driver: ocaml/c13_main.ml linked against the extraction of
    coq/Extract/ExC13.v (the DD model + coq/DD/Pick.v); same harness (h_dd)."""
    drv = vf.ocaml_build(ctx, "ExC13.v", "c13_main.ml", extra_ml=["dd_types.ml", "pick.ml"], model_vos=C13_VOS)
    bins = vf.cargo_build(["h_dd"])
    return bins["h_dd"], drv


class _own_driver:
    """ddcommon.run_dd / replay_dd with this package's driver"""
    def __enter__(self):
        self.orig = ddcommon.build_dd
        ddcommon.build_dd = build

    def __exit__(self, *a):
        ddcommon.build_dd = self.orig


def case_pick_all(cid, kind, order, nv=3):
    ops, n = ddgen.all_functions_prelude(nv, order, both_routes=False)
    ops.append("SNAP")
    k = 1000
    for i in range(n):
        for cm in range(1 << nv):
            ops.append(f"PICK h{i} {cm}")
            ops.append(f"PICKDD h{k} h{i} {cm}")
            k += 1
    ops.append("SNAP")
    return (ddgen.header(cid, kind), ops)


def case_pickset_all(cid, kind, order, nv=3):
    ops, n = ddgen.all_functions_prelude(nv, order, both_routes=False)
    ops.append("SNAP")
    k = 1000
    for i in range(n):
        for lits in itertools.product((0, 1, 2), repeat=nv):   # 0 absent, 1 positive, 2 negative
            pos = sum(1 << v for v, l in enumerate(lits) if l == 1)
            neg = sum(1 << v for v, l in enumerate(lits) if l == 2)
            ops.append(f"PICKSET h{k} h{i} {pos} {neg}")
            k += 1
    ops.append("SNAP")
    return (ddgen.header(cid, kind), ops)


def case_pick_random(cid, kind, rng, nv):
    ops = [f"VARS {nv}"]
    order = list(range(nv)); rng.shuffle(order)
    ops.append("ORDER " + " ".join(map(str, order)))
    k = 100
    for i in range(12):
        ops.append(f"TT h{i} {nv} {ddgen.rand_tt(rng, nv):x}")
    ops.append("SNAP")
    for i in range(12):
        for _ in range(6):
            cm = rng.randrange(1 << nv)
            ops.append(f"PICK h{i} {cm}")
            ops.append(f"PICKDD h{k} h{i} {cm}"); k += 1
            pos = rng.randrange(1 << nv); neg = rng.randrange(1 << nv) & ~pos
            ops.append(f"PICKSET h{k} h{i} {pos} {neg}"); k += 1
    ops.append("SNAP")
    return (ddgen.header(cid, kind), ops)


def case_uniform(cid, kind, rng, nv=3):
    ops = [f"VARS {nv}"]
    fs = [rng.randrange(1 << (1 << nv)) for _ in range(10)] + [0, (1 << (1 << nv)) - 1]
    for i, t in enumerate(fs):
        ops.append(f"TT h{i} {nv} {t:x}")
    ops.append("SNAP")
    for i in range(len(fs)):
        ops.append(f"PICKUNI h{i} {rng.randrange(1 << 30)} 20000")
    ops.append("SNAP")
    return (ddgen.header(cid, kind), ops)


def gen_cases(ctx):
    rng = random.Random(ctx.seed * 7919 + 13)
    thorough = ctx.tier == "thorough"
    cases = []
    cid = 0
    for kind in ddgen.KINDS_BOOL:
        orders = ddgen.PERMS3 if thorough else [rng.choice(ddgen.PERMS3[1:])]
        for order in orders:
            cases.append(case_pick_all(f"p{cid}", kind, order)); cid += 1
            cases.append(case_pickset_all(f"s{cid}", kind, order)); cid += 1
        for _ in range(200 if thorough else 20):
            cases.append(case_pick_random(f"r{cid}", kind, rng, rng.randrange(4, 8))); cid += 1
        for _ in range(12 if thorough else 3):
            cases.append(case_uniform(f"u{cid}", kind, rng, rng.choice([3, 4]))); cid += 1
    return cases


KEPT_RULE = ("kept-cache stage (package C12s; kinds bdd/bcdd/zbdd, snapshot after every operation): pick_cube_uniform with ONE long-lived "
             "F64 SatCountCache per case (`PICKUNIC cacheid handle seed 20000`; cache_all for odd ids): sample a function, drop it, "
             "collect / reorder / add a variable, build another function whose nodes take the freed node ids, sample it with the same "
             "cache; sat_count as F64 through the same object in between; every histogram judged by the C13 predicates (only models, "
             "none iff unsatisfiable, frequency against 2^dc/#models and against the model's exact branch-probability product); every "
             "observed cube replayed by the extracted pick_cube, the closure's two sat_count_edge calls per asked node by the extracted "
             "uni_trace on the model's copy of the cache, and the real cache map compared with the model's after every operation")
KEPT_RELATION = ("C13: pick_cube_uniform with a kept SatCountCache: histogram satisfies the C13 predicates; the F64 cache map after the "
                 "draws == the extracted uni_trace / sat_query on the model's copy (coq/DD/SatCache.v); coq/Props/C13.v C13_*_uniform_*, "
                 "coq/Props/C12.v C12_cache_uni_counts")


def gen_kept_cases(ctx):
    rng = random.Random(ctx.seed * 15485863 + 131)
    thorough = ctx.tier == "thorough"
    cases = []
    for kind in ddgen.KINDS_BOOL:
        for i in range(60 if thorough else 8):
            cases.append(c12scommon.case_uniform_kept(f"uk-{kind}-{i}", kind, rng, rounds=rng.randrange(3, 8), draws=20000))
        for i in range(40 if thorough else 6):
            cases.append(c12scommon.case_kept(f"kk-{kind}-{i}", kind, rng, rounds=rng.randrange(3, 7)))
    return cases


def run_kept_stage(ctx):
    before = dict(ctx.stats)
    ok, bad, cases = c12scommon.run_stage(ctx, "C13", gen_kept_cases(ctx), ["C13"], KEPT_RELATION)
    if ctx.stats.get("c12s_unresolved", 0) and not bad:
        raise vf.CheckFailure(f"kept-cache stage: {ctx.stats['c12s_unresolved']} operations could not be resolved by the driver")
    g = lambda k: int(ctx.stats.get(k, 0)) - int(before.get(k, 0))
    return {"kept_cases": len(cases), "kept_cases_ok": ok, "kept_cases_bad": len(bad),
            "kept_pick_uniform_ops": g("c12s_pickunic"), "kept_cache_entries_compared": g("c12s_cache_entries"),
            "kept_epoch_changes": g("c12s_epoch_changes")}


def run(ctx):
    vf.proof_gate(ctx, ALLOWED_AXIOMS)
    kept_cov = run_kept_stage(ctx)
    with _own_driver():
        ddcommon.run_dd(
            ctx, ["C13"], gen_cases(ctx), proofs=False, extra_cov=kept_cov,
            rule=KEPT_RULE + "; per kind (bdd, bcdd, zbdd): 256 three-variable functions x 8 choice vectors (pick_cube + pick_cube_dd) and x 27 literal sets (pick_cube_dd_set) under one seed-chosen order (quick) / all 6 (thorough); random functions, choice vectors and literal sets over 4..7 variables under random orders; uniform sampling with fixed seeds (20000 draws per function). non-trivial = case with >= 3 ops",
            allowed_axioms=ALLOWED_AXIOMS)


def replay(ctx, path):
    import json
    r = json.load(open(path))
    if r.get("config") == "kept-cache":
        return c12scommon.replay(ctx, r)
    with _own_driver():
        ddcommon.replay_dd(ctx, path)
