"""C13 — cube picking returns implicants and honours the caller's choices."""
import itertools
import random
import vf
import ddgen
from checks import ddcommon

META = {
    "title": "pick_cube / pick_cube_dd / pick_cube_dd_set / pick_cube_uniform",
    "technique": "Rocq proofs over a Gallina model of the cube-picking walks on well-formed tables (none iff unsatisfiable, implicant, choice consulted at most once per level and respected, forced literals, don't-cares on skipped levels, uniform probability over Q); correspondence: all 256 three-variable functions x all choice vectors x all 27 literal sets per variable order on the real managers, decided by the extracted spec (cube_implies) and a reference walk on the function",
    "category": "proof",
    "design_ref": "DESIGN.md section 5, C13",
    "level_text": "Theorems (coq/Props/C13.v) about the model of pick_cube on well-formed BDD tables. Tie to the code: for BDD, BCDD, ZBDD every one of the 256 three-variable functions under a seed-chosen order (all 6 in thorough) is picked with all 8 choice vectors (pick_cube and pick_cube_dd, which must describe the same cube) and all 27 literal sets (pick_cube_dd_set); random functions over 4..7 variables; the driver checks: nothing/false exactly for the unsatisfiable function, the cube implies the function (extracted cube_implies), the choice function is called at most once per level with a node of that level, and - for BDD/BCDD, where the reduced diagram is determined by the function - every literal is exactly what a reference walk on the function demands (skipped variable = don't care, forced value, caller's choice / literal-set polarity). pick_cube_uniform: fixed seeds, 20000 samples per function, never a non-model, frequencies within a very wide tolerance of 2^dc/#models.",
    "level_note": "Trusted: Coq kernel, extraction, OCaml driver (incl. the reference walk), Rust harness. The statistical clause about the real RNG is a test, not a theorem (the theorem is about the branching probabilities). For ZBDD only the implicant / none-iff-false / trace clauses are checked (the literal-by-literal reference applies to diagrams with the BDD reduction rule).",
}
ALLOWED_AXIOMS = ()

C13_VOS = ddcommon.MODEL_VOS + ["DD/Build.vo", "DD/Apply.vo", "DD/SatCount.vo", "DD/Pick.vo"]


def build(ctx):
    """C13 has its own driver: ocaml/c13_main.ml linked against the extraction of
    coq/Extract/ExC13.v (the DD model + coq/DD/Pick.v); same harness (h_dd)."""
    drv = vf.ocaml_build(ctx, "ExC13.v", "c13_main.ml", extra_ml=["dd_types.ml", "pick.ml"], model_vos=C13_VOS)
    bins = vf.cargo_build(["h_dd"])
    return bins["h_dd"], drv


class _own_driver:
    """ddcommon.run_dd / replay_dd with this package's driver"""
    def __enter__(self):
        self.orig = ddcommon.build_dd
        ddcommon.build_dd = build

    def __exit__(self, *a):
        ddcommon.build_dd = self.orig


def case_pick_all(cid, kind, order, nv=3):
    ops, n = ddgen.all_functions_prelude(nv, order, both_routes=False)
    ops.append("SNAP")
    k = 1000
    for i in range(n):
        for cm in range(1 << nv):
            ops.append(f"PICK h{i} {cm}")
            ops.append(f"PICKDD h{k} h{i} {cm}")
            k += 1
    ops.append("SNAP")
    return (ddgen.header(cid, kind), ops)


def case_pickset_all(cid, kind, order, nv=3):
    ops, n = ddgen.all_functions_prelude(nv, order, both_routes=False)
    ops.append("SNAP")
    k = 1000
    for i in range(n):
        for lits in itertools.product((0, 1, 2), repeat=nv):   # 0 absent, 1 positive, 2 negative
            pos = sum(1 << v for v, l in enumerate(lits) if l == 1)
            neg = sum(1 << v for v, l in enumerate(lits) if l == 2)
            ops.append(f"PICKSET h{k} h{i} {pos} {neg}")
            k += 1
    ops.append("SNAP")
    return (ddgen.header(cid, kind), ops)


def case_pick_random(cid, kind, rng, nv):
    ops = [f"VARS {nv}"]
    order = list(range(nv)); rng.shuffle(order)
    ops.append("ORDER " + " ".join(map(str, order)))
    k = 100
    for i in range(12):
        ops.append(f"TT h{i} {nv} {ddgen.rand_tt(rng, nv):x}")
    ops.append("SNAP")
    for i in range(12):
        for _ in range(6):
            cm = rng.randrange(1 << nv)
            ops.append(f"PICK h{i} {cm}")
            ops.append(f"PICKDD h{k} h{i} {cm}"); k += 1
            pos = rng.randrange(1 << nv); neg = rng.randrange(1 << nv) & ~pos
            ops.append(f"PICKSET h{k} h{i} {pos} {neg}"); k += 1
    ops.append("SNAP")
    return (ddgen.header(cid, kind), ops)


def case_uniform(cid, kind, rng, nv=3):
    ops = [f"VARS {nv}"]
    fs = [rng.randrange(1 << (1 << nv)) for _ in range(10)] + [0, (1 << (1 << nv)) - 1]
    for i, t in enumerate(fs):
        ops.append(f"TT h{i} {nv} {t:x}")
    ops.append("SNAP")
    for i in range(len(fs)):
        ops.append(f"PICKUNI h{i} {rng.randrange(1 << 30)} 20000")
    ops.append("SNAP")
    return (ddgen.header(cid, kind), ops)


def gen_cases(ctx):
    rng = random.Random(ctx.seed * 7919 + 13)
    thorough = ctx.tier == "thorough"
    cases = []
    cid = 0
    for kind in ddgen.KINDS_BOOL:
        orders = ddgen.PERMS3 if thorough else [rng.choice(ddgen.PERMS3[1:])]
        for order in orders:
            cases.append(case_pick_all(f"p{cid}", kind, order)); cid += 1
            cases.append(case_pickset_all(f"s{cid}", kind, order)); cid += 1
        for _ in range(200 if thorough else 20):
            cases.append(case_pick_random(f"r{cid}", kind, rng, rng.randrange(4, 8))); cid += 1
        for _ in range(12 if thorough else 3):
            cases.append(case_uniform(f"u{cid}", kind, rng, rng.choice([3, 4]))); cid += 1
    return cases


def run(ctx):
    with _own_driver():
        ddcommon.run_dd(
            ctx, ["C13"], gen_cases(ctx),
            rule="per kind (bdd, bcdd, zbdd): 256 three-variable functions x 8 choice vectors (pick_cube + pick_cube_dd) and x 27 literal sets (pick_cube_dd_set) under one seed-chosen order (quick) / all 6 (thorough); random functions, choice vectors and literal sets over 4..7 variables under random orders; uniform sampling with fixed seeds (20000 draws per function). non-trivial = case with >= 3 ops",
            allowed_axioms=ALLOWED_AXIOMS)


def replay(ctx, path):
    with _own_driver():
        ddcommon.replay_dd(ctx, path)
