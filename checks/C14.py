"""C14 — resource exhaustion is reported as an error and leaves the manager intact."""
import os
import random
import re
import vf
import ddgen
from checks import ddcommon
from checks import alloccommon

META = {
    "title": "out-of-memory is an error value; the manager stays intact and recovers after drop + gc",
    "technique": "Rocq proofs over a Gallina model of the BDD apply algorithms (apply_not / apply_bin / apply_ite, variable creation) in the AllocResult error monad with a node budget (coq/Mgr/Oom.v on top of the C02 model; both recursors: sequential '?' and the parallel join that still runs the sibling branch): refinement of the unbounded algorithms, state after a failure, exactness, monotonicity, retry after a collection; correspondence by capacity-sweep fault enumeration on the real managers: every script is first measured on a large manager and then run at EVERY inner-node capacity 0..need+2 (MTBDD also every terminal capacity), so that each allocation point is the failing one in some run, for bdd/bcdd/zbdd/mtbdd with 1, 2 and 8 threads, followed by drop-all + gc + capacity probe + retry on the same manager; for BDD (1 thread) the extracted bounded model predicts every single outcome (out-of-memory or not, nodes stored afterwards, result table); the same models + theorems + op-by-op prediction for the complement-edge BDD, ZBDD and MTBDD rule sets (coq/Mgr/OomGen.v error-monad combinators, OomBcdd.v, OomZbdd.v, OomMtbdd.v; MTBDD with two budgets: inner nodes and terminals)",
    "category": "proof",
    "design_ref": "DESIGN.md section 5, C14",
    "level_text": "Theorems (coq/Props/C14.v, 163 = 66 + 97 for the other rule sets (last paragraph), all closed under the global context; for every capacity, every cache that only serves what was added, either recursor at every depth): oom_never_wrong (a result of the bounded run is literally the result of the unbounded run of the C02 model, hence the pointwise connective), oom_safe (after Err(OutOfMemory) the table is a well-formed BDD table extending the old one with a correct cache; handle list unchanged, every old reference valid with the same meaning, the nodes left behind unreachable from every handle, the reachable part unchanged; the store really is full), oom_no_panic (result or out-of-memory are the only outcomes: no unwrap panics, no divergence), oom_exact (fails if and only if the table of the unbounded run does not fit; hence failing or not is independent of the recursor), oom_retry / oom_monotone (fits => succeeds with exactly that result; success is monotone in the capacity and independent of the recursor), oom_var_exact (variable creation), collected_ok + oom_recover (failure, handles dropped, collection = restriction to the reachable part: well-formed sub-table without the garbage of the failed attempt, and the retry is again 'correct result iff it fits'), concrete non-vacuity examples; C14_own_* (ownership on the error paths, model coq/Mgr/OomOwn*.v on the state of the C07 interleaving model: table with reference counts + multiset of owned edges, every clone_edge / drop_edge / get_or_insert / EdgeDropGuard / EdgeVecDropGuard / `?` explicit, guard placement of recursor.rs and apply_rec.rs; not, 8 binary operators, ite, substitute_prepare + substitute + substitute_edge, quant): own_balance (every outcome: the tokens owned afterwards are exactly the caller's plus - on Ok - one for the result: nothing leaked, nothing double-released; no hypothesis), own_counts (CInv = exact reference counts preserved by every outcome; WF and rc_exact_b of the snapshot), own_total (never stuck: no double release, no count underflow, get_or_insert preconditions, unwraps), own_err_collect (after Err the collection of ConcGc.v leaves exactly the nodes of the original table reachable from the caller's tokens, entry by entry - count included - the table a collection of the state before would give), own_balance_late_*_refuted (the seeded guard placements - recursor guards after the second `?`, vector guard of substitute_prepare only at the final Ok - violate balance and rollback on concrete inputs). Tie to the code: fault enumeration by capacity sweep on the real managers (see technique); required of every run: each operation returns out-of-memory or the result demanded by the extracted spec layer; no panic, abort or hang (watchdog, child process); after every operation - in particular after every failed one - the lifted manager passes the extracted audits wf_full_b (C03) and rc_first_bad/rc_exact_b (C05: exact reference counts, i.e. everything acquired was released), every earlier handle has its old value table, canonicity holds; after DROPALL + GC no node survives, the capacity probe fills the store completely (no slot was lost on any failure path), and the retry of the whole script succeeds without any out-of-memory when the capacity is at least the measured need; for kind=bdd, 1 thread, capacity < 100 the extracted bounded model (no cache, sequential recursor) run on the snapshot before each NOT / binary operator / ITE / VAR / NVAR predicts the implementation exactly; for every such NOT / binary operator / ITE (failing ones with 1 thread only) the extracted ownership model (coq/Mgr/OomOwnTie.v: snapshot -> state, own_inv_b = CInv must hold) is run as well and must have the same outcome, own exactly the harness's handles afterwards (a result being stored in its slot) and predict the table after the operation node by node up to renaming WITH its reference counts (garbage of a failed run included). Other rule sets (C14_bcdd_*, C14_zbdd_*, C14_mt_*; models coq/Mgr/OomBcdd.v, OomZbdd.v, OomMtbdd.v = the algorithms of the C02 / C09 / C10 models once more in the error monad, function by function, on the combinators of OomGen.v: gbind = `?`, gjoin2 = rec.binary / ternary / binary_ternary of either recursor, gfin = reduce(..)? + cache insertion): never_wrong (a result is literally the result of the unbounded model, hence the pointwise connective / set operation / arithmetic operation), safe (after Err: the invariant of the kind - BcOK / ZbddOK + tautology chain / MtOK - with a correct cache, table only extended, intact_c / intact_z / intact_m: handle list, order, every stored node and terminal unchanged, every valid edge with the same semc / semz / semk under every fuel, every handle the same value, added nodes unreachable from every handle, live part unchanged; store full), no_panic, exact (fails iff the table of the unbounded run does not fit; MTBDD: iff inner nodes OR terminals do not fit - get_terminal fails iff the value is new and all terminal slots are in use; ite / restrict never touch the terminal store), outcome independent of the recursor (bcdd, zbdd; the MTBDD code has no recursor), retry, monotone in the capacity (MTBDD: in both), for bcdd: the 8 operators (through apply_bin And/Xor and tag flips), ite, negation (a tag flip: total), var; zbdd: union / intsec / diff, not, the 8 Boolean operators (symm_diff; nand / nor / equiv as two phases; imp through ite), ite (incl. binary_ternary), singleton; mtbdd: the 6 arithmetic operators, ite, restrict, constant, var (three fallible steps); concrete non-vacuity tables with every outcome, garbage after a failure, recursors differing in the cache of the failed run, and the exactness theorem instantiated for ALL capacities. Tie: for kind=bcdd / zbdd (capacity < 100) and mtbdd the extracted bounded models run on the snapshot before each covered operation (bcdd: NOT / 8 operators / ITE / VAR / NVAR; zbdd: UNION / INTSEC / DIFF / NOT / 8 operators / ITE / SINGLETON / MAKENODE; mtbdd: ADD .. MAX / ITE / CONSTN / VAR / RESTRICT incl. the harness's cube construction step by step; both the node-capacity and the terminal-capacity sweep) predict out-of-memory or not, the stored nodes and (mtbdd) stored terminals afterwards - after a failed run the garbage - and the result's value table; bcok_b / zbdd_ok_b + zchain_ok_b / mt_ok_b (the hypotheses) are evaluated on every snapshot. TDD (package TDDx): tdd scripts (variables, constants, not, 8 three-valued connectives, ite, cofactors; 1 and 8 workers) are swept over every inner-node capacity 0..need+2 like the other kinds: every operation returns out-of-memory or the result demanded by the extracted fixed tables (prop=C11), no panic / abort / hang, after every operation - in particular every failed one - the lifted manager passes wf_full_b, td_ok_b, td_wf3_b (C03), rc_first_bad and the ternary audit td_rc_b (C05: everything acquired was released), every earlier handle keeps its value table over all 3^n assignments, canonicity holds; after DROPALL + GC no node survives, the ternary capacity probe T3FILL (single-node steps, all alive, until out-of-memory) finds every slot in use, and the retry of the script succeeds without out-of-memory when the capacity is at least the measured need.",
    "level_note": "Partial / not proved: modelled with a budget are: plain BDD (apply_not, apply_bin for all 8 operators, apply_ite, var/not_var), BCDD (8 operators, ite, not, var/not_var), ZBDD (union / intsec / diff, not, 8 Boolean operators, ite, singleton, make_node), MTBDD (6 arithmetic operators, ite, restrict, constant, var; node and terminal budget); NOT modelled with a budget (fault enumeration only): quantification, substitution, restrict and pick_cube_dd of BDD / BCDD, ZBDD subset0 / subset1 / change / restrict / var_edge / pick, MTBDD value-table construction (a harness composite of the modelled operations), all rule sets' sat / eval queries (they do not allocate). The recovery theorems (drop + gc + retry, oom_recover_*) and the ownership model (C14_own_*) exist for the plain BDD rule set only; for the other kinds 'retry succeeds once space is free' is oom_retry (any table in which the result fits) + the enumeration's retry phase, and 'everything acquired is released' is the exact-count audit after every failed operation. The MTBDD algorithms have no parallel recursor in the code (always sequential), so there is no recursor parameter there. The parallel recursor is modelled as 'both branches run, in sequence' (the real interleaving of node creation between threads is not modelled; multi-threaded runs are checked by enumeration). Reference counts are not part of the model coq/Mgr/Oom.v ('releases everything it had acquired' = 'no node created by the failed run is reachable from a handle'); they are in the ownership model coq/Mgr/OomOwn*.v (C14_own_*: plain BDD rule set; not / binary operators / ite / substitute_prepare / substitute / substitute_edge / quant; restrict, apply_quant, pick_cube_dd and the other rule sets are not modelled there), whose correspondence run covers NOT / binary / ITE operations (successful ones with any number of threads, failing ones with one thread: table with counts after the operation); substitution and quantification of the ownership model are proof-only, the code's behaviour there is checked by the exact-count audit (rc_first_bad on the lifted snapshot after every failed operation = theorem own_counts on the code). The parallel recursor is sequentialised in the ownership model as well; terminal reference counts are not modelled (as in Conc.v). An a-priori (product) bound on the node need is not proved: oom_retry is stated relative to the nodes the unbounded run creates, which is what the check measures. gc is specified (collected = restriction to the reachable part) rather than modelled as an algorithm (that gc does this on the real manager is C05). Excluded by documented design: add_vars / manager creation for ZBDD and level_swap (reordering) call abort() on OOM - capacities below the number of ZBDD variables and reordering under exhausted capacity are not swept; DDDMP import under OOM is C15. Trusted: Coq kernel, extraction, the two OCaml drivers, Rust harness, public accessor API. TDD: no bounded (budget) model and no ownership model of the TDD rule set exist: for kind tdd the sweep is fault enumeration + end-state audit only (the c14 driver checks panics and the retry phase; the generic driver everything else).",
}
# package ALLOC (slot allocator of the index-based manager): coq/Mgr/Alloc*.v, theorems C14_alloc_*, stage checks/alloccommon.py
META["technique"] += "; slot allocator of the index-based manager (package ALLOC): Rocq proofs over an executable interleaving model of Store::add_node / get_slot_from_shared / free_slot / prepare_local_state / guard drop / collector epilogue (coq/Mgr/Alloc.v: shared bump pointer, vector of free-list heads, next links in the slot array, per-thread list head / initialised range / node-count delta, CHUNK_SIZE a parameter) for every schedule of any number of threads; tie: the allocator events logged by the cfg(oxidd_verif) hooks of /repo are replayed on the extracted model (ocaml/alloc_main.ml)"
META["level_text"] += " Slot allocator (package ALLOC, C14_alloc_*, 10 theorems; invariant and partition theorems under C05_alloc_*): for every state reachable under ANY interleaving of the threads' prepare / guard drop / add_node / free_slot / collector-epilogue actions: add_node is never stuck (never_stuck); it fails if and only if no free slot is reachable by the calling thread - no shared list, nothing left of the slot array, nothing in its own list or range (oom_iff), so that after a failure every free slot is parked in ANOTHER thread's local list or range and no slot was changed (oom_only_parked); when no other thread holds slots, out-of-memory iff all capacity slots hold a node (oom_single) and add_node succeeds as soon as one slot is free (retry_succeeds); in managers that never pre-allocate a chunk (capacity <= CHUNK_SIZE) add_node never parks a slot with a thread (no_hoard_scarce); the behaviour before /repo 45ba7ac (take_all_refuted), the seeded capacity-check-first order (cap_first_refuted) and the node count drift of failed allocations (oom_drift_refuted, fixed in /repo 0ceb9c4) violate these on computed schedules. Tie: hooks build of the harness, case parameter alloc=1: every logged get_slot_from_shared / add_node result / free_slot / guard drop / collector epilogue of sequential histories on 5..40 slots, parallel blocks, nested sessions (non-local branch), fill-drop-gc-retry cases, MTBDD terminal-store retry cases and managers with 1-3 chunks of 65536 slots is replayed on the extracted model: OutOfMemory where the model reaches a slot = violation (prop=C14), a slot handed out twice / freed twice / a shared node count that differs from the number of handed-out slots at a quiescent point = violation (prop=C05), any other difference = correspondence failure."
META["level_note"] += " Slot allocator model (package ALLOC): u32 / i32 / i64 overflow, the contents of nodes, the condition variable of the collector thread (only gc_state) and memory ordering are not modelled; one get_slot_from_shared / free_slot / guard drop is one atomic action (they run under Store::state); the replay orders the critical sections by the order in which their events were logged (logged with the lock held); the hand-over of a local list inside free_slot is logged before and after its critical section (seeded hunks forbid a hook inside), an overlap with another thread's critical section is resolved by the number of shared lists the other event reports; chunk pre-allocation, the initialised range, taking a whole shared list and the hand-over are only reached by the cases with capacity > 65536."

# package C14z (bounded-store models of the remaining operations): coq/Mgr/OomBddQ*.v, OomBcddQ*.v, OomZbddV*.v, OomTdd*.v,
# theorems C14_bddq_* / C14_bcddq_* / C14_zbddv_* / C14_tdd_* (sections 14-17 of coq/Props/C14.v)
META["technique"] += "; package C14z: the same error-monad models + theorem families + op-by-op prediction for plain BDD and BCDD quantification (forall / exists / unique), apply-and-quantify (8 operators, BCDD through its dispatchers), restrict and substitution incl. substitute_prepare (coq/Mgr/OomBddQ.v, OomBcddQ.v on top of the C04 models DD/Quant.v, DD/QuantBcdd.v; inner apply_not / apply_bin / apply_ite calls are the bounded algorithms of Oom.v / OomBcdd.v), ZBDD subset0 / subset1 / change, restrict incl. restrict_base, var_edge / not_var_edge with their don't-care loops (OomZbddV.v), and the TDD rule set: not, 8 operators, ite, var (OomTdd.v on top of DD/ApplyTdd.v)"
META["level_text"] += " Package C14z (C14_bddq_*, C14_bcddq_*, C14_zbddv_*, C14_tdd_*; 48 theorems): ONE statement per family for EVERY call k of the interface (qcall = KQuant q f vars | KApplyQuant q op f g vars | KRestrict f vars | KSubst f pairs id; cqcall the same on edges; zvcall = ZVSubset op f var | ZVRestrict f vars | ZVVar var | ZVNotVar var; tcall = TCNot f | TCBin op f g | TCIte f g h), run_c = the bounded run of the *_edge entry point, run_u = the unbounded entry point of the C04 / C09 / C11 model: never_wrong (GOk s' c' r => run_u = Some (s', c', r), no hypothesis), retry and monotone (no hypothesis; monotone also across recursors), never_wrong_sem (under the kind's invariant and valid operands a result leaves the invariant, intact / intact_c / intact_z / intact_t and denotes the specification: quant (qfun q) vs .. / restrict_s lits .. / subst_s .. for every reading of vars as a variable set / cube, f_sub on families, the Boolean cofactor, the variable, the fixed three-valued tables), safe (GOom s' c' => invariant incl. the quantification cache invariant, extends, intact*, store full), no_panic, exact (the call fails IF AND ONLY IF the table of the unbounded run does not fit), outcome_recursor_indep (either recursor at every depth of the own recursion AND of the inner apply calls; not tdd: sequential code), tdd var_exact / var_never_wrong, failed_meaning / intact_meaning, the decision theorems of the call-hypothesis checkers (cqcall_ok_b, zvcall_ok_b) and the cache-less tie instances (bcddq_nc_exact, tdd_nc_exact: hypotheses = the two checkers the driver evaluates), non-vacuity examples with garbage after a failure (substitute_prepare failing after the first variable node; var_edge / restrict_base loops failing in the middle) and exactness instantiated for all capacities. New in the proofs: a failed inner apply call only added apply-coded cache entries (frame walk apply_*_c_cfr / capply_*_c_frame), so the quantification cache invariant survives it. Tie (C14 driver, cap < 100): EXISTS / FORALL / UNIQUE / AEX / AFA / AUQ / RESTRICT / SUBST (bdd, bcdd; the harness's own cube construction t, var / not_var, and is replayed step by step through the bounded model; a substitution's replacement functions are read from the snapshot), SUBSET0 / SUBSET1 / CHANGE / VAR / NVAR / RESTRICT (zbdd), T3NOT / T3AND .. T3IMPS / T3ITE / T3VAR (tdd; td_ok_b on every snapshot): out-of-memory or not, stored nodes afterwards, value table of the result (tdd: over all 3^n assignments)."
META["level_note"] += " Package C14z: the budget models now cover everything listed above as 'NOT modelled with a budget' EXCEPT pick_cube_dd / pick_cube_dd_set (BDD / BCDD / ZBDD) and the MTBDD value-table composite; the sentence 'TDD: no bounded (budget) model' above is superseded (the TDD rule set has one; it still has no ownership model). Inner calls: which recursor an inner apply call uses at which of its depths is a second parameter (pin); the code continues to count its remaining parallel depth down inside the inner call - an instance; all theorems hold for every par and pin. The ZBDD restrict model (like DD/ZbddBool.v) keys its cache entry by (f, vars) only, the code additionally by num_levels (fix f8637cd): irrelevant for out-of-memory behaviour, invisible to the cache-less tie. No ownership / recovery theorems for the new calls beyond C14x's quant_o / subst_o. Quick tier: a script with more than 40 capacities is swept at every capacity of the first 32 and the last five and at every third one in between (thorough: all)."
META["technique"] += "; package C14o: ownership (token) models of the ZBDD and the complement-edge apply algorithms (coq/Mgr/OomOwnZK.v kind-generic primitives on tagged edges, OomOwnZ.v, OomOwnC.v) with the EdgeDropGuard placement of the code, incl. the two-phase ZBDD operators nand / nor / equiv, reduce_borrowed, binary_ternary, the BCDD tag moves of reduce / not_owned"
META["level_text"] += " Package C14o (C14_ownz_{balance,counts_rollback,example}, C14_ownc_{balance,counts_rollback,example}, C14_own_rolled_back_meaning; 7 theorems, each family one conjunction over the algorithms to keep the Print Assumptions audit short; the refutations are conjuncts of the example theorems): for the ZBDD algorithms apply_union / intsec / diff, apply_not, apply_symm_diff, apply_ite and the eight operator entry points (nand / nor / equiv = set operation then complement with the intermediate result in an EdgeDropGuard), and for the BCDD apply_bin And / Xor, not_edge, the eight operators and apply_ite: BALANCE (after Ok the thread owns the caller's tokens + 1, after Err exactly the caller's; multisets of tagged edges; no hypothesis), FRAME (every old node keeps level and children), COUNTS (CInv preserved, snapshot WF with rc_exact_b) and ROLLBACK (after Err the collection leaves entry by entry the table a collection of the state before would have produced) for every capacity, cache, recursor, operand order, fuel; BCDD not_edge never reports out-of-memory; refutations: seeded/C14g's placement (equiv's xor result as a bare edge during the complement), seeded/C14b's placement (ZBDD binary_ternary guards after both `?`) and the late recursor guards of the BCDD binary / ternary leak one token and one node on computed witnesses while the code's placement satisfies the statement on the same inputs. Tie: after every FAILING zbdd set operation / NOT / operator / ITE and bcdd operator / ITE of a one-thread case (cap < 100) the extracted ownership model (ownz_inv_b / ownc_inv_b = the hypothesis CInv checked on the snapshot before; ZBDD: the manager's tautology-chain references are tokens of a second owner) must have the outcome of the bounded model, own exactly the harness's inner handles, and predict the real snapshot up to renaming incl. every reference count and the garbage (IsoCheck.iso_core)."
META["level_note"] += " Package C14o: no TOTAL (never-stuck) theorem for the ZBDD / BCDD ownership models (a stuck model run is reported by the driver as a kind=corr disagreement with the bounded model; non-vacuity by the computed example tables); no ownership model of ZBDD subset / restrict / var_edge, BCDD quant / restrict / substitute, MTBDD, TDD; successful zbdd / bcdd operations are not replayed by the ownership model (failing ones only, to keep the quick tier under 4 min); parallel recursor sequentialised as in C14x."

ALLOWED_AXIOMS = ()

C14_VOS = ["Base/Conv.vo", "DD/Table.vo", "DD/TableExtra.vo", "DD/Sem.vo", "DD/Build.vo", "DD/Apply.vo", "Mgr/Oom.vo",
           "Mgr/Conc.vo", "Mgr/OomOwn.vo", "Mgr/OomOwnTie.vo",
           "Num/I64.vo", "DD/ApplyBcdd.vo", "DD/FamSpec.vo", "DD/ZbddOps.vo", "DD/ZbddBool.vo", "DD/ApplyMtbdd.vo",
           "Mgr/OomGen.vo", "Mgr/OomBcdd.vo", "Mgr/OomZbdd.vo", "Mgr/OomMtbdd.vo",
           "DD/Quant.vo", "Mgr/OomBddQ.vo", "DD/QuantBcdd.vo", "Mgr/OomBcddQ.vo", "Mgr/OomZbddV.vo",
           "DD/Tdd.vo", "DD/ApplyTdd.vo", "Mgr/OomTdd.vo", "DD/Pick.vo", "Mgr/OomPick.vo", "DD/IsoCheck.vo",
           "Mgr/OomOwnZK.vo", "Mgr/OomOwnZ.vo", "Mgr/OomOwnC.vo", "Mgr/OomOwnZTie.vo"]
PROPS = ["C14", "C01", "C02", "C03", "C04", "C05", "C09", "C10", "C11", "C13"]
BIG = 1 << 14


def build(ctx):
    binp, drv = ddcommon.build_dd(ctx)
    drv2 = vf.ocaml_build(ctx, "ExC14.v", "c14_main.ml", model_vos=C14_VOS)
    return binp, drv, drv2


# ---------------------------------------------------------------------------
# scripts (no reordering, no add_vars after the start; see META.level_note)
# ---------------------------------------------------------------------------
def script_bool(kind, rng, nv, length, flavour):
    """flavour: apply | quant | pick | tt"""
    ops = [f"VARS {nv}"]
    live = []
    nsub = [0]

    def fresh():
        d = len(live)
        live.append(d)
        return d

    def pick():
        return rng.choice(live)

    # operands: variables and one or two functions from truth tables
    for v in rng.sample(range(nv), min(nv, 3)):
        ops.append(f"{rng.choice(['VAR', 'VAR', 'NVAR'])} h{fresh()} {v}")
    if flavour != "apply" or rng.random() < 0.5:
        for _ in range(rng.randrange(1, 3)):
            ops.append(f"{rng.choice(['TT', 'TTI'])} h{fresh()} {nv} {ddgen.rand_tt(rng, nv):x}")
    for _ in range(length):
        r = rng.random()
        if flavour == "tt":
            ops.append(f"{rng.choice(['TT', 'TTI'])} h{fresh()} {nv} {ddgen.rand_tt(rng, nv):x}")
        elif flavour == "apply" or r < 0.35:
            q = rng.random()
            if q < 0.6:
                a, b = pick(), pick()
                ops.append(f"{rng.choice(ddgen.BIN_OPS)} h{fresh()} h{a} h{b}")
            elif q < 0.8:
                a, b, c = pick(), pick(), pick()
                ops.append(f"ITE h{fresh()} h{a} h{b} h{c}")
            elif q < 0.95:
                a = pick()
                ops.append(f"{rng.choice(['NOT', 'NOTO'])} h{fresh()} h{a}")
            else:
                a = pick()
                ops.append(f"CLONE h{fresh()} h{a}")
        elif flavour == "quant":
            q = rng.random()
            mask = rng.randrange(1, 1 << nv)
            if q < 0.3:
                a = pick()
                ops.append(f"{rng.choice(['EXISTS', 'FORALL', 'UNIQUE'])} h{fresh()} h{a} {mask}")
            elif q < 0.55:
                a, b = pick(), pick()
                ops.append(f"{rng.choice(['AEX', 'AFA', 'AUQ'])} {rng.choice(ddgen.BIN_OPS)} h{fresh()} h{a} h{b} {mask}")
            elif q < 0.8:
                pos = rng.randrange(1 << nv)
                neg = rng.randrange(1 << nv) & ~pos
                a = pick()
                ops.append(f"RESTRICT h{fresh()} h{a} {pos} {neg}")
            else:
                if nsub[0] == 0 or rng.random() < 0.4:
                    vs = rng.sample(range(nv), rng.randrange(1, min(3, nv) + 1))
                    ops.append(f"MKSUBST {nsub[0]} " + " ".join(f"{v}=h{pick()}" for v in vs))
                    nsub[0] += 1
                a = pick()
                ops.append(f"SUBST h{fresh()} h{a} {rng.randrange(nsub[0])}")
        else:  # pick
            q = rng.random()
            a = pick()
            if q < 0.45:
                cm = rng.randrange(1 << nv)
                ops.append(f"PICK h{a} {cm}")       # (the generic driver pairs PICKDD with the PICK right before it)
                ops.append(f"PICKDD h{fresh()} h{a} {cm}")
            elif q < 0.9:
                pos = rng.randrange(1 << nv)
                neg = rng.randrange(1 << nv) & ~pos
                ops.append(f"PICKSET h{fresh()} h{a} {pos} {neg}")
            else:
                ops.append(f"PICK h{a} {rng.randrange(1 << nv)}")
        if rng.random() < 0.06 and len(live) > 4:
            ops.append("GC")
    return ops


def script_sparse(rng, nv, flavour):
    """Only some variables get a node (VAR/NVAR on a subset with gaps; functions are combined from those
    only - no TT/TTI, which touch every variable), so that the library's own preparation loops have to
    CREATE variable nodes while they already own edges: substitution (substitute_prepare creates the
    variable node of every unsubstituted level above the last substituted one), quantification / restrict /
    pick_cube_dd_set (variable-set and literal cubes over variables without a node).
    flavour: subst | cube"""
    ops = [f"VARS {nv}"]
    live = []

    def fresh():
        d = len(live)
        live.append(d)
        return d

    def pick():
        return rng.choice(live)

    # a variable subset with at least one gap below its largest member
    while True:
        S = sorted(rng.sample(range(nv), rng.randrange(2, 4)))
        gaps = [v for v in range(S[-1]) if v not in S]
        if gaps:
            break
    var_slot = {}
    for v in S:
        d = fresh()
        var_slot[v] = d
        ops.append(f"{rng.choice(['VAR', 'VAR', 'NVAR'])} h{d} {v}")
    for _ in range(rng.randrange(2, 5)):
        q = rng.random()
        if q < 0.7:
            a, b = pick(), pick()
            ops.append(f"{rng.choice(ddgen.BIN_OPS)} h{fresh()} h{a} h{b}")
        elif q < 0.9:
            a, b, c = pick(), pick(), pick()
            ops.append(f"ITE h{fresh()} h{a} h{b} h{c}")
        else:
            a = pick()
            ops.append(f"NOT h{fresh()} h{a}")
    if flavour == "subst":
        nsub = 0
        for _ in range(rng.randrange(1, 3)):
            # pairs on non-adjacent variables: the smallest and the largest member of S are always
            # substituted, so that every gap level lies between two substituted levels
            vs = sorted(set([S[0], S[-1]] + rng.sample(S, rng.randrange(0, len(S)))))
            ops.append(f"MKSUBST {nsub} " + " ".join(f"{v}=h{pick()}" for v in vs))
            nsub += 1
            for _ in range(rng.randrange(1, 3)):
                a = pick()
                ops.append(f"SUBST h{fresh()} h{a} {nsub - 1}")
    else:
        for _ in range(rng.randrange(2, 5)):
            q = rng.random()
            # masks over ALL variables: the cubes need nodes of variables that have none yet
            mask = rng.randrange(1, 1 << nv) | (1 << rng.choice(gaps))
            a = pick()
            if q < 0.25:
                ops.append(f"{rng.choice(['EXISTS', 'FORALL', 'UNIQUE'])} h{fresh()} h{a} {mask}")
            elif q < 0.45:
                b = pick()
                ops.append(f"{rng.choice(['AEX', 'AFA', 'AUQ'])} {rng.choice(ddgen.BIN_OPS)} h{fresh()} h{a} h{b} {mask}")
            elif q < 0.65:
                neg = rng.randrange(1 << nv) & ~mask
                ops.append(f"RESTRICT h{fresh()} h{a} {mask} {neg}")
            elif q < 0.85:
                neg = rng.randrange(1 << nv) & ~mask
                pos, neg = (mask, neg) if rng.random() < 0.5 else (neg, mask)
                ops.append(f"PICKSET h{fresh()} h{a} {pos} {neg}")
            else:
                cm = rng.randrange(1 << nv)
                ops.append(f"PICK h{a} {cm}")
                ops.append(f"PICKDD h{fresh()} h{a} {cm}")
    return ops


def script_zbdd(rng, nv, length):
    ops = [f"VARS {nv}"]
    live = []
    no0 = set()      # slots whose family does not mention variable 0 (the top level: no reordering here)

    def fresh(free_of_0=False):
        d = len(live)
        live.append(d)
        if free_of_0:
            no0.add(d)
        return d

    def pick():
        return rng.choice(live)

    for v in rng.sample(range(nv), min(nv, 3)):
        ops.append(f"SINGLETON h{fresh(v != 0)} {v}")
    ops.append(f"{rng.choice(['BASE', 'EMPTY'])} h{fresh(True)}")
    for _ in range(length):
        q = rng.random()
        if q < 0.3:
            a, b = pick(), pick()
            ops.append(f"{rng.choice(['UNION', 'INTSEC', 'DIFF'])} h{fresh(a in no0 and b in no0)} h{a} h{b}")
        elif q < 0.5:
            a = pick()
            o, v = rng.choice(['SUBSET0', 'SUBSET1', 'CHANGE']), rng.randrange(nv)
            ops.append(f"{o} h{fresh((a in no0 and v != 0) or (v == 0 and o != 'CHANGE'))} h{a} {v}")
        elif q < 0.54:
            # restrict by a literal cube (the harness builds the cube: t, var / not_var, and) / var_edge / not_var_edge
            if rng.random() < 0.7:
                pos = rng.randrange(1 << nv)
                neg = rng.randrange(1 << nv) & ~pos
                ops.append(f"RESTRICT h{fresh()} h{pick()} {pos} {neg}")
            else:
                ops.append(f"{rng.choice(['VAR', 'NVAR'])} h{fresh()} {rng.randrange(nv)}")
        elif q < 0.58 and no0:
            # make_node(var, hi, lo) requires var above everything in hi and lo: the top variable, operands free of it
            a, b = rng.choice(sorted(no0)), rng.choice(sorted(no0))
            ops.append(f"MAKENODE h{fresh()} 0 h{a} h{b}")
        elif q < 0.68:
            ops.append(f"{rng.choice(['TT', 'TTI'])} h{fresh()} {nv} {ddgen.rand_tt(rng, nv):x}")
        elif q < 0.8:
            a, b = pick(), pick()
            ops.append(f"{rng.choice(ddgen.BIN_OPS)} h{fresh()} h{a} h{b}")
        elif q < 0.87:
            a, b, c = pick(), pick(), pick()
            ops.append(f"ITE h{fresh()} h{a} h{b} h{c}")
        elif q < 0.93:
            a = pick()
            ops.append(f"NOT h{fresh()} h{a}")
        else:
            a = pick()
            cm = rng.randrange(1 << nv)
            ops.append(f"PICK h{a} {cm}")
            ops.append(f"PICKDD h{fresh()} h{a} {cm}")
    return ops


def script_zbdd_ite(rng, nv):
    """ZBDD if-then-else with operands whose roots lie on different levels (apply_ite's binary_ternary branch: one
    of g / h has no node on f's top level because it implies 'not x0'), sequential recursor"""
    ops = [f"VARS {nv}"]
    n = [0]

    def fresh():
        n[0] += 1
        return n[0] - 1

    f = fresh(); ops.append(f"{rng.choice(['TT', 'TTI'])} h{f} {nv} {ddgen.rand_tt(rng, nv) | 2:x}")
    g = fresh(); ops.append(f"{rng.choice(['TT', 'TTI'])} h{g} {nv} {ddgen.rand_tt(rng, nv) | 2:x}")
    nx = fresh(); ops.append(f"NVAR h{nx} 0")
    for _ in range(rng.randrange(2, 4)):
        t = fresh(); ops.append(f"{rng.choice(['TT', 'TTI'])} h{t} {nv} {ddgen.rand_tt(rng, nv):x}")
        h = fresh(); ops.append(f"AND h{h} h{nx} h{t}")          # implies not x0: no node on the top level
        a, b = (g, h) if rng.random() < 0.5 else (h, g)
        ops.append(f"ITE h{fresh()} h{f} h{a} h{b}")
        if rng.random() < 0.5:
            g = fresh(); ops.append(f"XOR h{g} h{f} h{t}")
    return ops


def script_zbdd_twophase(rng, nv):
    """ZBDD nand / nor / equiv = set operation, then the complement with the intermediate result in an EdgeDropGuard
    (package C14o, seeded/C14g): one thread, so that the ownership model predicts the table - counts and garbage -
    after a failure in the SECOND phase"""
    ops = [f"VARS {nv}"]
    live = []

    def fresh():
        live.append(len(live))
        return live[-1]

    for _ in range(2):
        ops.append(f"{rng.choice(['TT', 'TTI'])} h{fresh()} {nv} {ddgen.rand_tt(rng, nv):x}")
    ops.append(f"VAR h{fresh()} {rng.randrange(nv)}")
    for _ in range(3):
        a, b = rng.sample(live, 2)
        ops.append(f"{rng.choice(['EQUIV', 'EQUIV', 'NAND', 'NOR'])} h{fresh()} h{a} h{b}")
    return ops


def script_mtbdd(rng, nv, length):
    ops = [f"VARS {nv}"]
    live = []
    conds = []
    vals = ["0", "1", "-1", "2", "3", "-7", "5", "+inf", "-inf", "nan"]

    def fresh():
        d = len(live)
        live.append(d)
        return d

    def pick():
        return rng.choice(live)

    d = fresh(); ops.append(f"CONSTN h{d} {rng.choice(vals)}")
    d = fresh(); ops.append(f"VAR h{d} {rng.randrange(nv)}"); conds.append(d)
    d = fresh(); ops.append(f"VT h{d} {nv} " + " ".join(rng.choice(vals[:6]) for _ in range(1 << nv)))
    for _ in range(length):
        q = rng.random()
        if q < 0.15:
            ops.append(f"CONSTN h{fresh()} {rng.choice(vals)}")
        elif q < 0.25:
            d = fresh(); ops.append(f"VAR h{d} {rng.randrange(nv)}"); conds.append(d)
        elif q < 0.35:
            ops.append(f"VT h{fresh()} {nv} " + " ".join(rng.choice(vals[:6]) for _ in range(1 << nv)))
        elif q < 0.75:
            a, b = pick(), pick()
            ops.append(f"{rng.choice(ddgen.MT_OPS)} h{fresh()} h{a} h{b}")
        elif q < 0.87:
            c, a, b = rng.choice(conds), pick(), pick()
            ops.append(f"ITE h{fresh()} h{c} h{a} h{b}")
        else:
            pos = rng.randrange(1 << nv)
            neg = rng.randrange(1 << nv) & ~pos
            a = pick()
            ops.append(f"RESTRICT h{fresh()} h{a} {pos} {neg}")
    return ops


def script_tdd(rng, nv, length):
    """TDD (package TDDx): variables, constants, not, the 8 three-valued connectives, ite, cofactors"""
    ops = [f"VARS {nv}"]
    live = []

    def fresh():
        d = len(live)
        live.append(d)
        return d

    def pick():
        return rng.choice(live)

    for v in rng.sample(range(nv), min(nv, 3)):
        ops.append(f"T3VAR h{fresh()} {v}")
    ops.append(f"T3CONST h{fresh()} {rng.choice('fut')}")
    for _ in range(length):
        q = rng.random()
        if q < 0.6:
            a, b = pick(), pick()
            ops.append(f"{rng.choice(ddgen.T3_BIN_OPS)} h{fresh()} h{a} h{b}")
        elif q < 0.8:
            a, b, c = pick(), pick(), pick()
            ops.append(f"T3ITE h{fresh()} h{a} h{b} h{c}")
        elif q < 0.9:
            a = pick()
            ops.append(f"T3NOT h{fresh()} h{a}")
        elif q < 0.95:
            a = pick()
            ops.append(f"T3COF h{fresh()} h{fresh()} h{fresh()} h{a}")
        else:
            a = pick()
            ops.append(f"CLONE h{fresh()} h{a}")
        if rng.random() < 0.06 and len(live) > 4:
            ops.append("GC")
    return ops


def gen_scripts(ctx):
    """(sid, kind, threads, nvars, ops)"""
    rng = random.Random(ctx.seed * 104729 + 14)
    thorough = ctx.tier == "thorough"
    res = []
    sid = 0
    reps = 12 if thorough else 4
    for _ in range(reps):
        for kind in ("bdd", "bcdd"):
            for flavour, length, nvs in (("apply", 6, (4, 5)), ("apply", 9, (4,)), ("quant", 4, (4,)), ("pick", 4, (4,)), ("tt", 2, (4,))):
                for nv in nvs:
                    for threads in (1, 2, 8) if flavour == "apply" and length == 6 else (1, rng.choice([2, 8])):
                        res.append((f"s{sid}", kind, threads, nv, script_bool(kind, rng, nv, length, flavour))); sid += 1
            # sparse-variable scripts (see script_sparse)
            for flavour in ("subst", "subst", "cube"):
                for threads in (1, rng.choice([2, 8])):
                    nv = rng.randrange(4, 7)
                    res.append((f"s{sid}", kind, threads, nv, script_sparse(rng, nv, flavour))); sid += 1
        # extra single-thread BDD scripts: these are the ones the bounded model predicts op by op
        for _ in range(6 if thorough else 3):
            res.append((f"s{sid}", "bdd", 1, 4, script_bool("bdd", rng, 4, rng.randrange(5, 9), "apply"))); sid += 1
        for threads in (1, 2, 8):
            for length in (5, 8):
                res.append((f"s{sid}", "zbdd", threads, 4, script_zbdd(rng, 4, length))); sid += 1
        res.append((f"s{sid}", "zbdd", 1, 4, script_zbdd_ite(rng, 4))); sid += 1
        # package C14o: two-phase operators (own generator state: the other scripts of a seed do not change)
        res.append((f"s{sid}", "zbdd", 1, 3, script_zbdd_twophase(random.Random(ctx.seed * 7919 + 1400 + len(res)), 3))); sid += 1
        for threads in (1, 2, 8):
            res.append((f"s{sid}", "mtbdd", threads, 3, script_mtbdd(rng, 3, 6))); sid += 1
        # TDD (package TDDx): the rule set is sequential; the worker count only sizes the manager's pool
        for threads, nv, length in ((1, 4, 5), (1, 3, 8), (8, 4, 6)):
            res.append((f"s{sid}", "tdd", threads, nv, script_tdd(rng, nv, length))); sid += 1
    return res


def measure(ctx, binp, scripts):
    """run every script on a large manager with a snapshot after every op; the need is the peak
    number of stored inner nodes (and of terminals)"""
    cases = [(ddgen.header(sid, kind, cap=BIG, cache=64, threads=threads, snap_each=True,
                           extra=f"tcap={1 << 10}" if kind == "mtbdd" else ""), ops)
             for sid, kind, threads, nv, ops in scripts]
    f = os.path.join(ctx.workdir, "measure.txt")
    out = os.path.join(ctx.workdir, "measure-impl.txt")
    vf.write_cases(f, cases)
    vf.run_impl(binp, f, out)
    need = {}
    for h, lines in vf.parse_cases(open(out).read()):
        sid = h.split()[0]
        inner = terms = 0
        bad = None
        for l in lines:
            if l.startswith(("PANIC", "CRASH", "HANG")) or " -> err oom" in l:
                bad = l[:200]
            m = re.search(r"\| C inner=(\d+) listed=\d+ terms=(\d+)", l)
            if m and l.startswith("SNAP"):
                inner = max(inner, int(m.group(1)))
                terms = max(terms, int(m.group(2)))
        if bad:
            raise vf.CheckFailure(f"measurement run of script {sid} on a large manager failed: {bad}")
        need[sid] = (inner, terms)
    os.remove(out)
    return need


def sweep_cases(scripts, need, max_span=None):
    cases = []
    for sid, kind, threads, nv, ops in scripts:
        n_inner, n_terms = need[sid]
        nops = len(ops)
        tail = ["DROPALL", "GC"]
        if kind in ("bdd", "bcdd") and nv >= 4:
            tail += ["FILL", "GC"]        # capacity probe: every slot is available again
        tdd_probe = (kind == "tdd")
        lo = nv if kind == "zbdd" else 0    # ZBDD add_vars aborts by documented design when the chain does not fit
        caps = list(range(lo, n_inner + 3))
        if max_span is not None and len(caps) > max_span + 8:
            # quick tier: every capacity of the first max_span and of the last five (need-2 .. need+2), every
            # third one in between (the offset depends on the script, hence on the seed)
            off = sum(map(ord, sid)) % 3
            caps = [c for i, c in enumerate(caps)
                    if i < max_span or c >= n_inner - 2 or (i - max_span) % 3 == off]
        for c in caps:
            # (tdd: the ternary probe T3FILL sized for this capacity: single nodes until out-of-memory)
            ctail = tail + ([ddgen.t3fill_op(c, nv), "GC"] if tdd_probe else [])
            full = ops + ctail + ops[1:] + ["DROPALL", "GC"]
            extra = f"need={n_inner}"
            if n_inner <= c < 100:
                # (from 100 slots on the manager runs its background collector, whose timing decides
                # whether a dead node is found again or re-created: the exact need is then not determined)
                extra += f" retry_at={nops + len(ctail)}"
            if kind == "mtbdd":
                extra += f" tcap={1 << 10}"
            if kind in ("bdd", "bcdd", "zbdd") and int(sid[1:]) % 3 == 1:
                # the script runs inside a session of another manager: this thread then has no thread-local
                # store state for the case's manager (shared allocation / release paths of the index manager)
                extra += " nested=1"
            cases.append((ddgen.header(f"{sid}c{c}", kind, cap=c, cache=64, threads=threads, snap_each=True, extra=extra), full))
        if kind == "mtbdd":
            for t in range(0, n_terms + 2):
                full = ops + tail + ops[1:] + ["DROPALL", "GC"]
                extra = f"need={n_terms} tcap={t}"
                if t >= n_terms:
                    extra += f" retry_at={nops + len(tail)}"
                cases.append((ddgen.header(f"{sid}t{t}", kind, cap=BIG, cache=64, threads=threads, snap_each=True, extra=extra), full))
    return cases


def run_second_driver(ctx, binp, drv2, cases, nshards=16):
    """the C14 driver: retry phase, panics, model prediction"""
    ok, bad, _ = vf.lockstep_sharded(ctx, binp, drv2, cases, nshards=nshards, tag="-m")
    return ok, bad


def truncate_for_replay(header, ops, msg):
    """cut the op list after the failing op (the trace has one SNAP line per op); drop retry_at when the
    failure lies before the retry phase"""
    m = re.search(r"step=(\d+)", msg)
    if not m:
        return header, ops
    k = int(m.group(1)) // 2 + 1
    ra = re.search(r"retry_at=(\d+)", header)
    if ra and k <= int(ra.group(1)):
        header = header.replace(" " + ra.group(0), "")
    return header, ops[:max(k, 1)]


def run(ctx):
    vf.proof_gate(ctx, ALLOWED_AXIOMS)
    binp, drv, drv2 = build(ctx)
    scripts = gen_scripts(ctx)
    need = measure(ctx, binp, scripts)
    cases = sweep_cases(scripts, need, max_span=None if (ctx.tier == "thorough" or os.environ.get("C14_FULL_SWEEP")) else 32)
    ns = sorted(n for n, _ in need.values())
    vf.log(f"C14: {len(scripts)} scripts, node needs min {ns[0]} / median {ns[len(ns) // 2]} / max {ns[-1]}, {len(cases)} sweep cases")
    # pass 1: the generic DD driver (spec comparison of every successful op, audits on every snapshot)
    orig = ddcommon.build_dd
    ddcommon.build_dd = lambda c: (binp, drv)
    try:
        ok1, bad1 = ddcommon.run_dd(ctx, PROPS, cases, rule="", allowed_axioms=ALLOWED_AXIOMS, proofs=False, write_ev=False,
                                    sig_extra="sweep")
    finally:
        ddcommon.build_dd = orig
    stats1 = dict(ctx.stats)
    # pass 2: the C14 driver (corpus first)
    corpus = []
    cdir = os.path.join(vf.ROOT, "corpus", ctx.pid)
    if os.path.isdir(cdir):
        for fn in sorted(os.listdir(cdir)):
            if fn.endswith(".case"):
                corpus += [("corpus-" + h, ops) for h, ops in vf.parse_cases(open(os.path.join(cdir, fn)).read())]
    ok2, bad2 = run_second_driver(ctx, binp, drv2, corpus + cases)
    by_id = {h.split()[0]: (h, ops) for h, ops in corpus + cases}
    seen = set()
    for cid, msg in bad2:
        cls = ddcommon.msg_class(msg)
        if cls in seen or len(seen) >= 2:
            continue
        seen.add(cls)
        header, ops = by_id[cid]
        kind = "prop" if "kind=prop" in msg else "corr"
        h2, small = truncate_for_replay(header, ops, msg)
        hk = " ".join(t for t in header.split()[1:] if t.split("=")[0] in ("kind", "threads", "cap", "tcap"))
        body = ";".join(small) if len(small) <= 30 else f"case-{cid}"
        vf.report_violation(
            ctx, f"{kind}:{cls[0]}:{cls[1]}:{hk}:model:{body}",
            {"stage": "correspondence", "kind": kind, "case_header": h2, "ops": small, "verdict": msg, "driver": "c14",
             "replay_cmd": f"./check {ctx.pid} --replay <this file>",
             "theorem_or_relation": "C14: coq/Props/C14.v; ocaml/c14_main.ml (no panic, retry phase without out-of-memory, prediction by the extracted bounded model)"},
            nfif=(kind != "prop"))
    # package ALLOC: the slot allocator stage (hooks build, event replay on the extracted model coq/Mgr/Alloc.v)
    alloc_cov = alloccommon.run_stage(ctx)
    nt = lambda k: int(ctx.stats.get(k, 0))
    ctx.stats["distinct_nontrivial"] = len({(h.split(" ", 1)[1], tuple(ops)) for h, ops in cases if len(ops) >= 3})
    ctx.stats["cases"] = len(cases)
    vf.write_evidence(
        ctx, "proof",
        rule="scripts per kind (bdd, bcdd: apply/not/ite, sparse-variable scripts (only some variables have a node: substitution with gaps, variable-set / literal cubes over variables without a node), quantification + apply-and-quantify + restrict + substitution, pick_cube_dd / pick_cube_dd_set, truth-table construction; zbdd: set operations, make_node, Boolean operators, ite, pick; mtbdd: constants, value tables, arithmetic, ite, restrict) with 1, 2 and 8 threads; each script measured on a large manager (peak stored inner nodes / terminals = need) and then run at every inner-node capacity 0..need+2 (zbdd: from the number of variables; mtbdd additionally every terminal capacity 0..need+1), each run = script; DROPALL; GC; [capacity probe; GC;] script again; DROPALL; GC with a snapshot after every op. non-trivial = case with >= 3 ops",
        checker_cmd=f"make -C coq Props/{ctx.pid}.vo (coqc 8.16.1) + Print Assumptions audit; ./check {ctx.pid}",
        extra_cov={"scripts": len(scripts), "sweep_cases": len(cases), "cases_ok_generic_driver": ok1, "cases_bad_generic_driver": len(bad1),
                   "cases_ok_c14_driver": ok2, "cases_bad_c14_driver": len(bad2),
                   "ops_failed_with_oom": nt("oom"), "model_predictions": nt("predictions"),
                   "model_predicted_oom": nt("model_oom"), "model_predicted_oom_with_garbage_left": nt("model_oom_with_garbage"),
                   "model_predicted_ok": nt("model_ok"),
                   "model_predictions_bcdd": nt("predictions_bcdd"), "model_predictions_zbdd": nt("predictions_zbdd"),
                   "model_predictions_mtbdd": nt("predictions_mtbdd"),
                   "model_predicted_oom_bcdd": nt("model_oom_bcdd"), "model_predicted_oom_zbdd": nt("model_oom_zbdd"),
                   "model_predicted_oom_mtbdd": nt("model_oom_mtbdd"), "model_predicted_oom_terminal_store": nt("model_oom_terminal_store"),
                   "model_predicted_oom_with_garbage_bcdd": nt("model_oom_with_garbage_bcdd"),
                   "model_predicted_oom_with_garbage_zbdd": nt("model_oom_with_garbage_zbdd"),
                   "model_predicted_oom_with_garbage_mtbdd": nt("model_oom_with_garbage_mtbdd"),
                   "ownership_model_predictions_after_failed_op": nt("own_predictions"), "ownership_model_predictions_after_result": nt("own_predictions_ok"),
                   "ownership_hypothesis_checks": nt("chk_own_inv"),
                   # package C14o: ownership replay of the zbdd / bcdd rule sets (after failing ops)
                   "ownership_model_predictions_after_failed_op_zbdd": nt("own_predictions_zbdd"),
                   "ownership_model_predictions_after_failed_op_bcdd": nt("own_predictions_bcdd"),
                   "ownership_model_predictions_with_garbage_zbdd": nt("own_predictions_garbage_zbdd"),
                   "ownership_model_predictions_with_garbage_bcdd": nt("own_predictions_garbage_bcdd"),
                   "ownership_hypothesis_checks_zbdd": nt("chk_own_inv_zbdd"), "ownership_hypothesis_checks_bcdd": nt("chk_own_inv_bcdd"),
                   # package C14z: quantification / restrict / substitute (bdd, bcdd), subset / change / restrict / var (zbdd), tdd
                   "model_predictions_quant_bdd": nt("predictions_z_bdd"), "model_predictions_quant_bcdd": nt("predictions_z_bcdd"),
                   "model_predictions_subset_restrict_zbdd": nt("predictions_z_zbdd"), "model_predictions_tdd": nt("predictions_z_tdd"),
                   "model_predicted_oom_quant_bdd": nt("model_oom_z_bdd"), "model_predicted_oom_quant_bcdd": nt("model_oom_z_bcdd"),
                   "model_predicted_oom_subset_restrict_zbdd": nt("model_oom_z_zbdd"), "model_predicted_oom_tdd": nt("model_oom_z_tdd"),
                   "model_predicted_oom_with_garbage_quant_bdd": nt("model_oom_with_garbage_z_bdd"),
                   "model_predicted_oom_with_garbage_quant_bcdd": nt("model_oom_with_garbage_z_bcdd"),
                   "model_predicted_oom_with_garbage_subset_restrict_zbdd": nt("model_oom_with_garbage_z_zbdd"),
                   "model_predicted_oom_with_garbage_tdd": nt("model_oom_with_garbage_z_tdd"),
                   "call_hypothesis_checks_bcdd": nt("chk_cqcall_ok"), "call_hypothesis_checks_zbdd": nt("chk_zvcall_ok"),
                   "call_hypothesis_checks_pick": nt("chk_pcall_ok"), "model_predictions_pick_cube_dd": nt("predictions_pick"),
                   "tier": ctx.tier, "props_reported": PROPS, "alloc_stage": alloc_cov, "alloc_stage_rule": alloccommon.RULE},
        assumptions=[
            "snapshots are taken through the public Manager/LevelView/InnerNode API under the exclusive manager lock; a bug in those accessors is in the trusted base",
            "value tables of handles are computed by the extracted interpreters of coq/DD/Table.v on the lifted snapshot, expected results by the extracted spec layer coq/DD/Sem.v (generic driver) and by the extracted bounded models coq/Mgr/Oom.v, OomBcdd.v, OomZbdd.v, OomMtbdd.v (C14 driver)",
            "mtbdd: the snapshot lists every stored terminal (dead ones included, they keep their slot until a collection); its length is compared with term_count of the model",
            "multi-threaded runs: which allocation fails depends on the interleaving; every outcome is checked, the set of interleavings is whatever the scheduler produces",
        ])


def replay(ctx, path):
    import json
    binp, drv, drv2 = build(ctx)
    r = json.load(open(path))
    if r.get("driver") == "alloc":
        return alloccommon.replay(ctx, r)
    f = os.path.join(ctx.workdir, "replay.txt")
    vf.write_cases(f, [(r["case_header"], r["ops"])])
    if r.get("driver") == "c14":
        ok, bad = vf.lockstep(ctx, binp, drv2, f, tag="-replay")
    else:
        ok, bad = vf.lockstep(ctx, binp, drv, f, tag="-replay", drv_args=r.get("drv_args", []))
    for cid, msg in bad:
        print(f"replay: case {cid}: {msg}")
        vf.report_violation(ctx, "replay:" + ";".join(r["ops"][:30]), r, nfif=False)
    if not bad:
        print("replay: no divergence")
