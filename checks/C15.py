"""C15 — DDDMP export/import round trip and rejection of malformed input."""
import json
import os
import re
import vf

META = {
    "title": "DDDMP round trip (binary/ASCII, 2.0/3.0, names) and rejection of malformed files",
    "technique": "Rocq proof over a hand-written Gallina model of the WHOLE DDDMP file: header loader (DumpHeader::load: keywords, number and name lists, from_utf8_lossy, all cross-field checks), header printer (export_common), node sections (7-bit integers, escaping, node codes, binary and ASCII node lines with a hash-consing importer), trailer and roots, name sanitising; model tied to /repo by differential runs: the extracted whole-file importer model reads every file the real exporter writes and every mutated file, real loader/importer Err <-> model Err, both Ok => equal header fields and equal functions; the extracted exporter models reproduce header and node section of every exported file byte for byte; ternary diagrams (TDD, package C15t): model of the export lines for three children / three terminals, of the generic ASCII reader at ARITY = 3 and of the decoder of the written format, the extracted decoder reads every TDD file the real exporter writes (no TDD importer exists in /repo); ExportSettings builder/getters and binary_supported modelled and compared on every export",
    "category": "proof",
    "design_ref": "DESIGN.md section 5, C15",
    "level_text": "Theorems in coq/Props/C15.v (checked by coqc on every run, Print Assumptions audited). Node sections: decode_7bit(encode_7bit n) = n for every usize, unescape(escape bs) = bs, node code byte round trip, the exporter's choice of Terminal/Relative1/RelativeID/AbsoluteID codes is decoded to the same ids; for every reduced, duplicate-free, bottom-up numbered diagram the importer model run on the exporter model's BINARY node section (BCDD) and ASCII node section (BDD, BCDD, ZBDD, MTBDD) rebuilds exactly the exported nodes without consuming further input. Names: written variable/root names are non-empty and free of spaces/control characters, clean names are written unchanged, strict mode reports exactly the unclean/empty ones. WHOLE FILE (package C15h): load_header is total, any fuel above the input length gives the same result; load_header(print_header x ++ rest) = Ok(header_of x, rest) for every well-formed exporter-side header (2.0/3.0, names or not, any order/support; in 2.0 the support names are recovered exactly); whole-file round trip import_whole(export_whole x dag) = Ok(header_of x, the exported nodes, the exported roots) in binary (BCDD) and ASCII (all four kinds) mode; SAFETY OF ACCEPTANCE on ARBITRARY bytes: an accepted header satisfies all relations between its fields (ids ascending < nvars, distinct levels < nvars, counts, root ids non-zero <= nnodes, support_var_order = support sorted by level), an accepted file yields a well-formed unique table (children before parents, levels strictly increasing along edges, levels from the support), one valid edge per node id, valid roots, and every root denotes a well-defined function (unique big-step value = the executable evaluation for every sufficient fuel); the manager operations of the importer preserve the meaning (the edge returned by reduce+insert for BDD/BCDD/MTBDD denotes 'if x_level then t else e', a flipped tag and BDD not_edge denote the negation); NO PANIC: the model returns a special internal error wherever the Rust code indexes a vector / unwraps an Option / the model's fuel ends, and this value is proved unreachable for the loader and the importer on every input. On every run the real exporter/importer (BDD, BCDD, ZBDD, MTBDD; TDD export + header only) are driven through all 256 three-variable functions and random diagrams up to 10 variables in {ascii,binary}x{2.0,3.0}x{named,unnamed vars}x{named,unnamed roots}x{strict,non-strict} with hostile names: exporter Ok => DumpHeader::load + import Ok, same manager => identical handles, fresh manager / embedding => equal truth tables, header accessors = the model's sanitised names / support / order / root names and = the model loader's header, strict errors <=> model, model importer isomorphic to the dump of the real diagram, exporter models byte-identical. Malformed stream: every truncation point, random byte mutations and structured header mutations (numbers, tokens, separators, line order, duplicate/missing/new lines, other .varinfo/.mode/.ver, invalid UTF-8) of valid files: DumpHeader::load Err <-> load_header Err, both Ok => all header fields equal; import Err <-> model Err, both Ok => the real handles have exactly the functions the model reads from the same bytes; panics (catch_unwind), process aborts and hangs (watchdog) are violations. TDD (package C15t, theorems C15_tdd_*): binary_supported is false for ternary nodes, so every settings value yields '.mode A'; ExportSettings getters return what the builder calls stored (any chain of calls); for every reduced duplicate-free bottom-up numbered ternary diagram the decoder run on the exporter model's node section / whole file (any header) rebuilds exactly the exported nodes and roots; the generic import_ascii instantiated with ARITY = 3 (what the code would run if import_bin's static assertion did not make import::<TDDFunction> a compile error) rejects every such file with a node at its first terminal line ('expected 3 children, got 2': the exporter writes '{id} {desc} 0 0'), and whatever it accepts the decoder accepts with the same result; on ARBITRARY bytes both readers never reach the internal-error value (out-of-bounds index), an accepted file is a well-formed ternary diagram (children first, levels increasing along all three edges, levels from the support, valid positive roots) whose roots have a unique three-valued meaning = tdd_eval_root, and TDDRules::reduce + unique table preserve the meaning. On every run: every TDD export (three-valued functions incl. the Unknown terminal) is decoded by the extracted model: decoded diagram isomorphic to the dump of the real diagram, equal two-valued and (nv <= 6) three-valued truth tables, node section re-printed byte for byte, header as for the other kinds; ExportSettings::binary_supported and the four getters (settings in use + a random chain of builder calls) equal the model; TDD files (as written, with the unknown child dropped, with renamed terminals, mutated) go through the real importers of BDD/BCDD/ZBDD/MTBDD with Err <-> model Err and equal functions on acceptance.",
    "level_note": "Trusted: Coq kernel, extraction (ExtrOcamlBasic), OCaml driver (trace parsing, comparison), Rust harness. The header is no longer scanned by the driver: the extracted load_header / import_whole_guarded (proved equivalent to import_whole) read the raw bytes. Modelled, not verified against a specification of their own: String::from_utf8_lossy (utf8_lossy mirrors core::str::lossy; compared on every name the real loader returns, incl. invalid UTF-8 from the mutation stream), the i64 terminal syntax, decimal printing (Gallina printer compared with the real output on every export). The exporter-side header (xheader: levels, support flags, level_to_var, sanitised names, root ids) is built by the driver from the trace; root ids are taken from the file because the exporter's node numbering depends on hash-map iteration order (they are checked against the dump through the isomorphism check). Not proved: uniqueness of the generated variable names (C15_var_names_unique_partial; the run checks that no exported file contains a duplicate name). The round-trip theorems are about reduced duplicate-free diagrams (what a manager holds); on other node lists the model importer hash-conses and reduces like the real one: covered by safety of acceptance (proof) and the malformed stream (run). Semantic correctness of acceptance w.r.t. a denotational reading of an arbitrary (non-exporter) file is not a theorem: 'both accept => same functions' is checked by the run. Totality of the REAL importer on arbitrary bytes is a search (mutation streams); the no-panic theorems are about the model, whose panic sites mirror the Rust indexing/unwrap sites. The loader's `lines` field (error messages only) is not modelled; vec![0; nvars] is modelled by a rank function (no allocation). ZBDD/MTBDD imports use a rejecting complement function; the six orders of the three-variable functions and random orders of the random diagrams are realised by oxidd_reorder::set_var_order on top of permuted variable numbering (VERIF_C15_REORDER=0 switches the reorder operations off). Files claiming more than 2^22 variables are not handed to DumpHeader::load (it allocates .nvars words by design). TDD has no importer in /repo (import::<TDDFunction> is a compile error, E0080: import_bin asserts ARITY == 2 statically; in addition import_ascii compares children.len() with ARITY before looking for a 0 child, so it could not read the exporter's terminal lines of a ternary diagram): the theorems about the reader with the code's arity check are proof-only (executed by the driver on every TDD file, no real counterpart); the decoder that stands in for the missing importer is a specification-level reader (the same function with the arity test moved into the inner-node branch), not Rust code; a rejecting complement function is assumed for TDD as for ZBDD/MTBDD. Consistent with the property text (TDD: export only), not reported as a defect.",
}

ALLOWED_AXIOMS = ()
MODEL_VOS = ["Base/Conv.vo", "IO/Dddmp.vo", "IO/DddmpFile.vo", "IO/DddmpTdd.vo", "DD/Table.vo", "DD/IsoCheck.vo"]


def build(ctx):
    drv = vf.ocaml_build(ctx, "ExC15.v", "c15_main.ml", model_vos=MODEL_VOS)
    bins = vf.cargo_build(["h_dddmp"])
    return bins["h_dddmp"], drv


def _sig(kind, msg):
    m = re.sub(r"step=\d+\s*", "", msg)
    m = re.sub(r"kind=\w+\s*", "", m)
    m = re.sub(r"\d+", "#", m)
    return f"{kind}:{m[:140]}"


def handle_bad(ctx, binp, drv, cases, bad):
    by_id = {h.split()[0]: (h, ops) for h, ops in cases}
    seen = set()
    for cid, msg in bad:
        kind = "prop" if "kind=prop" in msg else "corr"
        sig = _sig(kind, msg)
        if sig in seen:
            continue
        seen.add(sig)
        header, ops = by_id[cid]
        mal = "k=mal" in header
        protect = (lambda op: op[:2] in ("V ", "F ", "O ") or (mal and op.startswith("X ")))
        small, smsg = vf.shrink_case(ctx, binp, drv, header, ops, kind, protect=protect, budget=80)
        smsg = smsg or msg
        vf.report_violation(
            ctx, sig,
            {"stage": "correspondence", "kind": kind, "case_header": header, "ops": small, "verdict": smsg,
             "replay_cmd": "./check C15 --replay <this file>",
             "theorem_or_relation": "C15: exporter Ok => importer Ok with equal handles/functions/metadata; importer on malformed bytes = Err or the model's reading (coq/Props/C15.v)"},
            nfif=(kind != "prop"))


def _count_distinct(cases):
    """evaluation unit = one export (X) or one malformed import (M/L); distinct by the
    text of the op and of the ops that define its context; non-trivial: an export with at
    least one root, or any malformed import"""
    seen = set()
    total = 0
    for h, ops in cases:
        dd = re.search(r"dd=(\w+)", h).group(1)
        ctx_ops = []
        last_x = ""
        for o in ops:
            t = o.split(" ", 1)[0]
            if t in ("V", "F", "O"):
                ctx_ops.append(o)
            elif t == "X":
                total += 1
                last_x = o
                if "roots=-" not in o:
                    seen.add((dd, tuple(ctx_ops), o))
            elif t in ("M", "L"):
                total += 1
                seen.add((dd, tuple(ctx_ops), last_x, o))
    return total, len(seen)


def run(ctx):
    vf.proof_gate(ctx, ALLOWED_AXIOMS)
    binp, drv = build(ctx)
    cases_file = os.path.join(ctx.workdir, "cases.txt")
    corpus_dir = os.path.join(vf.ROOT, "corpus", "C15")
    corpus = []
    if os.path.isdir(corpus_dir):
        for fn in sorted(os.listdir(corpus_dir)):
            corpus += vf.parse_cases(open(os.path.join(corpus_dir, fn)).read())
    rc, out = vf.sh([binp, "gen", ctx.tier, str(ctx.seed)])
    if rc != 0:
        raise vf.CheckFailure("generator failed: " + out[-500:])
    gen_cases = vf.parse_cases(out)
    cases = [("corpus-" + h, ops) for h, ops in corpus] + gen_cases
    vf.write_cases(cases_file, cases)
    ok, bad = vf.lockstep(ctx, binp, drv, cases_file)
    if ctx.tier == "thorough":
        # second pass on a build with overflow checks and debug assertions (dev profile)
        dbg = vf.cargo_build(["h_dddmp"], profile="dev")["h_dddmp"]
        ok2, bad2 = vf.lockstep(ctx, dbg, drv, cases_file, tag="-dbg")
        ctx.stats["cases_ok_debug_build"] = ok2
        bad = bad + [(cid, "(debug build) " + msg) for cid, msg in bad2]
    evals, distinct = _count_distinct(cases)
    ctx.stats["distinct_nontrivial"] = distinct
    pick = [cases[0], cases[len(corpus)], cases[len(cases) // 2], cases[-1]]
    ctx.samples = [{"case": h, "ops": [o[:160] for o in ops[:12]]} for h, ops in pick]
    if bad:
        handle_bad(ctx, binp, drv, cases, bad)
    vf.write_evidence(
        ctx, "proof",
        rule="(header loader / whole-file importer model compared on every input) valid stream: per diagram kind (bdd, bcdd, zbdd, mtbdd, tdd) the 256 three-variable functions in 32 cases of 8 functions (six variable numberings), random diagrams with 1..10 variables and unused variables; every case is exported in {binary,ascii} x {2.0,3.0} x {named,unnamed roots} with random root subsets, strict/non-strict, five naming styles (none, clean, partially named, hostile names with spaces/control characters/underscore prefixes/duplicates after sanitising, hostile + partially named). malformed stream: per base file every truncation point and random replace/insert/delete mutations (uniform bytes, interesting bytes, bytes of the file, bit flips; half of them in the node section), structured header mutations (500 per base file: numbers, tokens, separators, line order, duplicate/missing/new lines, invalid UTF-8), imports into managers with 0..11 nodes, TDD files through the importers of the four binary kinds (as written / unknown child dropped / terminals renamed / both, 100 mutations per base file and kind), a TDD malformed stream (header loader + model readers), plus the corpus of crafted files. TDD functions are three-valued (values 0/1/u), every X op carries a random chain of ExportSettings builder calls for the getter probe. evaluation = one export (X op) or one malformed import (M/L op); distinct = distinct (kind, defining ops, op) texts; non-trivial = export with at least one root, or any malformed import",
        checker_cmd="make -C coq Props/C15.vo (coqc 8.16.1) + Print Assumptions audit; ./check C15",
        extra_cov={"evaluations": evals, "cases_ok": ok, "cases_bad": len(bad), "tier": ctx.tier,
                   "reorder_cases": os.environ.get("VERIF_C15_REORDER", "1") != "0"},
        assumptions=["node ids and variable indices below 2^64 (usize of the 64-bit build)",
                     "the harness passes BooleanFunction::not_edge_owned as complement for BDD/BCDD and a rejecting function for ZBDD/MTBDD",
                     "header numbers above 2^22 for .nvars are not handed to the loader (it allocates .nvars words by design)",
                     "TDD: /repo has no importer; the extracted decoder of coq/IO/DddmpTdd.v reads the exported files (three-valued tables for at most 6 variables)"])


def replay(ctx, path):
    binp, drv = build(ctx)
    r = json.load(open(path))
    f = os.path.join(ctx.workdir, "replay.txt")
    vf.write_cases(f, [(r["case_header"], r["ops"])])
    ok, bad = vf.lockstep(ctx, binp, drv, f, tag="-replay")
    for cid, msg in bad:
        print(f"replay: case {cid}: {msg}")
        vf.report_violation(ctx, "replay:" + r.get("signature", ""), r, nfif=False)
    if not bad:
        print("replay: no divergence")
