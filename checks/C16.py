"""C16 — variable and name bookkeeping of the managers (VarNameMap + wrappers)."""
import json
import os
import threading
import vf

META = {
    "title": "variables, levels and names stay consistent under add_vars / add_named_vars / add_named_vars_from_map / set_var_name; adding variables keeps the function of existing handles",
    "technique": "Rocq proof (invariant of a hand-written Gallina model of VarNameMap and the manager wrappers, preserved by every call incl. rejected ones, lifted to all call sequences; consequences in the property's words) + lock-step differential runs: extracted OCaml model vs. real BDD/BCDD/ZBDD/TDD/MTBDD managers built from the working tree, the property's predicate evaluated on the implementation's own answers after every call",
    "category": "proof",
    "design_ref": "DESIGN.md section 5, C16",
    "level_text": "Theorems in coq/Props/C16.v (checked by coqc on every run, Print Assumptions audited): the invariant (index = inverse of names on the non-empty names, one entry per key, levels = var<->level entries = name slots) holds initially and is preserved by add_vars, add_named_vars, set_var_name, add_named_vars_from_map (any argument map a caller can build, incl. get_or_add) for accepted and rejected calls, hence for all call sequences; from it: name_to_var/var_name mutually inverse on exactly the named variables, name_to_var(\"\") = None, num_named_vars = number of named variables, num_vars = num_levels = number of name slots; a rejected add keeps the prefix before the duplicate and reports the variable carrying the name, a rejected/out-of-range set_var_name changes nothing, a rename releases the old name; variables are never removed or renumbered and the value of a binary (BDD/BCDD/MTBDD) or ternary (TDD) diagram depends only on the variables it mentions. On every run the extracted model and real managers execute the same call sequences (exhaustive short ones over a 21-call alphabet with names from {\"\",a,b,c}, random long ones with unicode names interleaved with handle creation and gc); after every call the full observable (result, num_vars, num_levels, num_named_vars, var_name of every variable, name_to_var of every name of the case, var_to_level) is checked against the property's predicate and compared with the model, and handles are evaluated before/after every adding call with the new variables at both polarities.",
    "level_note": "Trusted: Coq kernel, extraction (ExtrOcamlBasic), OCaml driver, Rust harness; the model is hand-written. Outside the model: VarNo is u32 (the 'too many variables' panics), the storage sharing between names and index (Unowned<str>, a memory property: the model sees only its semantic shadow), the node store (that add_vars leaves nodes untouched is observed by the harness on handles, the theorem add_vars_sem is about diagram values over a variable supply that only grows). Reordering ops are generated only with VERIF_C16_REORDER=1 (reordering is being repaired separately). The pointer-based manager (textually identical wrappers) is exercised in the thorough tier only.",
}

ALLOWED_AXIOMS = ()
MODEL_VOS = ["Base/Conv.vo", "Mgr/Names.vo"]
THEOREM = "C16: manager trace == VarNameMap model, names_inv consequences (coq/Props/C16.v)"


def build_pointer(ctx):
    return vf.cargo_build(["h_names"], features=["cfg-pointer"], no_default=True, target_sub="cfg-pointer")["h_names"]


def build(ctx):
    build_pointer(ctx)
    drv = vf.ocaml_build(ctx, "ExC16.v", "c16_main.ml", model_vos=MODEL_VOS)
    bins = vf.cargo_build(["h_names"])
    return bins["h_names"], drv


_STATS_LOCK = threading.Lock()


class _Shim:
    """what vf.lockstep needs of a context: one per worker thread, own work
    directory, statistics forwarded to the real context under a lock"""

    def __init__(self, ctx, k):
        self.ctx = ctx
        self.workdir = os.path.join(ctx.workdir, f"w{k}")
        os.makedirs(self.workdir, exist_ok=True)

    def add_stat(self, k, v):
        with _STATS_LOCK:
            self.ctx.add_stat(k, v)


def run_shards(ctx, binp, drv, nshards, workers, tier, extra_first=(), tag=""):
    """generate shard k of nshards, run it lock-step; `workers` shards at a time.
    Returns (ok, [(header, ops, msg)], distinct-hash-set, samples)."""
    lock = threading.Lock()
    todo = list(range(nshards))
    res = {"ok": 0, "bad": [], "distinct": set(), "samples": [], "err": None}

    def work(w):
        shim = _Shim(ctx, f"{tag}{w}")
        while True:
            with lock:
                if not todo or res["err"]:
                    return
                k = todo.pop(0)
            try:
                rc, out = vf.sh([binp, "gen", tier, str(ctx.seed), str(k), str(nshards)])
                if rc != 0:
                    raise vf.CheckFailure("generator failed: " + out[-500:])
                cases = vf.parse_cases(out)
                if k == 0:
                    cases = list(extra_first) + cases
                f = os.path.join(shim.workdir, "cases.txt")
                vf.write_cases(f, cases)
                ok, bad = vf.lockstep(shim, binp, drv, f, timeout=3000)
                by_id = {h.split()[0]: (h, ops, i) for i, (h, ops) in enumerate(cases)}
                d = {hash((h.split()[1], tuple(ops))) for h, ops in cases if len(ops) >= 3}
                with lock:
                    res["ok"] += ok
                    res["distinct"] |= d
                    for cid, msg in bad:
                        h, ops, pos = by_id[cid]
                        res["bad"].append((h, ops, msg, (k, pos)))
                    if k == 0:
                        res["samples"] = [{"case": h, "ops": ops[:24]} for h, ops in
                                          (cases[:1] + cases[len(cases) // 2:len(cases) // 2 + 1] + cases[-1:])]
            except Exception as e:  # noqa: BLE001
                with lock:
                    res["err"] = e
                return

    ths = [threading.Thread(target=work, args=(w,)) for w in range(workers)]
    for t in ths:
        t.start()
    for t in ths:
        t.join()
    if res["err"]:
        raise res["err"]
    return res


def shard_cases(ctx, binp, tier, nshards, k, extra_first=()):
    rc, out = vf.sh([binp, "gen", tier, str(ctx.seed), str(k), str(nshards)])
    cases = vf.parse_cases(out)
    return (list(extra_first) + cases) if k == 0 else cases


def isolate_crash(ctx, binp, drv, cases, pos, window=400):
    """A crash (memory corruption) kills the process later than the call that
    caused it, and the output of the cases finished in between is lost with
    the process: the flagged case is merely the first one of that process.  Run
    the cases from there on one per process and return the first that is bad on
    its own."""
    f = os.path.join(ctx.workdir, "isolate.txt")
    for h, ops in cases[pos:pos + window]:
        vf.write_cases(f, [(h, ops)])
        try:
            ok, bad = vf.lockstep(ctx, binp, drv, f, tag="-isolate", timeout=120)
        except Exception:  # noqa: BLE001
            continue
        if bad:
            return h, ops, bad[0][1]
    return None


def handle_bad(ctx, binp, drv, bad, gen_args):
    """bad: [(header, ops, msg, (shard, pos))]; gen_args = (tier, nshards, extra_first).
    One report per kind; verdicts about what a call returned come before crashes."""
    tier, nshards, extra_first = gen_args
    semantic = [b for b in bad if "CRASH" not in b[2]]
    crashes = [b for b in bad if "CRASH" in b[2]]
    if not semantic and crashes:
        h, ops, msg, (k, pos) = crashes[0]
        found = isolate_crash(ctx, binp, drv, shard_cases(ctx, binp, tier, nshards, k, extra_first), pos)
        if found:
            semantic = [(found[0], found[1], found[2], (k, pos))]
    seen_kinds = set()
    for header, ops, msg, _ in semantic + crashes[:1]:
        kind = "prop" if "kind=prop" in msg else "corr"
        if kind in seen_kinds:
            continue
        seen_kinds.add(kind)
        small, smsg = vf.shrink_case(ctx, binp, drv, header, ops, kind)
        smsg = smsg or msg
        sig = f"{kind}:" + ";".join(small) if len(small) <= 40 else f"{kind}:case-{header.split()[0]}"
        vf.report_violation(
            ctx, sig,
            {"stage": "correspondence", "kind": kind, "case_header": header, "ops": small, "verdict": smsg,
             "replay_cmd": "./check C16 --replay <this file>",
             "theorem_or_relation": THEOREM},
            nfif=(kind != "prop"))


def run(ctx):
    vf.proof_gate(ctx, ALLOWED_AXIOMS)
    binp, drv = build(ctx)
    corpus_dir = os.path.join(vf.ROOT, "corpus", "C16")
    corpus = []
    if os.path.isdir(corpus_dir):
        for fn in sorted(os.listdir(corpus_dir)):
            corpus += vf.parse_cases(open(os.path.join(corpus_dir, fn)).read())
    corpus = [("corpus" + h, ops) for h, ops in corpus]
    thorough = ctx.tier == "thorough"
    nshards, workers = (32, 6) if thorough else (4, 4)

    res = run_shards(ctx, binp, drv, nshards, workers, ctx.tier, extra_first=corpus)
    bad = list(res["bad"])
    distinct = set(res["distinct"])
    ok = res["ok"]
    ctx.samples = res["samples"]
    if bad:
        handle_bad(ctx, binp, drv, bad, (ctx.tier, nshards, corpus))
    if True:
        # the pointer-based manager (crates/oxidd-manager-pointer has its own copy of the wrappers around
        # VarNameMap): the quick case set once more on that build, in both tiers
        pbin = build_pointer(ctx)
        res2 = run_shards(ctx, pbin, drv, 4, 4, "quick", tag="p")
        ok += res2["ok"]
        distinct |= {hash(("pointer", x)) for x in res2["distinct"]}
        ctx.add_stat("cases_pointer_manager", res2["ok"] + len(res2["bad"]))
        if res2["bad"]:
            handle_bad(ctx, pbin, drv, res2["bad"], ("quick", 4, ()))
            bad += res2["bad"]
    ctx.stats["distinct_nontrivial"] = len(distinct)
    reorder = os.environ.get("VERIF_C16_REORDER", "0") == "1"
    vf.write_evidence(
        ctx, "proof",
        rule=("exhaustive call sequences (quick: length 4 over the 21-call alphabet on BDD, length 3 over the same alphabet on BCDD/ZBDD/TDD/MTBDD; "
              "thorough: additionally length 6 over a 12-call alphabet on BDD and length 4 over it on the other kinds; both tiers: the quick case set a second time on the pointer-based manager build) with names from {\"\",a,b,c}, "
              "all ordered pairs of calls after a prelude that creates handles (all kinds), random sequences of 8..40 calls with unicode names, "
              "out-of-range variables, argument maps built by add_unnamed/add_named/set_var_name/get_or_add, handle creation and gc"
              + (", reordering" if reorder else "") +
              "; the observable is compared after every call, so each sequence covers its prefixes; a case is non-trivial when it has >= 3 calls; distinct = distinct (kind, call list)"),
        checker_cmd="make -C coq Props/C16.vo (coqc 8.16.1) + Print Assumptions audit; ./check C16",
        extra_cov={"cases_ok": ok, "cases_bad": len(bad), "tier": ctx.tier, "reorder_ops": reorder},
        assumptions=["fewer than 2^32 variables (beyond that the code panics with 'too many variables')",
                     "names are compared as byte strings (UTF-8), as Rust's String equality does",
                     "the node store is not part of the model: that adding variables leaves nodes untouched is observed on handles by the harness"])


def replay(ctx, path):
    binp, drv = build(ctx)
    r = json.load(open(path))
    f = os.path.join(ctx.workdir, "replay.txt")
    vf.write_cases(f, [(r["case_header"], r["ops"])])
    ok, bad = vf.lockstep(ctx, binp, drv, f, tag="-replay")
    for cid, msg in bad:
        print(f"replay: case {cid}: {msg}")
        vf.report_violation(ctx, "replay:" + ";".join(r["ops"]), r, nfif=False)
    if not bad:
        print("replay: no divergence")
