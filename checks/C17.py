"""C17 — the open-addressing table behaves as a set under every operation sequence."""
import json
import os
import vf

META = {
    "title": "linear-hashtbl RawTable refines a finite set",
    "technique": "Rocq proof (invariant + refinement to a finite set, any hash function) over a hand-written Gallina model of raw.rs; model tied to /repo by lock-step differential runs (extracted OCaml model vs. RawTable built from the working tree)",
    "category": "proof",
    "design_ref": "DESIGN.md section 5, C17",
    "level_text": "Theorems in coq/Props/C17.v (checked by coqc on every run, Print Assumptions audited): every operation of the RawTable model preserves the table invariant and commutes with the abstraction to a finite set, lookups terminate, for any hash function. The model mirrors raw.rs function by function; on every run the extracted model and the real RawTable<u64,u32/usize> execute the same exhaustive short and random long op sequences (adversarial hash functions) and all returned values / len / element sets are compared, with a watchdog turning a hang into a result.",
    "level_note": "Trusted: Coq kernel, extraction (ExtrOcamlBasic), OCaml driver, Rust harness; the model is hand-written (memory safety of the unsafe slot accesses, the allocator and capacities > 2^31 are outside the model).",
}

ALLOWED_AXIOMS = ()
MODEL_VOS = ["Base/Conv.vo", "Tbl/LinearHash.vo"]


def build(ctx):
    drv = vf.ocaml_build(ctx, "ExC17.v", "c17_main.ml", model_vos=MODEL_VOS)
    bins = vf.cargo_build(["h_tbl"])
    return bins["h_tbl"], drv


def handle_bad(ctx, binp, drv, cases, bad):
    by_id = {h.split()[0]: (h, ops) for h, ops in cases}
    reported = 0
    seen_kinds = set()
    for cid, msg in bad:
        k0 = "prop" if "kind=prop" in msg else "corr"
        if k0 in seen_kinds:
            continue
        seen_kinds.add(k0)
        header, ops = by_id[cid]
        kind = "prop" if "kind=prop" in msg else "corr"
        small, smsg = vf.shrink_case(ctx, binp, drv, header, ops, kind)
        smsg = smsg or msg
        # signature: the minimal op list itself (identifies the failing history)
        sig = f"{kind}:" + ";".join(small) if len(small) <= 40 else f"{kind}:case-{cid}"
        vf.report_violation(
            ctx, sig,
            {"stage": "correspondence", "kind": kind, "case_header": header, "ops": small, "verdict": smsg,
             "replay_cmd": f"./check C17 --replay <this file>",
             "theorem_or_relation": "C17 refinement: RawTable trace == finite-set spec (coq/Props/C17.v)"},
            nfif=(kind != "prop"))
        reported += 1
    return reported


def run(ctx):
    proofs_ok = vf.proof_gate(ctx, ALLOWED_AXIOMS)
    binp, drv = build(ctx)
    cases_file = os.path.join(ctx.workdir, "cases.txt")
    # corpus (minimised failures) first
    corpus_dir = os.path.join(vf.ROOT, "corpus", "C17")
    corpus = []
    if os.path.isdir(corpus_dir):
        for fn in sorted(os.listdir(corpus_dir)):
            corpus += vf.parse_cases(open(os.path.join(corpus_dir, fn)).read())
    rc, out = vf.sh([binp, "gen", ctx.tier, str(ctx.seed)])
    if rc != 0:
        raise vf.CheckFailure("generator failed: " + out[-500:])
    gen_cases = vf.parse_cases(out)
    # corpus ids are prefixed so that they stay unique
    cases = [("corpus" + h, ops) for h, ops in corpus] + gen_cases
    vf.write_cases(cases_file, cases)
    ok, bad = vf.lockstep(ctx, binp, drv, cases_file)
    ctx.samples = [{"case": h, "ops": ops[:24]} for h, ops in (cases[:1] + cases[len(cases) // 2:len(cases) // 2 + 1] + cases[-1:])]
    if bad:
        handle_bad(ctx, binp, drv, cases, bad)
    ctx.stats["distinct_nontrivial"] = len({tuple(ops) for _, ops in cases if len(ops) >= 3})
    vf.write_evidence(
        ctx, "proof",
        rule="exhaustive op sequences (length 4 quick / 5 thorough) over a 15-op alphabet on 4 keys with adversarial hash functions, tombstone/bulk-empty/refill scenarios, long random sequences (universe 6..300, all six hash functions, Status=u32 and usize); a case is non-trivial when it has >= 3 ops; distinct = distinct op lists",
        checker_cmd="make -C coq Props/C17.vo (coqc 8.16.1) + Print Assumptions audit; ./check C17",
        extra_cov={"cases_ok": ok, "cases_bad": len(bad), "tier": ctx.tier},
        assumptions=["table sizes stay below 2^sbits (beyond that the code panics in check_capacity)",
                     "elements are plain integers: Drop/Clone side effects of element types are not modelled"])


def replay(ctx, path):
    binp, drv = build(ctx)
    r = json.load(open(path))
    f = os.path.join(ctx.workdir, "replay.txt")
    vf.write_cases(f, [(r["case_header"], r["ops"])])
    ok, bad = vf.lockstep(ctx, binp, drv, f, tag="-replay")
    for cid, msg in bad:
        print(f"replay: case {cid}: {msg}")
        vf.report_violation(ctx, "replay:" + ";".join(r["ops"]), r, nfif=False)
    if not bad:
        print("replay: no divergence")
