"""C18 — Circuit::simplify preserves the function of every root, establishes the normal
form and reports cycles / unknown inputs; the parsers are total."""
import json
import os
import re
import concurrent.futures
import vf

META = {
    "title": "oxidd-parser: Circuit::simplify is equivalence-preserving, normalising and reports cycles/unknown inputs; the AIGER (ASCII/binary), DIMACS (cnf/sat/satx/sate/satex incl. variable orders, order and clause trees) and NNF readers are total and ASCII/binary AIGER files of one problem parse to the same problem",
    "technique": "Rocq proof over hand-written Gallina models + correspondence. (1) Circuit::simplify: model of the DFS simplifier (folding, de-duplication, structural hashing) + proved-correct executable checkers (normal form, truth-table equivalence, gate-map consistency, error condition), extracted and run on the output of the real simplify for exhaustive small and random larger circuits; model output compared with the implementation's. (2) AIGER reader: executable model of aiger::parse for BOTH formats over byte lists (coq/IO/AigerParse.v: header, inputs, latches with reset, outputs/bad/constraints/justice/fairness, AND gates as three literals or two 7-bit deltas with the 64-bit wrapping shift, variable map, undefined-literal and cycle check, symbol table, comment) with printers print_aag / print_aig; theorems: totality for all byte strings, round trips, ASCII/binary equivalence, well-formedness and topological order of every accepted binary file; tie: the extracted model runs on the same bytes as the real parser -- on aag/aig pairs that the MODEL's printers write from generated well-formed problems and on every truncation / byte substitution / insertion / deletion / stacked random edit of the AIGER seeds -- and the parsed problems are compared field by field (release and debug profile). (3) DIMACS CNF reader (options without variable order / clause tree): model coq/IO/DimacsParse.v, totality and round-trip theorem, same differential tie. (4) C18q, the remaining readers: executable models of util::tree / util::var_order_record and the variable-order preamble shared by nnf.rs and dimacs.rs (coq/IO/TreeParse.v: order tree, clause tree, records with names incl. the UTF-8 and uniqueness checks, the checks around the problem line, the cleanup of the names vector), of nnf::parse (coq/IO/NnfParse.v: problem line, A/B/X/O/L lines with nom's i64, node numbering, the map from node numbers to literals, cycle check) and of the complete dimacs::parse (coq/IO/DimacsSatParse.v: all five formats with the code's const SATE, cnf::parse with make_conj_tree, sat::lex / sat::formula with the Rpar error that ends an operand loop) with printers; theorems: totality for all byte strings and all options, what every accepted file satisfies (VarSet::check_valid, order = permutation of the variables / flattened tree, NNF literals in range, acyclic under check_acyclic), round trips parse(print p) = Ok p; tie: the extracted models run on the same bytes as nnf::parse / dimacs::parse under every option mask -- on files the MODEL's printers write from generated well-formed problems and on every truncation / substitution / insertion / deletion / stacked random edit of 38 seeds -- accept/reject decision and every field (number of variables, linear order, order tree, names, gates, root) compared, release and debug profile. The generic mutation search under catch_unwind (ops P/B) stays as an additional stream.",
    "category": "proof",
    "design_ref": "DESIGN.md section 5, C18",
    "level_text": "Theorems (coq/Props/C18.v, 57, all closed under the global context). Circuit::simplify (15): the run-time audits decide the property's predicates (C18_nf_b_spec, C18_equiv_b_spec for EVERY assignment, C18_defined_b_spec, C18_map_consistent_b_spec, C18_closed_b_spec, C18_should_err_b_spec); the model simplifier returns a circuit in normal form (C18_simp_nf) in which every literal over reachable gates denotes the same function through the gate map (C18_simp_equiv, C18_simp_map_consistent), Ok only without reachable cycle / unknown input (C18_simp_ok_no_err_condition), Err exactly in that case and justified (C18_simp_err_iff, C18_simp_err_justified), never Crash/Fuel on closed circuits (C18_simp_total); C18_dedup_sem. AIGER (14): C18_aiger_parse_total -- for ALL byte strings and both values of check_acyclic the model reader returns a problem or a diagnostic, the fuel of its loops (input length + 1) is never exhausted (C18_aiger_loop_fuel_irrelevant: more fuel never changes a loop's result); C18_aiger_varint_roundtrip / C18_aiger_bin_and_roundtrip -- the 7-bit delta codec for every size below 2^64 including the 64-bit wrapping shift of usize_7bit; C18_aiger_symbol_table_roundtrip; C18_aiger_aag_roundtrip / C18_aiger_aig_roundtrip -- for every well-formed problem p (decidable wf_b: variables numbered inputs, latches, AND gates in order with rhs1 <= rhs0 < lhs, literals in range, counts <= MAX_CAPACITY, default variable map, names without line breaks / leading / trailing blanks; any numbers of inputs, latches with reset 0/1/own literal, outputs, bad, constraints, justice lists, fairness, gates, names) parse(print_aag p) = Ok p and parse(print_aig p) = Ok p; C18_aiger_aag_aig_equiv -- the two files parse to the same problem; C18_aiger_aig_then_aag -- EVERY accepted binary file yields a problem whose ASCII print parses to the same problem again (hypothesis syms_ok on the shape of the symbol names, shown necessary by C18_aiger_syms_ok_needed); C18_aiger_bin_topo -- the gates of every accepted binary file are topologically ordered, pass the acyclicity test and have no cyclic dependency (transitive closure); C18_aiger_acyclic_b_sound -- the acyclicity test (the model's counterpart of Circuit::find_cycle) is sound for arbitrary gate lists; C18_aiger_accepted_acyclic -- every problem accepted with check_acyclic = true, ASCII or binary, has no gate depending on itself; C18_aiger_wf_example -- the hypotheses hold for a concrete non-trivial problem. DIMACS CNF (2): C18_dimacs_cnf_total (all byte strings), C18_dimacs_cnf_roundtrip (a printed CNF with empty / unit / XOR clauses is read back as exactly the circuit cnf::parse builds). Trees and preamble (10): C18_tree_total (util::tree never exhausts fuel 2*length+1, all byte strings, both flags), C18_tree_accept (an accepted tree has a leaf, the reported maximum is the maximal leaf, every number up to it occurs, with unique_leaves none twice), C18_tree_order_perm (the flattened order tree is a permutation of the variables mentioned = 0..max), C18_tree_roundtrip (every printable tree: numbers <= MAX_CAPACITY, no inner node with exactly one child -- the reader flattens [[42]] --, leaves cover 0..max), C18_tree_bitset_complete_spec, C18_tree_preamble_total (the loop over 'c vo' / 'c co' / 'c <var> [<name>]' lines never exhausts fuel > length), C18_tree_varset_valid (the variable set of EVERY accepted preamble satisfies the three assertions of VarSet::check_valid -- the debug assertion of the real code --, has no name beyond the number of variables, its linear order is empty or a permutation of all variables and equals the flattened tree if there is one), C18_tree_preamble_roundtrip (the lines written for any well-formed variable set -- order tree, linear order in any permutation, names: non-empty, trimmed, valid UTF-8, distinct -- are read back as that variable set), C18_tree_acyclic_g_sound / C18_tree_acyclic_g_topo (the n-ary counterpart of Circuit::find_cycle). NNF (7): C18_nnf_total (all byte strings, var_order and check_acyclic arbitrary), C18_nnf_accept (every accepted file: valid variable set, every gate has an input, every gate input is a constant / an input literal below the number of variables / a POSITIVE reference to an EXISTING gate, the root is the last node, and with check_acyclic no gate depends on itself in the transitive closure), C18_nnf_forward_reference_accepted (the code does not require references to point backwards -- nnf.rs says so in a comment -- hence 'acyclic' and not 'backwards' is the theorem), C18_nnf_roundtrip / C18_nnf_roundtrip_var_order (parse(print p) = Ok p for every well-formed p incl. forward references, root = constant / literal / last gate, any well-formed variable set), C18_nnf_wf_example. Complete DIMACS (10): C18_sat_total (all byte strings, all options, all five formats), C18_sat_accept_varset, C18_sat_accept_topo (EVERY accepted DIMACS file, CNF or SAT, with or without clause tree: gate k reads only input variables below the number of variables and gates with a smaller number, the root is in range -- the circuit is closed, topologically ordered, acyclic), C18_sat_roundtrip / C18_sat_roundtrip_var_order (SAT formulas as syntax trees: n-ary * + xor =, -v, -(f), (f), empty and unary operators; read back as exactly the circuit sat::formula builds, with and without preamble), C18_sat_sate_rejects_eq (the code's const SATE has eq = false: '=' in a 'p sate' file is a diagnostic; model = code), C18_sat_cnf_roundtrip / C18_sat_cnf_roundtrip_trees (CNF through the complete model, behind variable order and / or clause tree: the AND gates of make_conj_tree), C18_sat_cnf_example, C18_sat_example. Correspondence C18q (quick tier, both profiles): ~96 000 NNF and ~214 000 DIMACS inputs mutated from 38 seeds under all option masks + 18 000 files written by the model's printers (3 000 NNF problems, 3 000 SAT formulas, 3 000 CNFs with clause tree; order trees / permuted linear orders / names), accept/reject and every field equal, 0 differences. Correspondence C18p (quick tier): ~215 000 AIGER inputs (8 000 generated aag/aig files of 4 000 well-formed problems incl. two-/three-byte deltas and names, all accepted and pairwise equal; ~199 000 mutated inputs: accept/reject decision and every field of the accepted problem equal to the model's, in release and debug profile) and ~169 000 DIMACS inputs; circuits as before.",
    "level_note": "Trusted: Coq kernel, extraction, OCaml drivers (hex conversion, the textual dump format, UTF-8 validity test, generators), Rust harness (dump_aiger reads the fields without public accessor -- bad, invariants, justice, fairness, name vectors -- from the Debug text of AIGERDetails). The models are hand-written; what ties them to the code is the differential run, not a proof about nom. Model vs. code: the ASCII branch reads a section before it runs the 'second definition' checks (the code interleaves them; only accept/reject is observable); Circuit::find_cycle is modelled by iterated marking (acyclic_b, same predicate); names are byte strings in the model, the code converts them with String::from_utf8_lossy -- names that are not valid UTF-8 are not compared (counted: aig_names_not_utf8); header counts size allocations in the code and list lengths in the model, inputs with numbers of 6+ digits are skipped in the differential streams (allocation failure for absurd counts is the recorded known finding); the u32 shift counter of usize_7bit and stack depth are not modelled (three probes S run the real parsers on inputs of depth 100000 in a thread with the default stack size). PARTIAL: the 'no panic' half of the property rests on the differential run for all readers (the theorems are about the hand-written models: totality = the model returns a problem or a diagnostic); completeness of the acyclicity tests (acyclic => accepted) is proved for topologically ordered gate lists only, soundness for all; model vs. code in C18q: the NNF model reads all lines and then numbers the gates (the code pushes gates while reading; same result), the FixedBitSet of util::tree is a list (the short cut of its completeness test is proved equivalent), names are byte lists with a Gallina UTF-8 validity test (RFC 3629) instead of std::str::from_utf8, inputs with numbers of 6+ digits are skipped in the streams (allocation known finding), nesting depth of generated trees / formulas <= 4 (stack known finding). const SATE = {xor:false, eq:false} in dimacs.rs makes 'p sate' files reject '=' with a diagnostic: modelled as it is, not a panic, outside the property text, mentioned in notes/C18q.md. Defects found and fixed: TVBitVec (latch reset values; found by the field-by-field comparison with the model) -- /repo commit cc9131a, corpus/C18/f19-aiger-latch-reset-values.case; Circuit::find_cycle recursing once per gate of a chain (stack overflow on a valid 1.4 MB aag file; found while modelling it) -- /repo commit f0a4345, corpus/C18/f20-find-cycle-stack-depth.case. Recorded known finding: stack overflow for deeply nested order / clause trees and SAT formulas (probe op S, corpus/C18/stack-nesting-depth.case).",
}
ALLOWED_AXIOMS = ()
MODEL_VOS = ["Base/Conv.vo", "IO/Circuit.vo", "IO/Aiger.vo", "IO/AigerParse.vo", "IO/DimacsParse.vo",
             "IO/TreeParse.vo", "IO/NnfParse.vo", "IO/DimacsSatParse.vo"]


def build(ctx):
    drv = vf.ocaml_build(ctx, "ExC18.v", "c18_main.ml", extra_ml=("c18p.ml", "c18q.ml"), model_vos=MODEL_VOS)
    bins = vf.cargo_build(["h_circ"])
    # the parser stream also runs with debug assertions and overflow checks
    dbg = vf.cargo_build(["h_circ"], profile="debug")
    return bins["h_circ"], dbg["h_circ"], drv


def _mutations(op):
    """smaller variants of one `C n | gates | roots` line (gate numbers are kept)"""
    m = re.match(r"C (\d+) \|(.*)\|(.*)$", op)
    if not m:
        return
    n, gates, roots = int(m.group(1)), [g.split() for g in m.group(2).split(";")], m.group(3).split()
    gates = [g for g in gates if g]

    def fmt(n, gs, rs):
        return "C %d | %s | %s" % (n, " ; ".join(" ".join(g) for g in gs), " ".join(rs))
    # drop the last gate if nothing refers to it
    if len(gates) > 1:
        last = "g%d" % (len(gates) - 1)
        if not any(t[1:] == last for g in gates for t in g[1:]):
            yield fmt(n, gates[:-1], [r for r in roots if r[1:] != last] or ["+g0"])
    for i in range(len(roots)):
        if len(roots) > 1:
            yield fmt(n, gates, roots[:i] + roots[i + 1:])
    for gi, g in enumerate(gates):
        for li in range(1, len(g)):
            yield fmt(n, gates[:gi] + [g[:li] + g[li + 1:]] + gates[gi + 1:], roots)
    if n > 0:
        yield fmt(n - 1, gates, roots)


def shrink_circ(ctx, binp, drv, header, op, kind):
    def still_bad(cand):
        tmp = os.path.join(ctx.workdir, "shrink.txt")
        vf.write_cases(tmp, [(header, [cand])])
        try:
            ok, bad = vf.lockstep(ctx, binp, drv, tmp, tag="-shrink", timeout=60)
        except Exception:
            return None
        for _, msg in bad:
            if f"kind={kind}" in msg:
                return msg
        return None
    cur, msg = op, still_bad(op)
    if msg is None:
        return op, None
    runs = 0
    progress = True
    while progress and runs < 300:
        progress = False
        for cand in _mutations(cur):
            runs += 1
            m2 = still_bad(cand)
            if m2 is not None:
                cur, msg, progress = cand, m2, True
                break
    return cur, msg


def handle_bad(ctx, binp, drv, cases, bad, profile):
    by_id = {h.split()[0]: (h, ops) for h, ops in cases}
    # one report per (kind, case type); smallest failing case first
    groups = {}
    for cid, msg in bad:
        header, ops = by_id[cid]
        kind = "prop" if "kind=prop" in msg else "corr"
        typ = vf_param(header, "t")
        groups.setdefault((kind, typ), []).append((sum(len(o) for o in ops), cid, msg))
    for (kind, typ), lst in sorted(groups.items()):
        lst.sort()
        _, cid, msg = lst[0]
        header, ops = by_id[cid]
        if typ.startswith("circ") or typ == "dangling":
            small, smsg = shrink_circ(ctx, binp, drv, header, ops[0], kind)
            ops, msg = [small], (smsg or msg)
        elif typ == "fullmut":
            # C18q: replay only the offending input (the driver quotes format, options and bytes)
            m = re.search(r"fmt=(\S+) opts=(\d+) input=(\S+)", msg)
            if m:
                ops = [f"X {m.group(1)} {m.group(2)} {m.group(3)}"]
        elif typ in ("aigmut", "cnfmut"):
            # replay only the offending input (the driver quotes it)
            m = re.search(r"input=(\S+)", msg)
            if m:
                ops = [f"{'A' if typ == 'aigmut' else 'N'} {ops[0].split()[1]} {m.group(1)}"]
        elif typ == "aigwf":
            pass  # the aag / aig pair stays together
        elif typ == "batch":
            # replay only the offending input
            m = re.search(r"PANIC input=(\S+)", msg)
            if m:
                t = ops[0].split()
                ops = [f"P {t[1]} {t[2]} {t[3]} {m.group(1)}"]
        elif len(ops) > 1:
            m = re.search(r"step=(\d+)", msg)
            if m:
                ops = [ops[int(m.group(1))]]
        sig = f"{kind}:{typ}:" + (ops[0] if len(ops[0]) < 300 else f"case-{cid}")
        vf.report_violation(
            ctx, sig,
            {"stage": "correspondence", "kind": kind, "case_header": header, "ops": ops, "verdict": msg,
             "profile": profile, "failing_cases_of_this_class": len(lst),
             "replay_cmd": "./check C18 --replay <this file>",
             "theorem_or_relation": "C18 predicate decided by the extracted checkers ok_answer_b / err_answer_b (coq/IO/Circuit.v, specified in coq/IO/CircuitProofs.v); kind=corr: model simplifier vs. implementation"},
            nfif=(kind != "prop"))


def vf_param(header, key):
    for t in header.split():
        if t.startswith(key + "="):
            return t[len(key) + 1:]
    return ""


def run_shard(ctx, binp, dbg, drv, what, shard, nshards, extra_cases=()):
    tag = f"-{what}-{shard}"
    if what == "aigwf":
        # well-formed problems generated and printed (aag + aig) by the extracted model
        rc, out = vf.sh([drv, "genaig", ctx.tier, str(ctx.seed + shard)])
    elif what == "genq":
        # C18q: well-formed NNF / SAT / CNF-with-trees files written by the extracted printers
        rc, out = vf.sh([drv, "genq", ctx.tier, str(ctx.seed + shard)])
    else:
        rc, out = vf.sh([binp, "gen", ctx.tier, str(ctx.seed), str(shard), str(nshards), what])
    if rc != 0:
        raise vf.CheckFailure("generator failed: " + out[-500:])
    cases = list(extra_cases) + vf.parse_cases(out)
    del out
    # probes that may kill the process run one by one in a process of their own
    lonely = [c for c in cases if vf_param(c[0], "t") in ("oom", "stack")]
    cases = [c for c in cases if vf_param(c[0], "t") not in ("oom", "stack")]
    cases_file = os.path.join(ctx.workdir, f"cases{tag}.txt")
    vf.write_cases(cases_file, cases)
    env = {"VERIF_WORK": ctx.workdir}
    res = []
    profiles = [("release", binp)] + ([("debug", dbg)] if what in ("parse", "aiger", "aigwf", "treeq", "genq") else [])
    for prof, b in profiles:
        ok, bad = vf.lockstep(ctx, b, drv, cases_file, tag=tag + "-" + prof, env=env, timeout=3000)
        res.append((prof, ok, bad))
    for k, case in enumerate(lonely):
        f1 = os.path.join(ctx.workdir, f"cases{tag}-lonely{k}.txt")
        vf.write_cases(f1, [case])
        ok, bad = vf.lockstep(ctx, binp, drv, f1, tag=f"{tag}-lonely{k}", env=env, timeout=300)
        res.append(("release", ok, bad))
    return cases + lonely, res


def run(ctx):
    vf.proof_gate(ctx, ALLOWED_AXIOMS)
    binp, dbg, drv = build(ctx)
    corpus_dir = os.path.join(vf.ROOT, "corpus", "C18")
    corpus = []
    if os.path.isdir(corpus_dir):
        for fn in sorted(os.listdir(corpus_dir)):
            corpus += vf.parse_cases(open(os.path.join(corpus_dir, fn)).read())
    corpus = [("corpus-" + h, ops) for h, ops in corpus]
    nshards = 24 if ctx.tier == "thorough" else 1
    jobs = [("circ", s, nshards) for s in range(nshards)] + [("parse", s, max(1, nshards // 6)) for s in range(max(1, nshards // 6))]
    # C18p: the model of the AIGER reader against the real parser
    jobs += [("aiger", s, max(1, nshards // 6)) for s in range(max(1, nshards // 6))]
    jobs += [("aigwf", s, 1) for s in range(4 if ctx.tier == "thorough" else 1)]
    # C18q: the models of the NNF reader, the complete DIMACS reader and the order / clause trees
    jobs += [("treeq", s, max(1, nshards // 4)) for s in range(max(1, nshards // 4))]
    jobs += [("genq", s, 1) for s in range(4 if ctx.tier == "thorough" else 1)]
    total_ok = 0
    distinct = set()
    samples = []
    n_bad = 0
    with concurrent.futures.ThreadPoolExecutor(max_workers=8) as ex:
        futs = {ex.submit(run_shard, ctx, binp, dbg, drv, what, s, n, corpus if (what, s) == ("parse", 0) else ()): (what, s)
                for what, s, n in jobs}
        for f in concurrent.futures.as_completed(futs):
            what, s = futs[f]
            cases, res = f.result()
            for prof, ok, bad in res:
                total_ok += ok
                n_bad += len(bad)
                if bad:
                    handle_bad(ctx, binp if prof == "release" else dbg, drv, cases, bad, prof)
            for h, ops in cases:
                for o in ops:
                    if o.startswith("C "):
                        # non-trivial: some gate has at least two literals
                        if any(len(g.split()) >= 3 for g in o.split("|")[1].split(";")):
                            distinct.add(hash(o))
                    elif o[0] in "PQVADNMXY":
                        distinct.add(hash(o))
            if s == 0:
                k = len(cases)
                for h, ops in (cases[:1] + cases[k // 3:k // 3 + 1] + cases[2 * k // 3:2 * k // 3 + 1] + cases[-1:]):
                    samples.append({"case": h, "ops": [o[:400] for o in ops[:3]]})
            del cases
    ctx.samples = samples
    ctx.stats["distinct_nontrivial"] = len(distinct)
    st = ctx.stats
    vf.write_evidence(
        ctx, "proof",
        rule="AIGER: 4000 (thorough 4x60000) generated well-formed problems printed as aag and aig by the model's printers (small, medium with two-byte deltas, a few huge ones with three-byte deltas; resets 0/1/uninitialised; extended sections; names) + every truncation, single-byte substitution / insertion / deletion and 1200 (thorough 20000) stacked random edits of each of the 25 AIGER seeds, each distinct mutated input once per batch; DIMACS: 3000 generated CNFs + the same mutation families over the 21 DIMACS seeds. C18q: 3000 (thorough 4x40000) generated well-formed NNF problems (0..79 variables, 0..7 gates of all kinds, forward references, cyclic only without check_acyclic, root = gate / literal / constant), 3000 SAT formulas (depth <= 3, all formats), 3000 CNFs with a clause tree, each with a random variable set (none / permuted linear order / order tree with empty inner nodes, names with blanks inside and non-ASCII UTF-8), printed by the extracted printers, every option mask; + the unmodified seed under all 8 masks, every truncation, single-byte substitution / insertion / deletion and 600 (thorough 20000) stacked random edits of each of 38 seeds (6+4 NNF, 21+7 DIMACS), each distinct mutated input once per batch. circuits: exhaustive for 1 gate (<=3 inputs, <=3 literals over constants, both polarities of every input, the first unknown input, UNDEF, self references) and 2 gates (<=2 literals; quick: one residue class mod 5, thorough: all, 1 and 2 inputs), uniform samples of the 3-gate/<=3-literal/<=3-input space, mostly well-formed 3-gate circuits, random circuits with <=8 inputs and <=20 gates, dangling gate references; several root sets per shape. A circuit case is non-trivial when some gate has >= 2 literals; distinct = distinct case lines (hashed). Parser inputs: see parser_totality.",
        checker_cmd="make -C coq Props/C18.vo (coqc 8.16.1) + Print Assumptions audit; ./check C18",
        extra_cov={
            "cases_ok": total_ok, "cases_bad": n_bad, "tier": ctx.tier,
            "exhaustive": False,
            "circuit_answers": {k: st.get(k, 0) for k in ("circ_cases", "circ_ok", "circ_ok_with_gates", "circ_ok_shrunk", "circ_err", "circ_err_same_literal", "circ_dangling", "circ_dangling_panic")},
            "parser_totality": {
                "what": "SEARCH, not a theorem: truncations, single-byte substitutions/insertions/deletions and stacked random edits of the inputs embedded in the crate's unit tests (plus hand-written inputs for XOR clauses, variable orders, clause trees, extended AIGER sections), all option masks, through the nom entry points and through load_file (diagnostic rendering), release profile and debug profile (debug assertions + overflow checks); counts are summed over both profiles",
                "inputs": st.get("parse_inputs", 0), "parsed_ok": st.get("parse_ok", 0), "diagnostic": st.get("parse_diag", 0),
                "panics": st.get("parse_panics", 0) + st.get("panics", 0),
                "aag_aig_pairs": st.get("pair_cases", 0), "aag_aig_pairs_same": st.get("pair_same", 0),
                "varint_delta_codec_cases_vs_model": st.get("varint_cases", 0),
            },
            "aiger_model_vs_parser": {
                "what": "the extracted model of aiger::parse (coq/IO/AigerParse.v) on the same bytes as the real parser; counts summed over release and debug profile",
                "inputs": st.get("aig_inputs", 0), "both_accept_same_problem": st.get("aig_both_ok", 0),
                "both_diagnostic": st.get("aig_both_diag", 0), "panics": st.get("aig_panics", 0),
                "generated_wellformed_aag_aig_pairs": st.get("aig_wf_pairs", 0), "pairs_parsing_to_same_problem": st.get("aig_wf_pairs_same", 0),
                "mutated_inputs": st.get("aig_mutated_inputs", 0), "skipped_large_numbers": st.get("aig_mutated_skipped", 0),
                "names_not_utf8_not_compared": st.get("aig_names_not_utf8", 0),
            },
            "nnf_model_vs_parser": {
                "what": "the extracted model of nnf::parse (coq/IO/NnfParse.v + TreeParse.v) on the same bytes as the real parser, all option masks; counts summed over release and debug profile",
                "inputs": st.get("nnf_inputs", 0), "both_accept_same_problem": st.get("nnf_both_ok", 0),
                "both_diagnostic": st.get("nnf_both_diag", 0), "panics": st.get("nnf_panics", 0),
                "accepted_with_order_tree": st.get("nnf_ok_with_order_tree", 0), "accepted_with_names": st.get("nnf_ok_with_names", 0),
                "accepted_with_gates": st.get("nnf_ok_with_gates", 0),
                "generated_wellformed_files_reprinted_identically": st.get("nnf_wf_files", 0),
                "mutated_inputs": st.get("nnf_mutated_inputs", 0), "skipped_large_numbers": st.get("nnf_mutated_skipped", 0),
            },
            "dimacs_complete_model_vs_parser": {
                "what": "the extracted model of the complete dimacs::parse (coq/IO/DimacsSatParse.v + TreeParse.v: cnf/sat/satx/sate/satex, var_order, clause_tree) on the same bytes as the real parser, all option masks; counts summed over release and debug profile",
                "inputs": st.get("dim_inputs", 0), "both_accept_same_problem": st.get("dim_both_ok", 0),
                "both_diagnostic": st.get("dim_both_diag", 0), "panics": st.get("dim_panics", 0),
                "accepted_with_order_tree": st.get("dim_ok_with_order_tree", 0), "accepted_with_names": st.get("dim_ok_with_names", 0),
                "accepted_with_gates": st.get("dim_ok_with_gates", 0),
                "generated_sat_files": st.get("sat_wf_files", 0), "generated_cnf_files_with_clause_tree": st.get("cnf_tree_wf_files", 0),
                "mutated_inputs": st.get("dim_mutated_inputs", 0), "skipped_large_numbers": st.get("dim_mutated_skipped", 0),
            },
            "dimacs_cnf_model_vs_parser": {
                "what": "the extracted model of the CNF reader (coq/IO/DimacsParse.v), option masks without variable order / clause tree",
                "inputs": st.get("cnf_inputs", 0), "both_accept_same_problem": st.get("cnf_both_ok", 0),
                "both_diagnostic": st.get("cnf_both_diag", 0), "sat_format_not_modelled": st.get("cnf_sat_format", 0),
                "panics": st.get("cnf_panics", 0), "mutated_inputs": st.get("cnf_mutated_inputs", 0),
            },
        },
        assumptions=[
            "every gate literal of the circuit and of the roots refers to an existing gate (otherwise Circuit::simplify indexes out of bounds; recorded as circ_dangling, compared with the model's Crash only)",
            "root literals that are inputs are passed through unchanged and are not checked against inputs().len() (the error condition is about the gates reachable from the roots)",
            "allocation failure for absurdly large header counts / variable numbers (recorded known finding) is outside the streams: inputs with a run of 6+ digits are skipped; nesting depth of generated trees and formulas stays <= 4 (recorded known finding on stack depth)",
            "AIGER / DIMACS / NNF: the theorems are about the hand-written models; the models are tied to the code by the differential run (same bytes, same options, same accept/reject decision, same problem field by field)",
        ])


def replay(ctx, path):
    binp, dbg, drv = build(ctx)
    r = json.load(open(path))
    f = os.path.join(ctx.workdir, "replay.txt")
    vf.write_cases(f, [(r["case_header"], r["ops"])])
    b = dbg if r.get("profile") == "debug" else binp
    ok, bad = vf.lockstep(ctx, b, drv, f, tag="-replay", env={"VERIF_WORK": ctx.workdir})
    for cid, msg in bad:
        print(f"replay: case {cid}: {msg}")
        vf.report_violation(ctx, "replay:" + ";".join(r["ops"])[:300], r, nfif=False)
    if not bad:
        print("replay: no divergence")
