"""C19 — C API: handle ownership is balanced and results equal the Rust API's."""
import json
import os
import shutil
import vf

META = {
    "title": "C interface: ownership ledger, INVALID propagation, results equal the Rust API / spec layer",
    "technique": "Rocq proof over a hand-written Gallina model of crates/oxidd-ffi-c (every modelled oxidd_{bdd,bcdd,zbdd}_* entry point as a transition with the Rust-side reference effects of the wrapper code and the documented C-side ownership effect); correspondence: the static library built from the working tree is driven through its C symbols and mirrored call by call on the Rust API in a second manager, the extracted model replays the call list",
    "category": "proof",
    "design_ref": "DESIGN.md section 5, C19",
    "level_text": "Theorems (coq/Props/C19.v, checked by coqc on every run, Print Assumptions audited): for every sequence of documented-legal calls the bag of live Rust Function values / the manager's strong count equal what the client's ledger owns (ledger_balanced), the wrapper code never drops a dead value or touches a destroyed manager (no_ub), an INVALID operand yields INVALID and changes nothing, every constructor/operation returns exactly one owned reference and borrows its operands, ref/unref change the count of exactly that function by one, the table of a returned handle is the spec-layer (DD/Sem.v) result on the operands' tables (ffi_equiv), and when every handle is released nothing is referenced any more; with exact counts and a completed collection (C05) the unique tables are then empty. Tie to the code: liboxidd_ffi_c.a is rebuilt from /repo's working tree on every run; enumerated ownership probes (every function-valued entry point x every validity pattern of its operands x ref/unref/gc placements, all three kinds) random call sequences (every third one on a manager too small for the work, so that out-of-memory INVALID handles occur) and twin sequences on several managers driven by one thread run on the C symbols and on the Rust API; compared per call: validity, value tables through oxidd_*_eval on all assignments (vs. the Rust mirror and vs. the extracted model), raw-handle identity, scalar results, DDDMP files byte for byte, inner-node counts after every collection and after releasing everything (0, or the ZBDD manager's own tautology chain), and the lifetime of the manager's collector thread.",
    "level_note": "Trusted: Coq kernel, extraction, OCaml driver, Rust harness (hand-written extern declarations of the C symbols), rustc/linker. The ledger model is hand-written; memory safety of the raw-pointer conversions (into_raw/from_raw) is represented only by the reference bookkeeping. Not modelled / not driven: visualize* (network), print_stats, handles of different managers in one call, set_var_order with a proper subset of the variables, C-level undefined behaviour (double unref etc. lies outside the documented-legal sequences). Node counts are compared with the Rust mirror, not derived from the model. Variable names go through the encoding functions of the model only (the name map itself is C16). eval with fewer arguments than variables is excluded as undocumented (BDD/BCDD eval reads unassigned variables as true although the comment says false; C and Rust API agree on it).",
}

ALLOWED_AXIOMS = ()
MODEL_VOS = ["Base/Conv.vo", "DD/Sem.vo", "Ffi/Spec.vo", "Ffi/Ledger.vo"]


def _tag(s):
    return s + ("-alt-" + vf.TAG if vf.TAG else "")


def build_ffi_lib():
    """liboxidd_ffi_c.a from the repository's current working tree (incremental)."""
    tdir = os.path.join(vf.CACHE, _tag("target-ffi"))
    rc, out = vf.sh(["cargo", "build", "--offline", "-q", "--release", "-p", "oxidd-ffi-c"], cwd=vf.REPO,
                    env={"CARGO_TARGET_DIR": tdir}, timeout=3000)
    lib = os.path.join(tdir, "release", "liboxidd_ffi_c.a")
    if rc != 0 or not os.path.exists(lib):
        raise vf.CheckFailure("building liboxidd_ffi_c.a failed (oxidd-ffi-c does not compile):\n" + out[-4000:])
    return os.path.dirname(lib)


def build_harness(libdir):
    h = os.path.join(vf.ROOT, "harness_ffi")
    if vf.TAG:
        # private copy whose path dependencies point at VERIF_REPO
        h2 = os.path.join(vf.OUT, "harness_ffi")
        shutil.rmtree(h2, ignore_errors=True)
        shutil.copytree(h, h2, ignore=shutil.ignore_patterns("target", "Cargo.lock"))
        p = os.path.join(h2, "Cargo.toml")
        t = open(p).read().replace('"/repo/', '"' + vf.REPO.rstrip("/") + "/")
        open(p, "w").write(t)
        p = os.path.join(h2, "src", "bin", "h_ffi.rs")
        t = open(p).read().replace("../../../harness/src/lib.rs", os.path.join(vf.ROOT, "harness", "src", "lib.rs"))
        open(p, "w").write(t)
        h = h2
    lock = os.path.join(h, "Cargo.lock")
    if not os.path.exists(lock) or os.path.getmtime(lock) < os.path.getmtime(os.path.join(vf.REPO, "Cargo.lock")):
        shutil.copy(os.path.join(vf.REPO, "Cargo.lock"), lock)
    tdir = os.path.join(vf.CACHE, _tag("target-hffi"))
    rc, out = vf.sh(["cargo", "build", "--offline", "-q", "--release", "--bin", "h_ffi"], cwd=h,
                    env={"CARGO_TARGET_DIR": tdir, "OXIDD_FFI_LIB_DIR": libdir}, timeout=3000)
    if rc != 0:
        raise vf.CheckFailure("cargo build of harness_ffi failed (harness or /repo does not compile / link):\n" + out[-4000:])
    return os.path.join(tdir, "release", "h_ffi")


def build(ctx):
    drv = vf.ocaml_build(ctx, "ExC19.v", "c19_main.ml", model_vos=MODEL_VOS)
    binp = build_harness(build_ffi_lib())
    return binp, drv


def _env(ctx):
    tmp = os.path.join(ctx.workdir, "tmp")
    os.makedirs(tmp, exist_ok=True)
    return {"VERIF_FFI_TMP": tmp}


def msg_class(msg):
    import re
    m = re.search(r"prop=C19 ([^0-9:\[]*)", msg)
    return m.group(1).strip()[:60] if m else msg[:60]


def handle_bad(ctx, binp, drv, cases, bad, max_reports=2):
    by_id = {h.split()[0]: (h, ops) for h, ops in cases}
    seen = set()
    retries = {}
    # enumerated probes first: their op lists are short
    bad = sorted(bad, key=lambda b: (0 if b[0][:1] in "pc" else 1))
    for cid, msg in bad:
        kind = "prop" if "kind=prop" in msg else "corr"
        cls = (kind, msg_class(msg))
        if cls in seen or len(seen) >= max_reports or retries.get(cls, 0) >= 4:
            continue
        header, ops = by_id[cid]
        small, smsg = vf.shrink_case(
            ctx, binp, drv, header, ops, kind, env=_env(ctx), budget=60,
            protect=lambda o: ("MNEW" in o.split()[:2]) or ("FINAL" in o.split()[:2]),
            accept=lambda m2, c=cls: msg_class(m2) == c[1])
        if smsg is None and cls[1].startswith("manager lifetime"):
            # The only timing-dependent observable (thread start / exit under load): it has to
            # show again when the case runs alone, otherwise it is logged, not reported.
            vf.log(f"case {cid}: '{msg[:120]}' did not reproduce when the case was re-run alone; not reported")
            ctx.add_stat("unreproduced_thread_observations", 1)
            retries[cls] = retries.get(cls, 0) + 1
            continue
        seen.add(cls)
        smsg = smsg or msg
        hk = " ".join(t for t in header.split()[1:] if t.split("=")[0] in ("kind",))
        body = ";".join(small) if len(small) <= 30 else f"case-{cid}"
        vf.report_violation(
            ctx, f"{kind}:{cls[1]}:{hk}:{body}",
            {"stage": "correspondence", "kind": kind, "case_header": header, "ops": small, "verdict": smsg,
             "replay_cmd": "./check C19 --replay <this file>",
             "theorem_or_relation": "C19: C interface vs ledger model / Rust API mirror (coq/Props/C19.v; relation named in the verdict)"},
            nfif=(kind != "prop"))


def run(ctx):
    vf.proof_gate(ctx, ALLOWED_AXIOMS)
    binp, drv = build(ctx)
    corpus_dir = os.path.join(vf.ROOT, "corpus", "C19")
    corpus = []
    if os.path.isdir(corpus_dir):
        for fn in sorted(os.listdir(corpus_dir)):
            if fn.endswith(".case"):
                corpus += [("corpus-" + h, ops) for h, ops in vf.parse_cases(open(os.path.join(corpus_dir, fn)).read())]
    rc, out = vf.sh([binp, "gen", ctx.tier, str(ctx.seed)])
    if rc != 0:
        raise vf.CheckFailure("generator failed: " + out[-500:])
    cases = corpus + vf.parse_cases(out)
    ok, bad, _ = vf.lockstep_sharded(ctx, binp, drv, cases, nshards=8, env=_env(ctx), timeout=900)
    if bad:
        handle_bad(ctx, binp, drv, cases, bad)
    ctx.samples = [{"case": h, "ops": ops[:14] + (["..."] if len(ops) > 14 else [])}
                   for h, ops in (cases[:1] + cases[len(cases) // 2:len(cases) // 2 + 1] + cases[-1:])]
    ctx.stats["distinct_nontrivial"] = len({(h.split(" ", 1)[1], tuple(ops)) for h, ops in cases if len(ops) >= 6})
    shutil.rmtree(os.path.join(ctx.workdir, "tmp"), ignore_errors=True)
    vf.write_evidence(
        ctx, "proof",
        rule="per kind (bdd, bcdd, zbdd): enumerated ownership probes = every function-valued entry point (connectives, not, ite, cofactor(s), pick_cube_dd(_set), restrict, forall/exists/unique, apply_forall/exists/unique x 3 operators, substitute (object / NULL), ZBDD subset0/subset1/change/union/intsec/diff/make_node, ref, DDDMP export+import, DDDMP export (array / names / iterators), DOT dump) x every subset of its operands replaced by the INVALID handle x 3 placements of ref/unref/gc/manager-handle release (incl. a non-default variable order), constructor cases with named variables; random call sequences of 20..90 (thorough: ..160) calls, 60 (thorough: 1500) per kind, over 2..6 variables, every third one on a manager of 2..20 nodes (out-of-memory INVALID handles), every seventh with 2 worker threads; twin cases: 2-3 managers of the same kind on one thread with the same variable count and nearly identical, query-heavy call sequences (sat_count, sat_count_double, pick_cube, eval, level / name queries), sequential or interleaved, 36 (thorough: 300) per kind. non-trivial = case with >= 6 calls; distinct = distinct (header, call list)",
        checker_cmd="make -C coq Props/C19.vo (coqc 8.16.1) + Print Assumptions audit; ./check C19",
        extra_cov={"cases_ok": ok, "cases_bad": len(bad), "tier": ctx.tier},
        assumptions=["the C symbols are declared by hand in harness_ffi/src/inc/ffi_decl.rs from the Rust signatures (no generated header offline)",
                     "value tables of C handles are read through oxidd_*_eval on all assignments (<= 6 variables)",
                     "node counts after collections are compared with the Rust API mirror that holds the same functions"])


def replay(ctx, path):
    binp, drv = build(ctx)
    r = json.load(open(path))
    f = os.path.join(ctx.workdir, "replay.txt")
    vf.write_cases(f, [(r["case_header"], r["ops"])])
    ok, bad = vf.lockstep(ctx, binp, drv, f, tag="-replay", env=_env(ctx))
    for cid, msg in bad:
        print(f"replay: case {cid}: {msg}")
        vf.report_violation(ctx, "replay:" + ";".join(r["ops"][:30]), r, nfif=False)
    if not bad:
        print("replay: no divergence")
