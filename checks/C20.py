"""C20 — build configurations (node store, apply cache, threading, worker count) are observationally equivalent."""
import json
import os
import random
import re
import vf
import ddgen
from checks import ddcommon

META = {
    "title": "build configurations are observationally equivalent",
    "technique": "Rocq proofs over the Gallina apply model generalised by every configuration parameter (node-id allocator = node store backend, operand order, apply-cache implementation incl. none, fork/join schedule of the parallel recursor with stale cache views): any two configurations return handles with the same value table and the same node count for every operation and every operation list, the cached / cache-less runs even produce the identical table; observables and invariants (sem_edge, count_reach, wf_b, rc_exact_b) are invariant under injective renaming of node ids for all five kinds; the node count is a function of the denoted function across two tables. Correspondence: the harness is compiled once per cargo feature combination of the oxidd crate (index/pointer store x direct-mapped cache on/off x multi-threading on/off) and the same op scripts run on every build with 1, 2 and 8 workers; (1) every run is checked against the extracted spec and the per-script digests (value tables, node counts, sat counts, variable order) must coincide across builds and worker counts; (2) every run of a history over the model's API calls is compared, snapshot by snapshot, with the extracted run_ops under three model configurations",
    "category": "proof",
    "design_ref": "DESIGN.md section 5, C20",
    "level_text": "Theorems in coq/Props/C20.v over coq/DD/ConfigApply.v (apply_not/apply_bin/apply_ite of the BDD kind and run_ops over API-call lists, parameterised by allocator, operand order, cache implementation and fork/join schedule; the instance allocator=fresh_id, schedule=sequential is the model of C02/C06, C20_seq_instance): (a) cache on (direct-mapped) / off / any lossy cache: identical table and edge per operation and identical tables for whole operation lists; (b) any two allocators / operand orders / schedules / caches: same value tables, same node counts, well-formed tables, per operation and for whole operation lists (C20_run_ops_observe); observables and the C03/C05 checkers invariant under every injective renaming of node ids for all five kinds (rename_snap); node count determined by the value table across two BDD tables; (c) either evaluation order of the two recursive calls and stale cache views give the same value table and node count, the identical edge when it already exists, and re-running under any other configuration in any later table returns the identical edge. Tie to the code: h_dd is built for cfg-default, cfg-pointer, cfg-index-nocache-st, cfg-pointer-nocache-mt (thorough: all 8 feature combinations) from /repo's working tree. (1) the same cases (per kind bdd/bcdd/zbdd: all 256 three-variable functions built two ways, not/eval/node_count/cofactors of all, all 65536 ordered pairs for each of the 8 binary operators, sampled ite triples; random histories with gc/reorder/add_vars/quantification/substitution/sat_count; mtbdd histories on the index store; histories with 1, 2 and 8 workers) run on every build; each run is checked by the DD driver (extracted wf_b, rc_exact_b, sem_edge, count_reach, spec layer; tags C01 C02 C03 C05) and the digests of all result tables, node counts, sat counts and variable orders are compared across builds x worker counts. (2) random histories over var/not_var/constants/not/8 binary operators/ite/clone/drop/node_count (2..8 variables) run on every build x {1,2,8} workers with a snapshot after every call; ocaml/c20_main.ml replays them on the extracted mstep under three model configurations (index-like store + no cache + sequential; address-like store + 4-bucket direct-mapped cache + every join to depth 3 swapped with stale caches; odd-id store + unbounded cache + mixed orders) and compares the observation (slots, value tables, node counts, order) of the real manager with each model state at every snapshot, node_count results with the model's count_reach, and evaluates rename_snap on the real tables. C20x (theorems C20_bcdd_* / C20_zbdd_* / C20_hist_example, models coq/DD/ConfigBcdd.v and coq/DD/ConfigZbdd.v = the complement-edge apply_bin/apply_ite/8 operators/var and the ZBDD union/intsec/diff/symm_diff/not/ite/8 operators/var with the same four parameters; the sequential fresh_id instances are the C02b/C09/C02z models): the same statements (a) cache/operand-order exactness, (b) node count determined by the value table / family across two tables, (a)+(b)+(c) one operation under two arbitrary configurations, either join order, rerun, and whole operation lists (crun_ops / zrun_ops: observations agree under two arbitrary configurations; identical tables when only cache and operand order differ). For ZBDD nand/nor/equiv (two recursions) an existing result edge is returned but the table may keep nodes of the intermediate result. The model tie (2) replays bcdd and zbdd histories on the extracted cmstep / zmstep under three model configurations each and evaluates bcok_b / zbdd_ok_b + zchain_ok_b on every model table. TDD (package TDDx, theorems C20_tdd_*): two TDD managers in ANY two configurations (operand order of terminal_bin = address order of the node store, cache implementation incl. none, its contents) fed the same client calls (constants, variables, not, 8 connectives, ite, cofactors, clone / drop, gc, add_vars; Mgr/TddHist.v) are observationally equal (same occupied slots, same value of every slot under every three-valued assignment, same value tables, same == answers: C20_tdd_hist_config_independent, _hist_run, _hist_observe). Tie (1): tdd groups (random histories with 1, 2, 8 workers, identity cases, node-count cases under several orders) run on every build configuration and on a debug-profile build of the default configuration; digests of all result / cofactor tables, eval results, node counts and variable orders must coincide.",
    "level_note": "Trusted: Coq kernel, extraction, the two OCaml drivers, Rust harness, cargo feature resolution. The apply models and hence theorems (a), (c) and run_ops are for the BDD, BCDD and ZBDD (Boolean interface + union/intsec/diff) kinds (MTBDD/TDD apply rules, ZBDD subset/change/restrict and quantification/substitution are not restated with configuration parameters; for those configuration independence is carried by the renaming theorems, which hold for all kinds, plus correspondence run (1)). The schedule model is fork/join granular (either order of the two closures of WorkerPool::join, stale cache view for the one that runs second); instruction-level interleaving inside the concurrent unique table / cache is C07's subject. The allocator is a function of the table (no hidden free-list state). gc and reordering are not operations of run_ops (C05/C08); they are exercised on every configuration by correspondence run (1).",
}
# package ARCSLAB (the two node stores): coq/Tbl/RcStore.v, coq/Tbl/ArcSlabRefine.v, theorems C20_store_* / C20_arcslab_*
META["level_text"] += " Node stores (package ARCSLAB, C20_store_* / C20_arcslab_*, 11 theorems): the abstract node store (coq/Tbl/RcStore.v: a map id -> (payload, count) with fresh ids + the client's handle variables) keeps 'count = number of handles, never 0' under every step (store_step_inv) and its results do not depend on the ids: two stores with any id types and any choice of fresh ids return the same results for the same script from related states (store_id_independent, store_runs_id_independent); the model of the pointer-based manager's store (crate arcslab, coq/Tbl/ArcSlab.v) refines it in every reachable state: every item-level operation is one abstract step with the same result, every other operation leaves the abstract state unchanged (arcslab_abs_inv, arcslab_refines_store); a reference store with ids 0,1,2,... refines it as well (arcslab_reference_refines), so slab and reference store return the same results for every script, rejected operations included, for every page size (arcslab_equiv_reference, arcslab_page_size_irrelevant). Tie of the slab model to the crate: the arcslab stage of ./check C05 (checks/arcslabcommon.py)."
META["level_note"] += " Node stores (package ARCSLAB): the slot allocator of the index-based manager is modelled separately (package ALLOC, coq/Mgr/Alloc.v); its refinement of coq/Tbl/RcStore.v is not proved here (the reference store stands for 'a store with another id discipline')."
# package STOREREF (both node stores refine one abstract store): coq/Mgr/IndexStore*.v, theorems C20_index_* / C20_stores_equivalent*
META["level_text"] += " Both node stores refine ONE abstract store (package STOREREF, C20_index_* / C20_stores_equivalent / C20_stores_equivalent_new, 21 theorems): the index-based manager's node store is modelled as one state machine (coq/Mgr/IndexStore.v) = the slot allocator of package ALLOC (every thread's local store state, any interleaving) x (payload, stored reference count) of the slots that hold a node x the edge values that exist (a child edge is an edge value held by a node), with add_node (count 2, two edges, children moved in; OutOfMemory releases them), clone_edge, drop_edge (never frees a slot), the collector's / try_remove_node's removal (count 1: children released, free_slot) and every allocator-internal action. Every operation of every thread that stays inside drop_edge's documented assumption (not the last edge) keeps the invariant (ALLOC's invariant, allocator node <=> payload, stored count = number of edge values >= 1, child edges held by live nodes) and IS a fixed abstract script of coq/Tbl/RcStore.v with the same results (one step for clone / drop / read, two for add_node, 1 + #children for a removal; allocator-internal actions and kept entries are stutters): index_refines_store, index_run_refines (any interleaving); drop_edge leaks exactly when it gets a last edge (index_drop_last_leaks); OutOfMemory = the abstract store with a capacity: add_node fails only if the store holds capacity entries or free slots are parked with other threads, does fail when full, iff with nothing parked elsewhere (index_oom_cases, _full_oom, _add_capacity, _oom_single). A client with Arc semantics on the index store runs RcStore's script language: each accepted operation is one abstract step (index_arc_step_spec); for every script without OutOfMemory, from any edge-free state of the index store, any thread, the results equal those of the reference store with ids 0,1,2,... and of the slab for every page size, rejected operations included (index_equiv_reference, stores_equivalent); a new manager and a script with at most capacity additions never meets OutOfMemory (index_no_oom, stores_equivalent_new). Non-vacuity: capacity 6, chunk 2 (index_example)."
META["level_note"] += " Package STOREREF: coq/Mgr/IndexStore.v is proof-only glue (not extracted): its allocator component is ALLOC's step function (replayed against the code by the alloc stage of C05 / C14), the slab side is ARCSLAB's model (arcslab stage of C05), counts = handles + parents are audited on real snapshots by C05 / C07, and the two builds are compared by this check's digests; the Arc client (arc_step) is a model-level client, not code of /repo; steps in which drop_edge meets a last edge are outside the refinement (that the manager never takes one is C07_release_safe on coq/Mgr/Conc.v); IndexStore.v and Conc.v are not composed."
ALLOWED_AXIOMS = ()

CONFIGS_ALL = ["cfg-default", "cfg-pointer", "cfg-index-nocache-st", "cfg-pointer-nocache-mt",
               "cfg-index-nocache-mt", "cfg-index-cache-st", "cfg-pointer-nocache-st", "cfg-pointer-cache-st"]
CONFIGS_QUICK = CONFIGS_ALL[:4]
PROPS = ["C01", "C02", "C03", "C04", "C05", "C09", "C10", "C11", "C12"]
# TDDx: the tdd groups additionally run on a debug-profile build (debug assertions, overflow checks) of the default configuration
CFG_DEBUG = "cfg-default-debug"
DRV_ARGS = ["--props", ",".join(PROPS), "--digest-order"]


def has_mtbdd(cfg):
    return cfg == "cfg-default" or "index" in cfg


def configs(ctx):
    return CONFIGS_ALL if ctx.tier == "thorough" else CONFIGS_QUICK


def build_cfg(cfg):
    if cfg == CFG_DEBUG:
        return vf.cargo_build(["h_dd"], profile="debug")["h_dd"]
    if cfg == "cfg-default":
        # the default feature set of the harness: shared target directory of all DD checks
        return vf.cargo_build(["h_dd"])["h_dd"]
    return vf.cargo_build(["h_dd"], features=[cfg], no_default=True, target_sub=cfg)["h_dd"]


MODEL_VOS = ["Base/Conv.vo", "DD/Table.vo", "DD/TableExtra.vo", "DD/Sem.vo", "DD/Build.vo", "DD/Apply.vo",
             "DD/Cache.vo", "DD/ConfigApply.vo", "DD/Rename.vo", "Num/I64.vo",
             # C20x: the configuration-generic BCDD / ZBDD models
             "DD/ApplyBcdd.vo", "DD/FamSpec.vo", "DD/ZbddOps.vo", "DD/ZbddVars.vo", "DD/ZbddBool.vo",
             "DD/ConfigBcdd.vo", "DD/ConfigZbdd.vo"]


def build_model_driver(ctx):
    """driver of the configuration-generic apply model (coq/DD/ConfigApply.v, coq/DD/Rename.v)"""
    return vf.ocaml_build(ctx, "ExC20.v", "c20_main.ml", extra_ml=["dd_types.ml"], model_vos=MODEL_VOS)


def build(ctx):
    """setup.sh calls this with the quick tier: all quick configurations are pre-built"""
    _, drv = ddcommon.build_dd(ctx)
    drv20 = build_model_driver(ctx)
    bins = {}
    for cfg in configs(ctx) + [CFG_DEBUG]:
        bins[cfg] = build_cfg(cfg)
    return bins, drv, drv20


def model_history(cid, rng, nv, length, threads, slots=14, kind="bdd"):
    """history over the API calls the model's run_ops has (var, not_var, constants, not, the 8 binary
    operators, ite, clone, drop) + node_count; snapshot after every call"""
    ops = [f"VARS {nv}"]
    live = set()

    def pick():
        return rng.choice(sorted(live))

    for _ in range(length):
        r = rng.random()
        d = rng.randrange(slots)
        if len(live) < 3 or r < 0.14:
            ops.append(f"{rng.choice(['VAR', 'NVAR'])} h{d} {rng.randrange(nv)}")
            live.add(d)
        elif r < 0.17:
            ops.append(f"CONST h{d} {rng.randrange(2)}")
            live.add(d)
        elif r < 0.62:
            ops.append(f"{rng.choice(ddgen.BIN_OPS)} h{d} h{pick()} h{pick()}")
            live.add(d)
        elif r < 0.74:
            ops.append(f"ITE h{d} h{pick()} h{pick()} h{pick()}")
            live.add(d)
        elif r < 0.80:
            ops.append(f"NOT h{d} h{pick()}")
            live.add(d)
        elif r < 0.84:
            ops.append(f"CLONE h{d} h{pick()}")
            live.add(d)
        elif r < 0.90:
            a = pick()
            ops.append(f"DROP h{a}")
            live.discard(a)
        else:
            ops.append(f"NC h{pick()}")
    ops.append("SNAP")
    return (ddgen.header(cid, kind, cap=1 << 14, cache=rng.choice([1, 2, 16, 1 << 10]), threads=threads,
                         snap_each=True), ops)


def gen_model_cases(ctx):
    rng = random.Random(ctx.seed * 7919 + 2020)
    thorough = ctx.tier == "thorough"
    cases = []
    for i in range(400 if thorough else 60):
        nv = rng.choice([2, 3, 3, 4, 5, 6])
        h, ops = model_history(f"m{i}", rng, nv, rng.randrange(20, 60), 1)
        for t in (1, 2, 8):
            cases.append(with_threads((h, ops), t))
    for i in range(12 if thorough else 3):
        # wider functions: the parallel recursor really splits
        h, ops = model_history(f"w{i}", rng, 8, 45, 1, slots=10)
        for t in (1, 8):
            cases.append(with_threads((h, ops), t))
    # C20x: the same for the complement-edge and the zero-suppressed kind (cmstep / zmstep of
    # coq/DD/ConfigBcdd.v / ConfigZbdd.v; the zbdd model looks nodes up by scanning: smaller cases)
    for kind, nvs, wide in (("bcdd", [2, 3, 3, 4, 5, 6], 8), ("zbdd", [2, 3, 3, 4, 4, 5], 6)):
        for i in range(120 if thorough else 20):
            nv = rng.choice(nvs)
            h, ops = model_history(f"{kind[0]}m{i}", rng, nv, rng.randrange(20, 50), 1, kind=kind)
            for t in (1, 2, 8):
                cases.append(with_threads((h, ops), t))
        for i in range(6 if thorough else 1):
            h, ops = model_history(f"{kind[0]}w{i}", rng, wide, 40, 1, slots=10, kind=kind)
            for t in (1, 8):
                cases.append(with_threads((h, ops), t))
    return cases


def with_threads(case, threads, suffix=True):
    h, ops = case
    t = h.split()
    split = None
    if isinstance(threads, tuple):      # (workers, split depth of the parallel recursor)
        threads, split = threads
    t[0] = t[0] + ((f"@t{threads}" + (f"s{split}" if split is not None else "")) if suffix else "")
    t = [x if not x.startswith("threads=") else f"threads={threads}" for x in t]
    if split is not None:
        t.append(f"split={split}")
    return (" ".join(t), ops)


def gen_groups(ctx):
    """list of (group id, kind, [cases]): the cases of one group have the same op list (they differ in the
    worker count only) and must produce the same digest on every configuration"""
    rng = random.Random(ctx.seed * 7919 + 20)
    thorough = ctx.tier == "thorough"
    groups = []
    gid = 0

    def add(kind, case, threads=(1,)):
        nonlocal gid
        h, ops = case
        base = (f"g{gid}" + " " + h.split(" ", 1)[1], ops)
        groups.append((f"g{gid}", kind, [with_threads(base, t) for t in threads]))
        gid += 1

    for kind in ddgen.KINDS_BOOL:
        orders = rng.sample(ddgen.PERMS3, 3) if thorough else [rng.choice(ddgen.PERMS3)]
        for order in orders:
            add(kind, ddgen.case_unary_and_consts("x", kind, order))
            for op in ddgen.BIN_OPS:
                # all 65536 ordered pairs, in 8 scripts (balanced shards)
                h, ops = ddgen.case_pairs("x", kind, order, op)
                k = ops.index("SNAP") + 1
                body = ops[k:-1]
                for j in range(0, len(body), 8192):
                    add(kind, (h, ops[:k] + body[j:j + 8192] + ["SNAP"]))
            add(kind, ddgen.case_ite("x", kind, order, rng, 60000 if thorough else 7000))
        # the exhaustive suite of one operator under 2 and 8 workers as well
        op = rng.choice(ddgen.BIN_OPS)
        add(kind, ddgen.case_pairs("x", kind, rng.choice(ddgen.PERMS3), op,
                                   sample=None if thorough else 8000, rng=rng), threads=(1, 2, 8, (4, 0), (4, 12)))
        for _ in range(120 if thorough else (14 if kind == "zbdd" else 9)):
            # ZBDD: the set-family interface (subset0/1, change, union, ...) as well -- its single-threaded and
            # multi-threaded function types are separate wrappers
            from checks import C09
            gcr = lambda rng, nv, pick, fresh, live: "GCR"      # gc() from inside a reorder() closure
            sat = lambda rng, nv, pick, fresh, live: f"SAT h{pick()} {nv + rng.choice([0, 0, 1, 3])} {rng.choice(['u64', 'nat', 'u128'])}"
            extra = (C09.zb_extra,) * 6 + (gcr,) if kind == "zbdd" else (gcr, sat, sat)
            add(kind, ddgen.case_history("x", kind, rng, nv=rng.randrange(3, 8), length=60, extra_ops=extra), threads=(1, 2, 8, (4, 0), (4, 12)))
    # the three ways of declaring variables (add_vars, add_named_vars, add_named_vars_from_map -- the last one adopts
    # the caller's map when the manager has no variables yet) on every configuration (both node stores implement them)
    for kind in ddgen.KINDS_BOOL:
        for how in ("named", "map", "map"):
            for _ in range(4 if thorough else 1):
                h, ops = ddgen.case_history("x", kind, rng, nv=rng.randrange(3, 7), length=30)
                h = " ".join(t for t in h.split() if not t.startswith("addvars=")) + f" addvars={how}"
                add(kind, (h, ops))
    for _ in range(60 if thorough else 10):
        add("mtbdd", ddgen.mt_case_history("x", rng, length=60), threads=(1, 2, 8))
    add("mtbdd", ddgen.mt_case_pairs_1var("x", rng.choice(ddgen.MT_OPS)))
    # TDD (package TDDx): sequential rule set on both node stores, with and without apply cache, single- and
    # multi-threaded manager, 1 / 2 / 8 workers, release and debug profile
    for _ in range(80 if thorough else 14):
        add("tdd", ddgen.tdd_case_history("x", rng, length=60), threads=(1, 2, 8))
    for _ in range(30 if thorough else 5):
        add("tdd", ddgen.tdd_case_identities("x", rng, nv=rng.randrange(1, 5), nident=rng.choice([24, 40])), threads=(1, 8))
    for _ in range(20 if thorough else 4):
        add("tdd", ddgen.tdd_case_node_counts("x", rng, rng.randrange(2, 6), rng.choice([12, 24, 40]), 2))
    return groups


def cases_for(cfg, groups):
    res = []
    for g, kind, cases in groups:
        if kind == "mtbdd" and not has_mtbdd(cfg):
            continue
        if cfg == CFG_DEBUG and kind != "tdd":
            continue
        res += cases
    return res


def cfgs_of_kind(kind, cfgs):
    """the configurations a group of this kind runs on"""
    return [c for c in cfgs if not (kind == "mtbdd" and not has_mtbdd(c))] + ([CFG_DEBUG] if kind == "tdd" else [])


def run_model_tie(ctx, bins, drv20, cfgs):
    """every build configuration x worker count against the extracted run_ops under three model
    configurations (c20_main.ml)"""
    cases = gen_model_cases(ctx)
    by_id = {h.split()[0]: (h, ops) for h, ops in cases}
    seen = set()
    tot_ok = 0
    for cfg in cfgs:
        ok, bad, _ = vf.lockstep_sharded(ctx, bins[cfg], drv20, cases, tag="-m-" + cfg)
        tot_ok += ok
        vf.log(f"C20: model tie: {cfg}: {ok} cases ok, {len(bad)} bad")
        for cid, msg in bad:
            cls = ddcommon.msg_class(msg)
            if cls in seen or len(seen) >= 2:
                continue
            seen.add(cls)
            header, ops = by_id[cid]
            knd = "prop" if "kind=prop" in msg else "corr"
            small, smsg = vf.shrink_case(ctx, bins[cfg], drv20, header, ops, knd, budget=120,
                                         protect=lambda o: o.startswith("VARS"),
                                         accept=lambda m2, c=cls: ddcommon.msg_class(m2) == c)
            hk = " ".join(t for t in header.split()[1:] if t.split("=")[0] in ("kind", "threads"))
            body = ";".join(small) if len(small) <= 30 else f"case-{cid}"
            vf.report_violation(
                ctx, f"model:{knd}:{cfg}:{cls[1]}:{hk}:{body}",
                {"stage": "correspondence", "kind": knd, "config": cfg, "driver": "c20", "case_header": header,
                 "ops": small, "verdict": smsg or msg, "drv_args": [],
                 "what": "the run of this build configuration is not observationally equal to the extracted "
                         "configuration-generic model (three model configurations)",
                 "theorem_or_relation": "C20_run_ops_observe (coq/Props/C20.v); driver ocaml/c20_main.ml"},
                nfif=(knd != "prop"))
    ctx.stats["model_tie_cases"] = len(cases)
    ctx.stats["model_tie_runs_ok"] = tot_ok
    ctx.model_cases = cases


def run(ctx):
    vf.proof_gate(ctx, ALLOWED_AXIOMS)
    bins, drv, drv20 = build(ctx)
    groups = gen_groups(ctx)
    cfgs = configs(ctx)
    run_model_tie(ctx, bins, drv20, cfgs)
    dig = {}      # (cfg, case id) -> digest
    badmap = {}   # (cfg, case id) -> verdict text
    ok_total = 0
    for cfg in list(cfgs) + [CFG_DEBUG]:
        cases = cases_for(cfg, groups)
        ok, bad, digests = vf.lockstep_sharded(ctx, bins[cfg], drv, cases, drv_args=DRV_ARGS, tag="-" + cfg)
        ok_total += ok
        for cid, d in digests.items():
            dig[(cfg, cid)] = d
        for cid, msg in bad:
            badmap[(cfg, cid)] = msg
        vf.log(f"C20: {cfg}: {ok} cases ok, {len(bad)} bad")
    by_id = {h.split()[0]: (h, ops) for _, _, cases in groups for h, ops in cases}
    seen = set()
    ndiff = 0
    for g, kind, cases in groups:
        runs = [(cfg, h.split()[0]) for cfg in cfgs_of_kind(kind, cfgs) for h, _ in cases]
        bads = [r for r in runs if r in badmap]
        ds = {f"{cfg}:{cid}": dig.get((cfg, cid)) for cfg, cid in runs}
        if bads:
            # a concrete run violates the spec on one configuration: plain violation with that case
            cfg, cid = bads[0]
            msg = badmap[(cfg, cid)]
            cls = ddcommon.msg_class(msg)
            if cls in seen or len(seen) >= 2:
                continue
            seen.add(cls)
            header, ops = by_id[cid]
            knd = "prop" if "kind=prop" in msg else "corr"
            small, smsg = vf.shrink_case(ctx, bins[cfg], drv, header, ops, knd, drv_args=DRV_ARGS, budget=120,
                                         protect=lambda o: o.startswith("VARS"),
                                         accept=lambda m2, c=cls: ddcommon.msg_class(m2) == c)
            hk = " ".join(t for t in header.split()[1:] if t.split("=")[0] in ("kind", "threads"))
            body = ";".join(small) if len(small) <= 30 else f"case-{g}"
            good_under = sorted({c for c, i in runs if (c, i) not in badmap})
            vf.report_violation(
                ctx, f"{knd}:{cfg}:{cls[0]}:{cls[1]}:{hk}:{body}",
                {"stage": "correspondence", "kind": knd, "config": cfg, "case_header": header, "ops": small,
                 "verdict": smsg or msg, "drv_args": DRV_ARGS, "bad_under": [f"{c}:{i}" for c, i in bads],
                 "ok_under": good_under,
                 "what": "a run on this build configuration violates the specification"
                         + (" while other configurations pass the same script" if good_under else ""),
                 "theorem_or_relation": "C20: configurations are observationally equivalent (coq/Props/C20.v); "
                                        "driver relation named in the verdict"},
                nfif=(knd != "prop"))
        elif len(set(ds.values())) > 1:
            ndiff += 1
            if ndiff > 2:
                continue
            cfg, cid = runs[0]
            header, ops = by_id[cid]
            vf.report_violation(
                ctx, f"digest:{kind}:" + (";".join(ops) if len(ops) <= 30 else f"group-{g}"),
                {"stage": "correspondence", "kind": "corr", "config": cfg, "case_header": header, "ops": ops,
                 "configs": sorted({c for c, _ in runs}), "threads": sorted({int(re.match(r"\d+", i.split("@t")[1]).group(0)) for _, i in runs}),
                 "verdict": "result digests differ between configurations although every run satisfies the spec",
                 "drv_args": DRV_ARGS, "digests": ds,
                 "what": "same script, different observables (value tables / node counts / sat counts / variable order) "
                         "depending on the build configuration or the worker count",
                 "theorem_or_relation": "C20: configurations are observationally equivalent (coq/Props/C20.v)"},
                nfif=True)
    allcases = [c for _, _, cases in groups for c in cases] + list(ctx.model_cases)
    ctx.stats["groups"] = len(groups)
    ctx.stats["runs"] = len(dig)
    ctx.stats["distinct_nontrivial"] = len({tuple(ops) for _, ops in allcases if len(ops) >= 3})
    ctx.samples = [{"case": h, "ops": ops[:12] + (["..."] if len(ops) > 12 else [])}
                   for h, ops in (allcases[:1] + allcases[len(allcases) // 2:len(allcases) // 2 + 1] + allcases[-1:])]
    vf.write_evidence(
        ctx, "proof",
        rule="group = one op script (per kind bdd/bcdd/zbdd: two-route construction + not/eval/node_count/cofactors of all 256 "
             "three-variable functions, all 65536 ordered pairs per binary operator, sampled ite triples, under a seed-chosen "
             "variable order (3 in the thorough tier); random histories with gc/reorder/add_vars/quantification/"
             "substitution/sat_count over 3..7 variables; mtbdd<i64> histories and all pairs of the 121 one-variable functions "
             "(index store only); tdd: random histories (constants, variables, not, 8 three-valued connectives, ite, cofactors, eval, clone/drop, gc, add_vars, set_var_order, node_count), identity cases and node-count cases under several orders, on every configuration and on a debug-profile build of the default configuration); every group runs on every build configuration (" + ", ".join(cfgs) + "), histories and one "
             "pair suite per kind additionally with 1, 2 and 8 workers; compared: driver verdict of every run (spec) and the "
             "digest of all result value tables, node counts, sat counts, variable orders across configurations x workers. "
             "non-trivial = group with >= 3 ops; distinct = distinct op lists",
        checker_cmd="make -C coq Props/C20.vo (coqc 8.16.1) + Print Assumptions audit; ./check C20",
        extra_cov={"cases_ok": ok_total, "cases_bad": len(badmap), "configurations": cfgs, "threads": [1, 2, 8],
                   "digest_groups": len(groups), "digest_differences": ndiff, "tier": ctx.tier,
                   "props_reported": PROPS},
        assumptions=[
            "snapshots are taken through the public Manager/LevelView/InnerNode API; a bug in those accessors is in the trusted base",
            "cargo resolves the feature sets of harness/Cargo.toml (cfg-*) to the named oxidd features (unified with no other crate's defaults: every dependency on oxidd in the harness has default-features = false)",
            "the apply model is of the BDD kind; gc and reordering are not model operations of run_ops"])


def replay(ctx, path):
    r = json.load(open(path))
    if r.get("driver") == "c20":
        drv = build_model_driver(ctx)
    else:
        _, drv = ddcommon.build_dd(ctx)
    cfgs = r.get("configs") or [r.get("config", "cfg-default")]
    threads = r.get("threads") or [None]
    seen = {}
    anybad = False
    for cfg in cfgs:
        binp = build_cfg(cfg)
        for t in threads:
            case = (r["case_header"], r["ops"])
            if t is not None:
                case = with_threads((re.sub(r"@t\d+(s\d+)?", "", case[0]), case[1]), t)
            f = os.path.join(ctx.workdir, "replay.txt")
            vf.write_cases(f, [case])
            ok, bad, digests = vf.lockstep_sharded(ctx, binp, drv, [case], nshards=1, drv_args=r.get("drv_args", DRV_ARGS),
                                                   tag="-replay")
            for cid, msg in bad:
                anybad = True
                print(f"replay: {cfg}: case {cid}: {msg}")
            for cid, d in digests.items():
                seen[f"{cfg}:{cid}"] = d
    if anybad or len(set(seen.values())) > 1:
        if not anybad:
            print("replay: digests differ:", seen)
        vf.report_violation(ctx, "replay:" + ";".join(r["ops"][:30]), r, nfif=False)
    else:
        print("replay: no divergence")
