"""Package ALLOC: the slot allocator stage shared by checks/C14.py and checks/C05.py.

The cases run on the hooks build of the harness (h_dd, RUSTFLAGS=--cfg oxidd_verif, case parameter alloc=1): the
slot allocator events of the index-based manager (hook commit "verif hooks: slot allocator events", hooks.json)
are replayed by ocaml/alloc_main.ml on the extracted interleaving model coq/Mgr/Alloc.v (theorems C05_alloc_* /
C14_alloc_* of coq/Props/C05.v, C14.v); the same traces also pass the generic DD driver (results, audits)."""
import json
import os
import random
import re
import vf
import ddgen
from checks import ddcommon

ALLOC_VOS = ["Base/Conv.vo", "Mgr/Alloc.vo"]
DD_PROPS = ["--props", "C14,C01,C02,C03,C04,C05,C09,C10"]
CHUNK = 65536


def build(ctx):
    _plain, drv_dd = ddcommon.build_dd(ctx)
    pid = ctx.pid
    ctx.pid = "ALLOC"
    try:
        drv = vf.ocaml_build(ctx, "ExAlloc.v", "alloc_main.ml", model_vos=ALLOC_VOS)
    finally:
        ctx.pid = pid
    binp = vf.cargo_build(["h_dd"], hooks=True, target_sub="hooks")["h_dd"]
    return binp, drv, drv_dd


# ---------------------------------------------------------------------------
# cases
# ---------------------------------------------------------------------------
def _hdr(h, **kv):
    """replace / add header parameters"""
    toks = h.split()
    for k, v in kv.items():
        toks = [t for t in toks if not t.startswith(k + "=")]
        if v is not None:
            toks.append(f"{k}={v}")
    return " ".join(toks)


def case_seq(cid, kind, rng, thorough):
    """sequential history on a manager with very few slots: out-of-memory, drop, gc, re-use; COUNTS (exact and
    approximate node count) at random points; SESSION (allocate, drop, collect inside ONE session); every third
    case nested=1 (the thread's local store state belongs to another manager: non-local branches)"""
    cap = rng.choice([5, 6, 8, 10, 12, 16, 20, 28, 40])
    threads = rng.choice([1, 1, 2, 4])
    nv = rng.randrange(4, 7)
    h, ops = ddgen.case_history(cid, kind, rng, nv=nv, length=rng.choice([30, 60] if not thorough else [40, 80, 150]), cap=cap,
                                threads=threads, addvars=False, reorder=False, cache=rng.choice([2, 64]))
    if kind == "zbdd":
        h = _hdr(h, cap=max(cap, nv + 4))
    out = ops[:1]
    for o in ops[1:]:
        out.append(o)
        r = rng.random()
        if r < 0.08:
            out.append("COUNTS")
        elif r < 0.12 and kind != "zbdd":
            out.append(f"SESSION {rng.randrange(1, nv + 1)}")
        elif r < 0.15 and kind != "zbdd":
            out += ["FILL", "GC"]
    out += ["COUNTS", "DROPALL", "GC", "COUNTS"]
    if kind != "zbdd":
        out += ["FILL", "GC", "COUNTS"]
    return (_hdr(h, alloc=1, nested=(1 if rng.random() < 0.34 else None)), out)


def case_retry_nested(cid, kind, rng):
    """fill the store completely (the allocation pointer reaches the capacity), drop, collect, then create nodes again
    from inside a session of another manager (nested=1: non-local branch of get_slot_from_shared) resp. normally"""
    nv = rng.randrange(4, 7)
    cap = rng.randrange(nv + 14, 60)
    ops = [f"VARS {nv}", "FILL", "DROPALL", "GC", "COUNTS"]
    retry_at = len(ops)
    d = 0
    for v in rng.sample(range(nv), 3):
        ops.append(f"{rng.choice(['VAR', 'NVAR'])} h{d} {v}"); d += 1
    for _ in range(rng.randrange(2, 5)):
        ops.append(f"{rng.choice(['AND', 'OR', 'XOR'])} h{d} h{rng.randrange(d)} h{rng.randrange(d)}"); d += 1
    ops += ["COUNTS", "DROPALL", "GC", "COUNTS"]
    extra = f"alloc=1 retry_at={retry_at}" + (" nested=1" if rng.random() < 0.75 else "")
    return (ddgen.header(cid, kind, cap=cap, cache=64, threads=rng.choice([1, 2]), snap_each=True, extra=extra), ops)


def case_par(cid, kind, rng, thorough):
    """parallel blocks (PAR: 2-4 OS threads + pool workers, PGC: collections under the shared lock) of the C07
    generator on a manager with few slots, so that allocations fail and freed slots are re-used while other threads
    allocate; from 100 slots on the background collector thread takes part"""
    from checks import C07
    h, ops = C07.gen_case(cid, kind, rng, thorough)
    cap = rng.choice([24, 40, 60, 90, 130, 220])
    return (_hdr(h, cap=cap, alloc=1), ops + ["COUNTS"])


def case_term_retry(cid, rng):
    """MTBDD with a full terminal store (package C14d scenario): x*a, x*b, x*c fill the terminal store, x*a + x*b
    needs a new terminal -> out-of-memory; x*c is dropped, gc; the retry must succeed (terminal only referenced
    through a dead inner node)"""
    a, b, c = rng.sample([3, 5, 7, 9, 11, 13], 3)
    ops = ["VARS 1", "VAR h0 0"]
    for i, k in enumerate((a, b, c)):
        ops += [f"CONSTN h9 {k}", f"MUL h{i + 1} h0 h9", "DROP h9"]
    ops += ["ADD h5 h1 h2", "DROP h3", "GC"]
    retry_at = len(ops)
    ops += ["ADD h5 h1 h2", "COUNTS", "DROPALL", "GC", "COUNTS"]
    return (ddgen.header(cid, "mtbdd", cap=64, cache=64, threads=1, snap_each=True, extra=f"tcap=5 alloc=1 retry_at={retry_at}"), ops)


def case_big(cid, kind, rng, capk, threads, extra_slots):
    """managers with several allocation chunks of 65536 slots (the chunk / range / take-the-whole-list branches and
    the hand-over of the local list after 65536 frees): sessions, capacity probe, collection of everything by one
    thread, capacity probe again"""
    cap = capk * CHUNK + extra_slots
    ops = ["VARS 1200", f"SESSION {rng.choice([500, 1000, 1200])}", "COUNTS", "VAR h0 3", "GC", "COUNTS",
           "BIGFILL", "COUNTS", "GC", "COUNTS", f"SESSION {rng.choice([700, 1100])}", "BIGFILL", "COUNTS", "DROPALL", "GC", "COUNTS"]
    return (ddgen.header(cid, kind, cap=cap, cache=64, threads=threads, extra="alloc=1"), ops)


def gen_cases(ctx):
    # (C05 and C14 run different cases of the family)
    rng = random.Random(ctx.seed * 15485863 + 1405 + (7919 if ctx.pid == "C05" else 0))
    thorough = ctx.tier == "thorough"
    cases = []
    n = 0
    for kind in ("bdd", "bcdd", "zbdd"):
        for _ in range(30 if thorough else 8):
            cases.append(case_seq(f"as{n}", kind, rng, thorough)); n += 1
        for _ in range(12 if thorough else 4):
            cases.append(case_par(f"ap{n}", kind, rng, thorough)); n += 1
    for kind in ("bdd", "bcdd"):
        for _ in range(12 if thorough else 5):
            cases.append(case_retry_nested(f"ar{n}", kind, rng)); n += 1
    for _ in range(12 if thorough else 6):
        cases.append(case_term_retry(f"at{n}", rng)); n += 1
    # (quick tier: C05 runs the manager with two chunks - the hand-over of a local list needs 65536 frees by one
    # thread -, C14 only the one with a single chunk; C14's quick tier has little time left)
    if thorough:
        bigs = [("bdd", 2, 1, 5000), ("bcdd", 1, 2, 3000), ("bdd", 3, 4, 0), ("bcdd", 2, 1, 70000)]
    elif ctx.pid == "C14":
        bigs = [("bcdd", 1, 2, 3000)]
    else:
        bigs = [("bdd", 2, 1, 5000), ("bcdd", 1, 2, 3000)]
    for kind, capk, threads, extra in bigs:
        cases.append(case_big(f"ab{n}", kind, rng, capk, threads, extra)); n += 1
    return cases


# ---------------------------------------------------------------------------
# run
# ---------------------------------------------------------------------------
def run_cases(ctx, binp, drv, drv_dd, cases, tag=""):
    """sharded: implementation trace -> replay verdicts (alloc driver) + DD driver verdicts"""
    from concurrent.futures import ThreadPoolExecutor
    order = sorted(range(len(cases)), key=lambda i: -len(cases[i][1]) - (100000 if cases[i][0].startswith("ab") else 0))
    nsh = max(1, min(6, len(cases)))
    shards = [[] for _ in range(nsh)]
    for j, i in enumerate(order):
        shards[j % nsh].append(cases[i])

    def one(k):
        f = os.path.join(ctx.workdir, f"alloc-cases{tag}-{k}.txt")
        vf.write_cases(f, shards[k])
        impl = os.path.join(ctx.workdir, f"alloc-impl{tag}-{k}.txt")
        restarts = vf.run_impl(binp, f, impl, timeout=1800, env={"VERIF_HANG_MS": os.environ.get("VERIF_HANG_MS", "40000")})
        ok2, bad2, st2 = vf.run_driver(drv, impl, os.path.join(ctx.workdir, f"alloc-va{tag}-{k}.txt"))
        # (the big cases carry no snapshots and hundreds of thousands of event lines: not for the DD driver)
        small = os.path.join(ctx.workdir, f"alloc-impl-small{tag}-{k}.txt")
        with open(small, "w") as out:
            for h, lines in vf.parse_cases(open(impl).read()):
                if not h.startswith("ab"):
                    out.write(f"CASE {h}\n" + "".join(l + "\n" for l in lines) + "END\n")
        ok1, bad1, st1 = vf.run_driver(drv_dd, small, os.path.join(ctx.workdir, f"alloc-vd{tag}-{k}.txt"), args=DD_PROPS)
        os.remove(small)
        return ok1, bad1, st1, ok2, bad2, st2, restarts, impl

    res = {"ok_alloc": 0, "ok_dd": 0, "bad_alloc": [], "bad_dd": [], "stats": {}, "impl": {}}
    with ThreadPoolExecutor(max_workers=nsh) as ex:
        for ok1, bad1, st1, ok2, bad2, st2, restarts, impl in ex.map(one, range(nsh)):
            res["ok_dd"] += ok1
            res["ok_alloc"] += ok2
            res["bad_dd"] += bad1
            res["bad_alloc"] += bad2
            for cid, _ in bad1 + bad2:
                res["impl"][cid] = impl
            for k, v in st2.items():
                res["stats"][k] = res["stats"].get(k, 0) + v
            res["stats"]["dd_chk"] = res["stats"].get("dd_chk", 0) + sum(v for k, v in st1.items() if k.startswith("chk_"))
            res["stats"]["restarts"] = res["stats"].get("restarts", 0) + restarts
    return res


def _events_of(impl_file, cid, limit=300):
    try:
        for h, lines in vf.parse_cases(open(impl_file).read()):
            if h.split()[0] == cid:
                return [l for l in lines if l.startswith("EV A ")][:limit]
    except OSError:
        pass
    return []


def run_stage(ctx):
    """Runs the family; reports violations (prop=C14: out-of-memory rule, retry; prop=C05: double hand-out / leak /
    node count); returns the statistics for the evidence file."""
    binp, drv, drv_dd = build(ctx)
    cases = gen_cases(ctx)
    corpus = []
    cdir = os.path.join(vf.ROOT, "corpus", "ALLOC")
    if os.path.isdir(cdir):
        for fn in sorted(os.listdir(cdir)):
            if fn.endswith(".case"):
                corpus += [("corpus-" + h, ops) for h, ops in vf.parse_cases(open(os.path.join(cdir, fn)).read())]
    cases = corpus + cases
    by_id = {h.split()[0]: (h, ops) for h, ops in cases}
    res = run_cases(ctx, binp, drv, drv_dd, cases)
    st = res["stats"]
    # the tie is vacuous if the build logs nothing (hook commit missing / flag not passed): machinery failure
    if not any(c.startswith(("as", "ap", "ar", "ab")) for c, _ in res["bad_alloc"]):
        for key, what in (("ev_S", "get_slot_from_shared"), ("ev_R", "add_node"), ("ev_F", "free_slot"), ("ev_G", "guard drop")):
            if int(st.get(key, 0)) == 0:
                raise vf.CheckFailure(f"the hooks build logged no {what} events: the cfg(oxidd_verif) slot allocator hooks of /repo (hooks.json) are missing or inactive")
    if any(vf.RESOURCE_RE.search(m) for _, m in res["bad_alloc"] + res["bad_dd"]):
        raise vf.CheckFailure("operating-system resources exhausted (threads / memory) while running the allocator cases; not a verdict")
    seen = set()
    for src, bads in (("alloc", res["bad_alloc"]), ("dd", res["bad_dd"])):
        # (failing inputs first, then the differences without one)
        for cid, msg in sorted(bads, key=lambda b: 0 if "kind=prop" in b[1] else 1):
            cls = (src,) + ddcommon.msg_class(msg)
            if cls in seen or len(seen) >= 3:
                continue
            seen.add(cls)
            header, ops = by_id[cid]
            kind = "prop" if "kind=prop" in msg else "corr"
            hk = " ".join(t for t in header.split()[1:] if t.split("=")[0] in ("kind", "threads", "cap", "tcap", "nested"))
            body = ";".join(ops) if len(ops) <= 30 else f"case-{cid}"
            vf.report_violation(
                ctx, f"{kind}:{cls[1]}:{cls[2]}:{hk}:alloc-stage-{src}:{body}",
                {"stage": "correspondence", "kind": kind, "driver": "alloc", "source": src, "case_header": header, "ops": ops, "verdict": msg,
                 "build": "h_dd, RUSTFLAGS=--cfg oxidd_verif (slot allocator hooks), case parameter alloc=1",
                 "logged_allocator_events_of_the_failing_run": _events_of(res["impl"].get(cid, ""), cid),
                 "replay_cmd": f"./check {ctx.pid} --replay <this file>",
                 "theorem_or_relation": "coq/Mgr/Alloc.v step (extracted) replayed on the logged events by ocaml/alloc_main.ml; theorems C05_alloc_* (coq/Props/C05.v), C14_alloc_* (coq/Props/C14.v)"},
                nfif=(kind != "prop"))
    for k, v in st.items():
        ctx.add_stat("alloc_" + k, v)
    nt = lambda k: int(st.get(k, 0))
    return {
        "alloc_stage_cases": len(cases), "alloc_stage_cases_ok_replay": res["ok_alloc"], "alloc_stage_cases_ok_dd_driver": res["ok_dd"],
        "alloc_stage_cases_bad_replay": len(res["bad_alloc"]), "alloc_stage_cases_bad_dd_driver": len(res["bad_dd"]),
        "alloc_stage_stores": nt("stores"), "alloc_stage_stores_followed_to_the_end": nt("stores_followed_to_the_end"),
        "alloc_stage_model_steps": nt("model_steps"), "alloc_stage_threads": nt("threads"),
        "alloc_stage_add_node": nt("ev_R"), "alloc_stage_out_of_memory": nt("oom"),
        "alloc_stage_paths": {k[5:]: v for k, v in sorted(st.items()) if k.startswith("path_")},
        "alloc_stage_free_slot": {"local": nt("free_kind0"), "local_with_hand_over": nt("free_kind1"), "non_local": nt("free_kind2")},
        "alloc_stage_guard_drops_returning_slots": nt("guard_returns"), "alloc_stage_collector_epilogues": nt("gc_flushes"),
        "alloc_stage_counts_checked": nt("counts_checked"), "alloc_stage_final_invariant_audits": nt("final_invariant_audits"),
        "alloc_stage_out_of_sync": nt("out_of_sync"), "alloc_stage_hand_over_order_resolved": nt("handover_order_resolved"),
    }


RULE = ("slot allocator stage (package ALLOC, hooks build, alloc=1): per kind (bdd, bcdd, zbdd) sequential histories on managers with 5..40 "
        "slots (out-of-memory, drop, gc, re-use, SESSION, capacity probe, COUNTS; a third inside a session of another manager) and "
        "parallel blocks of 2-4 OS threads + pool workers with collections under the shared lock on managers with 24..220 slots; "
        "fill / drop / gc / retry cases (3 of 4 nested); MTBDD terminal store full + retry; managers with 1-3 allocation chunks of "
        "65536 slots (sessions, capacity probe, collection of > 65536 nodes by one thread, probe again)")


def replay(ctx, r):
    binp, drv, drv_dd = build(ctx)
    bad_any = False
    for attempt in range(6):
        res = run_cases(ctx, binp, drv, drv_dd, [(r["case_header"], r["ops"])], tag=f"-replay{attempt}")
        for cid, msg in res["bad_alloc"] + res["bad_dd"]:
            print(f"replay (attempt {attempt + 1}): case {cid}: {msg}")
            bad_any = True
        if bad_any:
            break
    if bad_any:
        vf.report_violation(ctx, "replay:" + r.get("signature", ""), r, nfif=False)
    else:
        print("replay: no divergence in 6 attempts")
