"""Package ARCSLAB: the stage "node store of the pointer-based manager" of checks/C05.py.

The crate `arcslab` (pages of slots, one free list through the slots, reference-counted items, IntHandle /
ExtHandle, the slab's own count) is driven directly by harness/src/bin/h_slab.rs (PAGE_SIZE 32..1024 bytes = 1..63
slots per page, items of 16 and 32 bytes that log their Drop, slab data that logs its Drop, a counting global
allocator for the pages); ocaml/slab_main.ml replays every script on the extracted model coq/Tbl/ArcSlab.v
(theorems C05_arcslab_* of coq/Props/C05.v, C20_store_* / C20_arcslab_* of coq/Props/C20.v) and compares slot
addresses (page, index), returned items, counts, num_items, live pages, the drop log, the moment the slab dies and
which operations are rejected.  Release build: all cases; debug build (debug_assert of force_into_inner, overflow
checks): a sample; thorough tier: a small set under miri (undefined behaviour / leaks of the unsafe code)."""
import json
import os
import random
import subprocess
import vf

MODEL_VOS = ["Base/Conv.vo", "Tbl/ArcSlab.vo"]
RELATION = ("extracted coq/Tbl/ArcSlab.v step (ocaml/slab_main.ml) == crate arcslab (harness/src/bin/h_slab.rs) on every "
            "observable of every operation; theorems C05_arcslab_* (coq/Props/C05.v), C20_arcslab_* (coq/Props/C20.v)")


def build(ctx, debug=False):
    pid = ctx.pid
    ctx.pid = "ARCSLAB"
    try:
        drv = vf.ocaml_build(ctx, "ExSlab.v", "slab_main.ml", model_vos=MODEL_VOS)
    finally:
        ctx.pid = pid
    binp = vf.cargo_build(["h_slab"], profile="debug" if debug else "release")["h_slab"]
    return binp, drv


def load_corpus():
    cdir = os.path.join(vf.ROOT, "corpus", "ARCSLAB")
    corpus = []
    if os.path.isdir(cdir):
        for fn in sorted(os.listdir(cdir)):
            if fn.endswith(".case"):
                corpus += [("corpus-" + h, ops) for h, ops in vf.parse_cases(open(os.path.join(cdir, fn)).read())]
    return corpus


def report(ctx, binp, drv, cases, bad, profile, max_reports=2):
    """shrinks and reports one case per kind (failing inputs first)"""
    by_id = {h.split()[0]: (h, ops) for h, ops in cases}
    seen = set()
    for cid, msg in sorted(bad, key=lambda b: 0 if "kind=prop" in b[1] else 1):
        kind = "prop" if "kind=prop" in msg else "corr"
        if kind in seen or len(seen) >= max_reports:
            continue
        seen.add(kind)
        header, ops = by_id[cid]
        small, smsg = (ops, None)
        if profile != "miri":
            small, smsg = vf.shrink_case(ctx, binp, drv, header, ops, kind, budget=150)
        smsg = smsg or msg
        hk = " ".join(t for t in header.split()[1:] if t.split("=")[0] in ("ps", "isz"))
        body = ";".join(small) if len(small) <= 40 else f"case-{cid}"
        vf.report_violation(
            ctx, f"{kind}:arcslab:{profile}:{hk}:{body}",
            {"stage": "correspondence", "kind": kind, "driver": "arcslab", "profile": profile, "case_header": header, "ops": small,
             "verdict": smsg, "replay_cmd": f"./check {ctx.pid} --replay <this file>", "theorem_or_relation": RELATION},
            nfif=(kind != "prop"))


def miri_cmd():
    h = os.path.join(vf.ROOT, "harness") if not vf.TAG else os.path.join(vf.OUT, "harness")
    return ["cargo", "+nightly", "miri", "run", "--offline", "-q", "--manifest-path", os.path.join(h, "Cargo.toml"),
            "--bin", "h_slab", "--"], {"CARGO_TARGET_DIR": os.path.join(vf.CACHE, "target-miri" + ("-alt-" + vf.TAG if vf.TAG else "")),
                                       "CARGO_NET_OFFLINE": "true", "MIRIFLAGS": "-Zmiri-disable-isolation",
                                       "VERIF_HANG_MS": "900000"}


def miri_available():
    try:
        p = subprocess.run(["cargo", "+nightly", "miri", "--version"], stdout=subprocess.PIPE, stderr=subprocess.STDOUT, timeout=60)
        return p.returncode == 0
    except Exception:
        return False


def run_miri(ctx, drv, cases, tag="-slab-miri"):
    """the harness under miri; a process that dies (undefined behaviour) is resumed after the culprit, which gets a
    `MIRI <message>` line; a leak report at exit is returned separately.  Returns (ok, bad, leak message or None)"""
    cmd, env = miri_cmd()
    impl_file = os.path.join(ctx.workdir, f"impl{tag}.txt")
    leak = None
    start = 0
    with open(impl_file, "w") as out:
        while start < len(cases):
            part = os.path.join(ctx.workdir, f"cases{tag}-{start}.txt")
            vf.write_cases(part, cases[start:])
            p = subprocess.run(cmd + ["run", part], stdout=subprocess.PIPE, stderr=subprocess.PIPE, env={**os.environ, **env}, timeout=7200)
            txt = p.stdout.decode("utf-8", "replace")
            err = p.stderr.decode("utf-8", "replace")
            done = vf.parse_cases(txt)
            out.write("".join(f"CASE {h}\n" + "".join(o + "\n" for o in ops) + "END\n" for h, ops in done))
            if p.returncode == 0:
                break
            lines = [l for l in err.strip().split("\n") if l.strip() and not l.startswith("warning: Miri does not support")]
            key = [l for l in lines if "error:" in l or "Undefined Behavior" in l or "leaked" in l]
            msg = " | ".join((key[:2] + lines[-2:]))[:400]
            k = start + len(done)
            if k >= len(cases):
                leak = msg        # everything ran; the complaint comes at exit
                break
            h, _ops = cases[k]
            out.write(f"CASE {h}\nMIRI rc={p.returncode} {msg}\nEND\n")
            start = k + 1
    ok, bad, stats = vf.run_driver(drv, impl_file, os.path.join(ctx.workdir, f"verdict{tag}.txt"))
    return ok, bad, leak


def lockstep_batches(ctx, binp, drv, cases, tag, first=2000, batch=80000):
    """lock-step run in batches (a small one first); stops after the first batch with a bad verdict: that is enough
    to report, and a store that crashes on most scripts would otherwise be restarted once per remaining case"""
    ok_total, bad_total, i, size = 0, [], 0, first
    while i < len(cases):
        f = os.path.join(ctx.workdir, f"cases{tag}.txt")
        vf.write_cases(f, cases[i:i + size])
        ok, bad = vf.lockstep(ctx, binp, drv, f, tag=tag)
        ok_total += ok
        bad_total += bad
        i += size
        size = batch
        if bad:
            break
    return ok_total, bad_total, min(i, len(cases))


def run_stage(ctx):
    """Runs the family (reports violations with the check's property id) and returns the statistics for the
    evidence file."""
    binp, drv = build(ctx)
    rc, out = vf.sh([binp, "gen", ctx.tier, str(ctx.seed)])
    if rc != 0:
        raise vf.CheckFailure("h_slab gen failed: " + out[-500:])
    corpus = load_corpus()
    cases = corpus + vf.parse_cases(out)
    stats0 = dict(ctx.stats)
    ok, bad, ran = lockstep_batches(ctx, binp, drv, cases, "-slab")
    slab_stats = {k: ctx.stats[k] - stats0.get(k, 0) for k in ctx.stats if ctx.stats[k] != stats0.get(k, 0)}
    # (the stage's counters are kept apart from those of the DD histories)
    ctx.stats.clear()
    ctx.stats.update(stats0)
    if not bad and (int(slab_stats.get("op_ADD", 0)) == 0 or int(slab_stats.get("slot_reused", 0)) == 0):
        raise vf.CheckFailure("the arcslab stage replayed no add_item / no slot re-use: harness or generator broken")
    cov = {
        "arcslab_stage_cases": len(cases), "arcslab_stage_cases_run": ran, "arcslab_stage_cases_ok": ok, "arcslab_stage_cases_bad": len(bad),
        "arcslab_stage_stats": {k: int(v) for k, v in sorted(slab_stats.items())},
        "arcslab_stage_debug_profile_cases": 0,
        "arcslab_stage_miri": "not run in this tier (thorough tier only)",
    }
    if bad:
        report(ctx, binp, drv, cases, bad, "release")
        cov["arcslab_stage_note"] = "stopped after the first batch with a bad verdict (debug profile and miri not run)"
        return cov
    # debug profile: the corpus + every fifth case
    rng = random.Random(ctx.seed * 2654435761 + 77)
    dcases = [("dbg-" + h, ops) for h, ops in corpus + [c for c in cases[len(corpus):] if rng.random() < 0.2]]
    binp_dbg, _ = build(ctx, debug=True)
    okd, badd, rand = lockstep_batches(ctx, binp_dbg, drv, dcases, "-slab-dbg")
    ctx.stats.clear()
    ctx.stats.update(stats0)
    cov.update({"arcslab_stage_debug_profile_cases": rand, "arcslab_stage_debug_profile_cases_ok": okd,
                "arcslab_stage_debug_profile_cases_bad": len(badd)})
    if badd:
        report(ctx, binp_dbg, drv, dcases, badd, "debug")
        return cov
    if ctx.tier == "thorough":
        if not miri_available():
            cov["arcslab_stage_miri"] = "cargo +nightly miri is not available"
        else:
            short = [c for c in cases[len(corpus):] if len(c[1]) <= 12]
            longc = [c for c in cases[len(corpus):] if 40 <= len(c[1]) <= 120]
            parc = [c for c in cases[len(corpus):] if "PAR 2 3" in c[1]][:3]      # (two threads: miri also looks for data races)
            mcases = [("miri-" + h, ops) for h, ops in corpus + rng.sample(short, min(160, len(short))) + rng.sample(longc, min(6, len(longc))) + parc]
            okm, badm, leak = run_miri(ctx, drv, mcases)
            ctx.stats.clear()
            ctx.stats.update(stats0)
            cov["arcslab_stage_miri"] = {"cases": len(mcases), "ok": okm, "bad": len(badm), "leak_report_at_exit": leak}
            if badm:
                report(ctx, None, drv, mcases, badm, "miri")
            if leak:
                vf.report_violation(
                    ctx, "prop:arcslab:miri:leak-at-exit",
                    {"stage": "correspondence", "kind": "prop", "driver": "arcslab", "profile": "miri", "case_header": "(all cases of the miri set)",
                     "ops": [], "cases": [[h, ops] for h, ops in mcases], "verdict": "miri reports at exit: " + leak,
                     "replay_cmd": f"./check {ctx.pid} --replay <this file>", "theorem_or_relation": RELATION}, nfif=False)
    return cov


RULE = ("arcslab stage (package ARCSLAB; crate arcslab driven directly): every script of acceptable operations (add_item, clone, drop, "
        "into_inner, drop_with, force_into_inner, ExtHandle::from, retain / release, ArcSlabRef clone / drop) up to length 5 (thorough 6) "
        "over 3 handle variables on pages of 1 and 3 slots and over 2 handle variables with 32-byte items, each followed by 'drop everything'; "
        "every script of length 3 (thorough 4) over the full alphabet incl. rejected operations; 1500 (thorough 12000) random scripts of "
        "30..500 operations over 4..40 handle variables on pages of 1..63 slots (fill / empty phases, slab lost early in a quarter); "
        "30 (thorough 200) blocks of 2..4 threads that add / clone / convert / drop items at the same time (order-independent guarantees: no slot "
        "shared by two live items, every payload dropped exactly once, num_items restored); "
        "a fifth of them again on the debug-profile build; thorough: about 170 of them under miri")


def replay(ctx, r):
    profile = r.get("profile", "release")
    cases = [(h, ops) for h, ops in r["cases"]] if r.get("cases") else [(r["case_header"], r["ops"])]
    bad = []
    if profile == "miri":
        _b, drv = build(ctx)
        ok, bad, leak = run_miri(ctx, drv, cases, tag="-slab-replay")
        if leak:
            bad = bad + [("miri", "leak at exit: " + leak)]
    else:
        binp, drv = build(ctx, debug=(profile == "debug"))
        f = os.path.join(ctx.workdir, "replay-slab.txt")
        vf.write_cases(f, cases)
        ok, bad = vf.lockstep(ctx, binp, drv, f, tag="-slab-replay")
    for cid, msg in bad:
        print(f"replay: case {cid}: {msg}")
    if bad:
        vf.report_violation(ctx, "replay:" + r.get("signature", ""), r, nfif=False)
    else:
        print("replay: no divergence")
