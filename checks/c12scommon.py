"""Package C12s, shared by checks/C12.py and checks/C13.py: histories with SatCountCache objects that are kept
in a table of the harness across operations (h_dd ops `SATC <cacheid> h<k> <vars> <type>` and
`PICKUNIC <cacheid> h<k> <seed> <count>`), judged by ocaml/c12s_main.ml (extraction coq/Extract/ExC12s.v:
coq/DD/SatCount.v + DD/SatCache.v + DD/SatCountF64.v + Num/Natural.v + DD/Pick.v).  Every case runs with
snap=each: a snapshot follows every operation, so that the driver sees the table, gc_count and
reorder_count of every call and replays the cache object entry by entry."""
import os
import vf
import ddgen
from checks import ddcommon

C12S_VOS = ddcommon.MODEL_VOS + ["DD/Build.vo", "DD/Apply.vo", "DD/Pick.vo", "Num/Natural.vo", "DD/SatCache.vo"]
TYPES = ["u64", "u128", "f64", "nat"]


def build(ctx):
    """driver keyed "C12s" (built once for C12 and C13), harness h_dd"""
    pid = ctx.pid
    ctx.pid = "C12s"
    try:
        drv = vf.ocaml_build(ctx, "ExC12s.v", "c12s_main.ml", extra_ml=["dd_types.ml", "pick.ml"], model_vos=C12S_VOS)
    finally:
        ctx.pid = pid
    return vf.cargo_build(["h_dd"])["h_dd"], drv


def vars_choices(n):
    """vars values around the number of levels (below it: the >> branch of the ZBDD version, plain halving
    from 2^vars in the BDD / BCDD versions), saturation limits and the F64 scaling"""
    return [max(0, n - 3), max(0, n - 2), max(0, n - 1), n, n, n + 1, n + 3, 63, 64, n + 70, 128, 1021, 1023, 1100]


class Pool:
    """live handles with shared sub-DAGs (as checks/C12.py _Pool, smaller functions: snapshots follow every op)"""

    def __init__(self, rng, nv, ops, first=0):
        self.rng, self.nv, self.ops = rng, nv, ops
        self.k = first
        self.live = []

    def fresh(self):
        self.k += 1
        return self.k - 1

    def base(self):
        rng = self.rng
        d = self.fresh()
        b = min(self.nv, rng.randrange(2, 6))
        self.ops.append(f"{rng.choice(['TT', 'TTI'])} h{d} {b} {ddgen.rand_tt(rng, b):x}")
        self.live.append(d)
        return d

    def var(self):
        d = self.fresh()
        self.ops.append(f"{self.rng.choice(['VAR', 'NVAR'])} h{d} {self.rng.randrange(self.nv)}")
        self.live.append(d)
        return d

    def comb(self):
        rng = self.rng
        d = self.fresh()
        r = rng.random()
        if r < 0.65 or len(self.live) < 2:
            self.ops.append(f"{rng.choice(ddgen.BIN_OPS)} h{d} h{rng.choice(self.live)} h{rng.choice(self.live)}")
        elif r < 0.9:
            self.ops.append(f"ITE h{d} h{rng.choice(self.live)} h{rng.choice(self.live)} h{rng.choice(self.live)}")
        else:
            self.ops.append(f"NOT h{d} h{rng.choice(self.live)}")
        self.live.append(d)
        return d

    def grow(self, nbase, nvar, ncomb):
        for _ in range(nbase):
            self.base()
        for _ in range(nvar):
            self.var()
        for _ in range(ncomb):
            self.comb()

    def drop_some(self, keep=2):
        rng = self.rng
        rng.shuffle(self.live)
        cut = max(keep, len(self.live) // 2)
        for d in self.live[cut:]:
            self.ops.append(f"{rng.choice(['DROP', 'DROP', 'DROPT'])} h{d}")
        self.live = self.live[:cut]


def case_kept(cid, kind, rng, rounds, picks=True):
    """2-3 kept cache objects per number type, queried in turn with a few `vars` values (also below the number of
    levels), interleaved with gc / reorder / add_vars / drop + gc + rebuild (node ids recycled while a cache still
    maps them) / nothing; satisfiable / valid; pick_cube_uniform on the F64 cache objects"""
    nv = rng.randrange(3, 8)
    ops = [f"VARS {nv}"]
    pool = Pool(rng, nv, ops)
    pool.grow(rng.randrange(1, 4), rng.randrange(0, 3), rng.randrange(2, 6))
    ops.append("GC")
    cids = rng.sample(range(6), rng.randrange(2, 4))
    tys = rng.sample(TYPES, rng.randrange(1, 4))
    for _ in range(rounds):
        vs = rng.sample(vars_choices(pool.nv), rng.randrange(1, 4))
        # queries
        for _ in range(rng.randrange(2, 9)):
            r = rng.random()
            h = rng.choice(pool.live)
            if r < 0.80:
                ops.append(f"SATC {rng.choice(cids)} h{h} {rng.choice(vs)} {rng.choice(tys)}")
            elif r < 0.90 and picks:
                ops.append(f"PICKUNIC {rng.choice(cids)} h{h} {rng.randrange(1 << 30)} {rng.choice([1, 5, 40])}")
            else:
                ops.append(f"SATVALID h{h}")
        # the event
        ev = rng.choice(["GC", "GC", "ORDER", "SWAP", "DROPGC", "DROPGC", "DROPGC", "VARS", "GROW", "NONE"])
        if ev == "GC":
            ops.append("GC")
        elif ev == "ORDER":
            p = list(range(pool.nv))
            rng.shuffle(p)
            ops.append(f"{rng.choice(['ORDER', 'ORDERSEQ'])} " + " ".join(map(str, p)))
        elif ev == "SWAP" and pool.nv >= 2:
            ops.append(f"LEVELDOWN {rng.randrange(pool.nv - 1)}")
        elif ev == "DROPGC":
            pool.drop_some(keep=1)
            ops.append("GC")
            pool.grow(rng.randrange(0, 2), rng.randrange(0, 2), rng.randrange(1, 5))
        elif ev == "VARS" and pool.nv < 9:
            k = rng.randrange(1, 3)
            ops.append(f"VARS {k}")
            pool.nv += k
            if rng.random() < 0.5:
                pool.var()
                pool.comb()
        elif ev == "GROW":
            pool.grow(0, rng.randrange(0, 2), rng.randrange(1, 4))
        if len(pool.live) > 10:
            pool.drop_some(keep=3)
    return (ddgen.header(cid, kind, cap=1 << 13, cache=rng.choice([16, 1 << 10]), snap_each=True), ops)


def case_kept_small(cid, kind, rng):
    """a sample of the 256 three-variable functions, every one counted with vars in {0..4} on one kept cache object
    per type (vars below the number of levels: determined whenever the function depends on at most vars variables)"""
    ops = ["VARS 3"]
    order = list(range(3))
    rng.shuffle(order)
    if order != [0, 1, 2]:
        ops.append("ORDER " + " ".join(map(str, order)))
    fs = rng.sample(range(256), 20) + [0, 255, 0xf0, 0xcc, 0xaa, 0x88, 0x96]
    for i, t in enumerate(fs):
        ops.append(f"{rng.choice(['TT', 'TTI'])} h{i} 3 {t:x}")
    ops.append("GC")
    for ty in TYPES:
        for v in rng.sample(range(5), 3):
            hs = list(range(len(fs)))
            rng.shuffle(hs)
            for i in hs[:14]:
                ops.append(f"SATC {rng.randrange(2)} h{i} {v} {ty}")
    for i in range(len(fs)):
        ops.append(f"SATVALID h{i}")
    return (ddgen.header(cid, kind, cap=1 << 12, cache=1 << 8, snap_each=True), ops)


def case_kept_all3(cid, kind, order, rng):
    """all 256 functions of three variables under one order; per number type one sweep over all handles on a kept
    cache object (cache hits across handles), with one `vars` value per sweep"""
    ops = ["VARS 3"]
    if list(order) != [0, 1, 2]:
        ops.append("ORDER " + " ".join(map(str, order)))
    for i in range(256):
        ops.append(f"{rng.choice(['TT', 'TTI'])} h{i} 3 {i:x}")
    ops.append("GC")
    for ty in TYPES:
        v = rng.choice([1, 2, 3, 3, 4, 64, 73, 1021, 1100])
        c = rng.randrange(4)
        hs = list(range(256))
        rng.shuffle(hs)
        for i in hs:
            ops.append(f"SATC {c} h{i} {v} {ty}")
    return (ddgen.header(cid, kind, cap=1 << 13, cache=1 << 10, snap_each=True), ops)


def case_uniform_kept(cid, kind, rng, rounds, draws):
    """pick_cube_uniform with ONE long-lived F64 cache object per case (cache_all for odd ids): sample a function,
    drop it, collect / reorder, build another function whose nodes take the freed ids, sample it with the same
    cache; sat_count as F64 through the same object in between (other `vars`: the next sampling must clear it)"""
    nv = rng.randrange(3, 6)
    ops = [f"VARS {nv}"]
    cid_c = rng.choice([0, 1, 1, 3])
    k = 0
    live = []
    for r in range(rounds):
        for _ in range(rng.randrange(1, 3)):
            t = ddgen.rand_tt(rng, nv) if rng.random() < 0.7 else rng.getrandbits(1 << nv)
            ops.append(f"{rng.choice(['TT', 'TTI'])} h{k} {nv} {t:x}")
            live.append(k)
            k += 1
        if rng.random() < 0.3 and len(live) >= 2:
            ops.append(f"{rng.choice(ddgen.BIN_OPS)} h{k} h{live[-1]} h{live[-2]}")
            live.append(k)
            k += 1
        if r == 0:
            ops.append("GC")
        for h in rng.sample(live, min(len(live), 2)):
            ops.append(f"PICKUNIC {cid_c} h{h} {rng.randrange(1 << 30)} {draws}")
            if rng.random() < 0.4:
                ops.append(f"SATC {cid_c} h{h} {rng.choice([nv, nv, nv + 1, nv + 2])} f64")
        ev = rng.random()
        rng.shuffle(live)
        keep = 1 if rng.random() < 0.6 else 0
        for h in live[keep:]:
            ops.append(f"DROP h{h}")
        live = live[:keep]
        if ev < 0.7:
            ops.append("GC")
        elif ev < 0.85:
            p = list(range(nv))
            rng.shuffle(p)
            ops.append("ORDER " + " ".join(map(str, p)))
        elif nv < 6 and ev < 0.93:
            ops.append("GC")
            ops.append("VARS 1")
            nv += 1
    return (ddgen.header(cid, kind, cap=1 << 12, cache=rng.choice([16, 1 << 8]), snap_each=True), ops)


def run_stage(ctx, pid, cases, props, relation, tag="-kept", nshards=16, max_reports=2, harness=None, config="kept-cache", with_corpus=True):
    """lock-step run of kept-cache cases, shrink + report; returns (ok, bad, cases).  `harness`: another build of
    h_dd (the pointer-based manager), named by `config` in the replay files"""
    binp, drv = build(ctx)
    if harness:
        binp = harness
    args = ["--props", ",".join(props)]
    corpus_dir = os.path.join(vf.ROOT, "corpus", pid)
    corpus = []
    if with_corpus and os.path.isdir(corpus_dir):
        for fn in sorted(os.listdir(corpus_dir)):
            if fn.endswith(".kept"):
                corpus += [("corpus-" + h, ops) for h, ops in vf.parse_cases(open(os.path.join(corpus_dir, fn)).read())]
    cases = corpus + list(cases)
    ok, bad, _ = vf.lockstep_sharded(ctx, binp, drv, cases, nshards=nshards, drv_args=args, tag=tag)
    by_id = {h.split()[0]: (h, ops) for h, ops in cases}
    seen = set()
    for cid, msg in bad:
        cls = ddcommon.msg_class(msg)
        if cls in seen or len(seen) >= max_reports:
            continue
        seen.add(cls)
        header, ops = by_id[cid]
        kind = "prop" if "kind=prop" in msg else "corr"
        small, smsg = vf.shrink_case(ctx, binp, drv, header, ops, kind, drv_args=args, budget=120,
                                     protect=lambda o: o.startswith("VARS"),
                                     accept=lambda m2, c=cls: ddcommon.msg_class(m2) == c)
        smsg = smsg or msg
        hk = " ".join(t for t in header.split()[1:] if t.split("=")[0] in ("kind", "threads"))
        body = ";".join(small) if len(small) <= 30 else f"case-{cid}"
        vf.report_violation(
            ctx, f"{kind}:{cls[0]}:{cls[1]}:{hk}:{config}:{body}",
            {"stage": "correspondence", "kind": kind, "config": config, "case_header": header, "ops": small,
             "verdict": smsg, "drv_args": args, "replay_cmd": f"./check {pid} --replay <this file>",
             "theorem_or_relation": relation},
            nfif=(kind != "prop"))
    return ok, bad, cases


def replay(ctx, r, harness=None):
    binp, drv = build(ctx)
    if harness:
        binp = harness
    f = os.path.join(ctx.workdir, "replay.txt")
    vf.write_cases(f, [(r["case_header"], r["ops"])])
    ok, bad = vf.lockstep(ctx, binp, drv, f, tag="-replay", drv_args=r.get("drv_args", []))
    for cid, msg in bad:
        print(f"replay: case {cid}: {msg}")
        vf.report_violation(ctx, "replay:" + ";".join(r["ops"][:30]), r, nfif=False)
    if not bad:
        print("replay: no divergence")
