"""Package CORETIE: the composed core model coq/Mgr/Core.v replayed against the code (stage of checks/C05.py).

The cases run on the hooks build of the harness (h_dd, RUSTFLAGS=--cfg oxidd_verif) with the case parameters
alloc=1 core=1: the slot allocator events AND the unique table's / reference counts' events (get_or_insert found /
new with children, collector removals, clone_edge, drop_edge) are written into ONE mutex-ordered log for the whole
case, inside and outside parallel blocks.  ocaml/core_main.ml folds the extracted `kstep` of coq/Mgr/Core.v over that
log (one model state = unique table + reported counts + ownership tokens + hash-table edges on the node store on the
slot allocator) and compares `kproj` of the model state with every snapshot (ids, levels, children, reported counts)
and the allocator component with the plain allocator replay.  Theorems: C05_core_* / C07_core_* / C14_core_* /
C20_core_* / C01_core_* (coq/Props), proved over `kstep`."""
import os
import random
import vf
import ddgen
from checks import ddcommon
from checks import alloccommon

CORE_VOS = ["Base/Conv.vo", "DD/Table.vo", "Mgr/Alloc.vo", "Mgr/IndexStore.vo", "Mgr/Conc.vo", "Mgr/ConcGc.vo", "Mgr/Core.vo"]
_hdr = alloccommon._hdr


def build(ctx):
    pid = ctx.pid
    ctx.pid = "CORETIE"
    try:
        drv = vf.ocaml_build(ctx, "ExCore.v", "core_main.ml", model_vos=CORE_VOS)
    finally:
        ctx.pid = pid
    binp = vf.cargo_build(["h_dd"], hooks=True, target_sub="hooks")["h_dd"]
    return binp, drv


# ---------------------------------------------------------------------------
# cases
# ---------------------------------------------------------------------------
def case_seq(cid, kind, rng, thorough):
    """sequential history on a manager with 5..40 slots (out-of-memory, drop, gc, retry, SESSION, FILL, COUNTS), a snapshot
    after every operation; a third nested=1 (non-local allocator branches); apply cache of one bucket (Core.v has no
    apply cache: a hit that revives a dead node ends the replay of the case)"""
    h, ops = alloccommon.case_seq(cid, kind, rng, thorough)
    return (_hdr(h, core=1, cache=1), ops)


def case_retry(cid, kind, rng):
    """fill the store, drop, collect, build again (retry_at); 3 of 4 inside a session of another manager"""
    h, ops = alloccommon.case_retry_nested(cid, kind, rng)
    return (_hdr(h, core=1, cache=1), ops)


def case_oom_gc_retry(cid, kind, rng):
    """the scenario of C14_core_retry_after_gc: variables and connectives on a store that is too small, every failed
    operation is followed by drop of a random handle + gc + the same operation again"""
    nv = rng.randrange(3, 6)
    cap = rng.randrange(nv + 2, nv + 9)
    ops = [f"VARS {nv}"]
    d = 0
    for v in range(nv):
        ops.append(f"{rng.choice(['VAR', 'NVAR'])} h{d} {v}"); d += 1
    for _ in range(rng.randrange(8, 16)):
        op = f"{rng.choice(['AND', 'OR', 'XOR', 'IMP', 'EQUIV', 'NAND'])} h{d} h{rng.randrange(d)} h{rng.randrange(d)}"
        ops += [op, f"DROP h{rng.randrange(nv, d + 1)}", "GC", op if rng.random() < 0.6 else "COUNTS"]
        d += 1
    ops += ["COUNTS", "DROPALL", "GC", "COUNTS"]
    return (ddgen.header(cid, kind, cap=cap, cache=1, threads=rng.choice([1, 2]), snap_each=True, extra="alloc=1 core=1"), ops)


def case_par(cid, kind, rng, thorough):
    """parallel blocks of the C07 generator (2-4 OS threads + pool workers, PGC collections under the shared lock, churn)
    on a manager with 24..90 slots (thorough: ..130, with the background collector thread); snapshot before and after every block"""
    h, ops = alloccommon.case_par(cid, kind, rng, thorough)
    out = []
    for o in ops:
        out.append(o)
        if o == "ENDPAR" or o.startswith("VARS "):
            out.append("SNAP")
    # (the extracted model's handle variables are unary numbers that grow with the length of the log: the replay time is
    # superlinear in the trace length; quick tier: at most 90 slots, i.e. without the background collector thread, which
    # new_manager starts from 100 slots on)
    cap = rng.choice([24, 32, 40, 60, 90, 110, 130] if thorough else [24, 32, 40, 60, 90])
    return (_hdr(h, core=1, cache=1, cap=cap), out)


def gen_cases(ctx):
    rng = random.Random(ctx.seed * 32452843 + 977)
    thorough = ctx.tier == "thorough"
    cases = []
    n = 0
    for kind in ("bdd", "bcdd"):
        for _ in range(24 if thorough else 5):
            cases.append(case_seq(f"ks{n}", kind, rng, thorough)); n += 1
        for _ in range(12 if thorough else 3):
            cases.append(case_oom_gc_retry(f"ko{n}", kind, rng)); n += 1
        for _ in range(8 if thorough else 2):
            cases.append(case_retry(f"kr{n}", kind, rng)); n += 1
        for _ in range(24 if thorough else 6):
            cases.append(case_par(f"kp{n}", kind, rng, thorough)); n += 1
    return cases


# ---------------------------------------------------------------------------
# run
# ---------------------------------------------------------------------------
def run_cases(ctx, binp, drv, cases, tag=""):
    from concurrent.futures import ThreadPoolExecutor
    order = sorted(range(len(cases)), key=lambda i: -len(cases[i][1]))
    nsh = max(1, min(5, len(cases)))
    shards = [[] for _ in range(nsh)]
    for j, i in enumerate(order):
        shards[j % nsh].append(cases[i])

    def one(k):
        f = os.path.join(ctx.workdir, f"core-cases{tag}-{k}.txt")
        vf.write_cases(f, shards[k])
        impl = os.path.join(ctx.workdir, f"core-impl{tag}-{k}.txt")
        restarts = vf.run_impl(binp, f, impl, timeout=1800, env={"VERIF_HANG_MS": os.environ.get("VERIF_HANG_MS", "40000")})
        ok, bad, st = vf.run_driver(drv, impl, os.path.join(ctx.workdir, f"core-v{tag}-{k}.txt"))
        return ok, bad, st, restarts, impl

    res = {"ok": 0, "bad": [], "stats": {}, "impl": {}}
    with ThreadPoolExecutor(max_workers=nsh) as ex:
        for ok, bad, st, restarts, impl in ex.map(one, range(nsh)):
            res["ok"] += ok
            res["bad"] += bad
            for cid, _ in bad:
                res["impl"][cid] = impl
            for k, v in st.items():
                res["stats"][k] = res["stats"].get(k, 0) + v
            res["stats"]["restarts"] = res["stats"].get("restarts", 0) + restarts
    return res


def _events_of(impl_file, cid, limit=400):
    try:
        for h, lines in vf.parse_cases(open(impl_file).read()):
            if h.split()[0] == cid:
                return [l for l in lines if l.startswith(("EV A ", "EV K "))][:limit]
    except OSError:
        pass
    return []


def run_stage(ctx):
    """Runs the family; reports violations (prop=C05: reference count / id reuse; prop=C14: out-of-memory where the
    composed model inserts the node); returns the statistics for the evidence file."""
    binp, drv = build(ctx)
    cases = gen_cases(ctx)
    cdir = os.path.join(vf.ROOT, "corpus", "CORETIE")
    corpus = []
    if os.path.isdir(cdir):
        for fn in sorted(os.listdir(cdir)):
            if fn.endswith(".case"):
                corpus += [("corpus-" + h, ops) for h, ops in vf.parse_cases(open(os.path.join(cdir, fn)).read())]
    cases = corpus + cases
    by_id = {h.split()[0]: (h, ops) for h, ops in cases}
    res = run_cases(ctx, binp, drv, cases)
    st = res["stats"]
    nt = lambda k: int(st.get(k, 0))
    # the tie is vacuous if the build logs nothing: machinery failure
    if not res["bad"]:
        for key, what in (("ev_AS", "get_slot_from_shared"), ("goi_new", "GOI_NEW"), ("goi_found", "GOI_FOUND"), ("gc_removed", "GC_REMOVE"), ("release", "RELEASE"), ("retain", "RETAIN")):
            if nt(key) == 0:
                raise vf.CheckFailure(f"the hooks build logged no {what} events: the cfg(oxidd_verif) hooks of /repo (hooks.json) are missing or inactive, or core=1 is not honoured by the harness")
        if nt("cases_followed_to_the_end") * 2 < len(cases):
            raise vf.CheckFailure(f"the composed model followed only {nt('cases_followed_to_the_end')} of {len(cases)} cases to the end (apply-cache revivals): the stage would be vacuous")
    if any(vf.RESOURCE_RE.search(m) for _, m in res["bad"]):
        raise vf.CheckFailure("operating-system resources exhausted (threads / memory) while running the core replay cases; not a verdict")
    seen = set()
    for cid, msg in sorted(res["bad"], key=lambda b: 0 if "kind=prop" in b[1] else 1):
        cls = ddcommon.msg_class(msg)
        if cls in seen or len(seen) >= 3:
            continue
        seen.add(cls)
        header, ops = by_id[cid]
        kind = "prop" if "kind=prop" in msg else "corr"
        hk = " ".join(t for t in header.split()[1:] if t.split("=")[0] in ("kind", "threads", "cap", "nested"))
        body = ";".join(ops) if len(ops) <= 30 else f"case-{cid}"
        vf.report_violation(
            ctx, f"{kind}:{cls[0]}:{cls[1]}:{hk}:core-stage:{body}",
            {"stage": "correspondence", "kind": kind, "driver": "core", "case_header": header, "ops": ops, "verdict": msg,
             "build": "h_dd, RUSTFLAGS=--cfg oxidd_verif, case parameters alloc=1 core=1 (merged allocator + table + count events)",
             "logged_events_of_the_failing_run": _events_of(res["impl"].get(cid, ""), cid),
             "replay_cmd": f"./check {ctx.pid} --replay <this file>",
             "theorem_or_relation": "coq/Mgr/Core.v kstep (extracted) folded over the merged event log by ocaml/core_main.ml; kproj of the model state = lifted snapshot; theorems C05_core_* (coq/Props/C05.v), C14_core_* (coq/Props/C14.v), C07_core_* (coq/Props/C07.v)"},
            nfif=(kind != "prop"))
    for k, v in st.items():
        ctx.add_stat("core_" + k, v)
    return {
        "core_stage_cases": len(cases), "core_stage_cases_ok": res["ok"], "core_stage_cases_bad": len(res["bad"]),
        "core_stage_cases_followed_to_the_end": nt("cases_followed_to_the_end"),
        "core_stage_cases_left_model_scope_apply_cache_revival": nt("left_scope_cache_revival"),
        "core_stage_kstep_calls": nt("core_steps"), "core_stage_internal_actions": nt("core_internal"),
        "core_stage_goi_new": nt("goi_new"), "core_stage_goi_found": nt("goi_found"), "core_stage_goi_out_of_memory": nt("oom"),
        "core_stage_retain": nt("retain"), "core_stage_release": nt("release"), "core_stage_release_inside_actions": nt("release_absorbed"),
        "core_stage_collector_removals": nt("gc_removed"), "core_stage_moves_inserted": nt("glue_move"), "core_stage_nots_inserted": nt("glue_not"),
        "core_stage_snapshots_compared": nt("snapshots_compared"), "core_stage_nodes_compared": nt("nodes_compared"),
        "core_stage_invariant_audits": nt("invariant_audits"), "core_stage_gc_ops_compared_with_kcollect": nt("kcollect_compared"),
        "core_stage_apply_cache_revivals_emulated": nt("cache_revivals_emulated"), "core_stage_par_blocks": nt("par_blocks"),
        "core_stage_par_blocks_followed": nt("par_blocks_followed"), "core_stage_stores": nt("stores"),
        "core_stage_paths": {k[5:]: v for k, v in sorted(st.items()) if k.startswith("path_")},
    }


RULE = ("composed core model stage (package CORETIE, hooks build, alloc=1 core=1): per kind (bdd, bcdd) sequential histories on managers "
        "with 5..40 slots (out-of-memory, drop, gc, retry, SESSION, FILL, COUNTS; a third inside a session of another manager), "
        "out-of-memory / drop / gc / retry histories on stores of nv+2..nv+8 slots, fill / drop / gc / retry cases, and parallel blocks "
        "(2-4 OS threads + pool workers, PGC, churn) on managers with 24..90 slots (thorough: ..130); every event replayed by the extracted kstep of "
        "coq/Mgr/Core.v, kproj = snapshot (ids, children, reported counts) at every snapshot")


def replay(ctx, r):
    binp, drv = build(ctx)
    bad_any = False
    for attempt in range(6):
        res = run_cases(ctx, binp, drv, [(r["case_header"], r["ops"])], tag=f"-replay{attempt}")
        for cid, msg in res["bad"]:
            print(f"replay (attempt {attempt + 1}): case {cid}: {msg}")
            bad_any = True
        if bad_any:
            break
    if bad_any:
        vf.report_violation(ctx, "replay:" + r.get("signature", ""), r, nfif=False)
    else:
        print("replay: no divergence in 6 attempts")
