"""Shared by the decision-diagram checks (C01-C06, C08, C09, C12, C13, ...)."""
import os
import vf

MODEL_VOS = ["Base/Conv.vo", "DD/Table.vo", "DD/TableExtra.vo", "DD/Sem.vo", "Num/I64.vo", "DD/FamSpec.vo", "DD/ZbddOps.vo", "DD/ZbddVars.vo", "Mgr/SortOrder.vo", "Mgr/LevelSwap.vo", "Mgr/LevelSwapC.vo", "Mgr/LevelSwapZ.vo", "Mgr/LevelSwapT.vo", "DD/BuildCanon.vo", "Mgr/Terminals.vo", "DD/Tdd.vo", "DD/ApplyTdd.vo", "DD/TddAudit.vo", "Mgr/TddHist.vo", "DD/SatCount.vo", "Num/F64Count.vo", "DD/SatCountF64.vo", "DD/IsoCheck.vo"]
DRIVER_EXTRA = ["dd_types.ml", "order.ml", "zchain.ml", "pick.ml", "zfam.ml", "lswap.ml", "tmgr.ml", "tddh.ml"]
# case kinds of other harnesses that share a corpus directory with DD cases (h_nat of C12)
NON_DD_KINDS = ("nat", "sat64", "sat128", "f64")


class DDCtx(vf.Ctx):
    pass


def build_dd(ctx):
    # one driver for all DD properties: keyed "DD" so that it is built once
    pid = ctx.pid
    ctx.pid = "DD"
    try:
        drv = vf.ocaml_build(ctx, "ExDD.v", "dd_main.ml", extra_ml=DRIVER_EXTRA, model_vos=MODEL_VOS)
    finally:
        ctx.pid = pid
    bins = vf.cargo_build(["h_dd"])
    return bins["h_dd"], drv


import re


def msg_class(msg):
    """stable part of a verdict message: property tag + text up to the first digit/colon"""
    m = re.search(r"(prop=\S+) ([^0-9:]*)", msg)
    return (m.group(1), m.group(2).strip()[:40]) if m else ("", msg[:40])


def build_dd_debug(ctx):
    """the same harness in the dev profile: debug assertions and overflow checks of /repo are active"""
    return vf.cargo_build(["h_dd"], profile="debug")["h_dd"]


def run_dd(ctx, props, cases, rule, allowed_axioms=(), drv_args=(), env=None, assumptions=(), extra_cov=None,
           nshards=16, proofs=True, max_reports=2, sig_extra="", write_ev=True, debug_cases="auto"):
    """Common body of the DD checks: proof gate, build, sharded lock-step run, shrink + report,
    evidence."""
    if proofs:
        vf.proof_gate(ctx, allowed_axioms)
    binp, drv = build_dd(ctx)
    args = ["--props", ",".join(props)] + list(drv_args)
    # corpus first
    corpus_dir = os.path.join(vf.ROOT, "corpus", ctx.pid)
    corpus = []
    if os.path.isdir(corpus_dir):
        for fn in sorted(os.listdir(corpus_dir)):
            if fn.endswith(".case"):
                # (a corpus directory may also hold cases of the property's other harnesses)
                corpus += [("corpus-" + h, ops) for h, ops in vf.parse_cases(open(os.path.join(corpus_dir, fn)).read())
                           if " kind=" in h and h.split(" kind=")[1].split()[0] not in NON_DD_KINDS]
    cases = corpus + list(cases)
    ok, bad, digests = vf.lockstep_sharded(ctx, binp, drv, cases, nshards=nshards, env=env, drv_args=args)
    ctx.digests = digests
    by_id = {h.split()[0]: (h, ops) for h, ops in cases}
    bin_of = {}
    if isinstance(debug_cases, str):
        debug_cases = list(cases[len(corpus)::8])      # default: every eighth generated case
    if debug_cases is not None:
        # second pass on a debug-profile build (debug_assert!, overflow checks): the corpus and the given
        # cases; ids get a "dbg-" prefix so that reports and replays name the profile
        binp_dbg = build_dd_debug(ctx)
        dcases = [("dbg-" + h, ops) for h, ops in corpus + list(debug_cases)]
        ok2, bad2, _ = vf.lockstep_sharded(ctx, binp_dbg, drv, dcases, nshards=nshards, env=env, drv_args=args, tag="-dbg")
        ok += ok2
        bad = list(bad) + list(bad2)
        ctx.add_stat("debug_profile_cases", len(dcases))
        for h, ops in dcases:
            by_id[h.split()[0]] = (h, ops)
            bin_of[h.split()[0]] = binp_dbg
        cases = cases + dcases
    seen = set()
    for cid, msg in bad:
        cls = msg_class(msg)
        if cls in seen or len(seen) >= max_reports:
            continue
        seen.add(cls)
        header, ops = by_id[cid]
        kind = "prop" if "kind=prop" in msg else "corr"
        small, smsg = vf.shrink_case(
            ctx, bin_of.get(cid, binp), drv, header, ops, kind, env=env, drv_args=args, budget=120,
            protect=lambda o: o.startswith("VARS"), accept=lambda m2, c=cls: msg_class(m2) == c)
        smsg = smsg or msg
        hk = " ".join(t for t in header.split()[1:] if t.split("=")[0] in ("kind", "threads"))
        body = ";".join(small) if len(small) <= 30 else f"case-{cid}"
        sig = f"{kind}:{cls[0]}:{cls[1]}:{hk}:{sig_extra}:{body}"
        vf.report_violation(
            ctx, sig,
            {"stage": "correspondence", "kind": kind, "case_header": header, "ops": small, "verdict": smsg,
             "drv_args": args, "profile": "debug" if cid in bin_of else "release", "replay_cmd": f"./check {ctx.pid} --replay <this file>",
             "theorem_or_relation": f"{ctx.pid}: see coq/Props/{ctx.pid}.v; driver relation named in the verdict"},
            nfif=(kind != "prop"))
    ctx.samples = [{"case": h, "ops": ops[:12] + (["..."] if len(ops) > 12 else [])}
                   for h, ops in (cases[:1] + cases[len(cases) // 2:len(cases) // 2 + 1] + cases[-1:])]
    ctx.stats["distinct_nontrivial"] = len({(h.split(" ", 1)[1] if " " in h else h, tuple(ops)) for h, ops in cases if len(ops) >= 3})
    cov = {"cases_ok": ok, "cases_bad": len(bad), "tier": ctx.tier, "props_reported": props}
    if extra_cov:
        cov.update(extra_cov)
    if not write_ev:
        return ok, bad
    vf.write_evidence(
        ctx, "proof", rule=rule,
        checker_cmd=f"make -C coq Props/{ctx.pid}.vo (coqc 8.16.1) + Print Assumptions audit; ./check {ctx.pid}",
        extra_cov=cov,
        assumptions=list(assumptions) + [
            "snapshots are taken through the public Manager/LevelView/InnerNode API; a bug in those accessors is in the trusted base",
            "value tables of handles are computed by the extracted interpreters of coq/DD/Table.v on the lifted snapshot, expected results by the extracted spec layer coq/DD/Sem.v"])
    return ok, bad


def replay_dd(ctx, path):
    import json
    binp, drv = build_dd(ctx)
    r = json.load(open(path))
    if r.get("profile") == "debug":
        binp = build_dd_debug(ctx)
    f = os.path.join(ctx.workdir, "replay.txt")
    vf.write_cases(f, [(r["case_header"], r["ops"])])
    ok, bad = vf.lockstep(ctx, binp, drv, f, tag="-replay", drv_args=r.get("drv_args", []))
    for cid, msg in bad:
        print(f"replay: case {cid}: {msg}")
        vf.report_violation(ctx, "replay:" + ";".join(r["ops"][:30]), r, nfif=False)
    if not bad:
        print("replay: no divergence")
