"""Package GCTHREAD: the background-collector protocol of the index-based manager.

Proof part: coq/Mgr/GcThread.v (interleaving model of gc_signal / gc_state / gc_ongoing / the manager lock / handle
drops), GcThreadProofs.v (invariant), GcThreadThms.v, GcThreadExamples.v; theorems C07_gcthread_* (coq/Props/C07.v:
mutual exclusion of sweeps, what a sweeping thread holds) and C05_gcthread_* (coq/Props/C05.v: trigger / wake-up /
reset conditions, the absorbing `stuck` states, the quit signal).  The model is not extracted: its two rules on
gc_state are the ones of coq/Mgr/Alloc.v (C05_gcthread_trigger_rule_alloc / _reset_rule_alloc), which the ALLOC stage
compares with the real gc_state after every get_slot_from_shared and every collector epilogue.

This stage records OBSERVATIONS on the real code (harness/src/bin/h_gcthread.rs, public API only): the witnesses of
C05_gcthread_auto_gc_resumes_refuted / _lost_wakeup / _missed_quit.  No property text demands "automatic collection resumes" or
"the collector thread terminates", so nothing here is a verdict; the numbers go into the evidence file."""
import vf


def build(ctx):
    return vf.cargo_build(["h_gcthread"])["h_gcthread"]


def _kv(out, tag):
    for l in out.split("\n"):
        if l.startswith(tag + " "):
            d = {}
            for t in l.split()[1:]:
                k, _, v = t.partition("=")
                d[k] = int(v) if v.lstrip("-").isdigit() else v
            return d
    return None


def _run(binp, args, tag):
    rc, out = vf.sh([binp] + [str(a) for a in args], timeout=120)
    d = _kv(out, tag) if rc == 0 else None
    if d is None:
        raise vf.CheckFailure(f"h_gcthread {' '.join(map(str, args))} failed (rc={rc}): {out[-400:]}")
    return d


def run_stage(ctx):
    """Runs the probes on capacity-200 managers (gc_lwm 180, gc_hwm 190); returns the observations."""
    binp = build(ctx)
    full = _run(binp, ["autogc", 200, 1000, 80], "AUTOGC")   # every node of the first fill stays referenced
    ctrl = _run(binp, ["autogc", 200, 5, 80], "AUTOGC")      # 5 stay referenced: the sweep ends below gc_lwm
    q0 = _run(binp, ["quit", 6, 0], "QUIT")                  # handle dropped right after new_manager returned
    q1 = _run(binp, ["quit", 6, 40], "QUIT")                 # ... 40 ms later
    pick = lambda d, ks: {k: d.get(k) for k in ks}
    ak = ["keep", "auto_collections_phase1", "nodes_after_phase1", "gc_count_after_explicit", "nodes_after_explicit",
          "nodes_phase3", "auto_collections_phase3", "nodes_at_end"]
    obs = {
        "gcthread_autogc_first_sweep_stays_above_lwm": pick(full, ak),
        "gcthread_autogc_first_sweep_gets_below_lwm": pick(ctrl, ak),
        "gcthread_observed_automatic_collection_off": bool(full["auto_collections_phase1"] >= 1 and full["auto_collections_phase3"] == 0
                                                          and full["nodes_after_explicit"] == 0 and full["nodes_phase3"] >= 190),
        "gcthread_observed_control_resumes": bool(ctrl["auto_collections_phase3"] >= 1),
        "gcthread_quit_dropped_at_once": pick(q0, ["managers", "collector_threads_left"]),
        "gcthread_quit_dropped_after_40ms": pick(q1, ["managers", "collector_threads_left"]),
        "gcthread_observed_missed_quit": bool(q0["collector_threads_left"] - q0.get("collector_threads_before", 0) > 0),
    }
    vf.log(f"GCTHREAD observations (not verdicts): automatic collection off after a sweep above gc_lwm: "
           f"{obs['gcthread_observed_automatic_collection_off']} (control resumes: {obs['gcthread_observed_control_resumes']}); "
           f"collector threads left after dropping {q0['managers']} managers at once: {q0['collector_threads_left']}, "
           f"after 40 ms: {q1['collector_threads_left']}")
    return obs


RULE = ("collector protocol stage (package GCTHREAD): observations on the real code, no verdicts: h_gcthread autogc (capacity 200: fill to "
        "gc_hwm with all / with 5 nodes referenced, drop all + gc(), fill again, count automatic collections via gc_count) and "
        "h_gcthread quit (6 managers dropped 0 / 40 ms after new_manager, count the threads named 'oxidd mi gc' that remain)")
