"""Package C07t: the terminal manager replay stage of checks/C05.py (sequential histories).

The cases (kinds mtbdd = MTBDD<I64> and mtbddf = MTBDD<F64>, case parameter tt=1) run on the hooks build of the
harness (h_dd, RUSTFLAGS=--cfg oxidd_verif): the events of the dynamic terminal manager of the index-based manager
(hook commit "verif hooks: terminal manager events", hooks.json: get_edge found / new / out of memory with the
value's hash, every reference count increment / decrement of a terminal, gc begin / removed id / end, iterator item)
are logged for the whole case together with the apply cache hits and the collector's phase events and replayed by
ocaml/c07_main.ml on the extracted log-level model coq/Mgr/ConcTermLog.v (ystep: the projection of the interleaving
model coq/Mgr/ConcTerm.v, theorems C07_term_log_* of coq/Props/C07.v), starting from the new manager: every
found / new decision, every count change and every removal must be the model's, and at EVERY snapshot (after every
operation) the replayed table must equal the lifted snapshot (ids; count = handles + child edges of stored nodes).
Outside parallel blocks the driver reports under prop=C05 (the same replay inside the parallel blocks of checks/C07.py
reports under C07)."""
import json
import os
import random
import vf
import ddgen
from checks import ddcommon


def build(ctx):
    from checks import C07
    pid = ctx.pid
    ctx.pid = "C07"      # (the driver of checks/C07.py: one build directory)
    try:
        drv = vf.ocaml_build(ctx, "ExC07.v", "c07_main.ml", model_vos=C07.MODEL_VOS)
    finally:
        ctx.pid = pid
    binp = vf.cargo_build(["h_dd"], hooks=True, target_sub="hooks")["h_dd"]
    return binp, drv


def _tt(h):
    return h + " tt=1"


def gen_cases(ctx):
    rng = random.Random(ctx.seed * 104729 + 57)
    thorough = ctx.tier == "thorough"
    cases = []
    n = 0
    # histories over I64 terminals (arithmetic, ite, restrict, constants, clone / drop, gc, reordering), snapshot
    # (= terminal iterator + comparison) after every operation; final drop all + gc
    for _ in range(160 if thorough else 22):
        h, ops = ddgen.mt_case_history(f"ts{n}", rng, length=rng.choice([40, 80]), threads=rng.choice([1, 1, 4])); n += 1
        cases.append((_tt(h), ops + ["SNAP", "DROPALL", "GC", "SNAP"]))
    # the same over F64 terminals
    for _ in range(60 if thorough else 8):
        h, ops = ddgen.mtf_case_history(f"tf{n}", rng, length=rng.choice([40, 80]), threads=1); n += 1
        cases.append((_tt(h), ops + ["SNAP", "DROPALL", "GC", "SNAP"]))
    # managers with 3..12 terminal slots: the free chain is replayed slot by slot (new id = head of the model's
    # chain, LIFO reuse after collections, OutOfMemory exactly when the chain is empty); gc before every op in some
    for _ in range(120 if thorough else 16):
        tcap = rng.choice([3, 4, 6, 8, 12])
        gen = ddgen.mtf_case_history if rng.random() < 0.25 else ddgen.mt_case_history
        h, ops = gen(f"tc{n}", rng, length=rng.choice([30, 60]), threads=1); n += 1
        body = []
        for o in ops[1:]:
            body.append(o)
            if o == "GC" and rng.random() < 0.5:
                vals = ddgen.MTF_VALUES if gen is ddgen.mtf_case_history else ddgen.MT_VALUES
                body.append(f"CONSTN h{20 + rng.randrange(3)} {rng.choice(vals)}")
        ops = ops[:1] + ["TFILL", "GC"] + body + ["TFILL", "GC", "SNAP"]
        cases.append((_tt(h) + f" tcap={tcap}" + (" gcall=1" if rng.random() < 0.2 else ""), ops))
    return cases


def run_cases(ctx, binp, drv, cases, tag=""):
    from concurrent.futures import ThreadPoolExecutor
    nsh = max(1, min(4, len(cases)))
    shards = [cases[i::nsh] for i in range(nsh)]

    def one(k):
        f = os.path.join(ctx.workdir, f"term-cases{tag}-{k}.txt")
        vf.write_cases(f, shards[k])
        impl = os.path.join(ctx.workdir, f"term-impl{tag}-{k}.txt")
        restarts = vf.run_impl(binp, f, impl, timeout=1800, env={"VERIF_HANG_MS": os.environ.get("VERIF_HANG_MS", "40000")})
        ok, bad, st = vf.run_driver(drv, impl, os.path.join(ctx.workdir, f"term-v{tag}-{k}.txt"))
        return ok, bad, st, restarts, impl

    res = {"ok": 0, "bad": [], "stats": {}, "impl": {}}
    with ThreadPoolExecutor(max_workers=nsh) as ex:
        for ok, bad, st, restarts, impl in ex.map(one, range(nsh)):
            res["ok"] += ok
            res["bad"] += bad
            for cid, _ in bad:
                res["impl"][cid] = impl
            for k, v in st.items():
                res["stats"][k] = res["stats"].get(k, 0) + v
            res["stats"]["restarts"] = res["stats"].get("restarts", 0) + restarts
    return res


def run_partial(ctx, binp, drv, case, tag=""):
    """A case in which the process died (e.g. the overflow guard of `retain` aborts once a count was driven below
    zero): the case is run alone and the lines written before the abort are replayed: the first refused event is
    the verdict.  Returns the verdict message or None."""
    import subprocess
    f = os.path.join(ctx.workdir, f"term-partial{tag}.txt")
    vf.write_cases(f, [case])
    try:
        p = subprocess.run([binp, "run", f], stdout=subprocess.PIPE, stderr=subprocess.DEVNULL, timeout=600,
                           env={**os.environ, "VERIF_HANG_MS": "40000"})
    except Exception:
        return None
    lines = p.stdout.decode("utf-8", "replace").split("\n")
    if lines and not lines[-1].endswith("END"):
        lines = lines[:-1]      # (possibly cut in the middle)
    if not lines or not lines[0].startswith("CASE "):
        return None
    if lines[-1] != "END":
        lines.append("END")
    impl = f + ".impl"
    open(impl, "w").write("\n".join(lines) + "\n")
    _ok, bad, _st = vf.run_driver(drv, impl, f + ".verdicts")
    for _c, m in bad:
        if "kind=prop" in m:
            return m + " [replay of the lines written before the process died]"
    return None


def _events_of(impl_file, cid, limit=400):
    try:
        for h, lines in vf.parse_cases(open(impl_file).read()):
            if h.split()[0] == cid:
                return [l for l in lines if l.startswith("EV T") or not l.startswith(("EV ", "SNAP"))][:limit]
    except OSError:
        pass
    return []


def shrink(ctx, binp, drv, header, ops, budget=40):
    """ddmin over the op lines (the histories are sequential: a candidate is kept iff the replay reports a
    kind=prop violation again)"""
    tmp = os.path.join(ctx.workdir, "term-shrink.txt")

    def bad(cand):
        vf.write_cases(tmp, [(header, cand)])
        try:
            vf.run_impl(binp, tmp, tmp + ".impl", timeout=600, env={"VERIF_HANG_MS": "20000"})
            _ok, bads, _st = vf.run_driver(drv, tmp + ".impl", tmp + ".verdicts")
        except Exception:
            return None
        for _c, m in bads:
            if "kind=prop" in m and not vf.RESOURCE_RE.search(m):
                if "CRASH" in m:
                    return run_partial(ctx, binp, drv, (header, cand), tag="-shrink") or m
                return m
        return None

    cur = list(ops)
    cur_msg = bad(cur)
    if cur_msg is None:
        return ops, None
    n, runs = 2, 0
    while len(cur) >= 2 and runs < budget:
        chunk = max(1, len(cur) // n)
        reduced = False
        i = 0
        while i < len(cur) and runs < budget:
            cand = [o for j, o in enumerate(cur) if not (i <= j < i + chunk) or o.startswith("VARS")]
            if len(cand) == len(cur):
                i += chunk
                continue
            runs += 1
            m = bad(cand)
            if m is not None:
                cur, cur_msg = cand, m
                n = max(n - 1, 2)
                reduced = True
            else:
                i += chunk
        if not reduced:
            if chunk == 1:
                break
            n = min(n * 2, len(cur))
    return cur, cur_msg


def run_stage(ctx):
    """Runs the family; reports violations; returns the statistics for the evidence file."""
    binp, drv = build(ctx)
    cases = gen_cases(ctx)
    by_id = {h.split()[0]: (h, ops) for h, ops in cases}
    res = run_cases(ctx, binp, drv, cases)
    st = res["stats"]
    nt = lambda k: int(st.get(k, 0))
    # cases in which the process died: replay what was written before
    crashed = [(cid, m) for cid, m in res["bad"] if "implementation panicked/aborted/hung: CRASH" in m]
    for cid, m in crashed[:3]:
        pm = run_partial(ctx, binp, drv, by_id[cid], tag="-" + cid)
        if pm is not None:
            res["bad"] = [(c, (pm if c == cid else mm)) for c, mm in res["bad"]]
            ctx.add_stat("term_crashed_cases_replayed_up_to_the_abort", 1)
    # the tie is vacuous if the build logs nothing (hook commit missing / flag not passed): machinery failure
    if not any("kind=prop" in m for _, m in res["bad"]):
        for key, what in (("ev_term_get_new", "get_edge (new)"), ("ev_term_retain", "reference count increment"), ("ev_term_release", "reference count decrement"),
                          ("ev_term_gc", "terminal collection"), ("ev_term_iter", "terminal iterator"), ("chk_term_replay_vs_snapshot", "snapshot comparison")):
            if nt(key) == 0:
                raise vf.CheckFailure(f"the hooks build logged no {what} events of the terminal manager: the cfg(oxidd_verif) terminal manager hooks of /repo (hooks.json) are missing or inactive")
    if any(vf.RESOURCE_RE.search(m) for _, m in res["bad"]):
        raise vf.CheckFailure("operating-system resources exhausted (threads / memory) while running the terminal replay cases; not a verdict")
    seen = set()
    for cid, msg in sorted(res["bad"], key=lambda b: 0 if "kind=prop" in b[1] else 1):
        cls = ddcommon.msg_class(msg)
        if cls in seen or len(seen) >= 3:
            continue
        seen.add(cls)
        header, ops = by_id[cid]
        kind = "prop" if "kind=prop" in msg else "corr"
        unshrunk = len(ops)
        events = _events_of(res["impl"].get(cid, ""), cid)
        if kind == "prop":
            try:
                sh_ops, sh_msg = shrink(ctx, binp, drv, header, ops)
                if sh_msg is not None and len(sh_ops) < len(ops):
                    ops, msg = sh_ops, sh_msg
            except Exception as e:      # shrinking is best effort
                vf.log(f"shrinking case {cid} failed: {e}")
        hk = " ".join(t for t in header.split()[1:] if t.split("=")[0] in ("kind", "threads", "tcap", "gcall", "cache"))
        body = ";".join(ops) if len(ops) <= 30 else f"case-{cid}"
        vf.report_violation(
            ctx, f"{kind}:{cls[0]}:{cls[1]}:{hk}:term-stage:{body}",
            {"stage": "correspondence", "kind": kind, "driver": "term", "case_header": header, "ops": ops, "ops_before_shrinking": unshrunk, "verdict": msg,
             "build": "h_dd, RUSTFLAGS=--cfg oxidd_verif (terminal manager hooks), case parameter tt=1",
             "logged_terminal_events_and_operations_of_the_failing_run": events,
             "replay_cmd": f"./check {ctx.pid} --replay <this file>",
             "theorem_or_relation": "coq/Mgr/ConcTermLog.v ystep (extracted) replayed on the logged terminal manager events by ocaml/c07_main.ml; theorems C07_term_log_sim / _trace_sim / _inv / _match_lift (coq/Props/C07.v); sequential model of the same code: coq/Mgr/Terminals.v (C05_term_*)"},
            nfif=(kind != "prop"))
    for k, v in st.items():
        ctx.add_stat("term_" + k, v)
    return {
        "term_stage_cases": len(cases), "term_stage_cases_ok": res["ok"], "term_stage_cases_bad": len(res["bad"]),
        "term_stage_events_replayed": {k: nt("ev_term_" + k) for k in ("get_found", "get_new", "get_oom", "retain", "retain_announced", "release", "gc", "removed", "iter", "hit_value_edges")},
        "term_stage_snapshots_compared": nt("chk_term_replay_vs_snapshot"), "term_stage_terminal_counts_compared": nt("term_replay_terminals_compared"),
        "term_stage_counted_edges_compared": nt("term_replay_counted_edges_compared"), "term_stage_invariant_evaluations": nt("chk_term_replay_invariant"),
    }


RULE = ("terminal manager replay stage (package C07t, hooks build, tt=1): 22 (thorough 160) histories over I64 terminals and 8 (60) over F64 "
        "terminals (value tables, constants, arithmetic, ite, restrict, clone, drop, gc, reordering; snapshot = terminal iterator + table "
        "comparison after every operation; final drop all + gc), 16 (120) managers with 3..12 terminal slots framed by the terminal "
        "capacity probe (free chain replayed slot by slot, OutOfMemory exactly when the model's chain is empty; gc before every op in a fifth)")


def replay(ctx, r):
    binp, drv = build(ctx)
    res = run_cases(ctx, binp, drv, [(r["case_header"], r["ops"])], tag="-replay")
    for cid, msg in res["bad"]:
        print(f"replay: case {cid}: {msg}")
    if res["bad"]:
        vf.report_violation(ctx, "replay:" + r.get("signature", ""), r, nfif=False)
    else:
        print("replay: no divergence")
