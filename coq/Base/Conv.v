(** Anchor for the OCaml drivers: forces [positive], [N], [Z] and [nat] into
    every extracted model so that the shared conversion code type-checks. *)
From Coq Require Import NArith ZArith.
Definition conv_anchor : positive * N * Z * nat := (1%positive, 0%N, 0%Z, 0).
