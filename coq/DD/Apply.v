(** * The recursive apply algorithms of the plain BDD kind

    Executable definitions only (proofs: DD/ApplyProofs.v).  Mirrors
    oxidd-rules-bdd/src/simple/mod.rs ([terminal_bin], [BDDOp]) and
    oxidd-rules-bdd/src/simple/apply_rec.rs ([apply_not], [apply_bin],
    [apply_ite], [var_edge]/[not_var_edge], [eval_edge], [cofactors_edge]).

    BDD edges carry no tag, so the algorithms work on references ([ref]);
    the node store is a [snap] and nodes are created by [mk_node]
    (DD/Build.v).  Recursion is on explicit fuel, [None] = fuel exhausted or
    one of the code's [unwrap]s would panic (missing terminal, dangling
    reference).  [S (nlevels s)] is always enough fuel (proved).

    The apply cache is abstract: any type [C] with a lookup [cget] and an
    insertion [cadd], keyed by (operator code, operand list).  It is
    consulted and extended exactly where the code calls
    [apply_cache().get] / [apply_cache().add].  Instances: the unbounded
    association list below, the direct-mapped cache of DD/Cache.v, the cache
    that never stores anything.

    The code orders the operands of commutative operators by comparing edges
    (addresses / indices, [f > g]).  That order is not observable, so it is
    a parameter [gt] here; the theorems hold for every [gt]. *)

From Coq Require Import List NArith PArith Bool Arith FMapPositive.
From OxiVerif Require Import DD.Table DD.Sem DD.Build.
Import ListNotations.

(** value code of a Boolean terminal ([BDDTerminal::False] = 0, [True] = 1) *)
Definition b2c (b : bool) : N := if b then 1%N else 0%N.

(** [BDDOp as u8] *)
Definition op_code (o : bop) : N :=
  match o with
  | OAnd => 1 | OOr => 2 | ONand => 3 | ONor => 4
  | OXor => 5 | OEquiv => 6 | OImp => 7 | OImpStrict => 8
  end%N.
Definition code_not : N := 0%N.
Definition code_ite : N := 9%N.

(** [Manager::get_node]: inner node or Boolean terminal; [None] = the
    reference is a terminal id the manager does not have, or its value is
    not a [BDDTerminal] *)
Inductive nview := VI | VT (b : bool).

Definition view (s : snap) (r : ref) : option nview :=
  match r with
  | RN _ => Some VI
  | RT t =>
    match term_val s t with
    | Some 0%N => Some (VT false)
    | Some 1%N => Some (VT true)
    | _ => None
    end
  end.

Fixpoint rassoc_N (l : list (N * N)) (v : N) : option N :=
  match l with
  | [] => None
  | (a, b) :: r => if N.eqb b v then Some a else rassoc_N r v
  end.

(** [Manager::get_terminal] *)
Definition term_of (s : snap) (b : bool) : option N := rassoc_N (s_terms s) (b2c b).

(** [Operation] of simple/mod.rs; [TFail] = [get_terminal(..).unwrap()] panics *)
Inductive tb_res :=
| TDone (r : ref)
| TNot (r : ref)
| TBin (o : bop) (a b : ref)
| TFail.

Definition get_term (s : snap) (b : bool) : tb_res :=
  match term_of s b with Some t => TDone (RT t) | None => TFail end.

Section Gt.
(** the (unobservable) edge order used to normalise commutative operand pairs *)
Variable gt : ref -> ref -> bool.

(** [terminal_bin::<OP>] case by case; [vf], [vg] are [get_node(f)], [get_node(g)] *)
Definition tb (s : snap) (op : bop) (f g : ref) (vf vg : nview) : tb_res :=
  match op with
  | OAnd =>
    if ref_eqb f g then TDone f else
    match vf, vg with
    | VI, VI => if gt f g then TBin OAnd g f else TBin OAnd f g
    | VT false, _ | _, VT false => get_term s false
    | VT _, _ => TDone g
    | _, VT _ => TDone f
    end
  | OOr =>
    if ref_eqb f g then TDone f else
    match vf, vg with
    | VI, VI => if gt f g then TBin OOr g f else TBin OOr f g
    | VT true, _ | _, VT true => get_term s true
    | VT _, _ => TDone g
    | _, VT _ => TDone f
    end
  | ONand =>
    if ref_eqb f g then TNot f else
    match vf, vg with
    | VI, VI => if gt f g then TBin ONand g f else TBin ONand f g
    | VT false, _ | _, VT false => get_term s true
    | VT _, _ => TNot g
    | _, VT _ => TNot f
    end
  | ONor =>
    if ref_eqb f g then TNot f else
    match vf, vg with
    | VI, VI => if gt f g then TBin ONor g f else TBin ONor f g
    | VT true, _ | _, VT true => get_term s false
    | VT _, _ => TNot g
    | _, VT _ => TNot f
    end
  | OXor =>
    if ref_eqb f g then get_term s false else
    match vf, vg with
    | VI, VI => if gt f g then TBin OXor g f else TBin OXor f g
    | VT false, _ => TDone g
    | _, VT false => TDone f
    | VT _, _ => TNot g
    | _, VT _ => TNot f
    end
  | OEquiv =>
    if ref_eqb f g then get_term s true else
    match vf, vg with
    | VI, VI => if gt f g then TBin OEquiv g f else TBin OEquiv f g
    | VT true, _ => TDone g
    | _, VT true => TDone f
    | VT _, _ => TNot g
    | _, VT _ => TNot f
    end
  | OImp =>
    if ref_eqb f g then get_term s true else
    match vf, vg with
    | VI, VI => TBin OImp f g
    | VT false, _ => get_term s true
    | _, VT true => get_term s true
    | VT _, _ => TDone g
    | _, VT _ => TNot f
    end
  | OImpStrict =>
    if ref_eqb f g then get_term s false else
    match vf, vg with
    | VI, VI => TBin OImpStrict f g
    | VT true, _ => get_term s false
    | _, VT false => get_term s false
    | VT _, _ => TDone g
    | _, VT _ => TNot f
    end
  end.

Definition terminal_bin (s : snap) (op : bop) (f g : ref) : tb_res :=
  match view s f, view s g with
  | Some vf, Some vg => tb s op f g vf vg
  | _, _ => TFail
  end.

(** [get_node(..).unwrap_inner()] *)
Definition inner (s : snap) (r : ref) : option node :=
  match r with RN id => find_node s id | RT _ => None end.

(** the cofactor pair used by the recursion: the children when the node is
    at the top-most level [lvl], the edge itself otherwise ([node.level()]
    reads the level stored in the node) *)
Definition cof2 (r : ref) (nd : node) (lvl : nat) : option (ref * ref) :=
  if Nat.eqb (nstored nd) lvl then
    match nchildren nd with
    | [t; e] => Some (eref t, eref e)
    | _ => None
    end
  else Some (r, r).

Section Cache.
Variable C : Type.
Variable cget : C -> N -> list ref -> option ref.
Variable cadd : C -> N -> list ref -> ref -> C.

(** [apply_not] *)
Fixpoint apply_not (fuel : nat) (s : snap) (c : C) (f : ref) : option (snap * C * ref) :=
  match fuel with
  | O => None
  | S n =>
    match f with
    | RT _ =>
      match view s f with
      | Some (VT b) =>
        match term_of s (negb b) with Some t => Some (s, c, RT t) | None => None end
      | _ => None
      end
    | RN id =>
      match find_node s id with
      | None => None
      | Some nd =>
        match cget c code_not [f] with
        | Some h => Some (s, c, h)
        | None =>
          match nchildren nd with
          | [ft; fe] =>
            match apply_not n s c (eref ft) with
            | None => None
            | Some (s1, c1, t) =>
              match apply_not n s1 c1 (eref fe) with
              | None => None
              | Some (s2, c2, e) =>
                let '(s3, h) := mk_node s2 (nstored nd) [E t; E e] in
                Some (s3, cadd c2 code_not [f] (eref h), eref h)
              end
            end
          | _ => None
          end
        end
      end
    end
  end.

(** [apply_bin::<OP>] *)
Fixpoint apply_bin (fuel : nat) (s : snap) (c : C) (op : bop) (f g : ref)
  : option (snap * C * ref) :=
  match fuel with
  | O => None
  | S n =>
    match terminal_bin s op f g with
    | TFail => None
    | TDone h => Some (s, c, h)
    | TNot r => apply_not fuel s c r
    | TBin o a b =>
      match cget c (op_code o) [a; b] with
      | Some h => Some (s, c, h)
      | None =>
        match inner s f, inner s g with
        | Some fnode, Some gnode =>
          let lvl := Nat.min (nstored fnode) (nstored gnode) in
          match cof2 f fnode lvl, cof2 g gnode lvl with
          | Some (ft, fe), Some (gt', ge) =>
            match apply_bin n s c op ft gt' with
            | None => None
            | Some (s1, c1, t) =>
              match apply_bin n s1 c1 op fe ge with
              | None => None
              | Some (s2, c2, e) =>
                let '(s3, h) := mk_node s2 lvl [E t; E e] in
                Some (s3, cadd c2 (op_code o) [a; b] (eref h), eref h)
              end
            end
          | _, _ => None
          end
        | _, _ => None
        end
      end
    end
  end.

(** [apply_ite] with its terminal short-cuts *)
Fixpoint apply_ite (fuel : nat) (s : snap) (c : C) (f g h : ref)
  : option (snap * C * ref) :=
  match fuel with
  | O => None
  | S n =>
    if ref_eqb g h then Some (s, c, g)
    else if ref_eqb f g then apply_bin fuel s c OOr f h
    else if ref_eqb f h then apply_bin fuel s c OAnd f g
    else
      match view s f with
      | None => None
      | Some (VT b) => Some (s, c, if b then g else h)
      | Some VI =>
        match view s g, view s h with
        | Some (VT true), Some VI => apply_bin fuel s c OOr f h
        | Some (VT false), Some VI => apply_bin fuel s c OImpStrict f h
        | Some VI, Some (VT true) => apply_bin fuel s c OImp f g
        | Some VI, Some (VT false) => apply_bin fuel s c OAnd f g
        | Some (VT false), Some (VT _) => apply_not fuel s c f
        | Some (VT true), Some (VT _) => Some (s, c, f)
        | Some VI, Some VI =>
          match cget c code_ite [f; g; h] with
          | Some r => Some (s, c, r)
          | None =>
            match inner s f, inner s g, inner s h with
            | Some fnode, Some gnode, Some hnode =>
              let lvl := Nat.min (Nat.min (nstored fnode) (nstored gnode)) (nstored hnode) in
              match cof2 f fnode lvl, cof2 g gnode lvl, cof2 h hnode lvl with
              | Some (ft, fe), Some (gt', ge), Some (ht, he) =>
                match apply_ite n s c ft gt' ht with
                | None => None
                | Some (s1, c1, t) =>
                  match apply_ite n s1 c1 fe ge he with
                  | None => None
                  | Some (s2, c2, e) =>
                    let '(s3, r) := mk_node s2 lvl [E t; E e] in
                    Some (s3, cadd c2 code_ite [f; g; h] (eref r), eref r)
                  end
                end
              | _, _, _ => None
              end
            | _, _, _ => None
            end
          end
        | _, _ => None
        end
      end
  end.

End Cache.
End Gt.

(** ** Constants and variables *)

(** [f_edge] / [t_edge] *)
Definition mk_const (s : snap) (b : bool) : option ref :=
  match term_of s b with Some t => Some (RT t) | None => None end.

(** [var_edge] ([neg = false]) and [not_var_edge] ([neg = true]) *)
Definition mk_var (s : snap) (v : nat) (neg : bool) : option (snap * ref) :=
  match nth_error (s_v2l s) v, term_of s true, term_of s false with
  | Some lvl, Some t1, Some t0 =>
    let ch := if neg then [E (RT t0); E (RT t1)] else [E (RT t1); E (RT t0)] in
    let '(s', e) := get_or_insert s lvl ch in
    Some (s', eref e)
  | _, _, _ => None
  end.

(** ** Evaluation and cofactors *)

(** the inner loop of [eval_edge]: [choices l = true] = take child 1 (the
    variable at level [l] is false) *)
Fixpoint eval_walk (fuel : nat) (s : snap) (r : ref) (choices : nat -> bool) : option bool :=
  match r with
  | RT t => match term_val s t with Some v => Some (N.eqb v 1) | None => None end
  | RN id =>
    match fuel with
    | O => None
    | S n =>
      match find_node s id with
      | None => None
      | Some nd =>
        match nth_error (nchildren nd) (if choices (nstored nd) then 1 else 0) with
        | None => None
        | Some e => eval_walk n s (eref e) choices
        end
      end
    end
  end.

(** the bit set [eval_edge] builds from its argument list: initially all
    clear, then [choices.set(var_to_level(var), !val)] in list order *)
Fixpoint choices_of (s : snap) (args : list (nat * bool)) (acc : nat -> bool) : nat -> bool :=
  match args with
  | [] => acc
  | (v, b) :: r =>
    match nth_error (s_v2l s) v with
    | Some lvl => choices_of s r (fun l => if Nat.eqb l lvl then negb b else acc l)
    | None => choices_of s r acc      (* var_to_level panics; excluded by the theorem *)
    end
  end.

Definition eval_edge (s : snap) (r : ref) (args : list (nat * bool)) : option bool :=
  eval_walk (S (nlevels s)) s r (choices_of s args (fun _ => false)).

(** [cofactors_edge]: the children of the root node, [None] for terminals *)
Definition cofactors (s : snap) (r : ref) : option (ref * ref) :=
  match r with
  | RT _ => None
  | RN id =>
    match find_node s id with
    | Some nd =>
      match nchildren nd with
      | [t; e] => Some (eref t, eref e)
      | _ => None
      end
    | None => None
    end
  end.

(** ** The invariant the theorems assume, as a checker for real snapshots *)

(** a well-formed BDD table that has both Boolean terminals and no others *)
Definition bdd_ok_b (s : snap) : bool :=
  wf_b s && kind_eqb (s_kind s) KBdd
  && forallb (fun p : N * N => N.leb (snd p) 1) (s_terms s)
  && existsb (fun p : N * N => N.eqb (snd p) 0) (s_terms s)
  && existsb (fun p : N * N => N.eqb (snd p) 1) (s_terms s).

(** ** A cache instance: unbounded association list *)

Definition acache := list (N * list ref * ref).

Fixpoint refs_eqb (a b : list ref) : bool :=
  match a, b with
  | [], [] => true
  | x :: r, y :: s => ref_eqb x y && refs_eqb r s
  | _, _ => false
  end.

Fixpoint ac_get (c : acache) (code : N) (args : list ref) : option ref :=
  match c with
  | [] => None
  | (k, a, r) :: rest =>
    if N.eqb k code && refs_eqb a args then Some r else ac_get rest code args
  end.

Definition ac_add (c : acache) (code : N) (args : list ref) (r : ref) : acache :=
  (code, args, r) :: c.

(** the cache that never remembers anything *)
Definition nc_get (c : unit) (code : N) (args : list ref) : option ref := None.
Definition nc_add (c : unit) (code : N) (args : list ref) (r : ref) : unit := tt.
