(** * The recursive apply algorithms of the complement-edge BDD kind (BCDD)

    Executable definitions only (proofs: DD/ApplyBcddProofs.v,
    DD/ApplyBcddIte.v, DD/ApplyBcddEval.v).  Mirrors

    - oxidd-rules-bdd/src/complement_edge/mod.rs: [not]/[not_owned] ([enot]),
      [get_terminal] ([cget_terminal]), [reduce] ([cmk_node]),
      [BCDDRules::cofactors]/[cofactor]/[collect_cofactors] ([ccofs], [retag]), [terminal_and] ([cterminal_and]), [terminal_xor]
      ([cterminal_xor]), [BCDDOp as u8] ([cop_code], [ccode_ite]);
    - oxidd-rules-bdd/src/complement_edge/apply_rec.rs: [apply_bin::<OP>]
      ([capply_bin], [cbin_step]), [apply_ite] ([capply_ite], [cite_step]),
      the [BooleanFunction] implementation of [BCDDFunction]: [not_edge],
      [and_edge], [or_edge], [nand_edge], [nor_edge], [xor_edge], [equiv_edge],
      [imp_edge], [imp_strict_edge] ([capply_not], [capply_op]), [ite_edge],
      [var_edge] and the default [not_var_edge] of oxidd-core ([cmk_var]),
      [f_edge]/[t_edge] ([cmk_const]), [eval_edge] with its complement parity
      ([ceval_walk], [ceval_edge]), and the default [cofactors_edge] of
      oxidd-core/src/function.rs ([ccofactors]).

    A BCDD edge is a reference plus a complement tag ([edge] of DD/Table.v);
    the single terminal means true, a tagged edge to it means false.  The
    node store is a [snap]; nodes are inserted with [get_or_insert]
    (DD/Build.v), the terminal is looked up with [bc_term_id].  Recursion
    is on explicit fuel; [None] = fuel exhausted or one of the code's
    [unwrap]s / [get_node]s would fail (missing terminal, dangling reference,
    node without two children).  [S (nlevels s)] is always enough fuel
    (proved).

    The apply cache is abstract as in DD/Apply.v: any type [C] with a lookup
    [cget] and an insertion [cadd], keyed by (operator code, operand edge
    list); it is consulted and extended exactly where the code calls
    [apply_cache().get] / [apply_cache().add], with the operands in the order
    the code uses there (after the swap for [f >= g]).

    The code orders the two operands of [apply_bin] by comparing edges
    ([f < g]: address/index, then tag).  That order is not observable, so it
    is a parameter [lt] here; the theorems hold for every [lt]. *)

From Coq Require Import List NArith PArith Bool Arith FMapPositive.
From OxiVerif Require Import DD.Table DD.Sem DD.Build DD.Apply.
Import ListNotations.

(** the definitions of this file are self-contained (DD/Pick.v has the same
    [retag] / terminal lookup for cube picking; that development is
    independent of this one) *)

(** [Manager::get_terminal(BCDDTerminal)]: the id of the single terminal *)
Definition bc_term_id (s : snap) : option N :=
  match s_terms s with
  | (t, _) :: _ => Some t
  | [] => None
  end.

(** [cofactor(tag, node, n)]: the child with the incoming tag xor-ed onto it *)
Definition retag (tag : bool) (e : edge) : edge := mkEdge (eref e) (xorb tag (etag e)).

(** [not(e)] / [not_owned(e)]: flip the complement tag *)
Definition enot (e : edge) : edge := mkEdge (eref e) (negb (etag e)).

(** [e.with_tag(EdgeTag::None)] *)
Definition untag (e : edge) : edge := mkEdge (eref e) false.

(** [get_terminal(manager, val)]: [manager.get_terminal(BCDDTerminal).unwrap()],
    complemented for [val = false] *)
Definition cget_terminal (s : snap) (b : bool) : option edge :=
  match bc_term_id s with
  | Some t => Some (mkEdge (RT t) (negb b))
  | None => None
  end.

(** [reduce(manager, level, t, e, op)]: equal children -> that child; else
    the node is stored with an untagged then-edge, a complemented then-edge
    is moved to the else-edge and to the returned edge *)
Definition cmk_node (s : snap) (lvl : nat) (t e : edge) : snap * edge :=
  if edge_eqb t e then (s, t)
  else if etag t then
    let '(s', r) := get_or_insert s lvl [untag t; enot e] in (s', mkEdge (eref r) true)
  else
    let '(s', r) := get_or_insert s lvl [t; e] in (s', mkEdge (eref r) false).

(** [manager.get_node(e)]: inner node or the terminal; [None] = dangling *)
Inductive cnview := NVI (nd : node) | NVT.

Definition cnode (s : snap) (e : edge) : option cnview :=
  match eref e with
  | RN id => match find_node s id with Some nd => Some (NVI nd) | None => None end
  | RT t => match term_val s t with Some _ => Some NVT | None => None end
  end.

(** [NodesOrDone]; [KFail] = an [unwrap] fails *)
Inductive kres := KDone (e : edge) | KNodes (fnode gnode : node) | KFail.

Definition kterm (s : snap) (b : bool) : kres :=
  match cget_terminal s b with Some e => KDone e | None => KFail end.

(** [terminal_and] *)
Definition cterminal_and (s : snap) (f g : edge) : kres :=
  if ref_eqb (eref f) (eref g) then
    if Bool.eqb (etag f) (etag g) then KDone g else kterm s false
  else
    match cnode s f, cnode s g with
    | Some (NVI fnode), Some (NVI gnode) => KNodes fnode gnode
    | Some (NVI _), Some NVT => if etag g then kterm s false else KDone f
    | Some NVT, Some (NVI _) => if etag f then kterm s false else KDone g
    | Some NVT, Some NVT => kterm s (negb (etag f) && negb (etag g))
    | _, _ => KFail
    end.

(** [terminal_xor] *)
Definition cterminal_xor (s : snap) (f g : edge) : kres :=
  if ref_eqb (eref f) (eref g) then kterm s (negb (Bool.eqb (etag f) (etag g)))
  else
    match cnode s f, cnode s g with
    | Some (NVI fnode), Some (NVI gnode) => KNodes fnode gnode
    | Some (NVI _), Some NVT => KDone (if etag g then f else enot f)
    | Some NVT, Some (NVI _) => KDone (if etag f then g else enot g)
    | Some NVT, Some NVT => kterm s (negb (Bool.eqb (etag f) (etag g)))
    | _, _ => KFail
    end.

(** the two operators [apply_bin] is instantiated with *)
Inductive cop := CAnd | CXor.

Definition ceval (o : cop) (x y : bool) : bool :=
  match o with CAnd => x && y | CXor => xorb x y end.

(** [BCDDOp as u8] *)
Definition cop_code (o : cop) : N := match o with CAnd => 0%N | CXor => 1%N end.
Definition ccode_ite : N := 2%N.

Definition cterminal (s : snap) (o : cop) (f g : edge) : kres :=
  match o with CAnd => cterminal_and s f g | CXor => cterminal_xor s f g end.

(** [collect_cofactors(tag, node)]: the children with the incoming tag
    pushed onto them *)
Definition ccofs (tag : bool) (nd : node) : option (edge * edge) :=
  match nchildren nd with
  | [t; x] => Some (retag tag t, retag tag x)
  | _ => None
  end.

(** the cofactor pair used by the recursion: [collect_cofactors] when the
    node is at the top-most level [lvl], the edge itself otherwise
    ([node.level()] reads the level stored in the node) *)
Definition ccof2 (e : edge) (nd : node) (lvl : nat) : option (edge * edge) :=
  if Nat.eqb (nstored nd) lvl then ccofs (etag e) nd else Some (e, e).

Section Lt.
(** the (unobservable) edge order [f < g] *)
Variable lt : edge -> edge -> bool.

Section Cache.
Variable C : Type.
Variable cget : C -> N -> list edge -> option edge.
Variable cadd : C -> N -> list edge -> edge -> C.

Definition cres : Type := option (snap * C * edge).

(** the part of [apply_bin] after the terminal cases and the operand
    ordering: cache lookup, Shannon expansion at the top-most level, [reduce],
    cache insertion.  [rec] is [apply_bin::<OP>] itself ([rec.binary] of the
    sequential recursor: then-branch first). *)
Definition cbin_step (rec : snap -> C -> edge -> edge -> cres)
    (s : snap) (c : C) (op : cop) (f : edge) (fnode : node) (g : edge) (gnode : node) : cres :=
  match cget c (cop_code op) [f; g] with
  | Some h => Some (s, c, h)
  | None =>
    let lvl := Nat.min (nstored fnode) (nstored gnode) in
    match ccof2 f fnode lvl, ccof2 g gnode lvl with
    | Some (ft, fe), Some (gt, ge) =>
      match rec s c ft gt with
      | None => None
      | Some (s1, c1, t) =>
        match rec s1 c1 fe ge with
        | None => None
        | Some (s2, c2, e) =>
          let '(s3, h) := cmk_node s2 lvl t e in
          Some (s3, cadd c2 (cop_code op) [f; g] h, h)
        end
      end
    | _, _ => None
    end
  end.

(** [apply_bin::<OP>] for [OP = And] and [OP = Xor] *)
Fixpoint capply_bin (fuel : nat) (s : snap) (c : C) (op : cop) (f g : edge) : cres :=
  match fuel with
  | O => None
  | S n =>
    match cterminal s op f g with
    | KFail => None
    | KDone h => Some (s, c, h)
    | KNodes fnode gnode =>
      (* [Nodes(fnode, gnode) if f < g => (f, fnode, g, gnode)], otherwise swapped *)
      if lt f g then cbin_step (fun s' c' f' g' => capply_bin n s' c' op f' g') s c op f fnode g gnode
      else cbin_step (fun s' c' f' g' => capply_bin n s' c' op f' g') s c op g gnode f fnode
    end
  end.

(** [Ok(not_owned(r?))] *)
Definition onot (r : cres) : cres :=
  match r with
  | Some (s, c, e) => Some (s, c, enot e)
  | None => None
  end.

(** [not_edge]: no recursion, the tag is flipped *)
Definition capply_not (s : snap) (c : C) (f : edge) : cres := Some (s, c, enot f).

(** the eight binary operators of [BooleanFunction for BCDDFunction], derived
    from [apply_and] / [apply_bin::<Xor>] and tag flips exactly as there:
    [or = not nor], [nor f g = and (not f) (not g)], [nand = not and],
    [equiv = not xor], [imp f g = not (and f (not g))],
    [imp_strict f g = and (not f) g] *)
Definition capply_op (fuel : nat) (s : snap) (c : C) (o : bop) (f g : edge) : cres :=
  match o with
  | OAnd => capply_bin fuel s c CAnd f g
  | OOr => onot (capply_bin fuel s c CAnd (enot f) (enot g))
  | ONand => onot (capply_bin fuel s c CAnd f g)
  | ONor => capply_bin fuel s c CAnd (enot f) (enot g)
  | OXor => capply_bin fuel s c CXor f g
  | OEquiv => onot (capply_bin fuel s c CXor f g)
  | OImp => onot (capply_bin fuel s c CAnd f (enot g))
  | OImpStrict => capply_bin fuel s c CAnd (enot f) g
  end.

(** the part of [apply_ite] after its terminal cases *)
Definition cite_step (rec : snap -> C -> edge -> edge -> edge -> cres)
    (s : snap) (c : C) (f : edge) (fnode : node) (g : edge) (gnode : node) (h : edge) (hnode : node)
  : cres :=
  match cget c ccode_ite [f; g; h] with
  | Some r => Some (s, c, r)
  | None =>
    let lvl := Nat.min (Nat.min (nstored fnode) (nstored gnode)) (nstored hnode) in
    match ccof2 f fnode lvl, ccof2 g gnode lvl, ccof2 h hnode lvl with
    | Some (ft, fe), Some (gt, ge), Some (ht, he) =>
      match rec s c ft gt ht with
      | None => None
      | Some (s1, c1, t) =>
        match rec s1 c1 fe ge he with
        | None => None
        | Some (s2, c2, e) =>
          let '(s3, r) := cmk_node s2 lvl t e in
          Some (s3, cadd c2 ccode_ite [f; g; h] r, r)
        end
      end
    | _, _, _ => None
    end
  end.

(** [apply_ite] with its terminal cases, in the order of the code *)
Fixpoint capply_ite (fuel : nat) (s : snap) (c : C) (f g h : edge) : cres :=
  match fuel with
  | O => None
  | S n =>
    if ref_eqb (eref g) (eref h) then                       (* gu == hu *)
      if Bool.eqb (etag g) (etag h) then Some (s, c, g)
      else onot (capply_bin fuel s c CXor f g)              (* f <-> g *)
    else if ref_eqb (eref f) (eref g) then                  (* fu == gu *)
      if Bool.eqb (etag f) (etag g) then onot (capply_bin fuel s c CAnd (enot f) (enot h))  (* f \/ h *)
      else capply_bin fuel s c CAnd (enot f) h              (* f < h *)
    else if ref_eqb (eref f) (eref h) then                  (* fu == hu *)
      if Bool.eqb (etag f) (etag h) then capply_bin fuel s c CAnd f g
      else onot (capply_bin fuel s c CAnd f (enot g))       (* f -> g *)
    else
      match cnode s f with
      | None => None
      | Some NVT => Some (s, c, if etag f then h else g)
      | Some (NVI fnode) =>
        match cnode s g, cnode s h with
        | Some (NVI gnode), Some (NVI hnode) =>
          cite_step (fun s' c' f' g' h' => capply_ite n s' c' f' g' h') s c f fnode g gnode h hnode
        | Some NVT, Some (NVI _) =>
          if etag g then capply_bin fuel s c CAnd (enot f) h                  (* g = false: f < h *)
          else onot (capply_bin fuel s c CAnd (enot f) (enot h))              (* g = true: f \/ h *)
        | Some _, Some NVT =>
          if etag h then capply_bin fuel s c CAnd f g                         (* h = false: f /\ g *)
          else onot (capply_bin fuel s c CAnd f (enot g))                     (* h = true: f -> g *)
        | _, _ => None
        end
      end
  end.

End Cache.
End Lt.

(** ** Constants and variables *)

(** [f_edge] / [t_edge] *)
Definition cmk_const (s : snap) (b : bool) : option edge := cget_terminal s b.

(** [var_edge] ([neg = false]) and the default [not_var_edge] =
    [not_edge_owned(var_edge)] ([neg = true]) *)
Definition cmk_var (s : snap) (v : nat) (neg : bool) : option (snap * edge) :=
  match nth_error (s_v2l s) v, cget_terminal s true, cget_terminal s false with
  | Some lvl, Some t, Some e =>
    let '(s', r) := get_or_insert s lvl [t; e] in
    Some (s', mkEdge (eref r) neg)
  | _, _, _ => None
  end.

(** ** Evaluation and cofactors *)

(** the tail-recursive [inner] of [eval_edge]: [compl] is the parity of the
    complement tags seen so far, [choices l = true] = take child 1 (the
    variable at level [l] is false) *)
Fixpoint ceval_walk (fuel : nat) (s : snap) (e : edge) (compl : bool) (choices : nat -> bool)
  : option bool :=
  let compl' := xorb compl (etag e) in
  match eref e with
  | RT _ => Some (negb compl')
  | RN id =>
    match fuel with
    | O => None
    | S n =>
      match find_node s id with
      | None => None
      | Some nd =>
        match nth_error (nchildren nd) (if choices (nstored nd) then 1 else 0) with
        | None => None
        | Some x => ceval_walk n s x compl' choices
        end
      end
    end
  end.

(** [eval_edge]: the choices bit set is built as for BDDs ([Apply.choices_of]) *)
Definition ceval_edge (s : snap) (e : edge) (args : list (nat * bool)) : option bool :=
  ceval_walk (S (nlevels s)) s e false (choices_of s args (fun _ => false)).

(** [cofactors_edge] (default of oxidd-core): [None] for the terminal,
    otherwise [(cofactor(tag, node, 0), cofactor(tag, node, 1))] *)
Definition ccofactors (s : snap) (e : edge) : option (edge * edge) :=
  match eref e with
  | RT _ => None
  | RN id =>
    match find_node s id with
    | Some nd => ccofs (etag e) nd
    | None => None
    end
  end.

(** ** The invariant the theorems assume, as a checker for real snapshots *)

(** a well-formed BCDD table with exactly one terminal *)
Definition bcok_b (s : snap) : bool :=
  wf_b s && kind_eqb (s_kind s) KBcdd && Nat.eqb (length (s_terms s)) 1.

(** ** A cache instance: unbounded association list keyed by edges *)

Definition eacache := list (N * list edge * edge).

Fixpoint eac_get (c : eacache) (code : N) (args : list edge) : option edge :=
  match c with
  | [] => None
  | (k, a, r) :: rest =>
    if N.eqb k code && edges_eqb a args then Some r else eac_get rest code args
  end.

Definition eac_add (c : eacache) (code : N) (args : list edge) (r : edge) : eacache :=
  (code, args, r) :: c.

(** the cache that never remembers anything *)
Definition enc_get (c : unit) (code : N) (args : list edge) : option edge := None.
Definition enc_add (c : unit) (code : N) (args : list edge) (r : edge) : unit := tt.
