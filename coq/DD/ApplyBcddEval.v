(** * Correctness of the BCDD apply algorithms, part 3

    - cache instances ([eac_*]: association list, [enc_*]: no cache);
    - [capply_not_sound], [capply_op_sound], [capply_ite_sound]: the theorems
      of parts 1 and 2 in terms of the interpreter [semc] only;
    - [capply_op_history_independent], [capply_ite_history_independent],
      [capply_op_result_unique]: the returned edge does not depend on the
      cache, the operand order or the history (C06 for BCDDs);
    - [ceval_walk_sem], [ceval_edge_assignment]: the walk of [eval_edge] with
      its complement parity computes the node-by-node interpretation;
    - [ccofactors_shannon], [ccofactors_cof]: [cofactors] returns the two
      Shannon cofactors w.r.t. the top-most variable;
    - [cmk_const_sem], [cmk_var_sem], [cmk_var_bfun];
    - [capply_op_bfun], [capply_ite_bfun]: in terms of Boolean functions of
      variable assignments (DD/Sem.v). *)

From Coq Require Import List NArith PArith Bool Arith Lia FMapPositive.
From OxiVerif Require Import DD.Table DD.TableProofs DD.Canon DD.CanonBcdd DD.Sem DD.Build DD.BuildProofs
  DD.PickInsert DD.Apply DD.ApplyProofs DD.ApplyEvalProofs DD.ApplyBcdd DD.ApplyBcddProofs DD.ApplyBcddIte.
Import ListNotations.

(** ** Cache instances *)

Lemma eac_lossy : lossyC eac_get eac_add.
Proof.
  intros c k a r k' a' r' E. unfold eac_add in E. simpl in E.
  destruct (N.eqb k k' && edges_eqb a a') eqn:Ek; [|right; exact E].
  apply andb_true_iff in Ek. destruct Ek as [E1 E2].
  apply N.eqb_eq in E1. apply edges_eqb_eq in E2. inversion E; subst. left. auto.
Qed.

Lemma enc_lossy : lossyC enc_get enc_add.
Proof. intros c k a r k' a' r' E. discriminate. Qed.

Lemma eac_empty_ok : forall s, CacheOKC eac_get s [].
Proof. intros s code args r E. discriminate. Qed.

Lemma enc_ok : forall s c, CacheOKC enc_get s c.
Proof. intros s c code args r E. discriminate. Qed.

(** ** The theorems in terms of [semc] only *)

Definition CFUEL (s : snap) : nat := S (nlevels s).

(** value of edge [e] under choice [c0] *)
Definition cvalue (s : snap) (e : edge) (c0 : nat -> nat) (x : bool) : Prop :=
  semc s (CFUEL s) e c0 = Some x.

Lemma cvalue_fun : forall s e c0 x y, cvalue s e c0 x -> cvalue s e c0 y -> x = y.
Proof. intros s e c0 x y A B. unfold cvalue in *. congruence. Qed.

(** not: the tag flip, whatever the cache *)
Theorem capply_not_sound : forall C s (c : C) f,
  BcOK s -> ref_ok s (eref f) ->
  exists r, capply_not C s c f = Some (s, c, r) /\ ref_ok s (eref r) /\
    forall c0, bchoice c0 -> exists x, cvalue s f c0 x /\ cvalue s r c0 (negb x).
Proof.
  intros C s c f B Hf. destruct (denc_exists s f B Hf) as [phi D].
  exists (enot f). split; [reflexivity|]. split; [exact Hf|].
  intros c0 Hc. exists (phi c0). split; [apply (proj2 D c0 Hc)|].
  apply (proj2 (denc_not s f phi D) c0 Hc).
Qed.

Section Top.
Variable lt : edge -> edge -> bool.
Variable C : Type.
Variable cget : C -> N -> list edge -> option edge.
Variable cadd : C -> N -> list edge -> edge -> C.
Hypothesis Hlossy : lossyC cget cadd.

Theorem capply_op_sound : forall o fuel s c f g,
  BcOK s -> CacheOKC cget s c -> ref_ok s (eref f) -> ref_ok s (eref g) -> CFUEL s <= fuel ->
  exists s' c' r, capply_op lt C cget cadd fuel s c o f g = Some (s', c', r) /\
    BcOK s' /\ extends s s' /\ CacheOKC cget s' c' /\ ref_ok s' (eref r) /\
    forall c0, bchoice c0 -> exists x y,
      cvalue s f c0 x /\ cvalue s g c0 y /\ cvalue s' r c0 (eval_bop o x y).
Proof.
  intros o fuel s c f g B O Hf Hg Hfuel.
  destruct (denc_exists s f B Hf) as [phi Df]. destruct (denc_exists s g B Hg) as [psi Dg].
  unfold CFUEL in Hfuel.
  destruct (capply_op_ok lt C cget cadd Hlossy o fuel s c f g phi psi B O Df Dg ltac:(lia))
    as [s' [c' [r [E [B' [X [O' [D' _]]]]]]]].
  exists s', c', r. repeat (split; [assumption|]). split; [apply (proj1 D')|].
  intros c0 Hc. exists (phi c0), (psi c0).
  split; [apply (proj2 Df c0 Hc)|]. split; [apply (proj2 Dg c0 Hc) | apply (proj2 D' c0 Hc)].
Qed.

Theorem capply_ite_sound : forall fuel s c f g h,
  BcOK s -> CacheOKC cget s c -> ref_ok s (eref f) -> ref_ok s (eref g) -> ref_ok s (eref h) ->
  CFUEL s <= fuel ->
  exists s' c' r, capply_ite lt C cget cadd fuel s c f g h = Some (s', c', r) /\
    BcOK s' /\ extends s s' /\ CacheOKC cget s' c' /\ ref_ok s' (eref r) /\
    forall c0, bchoice c0 -> exists x y z,
      cvalue s f c0 x /\ cvalue s g c0 y /\ cvalue s h c0 z /\
      cvalue s' r c0 (if x then y else z).
Proof.
  intros fuel s c f g h B O Hf Hg Hh Hfuel.
  destruct (denc_exists s f B Hf) as [phi Df]. destruct (denc_exists s g B Hg) as [psi Dg].
  destruct (denc_exists s h B Hh) as [theta Dh]. unfold CFUEL in Hfuel.
  destruct (capply_ite_ok lt C cget cadd Hlossy fuel s c f g h phi psi theta B O Df Dg Dh ltac:(lia))
    as [s' [c' [r [E [B' [X [O' [D' _]]]]]]]].
  exists s', c', r. repeat (split; [assumption|]). split; [apply (proj1 D')|].
  intros c0 Hc. exists (phi c0), (psi c0), (theta c0).
  split; [apply (proj2 Df c0 Hc)|]. split; [apply (proj2 Dg c0 Hc)|].
  split; [apply (proj2 Dh c0 Hc) | apply (proj2 D' c0 Hc)].
Qed.

End Top.

(** ** The returned edge does not depend on the cache, the operand order or
    the history *)

Section Transparent.
Variables lt1 lt2 : edge -> edge -> bool.
Variables C1 C2 : Type.
Variable cget1 : C1 -> N -> list edge -> option edge.
Variable cadd1 : C1 -> N -> list edge -> edge -> C1.
Variable cget2 : C2 -> N -> list edge -> option edge.
Variable cadd2 : C2 -> N -> list edge -> edge -> C2.
Hypothesis L1 : lossyC cget1 cadd1.
Hypothesis L2 : lossyC cget2 cadd2.

(** repeating the operation in any later state of the same table (more nodes,
    any correct cache of any implementation, any operand order) returns the
    identical edge and leaves the table unchanged *)
Theorem capply_op_history_independent : forall o s c1 f g fuel1 s1 c1' r1,
  BcOK s -> CacheOKC cget1 s c1 -> ref_ok s (eref f) -> ref_ok s (eref g) -> CFUEL s <= fuel1 ->
  capply_op lt1 C1 cget1 cadd1 fuel1 s c1 o f g = Some (s1, c1', r1) ->
  forall s2 c2 fuel2, BcOK s2 -> extends s1 s2 -> CacheOKC cget2 s2 c2 -> CFUEL s2 <= fuel2 ->
  exists c2', capply_op lt2 C2 cget2 cadd2 fuel2 s2 c2 o f g = Some (s2, c2', r1).
Proof.
  intros o s c1 f g fuel1 s1 c1' r1 B O1 Hf Hg F1 E1 s2 c2 fuel2 B2 X O2 F2.
  destruct (denc_exists s f B Hf) as [phi Df]. destruct (denc_exists s g B Hg) as [psi Dg].
  unfold CFUEL in F1, F2.
  destruct (capply_op_ok lt1 C1 cget1 cadd1 L1 o fuel1 s c1 f g phi psi B O1 Df Dg ltac:(lia))
    as [sa [ca [ra [Ea [Ba [Xa [_ [Da _]]]]]]]].
  rewrite E1 in Ea. inversion Ea; subst sa ca ra.
  assert (X02 : extends s s2) by (eapply extends_trans; eauto).
  pose proof (denc_extends s s2 _ _ B X02 Df) as Df2. pose proof (denc_extends s s2 _ _ B X02 Dg) as Dg2.
  destruct (capply_op_ok lt2 C2 cget2 cadd2 L2 o fuel2 s2 c2 f g phi psi B2 O2 Df2 Dg2 ltac:(lia))
    as [sb [cb [rb [Eb [_ [_ [_ [_ Sb]]]]]]]].
  destruct (Sb r1 (denc_extends s1 s2 _ _ Ba X Da)) as [-> ->].
  exists cb. exact Eb.
Qed.

Theorem capply_ite_history_independent : forall s c1 f g h fuel1 s1 c1' r1,
  BcOK s -> CacheOKC cget1 s c1 -> ref_ok s (eref f) -> ref_ok s (eref g) -> ref_ok s (eref h) ->
  CFUEL s <= fuel1 ->
  capply_ite lt1 C1 cget1 cadd1 fuel1 s c1 f g h = Some (s1, c1', r1) ->
  forall s2 c2 fuel2, BcOK s2 -> extends s1 s2 -> CacheOKC cget2 s2 c2 -> CFUEL s2 <= fuel2 ->
  exists c2', capply_ite lt2 C2 cget2 cadd2 fuel2 s2 c2 f g h = Some (s2, c2', r1).
Proof.
  intros s c1 f g h fuel1 s1 c1' r1 B O1 Hf Hg Hh F1 E1 s2 c2 fuel2 B2 X O2 F2.
  destruct (denc_exists s f B Hf) as [phi Df]. destruct (denc_exists s g B Hg) as [psi Dg].
  destruct (denc_exists s h B Hh) as [theta Dh]. unfold CFUEL in F1, F2.
  destruct (capply_ite_ok lt1 C1 cget1 cadd1 L1 fuel1 s c1 f g h phi psi theta B O1 Df Dg Dh ltac:(lia))
    as [sa [ca [ra [Ea [Ba [Xa [_ [Da _]]]]]]]].
  rewrite E1 in Ea. inversion Ea; subst sa ca ra.
  assert (X02 : extends s s2) by (eapply extends_trans; eauto).
  pose proof (denc_extends s s2 _ _ B X02 Df) as Df2. pose proof (denc_extends s s2 _ _ B X02 Dg) as Dg2.
  pose proof (denc_extends s s2 _ _ B X02 Dh) as Dh2.
  destruct (capply_ite_ok lt2 C2 cget2 cadd2 L2 fuel2 s2 c2 f g h phi psi theta B2 O2 Df2 Dg2 Dh2 ltac:(lia))
    as [sb [cb [rb [Eb [_ [_ [_ [_ Sb]]]]]]]].
  destruct (Sb r1 (denc_extends s1 s2 _ _ Ba X Da)) as [-> ->].
  exists cb. exact Eb.
Qed.

End Transparent.

(** in its result table the returned edge is THE edge with the result's meaning *)
Theorem capply_op_result_unique : forall lt C cget cadd, lossyC cget cadd ->
  forall o fuel s (c : C) f g s' c' r,
  BcOK s -> CacheOKC cget s c -> ref_ok s (eref f) -> ref_ok s (eref g) -> CFUEL s <= fuel ->
  capply_op lt C cget cadd fuel s c o f g = Some (s', c', r) ->
  forall r0, ref_ok s' (eref r0) ->
    (forall c0, bchoice c0 -> exists x y,
        cvalue s f c0 x /\ cvalue s g c0 y /\ cvalue s' r0 c0 (eval_bop o x y)) ->
    r0 = r.
Proof.
  intros lt C cget cadd L o fuel s c f g s' c' r B O Hf Hg F E r0 H0 Hsem.
  destruct (denc_exists s f B Hf) as [phi Df]. destruct (denc_exists s g B Hg) as [psi Dg].
  unfold CFUEL in F.
  destruct (capply_op_ok lt C cget cadd L o fuel s c f g phi psi B O Df Dg ltac:(lia))
    as [sa [ca [ra [Ea [Ba [_ [_ [Da _]]]]]]]].
  rewrite E in Ea. inversion Ea; subst sa ca ra.
  apply (denc_canon s' r0 r (fun c0 => eval_bop o (phi c0) (psi c0)) Ba); [|exact Da].
  split; [exact H0|]. intros c0 Hc. destruct (Hsem c0 Hc) as [x [y [Vx [Vy V0]]]].
  rewrite (cvalue_fun s f c0 _ _ (proj2 Df c0 Hc) Vx), (cvalue_fun s g c0 _ _ (proj2 Dg c0 Hc) Vy).
  exact V0.
Qed.

(** ** The interpreter the correspondence drivers run *)

(** [sem_edge] (DD/Table.v), which the OCaml drivers evaluate on lifted
    snapshots to obtain value tables, is [semc] with the standard fuel on a
    BCDD table (value codes 0 = false, 1 = true) *)
Theorem sem_edge_bcdd : forall s e c, s_kind s = KBcdd ->
  sem_edge s e c = option_map (fun b : bool => if b then 1%N else 0%N) (semc s (CFUEL s) e c).
Proof. intros s e c Hk. unfold sem_edge. rewrite Hk. reflexivity. Qed.

(** ** Evaluation *)

(** the Boolean function (of variable assignments) of an edge under the
    table's variable order *)
Definition cbfun_of (s : snap) (e : edge) : bfun :=
  fun a => match semc s (CFUEL s) e (choice_of s a) with Some b => b | None => false end.

Lemma cbfun_of_den : forall s e phi, DenC s e phi -> forall a, cbfun_of s e a = phi (choice_of s a).
Proof.
  intros s e phi [_ D] a. unfold cbfun_of, CFUEL. rewrite (D _ (choice_of_bchoice s a)). reflexivity.
Qed.

(** the walk of [eval_edge], complement parity included, is the interpreter *)
Theorem ceval_walk_sem : forall s, WF s -> forall fuel e b ch,
  ceval_walk fuel s e b ch =
  option_map (xorb b) (semc s fuel e (fun l => if ch l then 1 else 0)).
Proof.
  intros s H. induction fuel as [|n IH]; intros e b ch.
  - destruct (eref e) as [t|id] eqn:Er.
    + rewrite (semc_T _ _ _ _ t Er). simpl. rewrite Er. simpl. destruct b, (etag e); reflexivity.
    + rewrite (semc_O _ _ _ id Er). simpl. rewrite Er. reflexivity.
  - destruct (eref e) as [t|id] eqn:Er.
    + rewrite (semc_T _ _ _ _ t Er). simpl. rewrite Er. simpl. destruct b, (etag e); reflexivity.
    + rewrite (semc_S _ _ _ _ id Er). simpl ceval_walk. rewrite Er.
      destruct (find_node s id) as [nd|] eqn:En; [|reflexivity].
      rewrite (wf_stored s H id nd En).
      destruct (ch (nlevel nd));
        (destruct (nth_error (nchildren nd) _) as [x|]; [|reflexivity];
         rewrite IH; destruct (semc s n x _) as [v|]; [|reflexivity];
         simpl; rewrite xorb_assoc; reflexivity).
Qed.

(** [eval_edge] on an existing edge: always a result, and it is the value
    [semc] gives under the choices built from the argument list *)
Theorem ceval_edge_sem : forall s e args, BcOK s -> ref_ok s (eref e) ->
  exists x, ceval_edge s e args = Some x /\
    cvalue s e (fun l => if choices_of s args (fun _ => false) l then 1 else 0) x.
Proof.
  intros s e args B Hok. unfold ceval_edge. rewrite (ceval_walk_sem s (bc_wf s B)).
  destruct (denc_exists s e B Hok) as [phi D].
  set (c := fun l => if choices_of s args (fun _ => false) l then 1 else 0).
  assert (Hc : bchoice c) by (intros l; unfold c; destruct (choices_of s args _ l); lia).
  exists (phi c). unfold cvalue, CFUEL. rewrite (proj2 D c Hc). split; [|reflexivity].
  simpl. destruct (phi c); reflexivity.
Qed.

(** for an argument list that gives every variable its value under [a],
    [eval_edge] returns the value of the edge's function at [a] *)
Theorem ceval_edge_assignment : forall s e (a : asg) args, BcOK s -> ref_ok s (eref e) ->
  (forall v b, In (v, b) args -> b = a v /\ v < nlevels s) ->
  (forall v, v < nlevels s -> In v (map fst args)) ->
  ceval_edge s e args = Some (cbfun_of s e a).
Proof.
  intros s e a args B Hok Hcons Hall. pose proof (bc_wf s B) as H.
  destruct (ceval_edge_sem s e args B Hok) as [x [E V]]. rewrite E. f_equal.
  destruct (denc_exists s e B Hok) as [phi D]. rewrite (cbfun_of_den s e phi D).
  set (c := fun l => if choices_of s args (fun _ => false) l then 1 else 0) in *.
  assert (Hc : bchoice c) by (intros l; unfold c; destruct (choices_of s args _ l); lia).
  apply (cvalue_fun s e c); [exact V|]. unfold cvalue, CFUEL.
  rewrite (proj2 D c Hc). f_equal.
  apply (denc_indep s e phi H D c (choice_of s a) Hc (choice_of_bchoice s a)).
  intros l _. unfold c, choice_of.
  assert (Hlen : length (s_v2l s) = nlevels s) by (apply (wf_perm_len s H)).
  rewrite (choices_of_consistent s a H args _ l)
    by (intros v b Hin; destruct (Hcons v b Hin); split; [assumption | lia]).
  destruct (nth_error (s_l2v s) l) as [v|] eqn:El.
  - assert (Hl : l < length (s_l2v s)) by (apply nth_error_Some; congruence).
    destruct (wf_perm_l2v s H l Hl) as [v' [E1 E2]]. rewrite El in E1. inversion E1; subst v'.
    assert (Hv : v < nlevels s) by (rewrite <- Hlen; apply nth_error_Some; congruence).
    assert (Hex : existsb (fun p : nat * bool => match nth_error (s_v2l s) (fst p) with
                              | Some lv => Nat.eqb l lv | None => false end) args = true).
    { apply existsb_exists. specialize (Hall v Hv). apply in_map_iff in Hall.
      destruct Hall as [[v0 b0] [Ev Hin]]. simpl in Ev. subst v0.
      exists (v, b0). split; [exact Hin|]. simpl. rewrite E2. apply Nat.eqb_refl. }
    rewrite Hex. destruct (a v); reflexivity.
  - destruct (existsb _ args); reflexivity.
Qed.

(** ** Cofactors *)

Theorem ccofactors_shannon : forall s e t x, BcOK s -> ref_ok s (eref e) ->
  ccofactors s e = Some (t, x) ->
  exists id nd, eref e = RN id /\ find_node s id = Some nd /\ rlevel s (eref e) = nlevel nd /\
    ref_ok s (eref t) /\ ref_ok s (eref x) /\
    forall c, bchoice c ->
      semc s (CFUEL s) t c = semc s (CFUEL s) e (cupd c (nlevel nd) 0) /\
      semc s (CFUEL s) x c = semc s (CFUEL s) e (cupd c (nlevel nd) 1).
Proof.
  intros s e t x B Hok Hc. pose proof (bc_wf s B) as H.
  unfold ccofactors in Hc. destruct (eref e) as [tt|id] eqn:Er; [discriminate|].
  destruct (find_node s id) as [nd|] eqn:En; [|discriminate].
  destruct (bcdd_children s id nd B En) as [a [b Ech]]. unfold ccofs in Hc. rewrite Ech in Hc.
  inversion Hc; subst t x.
  assert (Ha : nth_error (nchildren nd) 0 = Some a) by (rewrite Ech; reflexivity).
  assert (Hb : nth_error (nchildren nd) 1 = Some b) by (rewrite Ech; reflexivity).
  destruct (denc_exists s e B ltac:(rewrite Er; exact Hok)) as [phi D].
  pose proof (denc_child s e id nd 0 a phi B D Er En Ha) as Da.
  pose proof (denc_child s e id nd 1 b phi B D Er En Hb) as Db.
  exists id, nd. split; [reflexivity|]. split; [exact En|].
  split; [apply (rlevel_node s id nd En)|].
  split; [apply (proj1 Da)|]. split; [apply (proj1 Db)|].
  intros c Hc0. unfold CFUEL. split.
  - rewrite (proj2 Da c Hc0). unfold cofn. symmetry. apply (proj2 D). apply bchoice_upd; [exact Hc0 | lia].
  - rewrite (proj2 Db c Hc0). unfold cofn. symmetry. apply (proj2 D). apply bchoice_upd; [exact Hc0 | lia].
Qed.

(** C02: the two results of [cofactors] are the Shannon cofactors of the
    handle's function w.r.t. the variable at its root level *)
Theorem ccofactors_cof : forall s e t x, BcOK s -> ref_ok s (eref e) ->
  ccofactors s e = Some (t, x) ->
  exists v, nth_error (s_l2v s) (rlevel s (eref e)) = Some v /\
    forall a, cbfun_of s t a = cof (cbfun_of s e) v true a /\
              cbfun_of s x a = cof (cbfun_of s e) v false a.
Proof.
  intros s e t x B Hok Hc. pose proof (bc_wf s B) as H.
  destruct (ccofactors_shannon s e t x B Hok Hc) as [id [nd [Er [En [Hl [Ot [Ox Hs]]]]]]].
  pose proof (wf_level s H id nd En) as Hlv.
  destruct (nth_error (s_l2v s) (nlevel nd)) as [v|] eqn:Ev;
    [|apply nth_error_None in Ev; unfold nlevels in Hlv; lia].
  exists v. rewrite Hl. split; [exact Ev|]. intros a.
  destruct (Hs (choice_of s a) (choice_of_bchoice s a)) as [S0 S1].
  unfold cof, cbfun_of. split.
  - rewrite S0. rewrite (semc_ext s H _ e _ _ (fun l _ => choice_of_upd s a v (nlevel nd) true H Ev l)).
    reflexivity.
  - rewrite S1. rewrite (semc_ext s H _ e _ _ (fun l _ => choice_of_upd s a v (nlevel nd) false H Ev l)).
    reflexivity.
Qed.

(** [cofactors] returns [None] exactly for the two constant edges *)
Theorem ccofactors_none : forall s e, BcOK s -> ref_ok s (eref e) ->
  (ccofactors s e = None <-> exists t, eref e = RT t).
Proof.
  intros s e B Hok. unfold ccofactors. destruct (eref e) as [t|id] eqn:Er.
  - split; [eauto | reflexivity].
  - destruct Hok as [nd En]. rewrite En.
    destruct (bcdd_children s id nd B En) as [a [b Ech]]. unfold ccofs. rewrite Ech.
    split; [discriminate | intros [t Et]; discriminate].
Qed.

(** ** Constants and variables *)

Theorem cmk_const_sem : forall s b, BcOK s ->
  exists r, cmk_const s b = Some r /\ DenC s r (fun _ => b).
Proof. intros s b B. unfold cmk_const. apply cget_terminal_den. exact B. Qed.

Theorem cmk_var_sem : forall s v neg, BcOK s -> v < nlevels s ->
  exists lvl s' r, nth_error (s_v2l s) v = Some lvl /\ cmk_var s v neg = Some (s', r) /\
    BcOK s' /\ extends s s' /\
    DenC s' r (fun c => xorb neg (Nat.eqb (c lvl) 0)).
Proof.
  intros s v neg B Hv. pose proof (bc_wf s B) as H.
  assert (Hv' : v < length (s_v2l s)) by (rewrite (wf_perm_len s H); exact Hv).
  destruct (wf_perm_v2l s H v Hv') as [lvl [E1 E2]].
  assert (Hlvl : lvl < nlevels s) by (unfold nlevels; apply nth_error_Some; congruence).
  destruct (cget_terminal_den s true B) as [t [Et Dt]].
  destruct (cget_terminal_den s false B) as [f [Ef Df]].
  unfold cmk_var. rewrite E1, Et, Ef.
  (* the node is what [reduce] builds from the two terminal edges *)
  assert (Htf : t <> f).
  { intros ->. pose proof (denc_unique s f _ _ Dt Df (fun _ => 0) ltac:(intros l; simpl; lia)). discriminate. }
  assert (Tt : etag t = false).
  { unfold cget_terminal in Et. destruct (bc_term_id s); inversion Et. reflexivity. }
  assert (Hmk : cmk_node s lvl t f =
                (let '(s', r) := get_or_insert s lvl [t; f] in (s', mkEdge (eref r) false))).
  { unfold cmk_node. destruct (edge_eqb t f) eqn:Eq; [apply edge_eqb_true in Eq; contradiction|].
    rewrite Tt. reflexivity. }
  destruct (get_or_insert s lvl [t; f]) as [s' r] eqn:Eg.
  assert (I1 : indep (fun _ : nat -> nat => true) (S lvl)) by (intros x y _ _ _; reflexivity).
  assert (I0 : indep (fun _ : nat -> nat => false) (S lvl)) by (intros x y _ _ _; reflexivity).
  destruct (cnode_step s lvl t f _ _ s' _ B Hlvl Dt Df I1 I0 Hmk) as [B' [X D]].
  exists lvl, s', (mkEdge (eref r) neg). split; [reflexivity|]. split; [reflexivity|].
  split; [exact B'|]. split; [exact X|].
  replace (mkEdge (eref r) neg) with (retag neg (mkEdge (eref r) false))
    by (unfold retag; simpl; destruct neg; reflexivity).
  apply (denc_ext s' _ _ _ (denc_retag s' _ _ neg D)).
  intros c _. cbv beta. destruct (Nat.eqb (c lvl) 0); reflexivity.
Qed.

(** in terms of assignments: the (negated) variable *)
Theorem cmk_var_bfun : forall s v neg, BcOK s -> v < nlevels s ->
  exists s' r, cmk_var s v neg = Some (s', r) /\ BcOK s' /\ extends s s' /\ ref_ok s' (eref r) /\
    forall a, cbfun_of s' r a = xorb neg (var_s v a).
Proof.
  intros s v neg B Hv.
  destruct (cmk_var_sem s v neg B Hv) as [lvl [s' [r [E1 [Em [B' [X D]]]]]]].
  exists s', r. split; [exact Em|]. split; [exact B'|]. split; [exact X|]. split; [apply (proj1 D)|].
  intros a. rewrite (cbfun_of_den s' r _ D). unfold var_s, choice_of.
  pose proof (bc_wf s B) as H.
  assert (Hv' : v < length (s_v2l s)) by (rewrite (wf_perm_len s H); exact Hv).
  destruct (wf_perm_v2l s H v Hv') as [lvl' [F1 F2]]. rewrite E1 in F1. inversion F1; subst lvl'.
  rewrite (ext_l2v _ _ X), F2. destruct (a v); reflexivity.
Qed.

(** ** The operators in terms of Boolean functions of assignments *)

Theorem capply_not_bfun : forall C s (c : C) f, BcOK s -> ref_ok s (eref f) ->
  exists r, capply_not C s c f = Some (s, c, r) /\ ref_ok s (eref r) /\
    forall a, cbfun_of s r a = lift1 negb (cbfun_of s f) a.
Proof.
  intros C s c f B Hf. destruct (denc_exists s f B Hf) as [phi D].
  exists (enot f). split; [reflexivity|]. split; [exact Hf|]. intros a. unfold lift1.
  rewrite (cbfun_of_den s _ _ (denc_not s f phi D)), (cbfun_of_den s f phi D). reflexivity.
Qed.

Theorem capply_op_bfun : forall lt C cget cadd, lossyC cget cadd ->
  forall o s (c : C) f g,
  BcOK s -> CacheOKC cget s c -> ref_ok s (eref f) -> ref_ok s (eref g) ->
  exists s' c' r, capply_op lt C cget cadd (S (nlevels s)) s c o f g = Some (s', c', r) /\
    BcOK s' /\ extends s s' /\
    forall a, cbfun_of s' r a = lift2 o (cbfun_of s f) (cbfun_of s g) a.
Proof.
  intros lt C cget cadd L o s c f g B O Hf Hg.
  destruct (denc_exists s f B Hf) as [phi Df]. destruct (denc_exists s g B Hg) as [psi Dg].
  destruct (capply_op_ok lt C cget cadd L o (S (nlevels s)) s c f g phi psi B O Df Dg ltac:(lia))
    as [s' [c' [r [E [B' [X [_ [D' _]]]]]]]].
  exists s', c', r. split; [exact E|]. split; [exact B'|]. split; [exact X|].
  intros a. unfold lift2.
  rewrite (cbfun_of_den s' r _ D'), (cbfun_of_den s f phi Df), (cbfun_of_den s g psi Dg).
  unfold choice_of. rewrite (ext_l2v _ _ X). reflexivity.
Qed.

Theorem capply_ite_bfun : forall lt C cget cadd, lossyC cget cadd ->
  forall s (c : C) f g h,
  BcOK s -> CacheOKC cget s c -> ref_ok s (eref f) -> ref_ok s (eref g) -> ref_ok s (eref h) ->
  exists s' c' r, capply_ite lt C cget cadd (S (nlevels s)) s c f g h = Some (s', c', r) /\
    BcOK s' /\ extends s s' /\
    forall a, cbfun_of s' r a = ite_s (cbfun_of s f) (cbfun_of s g) (cbfun_of s h) a.
Proof.
  intros lt C cget cadd L s c f g h B O Hf Hg Hh.
  destruct (denc_exists s f B Hf) as [phi Df]. destruct (denc_exists s g B Hg) as [psi Dg].
  destruct (denc_exists s h B Hh) as [theta Dh].
  destruct (capply_ite_ok lt C cget cadd L (S (nlevels s)) s c f g h phi psi theta B O Df Dg Dh ltac:(lia))
    as [s' [c' [r [E [B' [X [_ [D' _]]]]]]]].
  exists s', c', r. split; [exact E|]. split; [exact B'|]. split; [exact X|].
  intros a. unfold ite_s.
  rewrite (cbfun_of_den s' r _ D'), (cbfun_of_den s f phi Df), (cbfun_of_den s g psi Dg),
          (cbfun_of_den s h theta Dh).
  unfold choice_of. rewrite (ext_l2v _ _ X). reflexivity.
Qed.
