(** * The hypotheses of the BCDD theorems of C02 are satisfiable, and the
    algorithms run: a concrete complement-edge table ([ex_bcdd] of
    DD/TableProofs.v: 2 levels, node 1 = "x1", node 2 = "x0 <-> x1"),
    [vm_compute] runs of every operator of DD/ApplyBcdd.v. *)

From Coq Require Import List NArith PArith Bool Arith FMapPositive.
From OxiVerif Require Import DD.Table DD.TableProofs DD.Sem DD.Build DD.Apply DD.ApplyProofs
  DD.ApplyBcdd DD.ApplyBcddProofs DD.ApplyBcddIte DD.ApplyBcddEval.
Import ListNotations.

(** an edge order (by node id, then tag), standing for the address order of the code *)
Definition lt_id (a b : edge) : bool :=
  match eref a, eref b with
  | RN x, RN y => Pos.ltb x y || (Pos.eqb x y && negb (etag a) && etag b)
  | RT _, RN _ => true
  | _, _ => false
  end.

(** the reverse order *)
Definition gt_id (a b : edge) : bool := lt_id b a.

Example ex_bcdd_bcok : BcOK ex_bcdd.
Proof. apply bcok_b_spec. vm_compute. reflexivity. Qed.

Example ex_bcdd_cache_ok : CacheOKC eac_get ex_bcdd [].
Proof. apply eac_empty_ok. Qed.

Definition n1 := mkEdge (RN 1) false.   (* x1 *)
Definition n2 := mkEdge (RN 2) false.   (* x0 <-> x1 *)
Definition tT := mkEdge (RT 0) false.   (* true *)
Definition tF := mkEdge (RT 0) true.    (* false *)

(** the nodes added to [ex_bcdd] (ids >= 3) and the returned edge *)
Definition new_nodes {C} (r : option (snap * C * edge)) :=
  match r with
  | Some (s, _, e) =>
    Some (filter (fun p : positive * node => Pos.leb 3 (fst p)) (PositiveMap.elements (s_nodes s)), e)
  | None => None
  end.

(** (x0 <-> x1) /\ x1 = x0 /\ x1: one new node (x0 ? x1 : false) *)
Example ex_c_and :
  new_nodes (capply_op lt_id eacache eac_get eac_add 3 ex_bcdd [] OAnd n2 n1) =
  Some ([(3%positive, mkNode 0 [n1; tF] 0 0)], mkEdge (RN 3) false).
Proof. vm_compute. reflexivity. Qed.

(** (x0 <-> x1) \/ x1 = (x0 -> x1), computed as not (not f /\ not g): node (x0 ? x1 : true) *)
Example ex_c_or :
  new_nodes (capply_op lt_id eacache eac_get eac_add 3 ex_bcdd [] OOr n2 n1) =
  Some ([(3%positive, mkNode 0 [n1; tT] 0 0)], mkEdge (RN 3) false).
Proof. vm_compute. reflexivity. Qed.

(** (x0 <-> x1) xor x1 = not x0: the node of x0 under a complemented edge; the
    cache holds the result under [Xor] and the ordered operand pair *)
Example ex_c_xor :
  match capply_op lt_id eacache eac_get eac_add 3 ex_bcdd [] OXor n2 n1 with
  | Some (s, c, e) =>
    find_node s 3%positive = Some (mkNode 0 [tT; tF] 0 0) /\ e = mkEdge (RN 3) true /\
    c = [(1%N, [n1; n2], mkEdge (RN 3) true)]
  | None => False
  end.
Proof. vm_compute. repeat split; reflexivity. Qed.

(** the same operations with the reverse operand order and without a cache:
    the same tables and edges *)
Example ex_c_orders_caches :
  forall o, In o [OAnd; OOr; OXor; OEquiv; ONand; ONor; OImp; OImpStrict] ->
  new_nodes (capply_op lt_id eacache eac_get eac_add 3 ex_bcdd [] o n2 n1) =
  new_nodes (capply_op gt_id unit enc_get enc_add 3 ex_bcdd tt o n2 n1) /\
  new_nodes (capply_op lt_id eacache eac_get eac_add 3 ex_bcdd [] o n2 n1) <> None.
Proof.
  intros o Ho. simpl in Ho.
  repeat (destruct Ho as [<-|Ho]; [vm_compute; split; [reflexivity | discriminate]|]). destruct Ho.
Qed.

(** ite(x0 <-> x1, x1, not x1) = x0 (the "gu == hu" short-cut: not (f xor g));
    ite(x1, x0 <-> x1, false) = x0 /\ x1 (the "h terminal" short-cut) *)
Example ex_c_ite :
  new_nodes (capply_ite lt_id eacache eac_get eac_add 3 ex_bcdd [] n2 n1 (enot n1)) =
  Some ([(3%positive, mkNode 0 [tT; tF] 0 0)], mkEdge (RN 3) false) /\
  new_nodes (capply_ite lt_id eacache eac_get eac_add 3 ex_bcdd [] n1 n2 tF) =
  Some ([(3%positive, mkNode 0 [n1; tF] 0 0)], mkEdge (RN 3) false).
Proof. vm_compute. split; reflexivity. Qed.

(** repeating an operation on its result table returns the same edge and
    creates nothing *)
Example ex_c_rerun :
  match capply_op lt_id eacache eac_get eac_add 3 ex_bcdd [] OAnd n2 n1 with
  | Some (s1, _, r1) =>
    match capply_op gt_id unit enc_get enc_add 3 s1 tt OAnd n2 n1 with
    | Some (s2, _, r2) => r2 = r1 /\ PositiveMap.elements (s_nodes s2) = PositiveMap.elements (s_nodes s1)
    | None => False
    end
  | None => False
  end.
Proof. vm_compute. split; reflexivity. Qed.

(** variables, constants, evaluation (the handle of [ex_bcdd] is x0 xor x1), cofactors *)
Example ex_c_var_eval_cof :
  (match cmk_var ex_bcdd 1 false with
   | Some (s, r) => r = n1 /\ PositiveMap.cardinal (s_nodes s) = 2
   | None => False end) /\
  (match cmk_var ex_bcdd 0 true with
   | Some (s, r) => r = mkEdge (RN 3) true /\ find_node s 3%positive = Some (mkNode 0 [tT; tF] 0 0)
   | None => False end) /\
  cmk_const ex_bcdd true = Some tT /\ cmk_const ex_bcdd false = Some tF /\
  ceval_edge ex_bcdd (enot n2) [(0, true); (1, false)] = Some true /\
  ceval_edge ex_bcdd (enot n2) [(0, true); (1, true)] = Some false /\
  ccofactors ex_bcdd (enot n2) = Some (enot n1, n1) /\
  ccofactors ex_bcdd tF = None.
Proof. vm_compute. repeat split; reflexivity. Qed.
