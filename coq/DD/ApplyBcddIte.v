(** * Correctness of the BCDD apply algorithms, part 2: [apply_ite]

    [capply_ite_ok]: for every well-formed BCDD table, correct cache of any
    lossy implementation, operand order and operand triple, [apply_ite]
    (DD/ApplyBcdd.v [capply_ite]: the nine terminal short-cuts that reduce to
    [and] / [xor] and tag flips, the cache, the three-way Shannon expansion)
    returns with fuel [S (nlevels s)] an edge denoting
    [if f then g else h], in a well-formed extension of the table, with a
    correct cache; and if that function already has an edge, exactly that
    edge and an unchanged table. *)

From Coq Require Import List NArith PArith Bool Arith Lia FMapPositive.
From OxiVerif Require Import DD.Table DD.TableProofs DD.Canon DD.CanonBcdd DD.Sem DD.Build DD.BuildProofs
  DD.PickInsert DD.Apply DD.ApplyProofs DD.ApplyBcdd DD.ApplyBcddProofs.
Import ListNotations.

Section IteSec.
Variable lt : edge -> edge -> bool.
Variable C : Type.
Variable cget : C -> N -> list edge -> option edge.
Variable cadd : C -> N -> list edge -> edge -> C.
Hypothesis Hlossy : lossyC cget cadd.

Notation ROK := (cresult_ok cget).
Notation COK := (CacheOKC cget).

(** the step after the terminal cases, for any [rec] that is correct on
    operands one level further down *)
Lemma cite_step_ok : forall n (rec : snap -> C -> edge -> edge -> edge -> cres C),
  (forall s c f g h phi psi theta, BcOK s -> COK s c ->
     DenC s f phi -> DenC s g psi -> DenC s h theta ->
     nlevels s - Nat.min (Nat.min (rlevel s (eref f)) (rlevel s (eref g))) (rlevel s (eref h)) < n ->
     ROK s c (rec s c f g h) (fun c0 => if phi c0 then psi c0 else theta c0)) ->
  forall s c f idf fnd g idg gnd h idh hnd phi psi theta,
    BcOK s -> COK s c -> DenC s f phi -> DenC s g psi -> DenC s h theta ->
    eref f = RN idf -> find_node s idf = Some fnd ->
    eref g = RN idg -> find_node s idg = Some gnd ->
    eref h = RN idh -> find_node s idh = Some hnd ->
    nlevels s - Nat.min (Nat.min (nlevel fnd) (nlevel gnd)) (nlevel hnd) < S n ->
    ROK s c (cite_step C cget cadd rec s c f fnd g gnd h hnd)
        (fun c0 => if phi c0 then psi c0 else theta c0).
Proof.
  intros n rec IH s c f idf fnd g idg gnd h idh hnd phi psi theta B O Df Dg Dh
    Erf Ef Erg Eg Erh Eh Hfuel.
  pose proof (bc_wf s B) as H.
  pose proof (wf_level s H idf fnd Ef) as Hlf. pose proof (wf_level s H idg gnd Eg) as Hlg.
  pose proof (wf_level s H idh hnd Eh) as Hlh.
  unfold cite_step.
  destruct (cget c ccode_ite [f; g; h]) as [r|] eqn:Ec.
  - destruct (O _ _ _ Ec eq_refl) as [pa [pb [pc [Da [Db [Dc Dr]]]]]].
    apply cresult_ok_here; auto. apply (denc_ext s r _ _ Dr). intros c0 Hc.
    rewrite (denc_unique s _ pa phi Da Df c0 Hc), (denc_unique s _ pb psi Db Dg c0 Hc),
            (denc_unique s _ pc theta Dc Dh c0 Hc). reflexivity.
  - rewrite (wf_stored s H idf fnd Ef), (wf_stored s H idg gnd Eg), (wf_stored s H idh hnd Eh).
    set (lvl := Nat.min (Nat.min (nlevel fnd) (nlevel gnd)) (nlevel hnd)) in *. cbv zeta.
    destruct (ccof2_ok s f idf fnd phi lvl B Df Erf Ef ltac:(lia)) as [ft [fe [Ecf [Dft [Dfe [Lft Lfe]]]]]].
    destruct (ccof2_ok s g idg gnd psi lvl B Dg Erg Eg ltac:(lia)) as [gt' [ge [Ecg [Dgt [Dge [Lgt Lge]]]]]].
    destruct (ccof2_ok s h idh hnd theta lvl B Dh Erh Eh ltac:(lia)) as [ht [he [Ech [Dht [Dhe [Lht Lhe]]]]]].
    rewrite Ecf, Ecg, Ech.
    assert (Hlvl : lvl < nlevels s) by lia.
    destruct (IH s c ft gt' ht _ _ _ B O Dft Dgt Dht ltac:(lia)) as [s1 [c1 [t [E1 [B1 [X1 [O1 [D1 S1]]]]]]]].
    rewrite E1.
    assert (Dfe1 : DenC s1 fe (cofn phi lvl 1)) by (apply (denc_extends s s1 _ _ B X1 Dfe)).
    assert (Dge1 : DenC s1 ge (cofn psi lvl 1)) by (apply (denc_extends s s1 _ _ B X1 Dge)).
    assert (Dhe1 : DenC s1 he (cofn theta lvl 1)) by (apply (denc_extends s s1 _ _ B X1 Dhe)).
    assert (Hf1 : nlevels s1 - Nat.min (Nat.min (rlevel s1 (eref fe)) (rlevel s1 (eref ge))) (rlevel s1 (eref he)) < n).
    { rewrite (ext_nlevels _ _ X1), (ext_rlevel _ _ _ X1 (proj1 Dfe)),
              (ext_rlevel _ _ _ X1 (proj1 Dge)), (ext_rlevel _ _ _ X1 (proj1 Dhe)). lia. }
    destruct (IH s1 c1 fe ge he _ _ _ B1 O1 Dfe1 Dge1 Dhe1 Hf1) as [s2 [c2 [e [E2 [B2 [X2 [O2 [D2 S2]]]]]]]].
    rewrite E2.
    destruct (cmk_node s2 lvl t e) as [s3 r] eqn:Em.
    assert (D1' : DenC s2 t (fun c0 => if cofn phi lvl 0 c0 then cofn psi lvl 0 c0 else cofn theta lvl 0 c0))
      by (apply (denc_extends s1 s2 _ _ B1 X2 D1)).
    assert (Ip : indep phi (nlevel fnd)).
    { rewrite <- (rlevel_node s idf fnd Ef), <- Erf. apply (denc_indep s _ phi H Df). }
    assert (Iq : indep psi (nlevel gnd)).
    { rewrite <- (rlevel_node s idg gnd Eg), <- Erg. apply (denc_indep s _ psi H Dg). }
    assert (Ir : indep theta (nlevel hnd)).
    { rewrite <- (rlevel_node s idh hnd Eh), <- Erh. apply (denc_indep s _ theta H Dh). }
    assert (II : forall i, i < 2 ->
              indep (fun c0 => if cofn phi lvl i c0 then cofn psi lvl i c0 else cofn theta lvl i c0) (S lvl)).
    { intros i Hi x y Hx Hy Exy.
      rewrite (indep_cofn phi _ lvl i Ip ltac:(lia) Hi x y Hx Hy Exy).
      rewrite (indep_cofn psi _ lvl i Iq ltac:(lia) Hi x y Hx Hy Exy).
      rewrite (indep_cofn theta _ lvl i Ir ltac:(lia) Hi x y Hx Hy Exy). reflexivity. }
    assert (Hl2 : lvl < nlevels s2)
      by (rewrite (ext_nlevels _ _ X2), (ext_nlevels _ _ X1); exact Hlvl).
    destruct (cnode_step s2 lvl t e _ _ s3 r B2 Hl2 D1' D2 (II 0 ltac:(lia)) (II 1 ltac:(lia)) Em)
      as [B3 [X3 Dr]].
    assert (X03 : extends s s3) by (eapply extends_trans; [|exact X3]; eapply extends_trans; eauto).
    assert (Heq : forall c0, bchoice c0 ->
              (if Nat.eqb (c0 lvl) 0
               then (if cofn phi lvl 0 c0 then cofn psi lvl 0 c0 else cofn theta lvl 0 c0)
               else (if cofn phi lvl 1 c0 then cofn psi lvl 1 c0 else cofn theta lvl 1 c0))
              = if phi c0 then psi c0 else theta c0).
    { intros c0 Hc.
      rewrite (shannon_pick c0 lvl
                 (fun i => if cofn phi lvl i c0 then cofn psi lvl i c0 else cofn theta lvl i c0) Hc).
      rewrite (denc_upd_self s _ phi c0 lvl H Df Hc), (denc_upd_self s _ psi c0 lvl H Dg Hc),
              (denc_upd_self s _ theta c0 lvl H Dh Hc).
      reflexivity. }
    assert (Dres : DenC s3 r (fun c0 => if phi c0 then psi c0 else theta c0))
      by (apply (denc_ext _ _ _ _ Dr Heq)).
    exists s3, (cadd c2 ccode_ite [f; g; h] r), r.
    split; [reflexivity|]. split; [exact B3|]. split; [exact X03|].
    split; [|split; [exact Dres|]].
    { apply (ccacheok_add C cget cadd Hlossy); [apply (ccacheok_extends C cget s2 s3 c2 B2 X3 O2)|].
      intros _. exists phi, psi, theta.
      split; [apply (denc_extends s s3 _ _ B X03 Df)|].
      split; [apply (denc_extends s s3 _ _ B X03 Dg)|].
      split; [apply (denc_extends s s3 _ _ B X03 Dh) | exact Dres]. }
    intros r0 D0.
    assert (J : indep (fun c0 => if phi c0 then psi c0 else theta c0) lvl).
    { intros x y Hx Hy Exy.
      rewrite (indep_mono phi _ lvl Ip ltac:(lia) x y Hx Hy Exy).
      rewrite (indep_mono psi _ lvl Iq ltac:(lia) x y Hx Hy Exy).
      rewrite (indep_mono theta _ lvl Ir ltac:(lia) x y Hx Hy Exy). reflexivity. }
    assert (L0 : lvl <= rlevel s (eref r0)) by (apply (denc_level s r0 _ lvl B D0 ltac:(lia) J)).
    destruct (denc_cof_exists s r0 _ lvl 0 B D0 L0 Hlvl ltac:(lia)) as [q0 Dq0].
    destruct (denc_cof_exists s r0 _ lvl 1 B D0 L0 Hlvl ltac:(lia)) as [q1 Dq1].
    destruct (S1 q0 Dq0) as [Es1 Et]. subst s1 t.
    destruct (S2 q1 Dq1) as [Es2 Ee]. subst s2 e.
    destruct (cmk_node_stable s lvl q0 q1 _ _ s3 r r0 B Hlvl D1' D2 (II 0 ltac:(lia)) (II 1 ltac:(lia)) Em)
      as [Es3 Ehr]; auto.
    apply (denc_ext s r0 _ _ D0). intros c0 Hc. symmetry. apply Heq. exact Hc.
Qed.

Lemma capply_ite_S : forall n s c f g h,
  capply_ite lt C cget cadd (S n) s c f g h =
    if ref_eqb (eref g) (eref h) then
      if Bool.eqb (etag g) (etag h) then Some (s, c, g)
      else onot C (capply_bin lt C cget cadd (S n) s c CXor f g)
    else if ref_eqb (eref f) (eref g) then
      if Bool.eqb (etag f) (etag g) then onot C (capply_bin lt C cget cadd (S n) s c CAnd (enot f) (enot h))
      else capply_bin lt C cget cadd (S n) s c CAnd (enot f) h
    else if ref_eqb (eref f) (eref h) then
      if Bool.eqb (etag f) (etag h) then capply_bin lt C cget cadd (S n) s c CAnd f g
      else onot C (capply_bin lt C cget cadd (S n) s c CAnd f (enot g))
    else
      match cnode s f with
      | None => None
      | Some NVT => Some (s, c, if etag f then h else g)
      | Some (NVI fnode) =>
        match cnode s g, cnode s h with
        | Some (NVI gnode), Some (NVI hnode) =>
          cite_step C cget cadd (fun s' c' f' g' h' => capply_ite lt C cget cadd n s' c' f' g' h')
                    s c f fnode g gnode h hnode
        | Some NVT, Some (NVI _) =>
          if etag g then capply_bin lt C cget cadd (S n) s c CAnd (enot f) h
          else onot C (capply_bin lt C cget cadd (S n) s c CAnd (enot f) (enot h))
        | Some _, Some NVT =>
          if etag h then capply_bin lt C cget cadd (S n) s c CAnd f g
          else onot C (capply_bin lt C cget cadd (S n) s c CAnd f (enot g))
        | _, _ => None
        end
      end.
Proof. reflexivity. Qed.

Local Ltac pw3 phi psi theta :=
  let c0 := fresh "c0" in let Hc := fresh "Hc" in
  intros c0 Hc; cbv beta;
  repeat match goal with
         | Hx : forall c, bchoice c -> _ = _ |- _ => pose proof (Hx c0 Hc); clear Hx
         end;
  destruct (phi c0); destruct (psi c0); destruct (theta c0); simpl in *; congruence.

Theorem capply_ite_ok : forall fuel s c f g h phi psi theta,
  BcOK s -> COK s c -> DenC s f phi -> DenC s g psi -> DenC s h theta ->
  nlevels s - Nat.min (Nat.min (rlevel s (eref f)) (rlevel s (eref g))) (rlevel s (eref h)) < fuel ->
  ROK s c (capply_ite lt C cget cadd fuel s c f g h)
      (fun c0 => if phi c0 then psi c0 else theta c0).
Proof.
  induction fuel as [|n IH]; intros s c f g h phi psi theta B O Df Dg Dh Hfuel; [lia|].
  pose proof (denc_not s f phi Df) as Dnf. pose proof (denc_not s g psi Dg) as Dng.
  pose proof (denc_not s h theta Dh) as Dnh.
  (* the calls of [apply_bin] made by the terminal cases *)
  assert (Hfg : nlevels s - Nat.min (rlevel s (eref f)) (rlevel s (eref g)) < S n) by lia.
  assert (Hfh : nlevels s - Nat.min (rlevel s (eref f)) (rlevel s (eref h)) < S n) by lia.
  pose proof (capply_bin_ok lt C cget cadd Hlossy CXor (S n) s c f g phi psi B O Df Dg Hfg) as Rxor.
  pose proof (capply_bin_ok lt C cget cadd Hlossy CAnd (S n) s c (enot f) (enot h) _ _ B O Dnf Dnh Hfh) as Rnfnh.
  pose proof (capply_bin_ok lt C cget cadd Hlossy CAnd (S n) s c (enot f) h _ _ B O Dnf Dh Hfh) as Rnfh.
  pose proof (capply_bin_ok lt C cget cadd Hlossy CAnd (S n) s c f g _ _ B O Df Dg Hfg) as Rfg.
  pose proof (capply_bin_ok lt C cget cadd Hlossy CAnd (S n) s c f (enot g) _ _ B O Df Dng Hfg) as Rfng.
  pose proof (cresult_ok_not C cget _ _ _ _ Rxor) as Rnxor.
  pose proof (cresult_ok_not C cget _ _ _ _ Rnfnh) as Rnnfnh.
  pose proof (cresult_ok_not C cget _ _ _ _ Rfng) as Rnfng.
  cbv beta in *.
  (* equalities between operands, as facts about their functions *)
  assert (Fsame : forall a b pa pb, DenC s a pa -> DenC s b pb -> eref a = eref b -> etag a = etag b ->
            forall c0, bchoice c0 -> pa c0 = pb c0).
  { intros a b pa pb Da Db Er Et. assert (a = b) by (apply edge_ext; assumption). subst b.
    apply (denc_unique s a pa pb Da Db). }
  assert (Fopp : forall a b pa pb, DenC s a pa -> DenC s b pb -> eref a = eref b -> etag a = negb (etag b) ->
            forall c0, bchoice c0 -> pa c0 = negb (pb c0)).
  { intros a b pa pb Da Db Er Et. assert (a = enot b) by (apply edge_ext; simpl; assumption). subst a.
    apply (denc_unique s (enot b) pa _ Da (denc_not s b pb Db)). }
  assert (Fterm : forall a pa, DenC s a pa -> cnode s a = Some NVT ->
            forall c0, bchoice c0 -> pa c0 = negb (etag a)).
  { intros a pa Da V. destruct (cnode_NVT s a V) as [t Et]. apply (denc_term s a t pa Da Et). }
  rewrite capply_ite_S.
  destruct (ref_eqb (eref g) (eref h)) eqn:Egh.
  { apply ref_eqb_true in Egh. destruct (Bool.eqb (etag g) (etag h)) eqn:Tgh.
    - apply bool_eqb_true in Tgh. pose proof (Fsame g h psi theta Dg Dh Egh Tgh) as U.
      apply cresult_ok_here; auto. apply (denc_ext s g psi); [exact Dg|]. clear Fsame Fopp Fterm. pw3 phi psi theta.
    - apply bool_eqb_false in Tgh. pose proof (Fopp g h psi theta Dg Dh Egh Tgh) as U.
      apply (cresult_ok_ext C cget s c _ _ _ Rnxor). clear Fsame Fopp Fterm. pw3 phi psi theta. }
  destruct (ref_eqb (eref f) (eref g)) eqn:Efg.
  { apply ref_eqb_true in Efg. destruct (Bool.eqb (etag f) (etag g)) eqn:Tfg.
    - apply bool_eqb_true in Tfg. pose proof (Fsame f g phi psi Df Dg Efg Tfg) as U.
      apply (cresult_ok_ext C cget s c _ _ _ Rnnfnh). clear Fsame Fopp Fterm. pw3 phi psi theta.
    - apply bool_eqb_false in Tfg. pose proof (Fopp f g phi psi Df Dg Efg Tfg) as U.
      apply (cresult_ok_ext C cget s c _ _ _ Rnfh). clear Fsame Fopp Fterm. pw3 phi psi theta. }
  destruct (ref_eqb (eref f) (eref h)) eqn:Efh.
  { apply ref_eqb_true in Efh. destruct (Bool.eqb (etag f) (etag h)) eqn:Tfh.
    - apply bool_eqb_true in Tfh. pose proof (Fsame f h phi theta Df Dh Efh Tfh) as U.
      apply (cresult_ok_ext C cget s c _ _ _ Rfg). clear Fsame Fopp Fterm. pw3 phi psi theta.
    - apply bool_eqb_false in Tfh. pose proof (Fopp f h phi theta Df Dh Efh Tfh) as U.
      apply (cresult_ok_ext C cget s c _ _ _ Rnfng). clear Fsame Fopp Fterm. pw3 phi psi theta. }
  clear Fsame Fopp.
  destruct (cnode_total s f (proj1 Df)) as [vf Vf].
  destruct (cnode_total s g (proj1 Dg)) as [vg Vg].
  destruct (cnode_total s h (proj1 Dh)) as [vh Vh].
  rewrite Vf. destruct vf as [fnd|].
  2:{ pose proof (Fterm f phi Df Vf) as U. clear Fterm.
      apply cresult_ok_here; auto. destruct (etag f) eqn:Tf.
      - apply (denc_ext s h theta); [exact Dh|]. pw3 phi psi theta.
      - apply (denc_ext s g psi); [exact Dg|]. pw3 phi psi theta. }
  rewrite Vg, Vh. destruct vg as [gnd|], vh as [hnd|].
  - (* all three inner *)
    clear Fterm.
    destruct (cnode_NVI s f fnd Vf) as [idf [Erf Ef]]. destruct (cnode_NVI s g gnd Vg) as [idg [Erg Eg]].
    destruct (cnode_NVI s h hnd Vh) as [idh [Erh Eh]].
    rewrite Erf, Erg, Erh, (rlevel_node s idf fnd Ef), (rlevel_node s idg gnd Eg),
            (rlevel_node s idh hnd Eh) in Hfuel.
    apply (cite_step_ok n _ IH s c f idf fnd g idg gnd h idh hnd phi psi theta); auto.
  - (* g inner, h terminal *)
    pose proof (Fterm h theta Dh Vh) as U. clear Fterm. destruct (etag h) eqn:Th.
    + apply (cresult_ok_ext C cget s c _ _ _ Rfg). pw3 phi psi theta.
    + apply (cresult_ok_ext C cget s c _ _ _ Rnfng). pw3 phi psi theta.
  - (* g terminal, h inner *)
    pose proof (Fterm g psi Dg Vg) as U. clear Fterm. destruct (etag g) eqn:Tg.
    + apply (cresult_ok_ext C cget s c _ _ _ Rnfh). pw3 phi psi theta.
    + apply (cresult_ok_ext C cget s c _ _ _ Rnnfnh). pw3 phi psi theta.
  - (* g and h terminal (excluded by gu <> hu in a table with one terminal; the code's
       [(_, Terminal)] arm is sound nevertheless) *)
    pose proof (Fterm h theta Dh Vh) as U. pose proof (Fterm g psi Dg Vg) as U'. clear Fterm.
    destruct (etag h) eqn:Th.
    + apply (cresult_ok_ext C cget s c _ _ _ Rfg). pw3 phi psi theta.
    + apply (cresult_ok_ext C cget s c _ _ _ Rnfng). pw3 phi psi theta.
Qed.

End IteSec.
