(** * Correctness of the BCDD apply algorithms (DD/ApplyBcdd.v), part 1

    - [BcOK]: the invariant - well-formed BCDD table with its single
      terminal, decided by [bcok_b] (the same condition as [BcddOK] of the
      cube-picking development DD/PickBcdd.v, restated here so that the two
      developments do not depend on each other);
    - [DenC s e phi]: edge [e] (reference + complement tag) of table [s]
      denotes the Boolean function [phi] of the choice (= assignment by
      level), in terms of the interpreter [semc];
    - [denc_not], [denc_retag], [denc_child]: tag flips and cofactors;
    - [denc_level], [denc_canon]: consequences of canonicity (DD/CanonBcdd.v);
    - [cnode_step], [cmk_node_stable]: [reduce] = [cmk_node];
    - [cterminal_sound]: every case of [terminal_and] / [terminal_xor];
    - [CacheOKC], [cresult_ok], [capply_bin_ok]: with fuel [S (nlevels s)]
      [apply_bin] returns (never [None]) a well-formed extension of the
      table, a correct cache and an edge denoting the connective - for every
      cache implementation that only serves what was added ([lossyC]) and
      every operand order [lt];
    - [capply_op_ok]: the eight public operators derived by tag flips. *)

From Coq Require Import List NArith PArith Bool Arith Lia FMapPositive.
From OxiVerif Require Import DD.Table DD.TableProofs DD.Canon DD.CanonBcdd DD.Sem DD.Build DD.BuildProofs
  DD.PickInsert DD.Apply DD.ApplyProofs DD.ApplyBcdd.
Import ListNotations.

(** ** The invariant *)

Record BcOK (s : snap) : Prop := mkBcOK {
  bc_wf : WF s;
  bc_kind : s_kind s = KBcdd;
  bc_term : length (s_terms s) = 1
}.

Lemma kind_eqb_eq : forall a b, kind_eqb a b = true <-> a = b.
Proof. intros [] []; simpl; split; intro E; try discriminate; reflexivity. Qed.

Theorem bcok_b_spec : forall s, bcok_b s = true <-> BcOK s.
Proof.
  intros s. unfold bcok_b. rewrite !andb_true_iff, wf_b_spec, kind_eqb_eq, Nat.eqb_eq. split.
  - intros [[A B] C]. constructor; assumption.
  - intros [A B C]. auto.
Qed.

Lemma bc_terms_kind : forall s, BcOK s -> terms_kind s.
Proof. intros s B. unfold terms_kind. rewrite (bc_kind s B), (bc_term s B). lia. Qed.

Lemma bc_term_some : forall s, BcOK s -> exists t v, bc_term_id s = Some t /\ term_val s t = Some v.
Proof.
  intros s B. pose proof (bc_term s B) as L. unfold bc_term_id, term_val.
  destruct (s_terms s) as [|[t v] [|]]; simpl in L; try discriminate.
  exists t, v. split; [reflexivity|]. simpl. rewrite N.eqb_refl. reflexivity.
Qed.

Lemma bcok_extends : forall s s', BcOK s -> extends s s' -> WF s' -> BcOK s'.
Proof.
  intros s s' B X W. constructor; [exact W | rewrite (ext_kind _ _ X); apply (bc_kind s B) |
    rewrite (ext_terms _ _ X); apply (bc_term s B)].
Qed.

(** ** Edges *)

Lemma edge_eta : forall e : edge, mkEdge (eref e) (etag e) = e.
Proof. intros [r t]. reflexivity. Qed.

Lemma enot_invol : forall e, enot (enot e) = e.
Proof. intros [r t]. unfold enot. simpl. rewrite negb_involutive. reflexivity. Qed.

Lemma enot_retag : forall e, enot e = retag true e.
Proof. intros e. reflexivity. Qed.

Lemma retag_false : forall e, retag false e = e.
Proof. intros [r []]; reflexivity. Qed.

Lemma edge_eqb_true : forall a b, edge_eqb a b = true -> a = b.
Proof. intros a b. apply edge_eqb_eq. Qed.

Lemma edge_eqb_false : forall a b, edge_eqb a b = false -> a <> b.
Proof. intros a b E Hab. apply edge_eqb_eq in Hab. congruence. Qed.

Lemma bool_eqb_true : forall a b, Bool.eqb a b = true -> a = b.
Proof. intros [] [] E; simpl in E; congruence. Qed.

Lemma bool_eqb_false : forall a b, Bool.eqb a b = false -> a = negb b.
Proof. intros [] [] E; simpl in *; congruence. Qed.

(** ** The interpreter and tags *)

Lemma semc_retag : forall s f b e c,
  semc s f (retag b e) c = option_map (xorb b) (semc s f e c).
Proof.
  intros s f b e c. destruct (eref e) as [t|id] eqn:Er.
  - rewrite (semc_T s f (retag b e) c t) by exact Er. rewrite (semc_T s f e c t Er).
    simpl. destruct b, (etag e); reflexivity.
  - destruct f as [|f].
    + rewrite (semc_O s (retag b e) c id) by exact Er. rewrite (semc_O s e c id Er). reflexivity.
    + rewrite (semc_S s f (retag b e) c id) by exact Er. rewrite (semc_S s f e c id Er).
      destruct (find_node s id) as [nd|]; [|reflexivity].
      destruct (nth_error (nchildren nd) (c (nlevel nd))) as [x|]; [|reflexivity].
      destruct (semc s f x c) as [v|]; [|reflexivity].
      simpl. rewrite xorb_assoc. reflexivity.
Qed.

Lemma semc_enot : forall s f e c, semc s f (enot e) c = option_map negb (semc s f e c).
Proof.
  intros s f e c. rewrite enot_retag, semc_retag.
  destruct (semc s f e c) as [[]|]; reflexivity.
Qed.

(** ** Denotations *)

Definition DenC (s : snap) (e : edge) (phi : (nat -> nat) -> bool) : Prop :=
  ref_ok s (eref e) /\
  forall c, bchoice c -> semc s (S (nlevels s)) e c = Some (phi c).

Lemma bchoice_okc : forall s c, BcOK s -> (choice_ok s c <-> bchoice c).
Proof. intros s c B. apply (choice_ok_b s (bc_kind s B)). Qed.

Lemma denc_ext : forall s e phi phi', DenC s e phi ->
  (forall c, bchoice c -> phi c = phi' c) -> DenC s e phi'.
Proof. intros s e phi phi' [A B] E. split; [exact A|]. intros c Hc. rewrite <- E by exact Hc. auto. Qed.

Lemma denc_unique : forall s e phi phi', DenC s e phi -> DenC s e phi' ->
  forall c, bchoice c -> phi c = phi' c.
Proof.
  intros s e phi phi' [_ A] [_ B] c Hc. specialize (A c Hc). specialize (B c Hc). congruence.
Qed.

Lemma denc_exists : forall s e, BcOK s -> ref_ok s (eref e) -> exists phi, DenC s e phi.
Proof.
  intros s e B Hok.
  exists (fun c => match semc s (S (nlevels s)) e c with Some b => b | None => false end).
  split; [exact Hok|]. intros c Hc.
  pose proof (rlevel_le s (bc_wf s B) (eref e)).
  destruct (semc_total s (bc_wf s B) (S (nlevels s)) e c Hok (proj2 (bchoice_okc s c B) Hc) ltac:(lia))
    as [v Ev].
  rewrite Ev. reflexivity.
Qed.

Lemma denc_extends : forall s s' e phi, BcOK s -> extends s s' -> DenC s e phi -> DenC s' e phi.
Proof.
  intros s s' e phi B X [A D]. split; [apply (ext_ref_ok _ _ _ X A)|].
  intros c Hc. rewrite (ext_nlevels _ _ X), (semc_extends s s' (bc_wf s B) X _ _ c A). auto.
Qed.

Lemma denc_retag : forall s e phi b, DenC s e phi -> DenC s (retag b e) (fun c => xorb b (phi c)).
Proof.
  intros s e phi b [A D]. split; [exact A|]. intros c Hc. rewrite semc_retag, (D c Hc). reflexivity.
Qed.

Lemma denc_not : forall s e phi, DenC s e phi -> DenC s (enot e) (fun c => negb (phi c)).
Proof.
  intros s e phi [A D]. split; [exact A|]. intros c Hc. rewrite semc_enot, (D c Hc). reflexivity.
Qed.

Lemma denc_not_inv : forall s e phi, DenC s (enot e) phi -> DenC s e (fun c => negb (phi c)).
Proof. intros s e phi D. rewrite <- (enot_invol e). apply denc_not. exact D. Qed.

(** the terminal edges *)
Lemma cget_terminal_den : forall s b, BcOK s ->
  exists e, cget_terminal s b = Some e /\ DenC s e (fun _ => b).
Proof.
  intros s b B. destruct (bc_term_some s B) as [t [v [Et Ev]]].
  unfold cget_terminal. rewrite Et. eexists. split; [reflexivity|].
  split; [exists v; exact Ev|]. intros c _.
  rewrite (semc_T _ _ _ _ t) by reflexivity. simpl. rewrite negb_involutive. reflexivity.
Qed.

(** an edge to the terminal denotes the constant given by its tag *)
Lemma denc_term : forall s e t phi, DenC s e phi -> eref e = RT t ->
  forall c, bchoice c -> phi c = negb (etag e).
Proof.
  intros s e t phi [_ D] Er c Hc. specialize (D c Hc). rewrite (semc_T _ _ _ _ t Er) in D. congruence.
Qed.

(** ** Independence of the levels above an edge *)

Lemma denc_indep : forall s e phi, WF s -> DenC s e phi -> indep phi (rlevel s (eref e)).
Proof.
  intros s e phi H [_ D] c c' Hc Hc' E.
  pose proof (D c Hc) as A. pose proof (D c' Hc') as A'.
  rewrite (semc_ext s H _ e c c' E) in A. congruence.
Qed.

Lemma denc_upd_self : forall s e phi c lvl, WF s -> DenC s e phi -> bchoice c ->
  cofn phi lvl (c lvl) c = phi c.
Proof.
  intros s e phi c lvl H D Hc. unfold cofn.
  apply (denc_indep s e phi H D); [apply bchoice_upd; auto | exact Hc|].
  intros l _. unfold cupd. destruct (Nat.eqb_spec l lvl); [subst; reflexivity | reflexivity].
Qed.

Lemma denc_skip : forall s e phi lvl i, WF s -> DenC s e phi -> lvl < rlevel s (eref e) -> i < 2 ->
  DenC s e (cofn phi lvl i).
Proof.
  intros s e phi lvl i H D Hl Hi. apply (denc_ext s e phi); [exact D|].
  intros c Hc. unfold cofn. apply (denc_indep s e phi H D); [exact Hc | apply bchoice_upd; auto|].
  intros l Hle. unfold cupd. destruct (Nat.eqb_spec l lvl); [lia | reflexivity].
Qed.

(** ** Children = Shannon cofactors (with the incoming tag pushed down) *)

Lemma bcdd_children : forall s id nd, BcOK s -> find_node s id = Some nd ->
  exists a b, nchildren nd = [a; b].
Proof.
  intros s id nd B E. pose proof (wf_arity s (bc_wf s B) id nd E) as L.
  rewrite (bc_kind s B) in L. simpl in L.
  destruct (nchildren nd) as [|a [|b [|x r]]]; simpl in L; try discriminate. eauto.
Qed.

Lemma denc_child : forall s e id nd i x phi, BcOK s -> DenC s e phi -> eref e = RN id ->
  find_node s id = Some nd -> nth_error (nchildren nd) i = Some x ->
  DenC s (retag (etag e) x) (cofn phi (nlevel nd) i).
Proof.
  intros s e id nd i x phi B [_ D] Er E He. pose proof (bc_wf s B) as H.
  split; [apply (child_nth s H id nd i x E He)|].
  intros c Hc. rewrite semc_retag.
  pose proof (child_semc s H e id nd i x c Er E He) as Sx. unfold semcn in Sx.
  pose proof (child_index_b s H (bc_kind s B) id nd i x E He) as Hi.
  rewrite (D _ (bchoice_upd c (nlevel nd) i Hc Hi)) in Sx.
  destruct (semc s (S (nlevels s)) x c) as [v|]; simpl in Sx; [|discriminate].
  inversion Sx as [S']. unfold cofn. simpl. rewrite S'. reflexivity.
Qed.

(** an edge whose function ignores all levels below [L] sits at level [L] or
    deeper (a consequence of canonicity) *)
Lemma denc_level : forall s e phi L, BcOK s -> DenC s e phi -> L <= nlevels s ->
  indep phi L -> L <= rlevel s (eref e).
Proof.
  intros s e phi L B [Hok D] HL I.
  pose proof (bc_wf s B) as H. pose proof (bc_kind s B) as Hk.
  destruct (le_lt_dec L (rlevel s (eref e))) as [Hle|Hlt]; [exact Hle|]. exfalso.
  destruct (eref e) as [t|id] eqn:Er; [simpl in Hlt; lia|].
  destruct Hok as [nd E]. rewrite (rlevel_node s id nd E) in Hlt.
  apply (proj1 (reduced_bcdd s Hk _ (wf_reduced s H id nd E))).
  intros a b Ha Hb.
  destruct (In_nth_error _ _ Ha) as [i Hi]. destruct (In_nth_error _ _ Hb) as [j Hj].
  destruct (child_nth s H id nd i a E Hi) as [Oa La].
  destruct (child_nth s H id nd j b E Hj) as [Ob Lb].
  apply (canon_bcdd s H Hk (bc_terms_kind s B) a b Oa Ob). intros c Hc.
  apply (bchoice_okc s c B) in Hc.
  pose proof (child_index_b s H Hk id nd i a E Hi) as Hi2.
  pose proof (child_index_b s H Hk id nd j b E Hj) as Hj2.
  pose proof (child_semc s H e id nd i a c Er E Hi) as Sa.
  pose proof (child_semc s H e id nd j b c Er E Hj) as Sb.
  unfold semcn in Sa, Sb.
  rewrite (D _ (bchoice_upd c (nlevel nd) i Hc Hi2)) in Sa.
  rewrite (D _ (bchoice_upd c (nlevel nd) j Hc Hj2)) in Sb.
  apply (omap_xorb_inj (etag e)). rewrite <- Sa, <- Sb. f_equal.
  apply I; try (apply bchoice_upd; assumption).
  intros l Hl. unfold cupd. destruct (Nat.eqb_spec l (nlevel nd)); [lia | reflexivity].
Qed.

(** what [ccof2] returns for a node at or below the split level *)
Lemma ccof2_ok : forall s e id nd phi lvl, BcOK s -> DenC s e phi -> eref e = RN id ->
  find_node s id = Some nd -> lvl <= nlevel nd ->
  exists ft fe, ccof2 e nd lvl = Some (ft, fe) /\
    DenC s ft (cofn phi lvl 0) /\ DenC s fe (cofn phi lvl 1) /\
    lvl < rlevel s (eref ft) /\ lvl < rlevel s (eref fe).
Proof.
  intros s e id nd phi lvl B D Er E Hle. pose proof (bc_wf s B) as H.
  unfold ccof2. rewrite (wf_stored s H id nd E).
  destruct (Nat.eqb_spec (nlevel nd) lvl) as [Heq|Hne].
  - destruct (bcdd_children s id nd B E) as [a [b Ech]]. unfold ccofs. rewrite Ech.
    assert (Ha : nth_error (nchildren nd) 0 = Some a) by (rewrite Ech; reflexivity).
    assert (Hb : nth_error (nchildren nd) 1 = Some b) by (rewrite Ech; reflexivity).
    exists (retag (etag e) a), (retag (etag e) b). subst lvl.
    split; [reflexivity|].
    split; [apply (denc_child s e id nd 0 a phi B D Er E Ha)|].
    split; [apply (denc_child s e id nd 1 b phi B D Er E Hb)|].
    split; [apply (child_nth s H id nd 0 a E Ha) | apply (child_nth s H id nd 1 b E Hb)].
  - assert (Hl : lvl < rlevel s (eref e)) by (rewrite Er, (rlevel_node s id nd E); lia).
    exists e, e. split; [reflexivity|].
    split; [apply denc_skip; auto|]. split; [apply denc_skip; auto|]. auto.
Qed.

(** ** Canonicity inside one table *)

Lemma denc_canon : forall s e1 e2 phi, BcOK s -> DenC s e1 phi -> DenC s e2 phi -> e1 = e2.
Proof.
  intros s e1 e2 phi B [O1 D1] [O2 D2].
  apply (canon_bcdd s (bc_wf s B) (bc_kind s B) (bc_terms_kind s B) e1 e2 O1 O2).
  intros c Hc. apply (bchoice_okc s c B) in Hc. rewrite (D1 c Hc), (D2 c Hc). reflexivity.
Qed.

(** the cofactor of an existing function w.r.t. a level at or above its root exists *)
Lemma denc_cof_exists : forall s e Phi lvl i, BcOK s -> DenC s e Phi ->
  lvl <= rlevel s (eref e) -> lvl < nlevels s -> i < 2 -> exists e', DenC s e' (cofn Phi lvl i).
Proof.
  intros s e Phi lvl i B D Hle Hl Hi. pose proof (bc_wf s B) as H.
  destruct (eref e) as [t|id] eqn:Er.
  - exists e. apply denc_skip; auto. rewrite Er. simpl. exact Hl.
  - pose proof (proj1 D) as O. rewrite Er in O. destruct O as [nd En].
    rewrite (rlevel_node s id nd En) in Hle.
    destruct (ccof2_ok s e id nd Phi lvl B D Er En Hle) as [ft [fe [_ [D0 [D1 _]]]]].
    destruct i as [|[|k]]; [exists ft; exact D0 | exists fe; exact D1 | lia].
Qed.

(** ** [reduce] = [cmk_node] *)

(** the value of an edge to a stored node, one level down *)
Lemma semc_node : forall s id nd tg c x, WF s -> find_node s id = Some nd ->
  nth_error (nchildren nd) (c (nlevel nd)) = Some x ->
  semc s (S (nlevels s)) (mkEdge (RN id) tg) c = option_map (xorb tg) (semc s (S (nlevels s)) x c).
Proof.
  intros s id nd tg c x H E Hx.
  rewrite (semc_S s (nlevels s) (mkEdge (RN id) tg) c id) by reflexivity. rewrite E, Hx.
  destruct (child_nth s H id nd _ x E Hx) as [Ox Lx].
  pose proof (wf_level s H id nd E). pose proof (rlevel_le s H (eref x)).
  rewrite (semc_fuel s H (nlevels s) (S (nlevels s)) x) by (auto; lia).
  destruct (semc s (S (nlevels s)) x c); reflexivity.
Qed.

Lemma all_same_pair : forall a b : edge, a <> b -> ~ all_same [a; b].
Proof. intros a b Hne A. apply Hne. apply A; simpl; auto. Qed.

Lemma cnode_step : forall s lvl t e P0 P1 s' h, BcOK s -> lvl < nlevels s ->
  DenC s t P0 -> DenC s e P1 -> indep P0 (S lvl) -> indep P1 (S lvl) ->
  cmk_node s lvl t e = (s', h) ->
  BcOK s' /\ extends s s' /\
  DenC s' h (fun c => if Nat.eqb (c lvl) 0 then P0 c else P1 c).
Proof.
  intros s lvl t e P0 P1 s' h B Hl Dt De I0 I1 Hm.
  pose proof (bc_wf s B) as H. pose proof (bc_kind s B) as Hk.
  assert (Lt : S lvl <= rlevel s (eref t)) by (apply (denc_level s t P0); auto).
  assert (Le : S lvl <= rlevel s (eref e)) by (apply (denc_level s e P1); auto).
  unfold cmk_node in Hm. destruct (edge_eqb t e) eqn:Ete.
  - (* equal children *)
    apply edge_eqb_true in Ete. subst e. inversion Hm; subst s' h.
    split; [exact B|]. split; [apply extends_refl|].
    apply (denc_ext s t P0); [exact Dt|]. intros c Hc.
    rewrite (denc_unique s t P0 P1 Dt De c Hc). destruct (Nat.eqb (c lvl) 0); reflexivity.
  - apply edge_eqb_false in Ete.
    (* the stored children [ch] and the tag [tg] of the returned edge *)
    set (tg := etag t) in *.
    set (ch := if tg then [untag t; enot e] else [t; e]).
    assert (Hm' : (let '(s1, r) := get_or_insert s lvl ch in (s1, mkEdge (eref r) tg)) = (s', h))
      by (unfold ch; destruct tg; exact Hm).
    clear Hm.
    assert (Hlen : length ch = arity (s_kind s)) by (rewrite Hk; unfold ch; destruct tg; reflexivity).
    assert (Hce : forall x, In x ch -> ref_ok s (eref x) /\ lvl < rlevel s (eref x)).
    { intros x Hx. unfold ch in Hx. destruct tg; simpl in Hx; destruct Hx as [<-|[<-|[]]]; simpl;
        (split; [first [apply (proj1 Dt) | apply (proj1 De)] | lia]). }
    assert (Hred : reduced s ch).
    { unfold reduced. rewrite Hk. unfold ch. destruct tg eqn:Tg.
      - split; [|eexists; split; reflexivity].
        apply all_same_pair. intros A. apply Ete. inversion A as [[Er Tx]].
        apply edge_ext; [exact Er|]. fold tg. rewrite Tg. destruct (etag e); [reflexivity | discriminate].
      - split; [apply all_same_pair; exact Ete|]. exists t. split; [reflexivity | exact Tg]. }
    assert (Htags : s_kind s <> KBcdd -> forall x, In x ch -> etag x = false) by congruence.
    destruct (get_or_insert s lvl ch) as [s1 r] eqn:Eg. inversion Hm'; subst s' h. clear Hm'.
    destruct (goi_any s lvl ch H Hl Hlen Hce Hred Htags s1 r Eg) as [W' [X [id [nd [Er [E' [El Ec]]]]]]].
    pose proof (bcok_extends s s1 B X W') as B'.
    split; [exact B'|]. split; [exact X|]. subst r. simpl eref.
    split; [exists nd; exact E'|]. intros c Hc.
    pose proof (Hc lvl) as Hc2.
    pose proof (denc_extends s s1 t P0 B X Dt) as Dt1.
    pose proof (denc_extends s s1 e P1 B X De) as De1.
    assert (Hch : forall i x, nth_error ch i = Some x -> c lvl = i ->
              semc s1 (S (nlevels s1)) (mkEdge (RN id) tg) c
              = option_map (xorb tg) (semc s1 (S (nlevels s1)) x c)).
    { intros i x Hx Hi. apply (semc_node s1 id nd tg c x W' E'). rewrite El, Ec, Hi. exact Hx. }
    destruct (c lvl) as [|[|k]] eqn:Ecl; [| |lia]; simpl Nat.eqb; cbv iota.
    + unfold ch in Hch. destruct tg eqn:Tg.
      * rewrite (Hch 0 (untag t) eq_refl eq_refl).
        replace (untag t) with (retag true t)
          by (unfold retag, untag; fold tg; rewrite Tg; reflexivity).
        rewrite semc_retag, (proj2 Dt1 c Hc). simpl. destruct (P0 c); reflexivity.
      * rewrite (Hch 0 t eq_refl eq_refl), (proj2 Dt1 c Hc). simpl. destruct (P0 c); reflexivity.
    + unfold ch in Hch. destruct tg eqn:Tg.
      * rewrite (Hch 1 (enot e) eq_refl eq_refl).
        rewrite semc_enot, (proj2 De1 c Hc). simpl. destruct (P1 c); reflexivity.
      * rewrite (Hch 1 e eq_refl eq_refl), (proj2 De1 c Hc). simpl. destruct (P1 c); reflexivity.
Qed.

(** if the function to be built already has an edge, [cmk_node] returns it
    and leaves the table alone *)
Lemma cmk_node_stable : forall s lvl t e P0 P1 s' h r0, BcOK s -> lvl < nlevels s ->
  DenC s t P0 -> DenC s e P1 -> indep P0 (S lvl) -> indep P1 (S lvl) ->
  cmk_node s lvl t e = (s', h) ->
  DenC s r0 (fun c => if Nat.eqb (c lvl) 0 then P0 c else P1 c) ->
  s' = s /\ h = r0.
Proof.
  intros s lvl t e P0 P1 s' h r0 B Hl Dt De I0 I1 Hm D0.
  destruct (cnode_step s lvl t e P0 P1 s' h B Hl Dt De I0 I1 Hm) as [B' [X Dh]].
  assert (Eh : h = r0) by (apply (denc_canon s' _ _ _ B' Dh (denc_extends s s' _ _ B X D0))).
  split; [|exact Eh].
  unfold cmk_node in Hm. destruct (edge_eqb t e); [inversion Hm; reflexivity|].
  assert (Hgoi : forall ch tg, (let '(s1, r) := get_or_insert s lvl ch in (s1, mkEdge (eref r) tg)) = (s', h) ->
            s' = s).
  { intros ch tg Hg. unfold get_or_insert in Hg.
    destruct (find_dup s lvl ch); inversion Hg as [[Es Ehh]]; [reflexivity|].
    exfalso. rewrite <- Eh, <- Ehh in D0. destruct (proj1 D0) as [nd En]. simpl in En.
    rewrite fresh_id_free in En. discriminate. }
  destruct (etag t); eapply Hgoi; exact Hm.
Qed.
