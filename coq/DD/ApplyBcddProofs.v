(** * Correctness of the BCDD apply algorithms (DD/ApplyBcdd.v), part 1

    - [BcOK]: the invariant - well-formed BCDD table with its single
      terminal, decided by [bcok_b] (the same condition as [BcddOK] of the
      cube-picking development DD/PickBcdd.v, restated here so that the two
      developments do not depend on each other);
    - [DenC s e phi]: edge [e] (reference + complement tag) of table [s]
      denotes the Boolean function [phi] of the choice (= assignment by
      level), in terms of the interpreter [semc];
    - [denc_not], [denc_retag], [denc_child]: tag flips and cofactors;
    - [denc_level], [denc_canon]: consequences of canonicity (DD/CanonBcdd.v);
    - [cnode_step], [cmk_node_stable]: [reduce] = [cmk_node];
    - [cterminal_sound]: every case of [terminal_and] / [terminal_xor];
    - [CacheOKC], [cresult_ok], [capply_bin_ok]: with fuel [S (nlevels s)]
      [apply_bin] returns (never [None]) a well-formed extension of the
      table, a correct cache and an edge denoting the connective - for every
      cache implementation that only serves what was added ([lossyC]) and
      every operand order [lt];
    - [capply_op_ok]: the eight public operators derived by tag flips. *)

From Coq Require Import List NArith PArith Bool Arith Lia FMapPositive.
From OxiVerif Require Import DD.Table DD.TableProofs DD.Canon DD.CanonBcdd DD.Sem DD.Build DD.BuildProofs
  DD.PickInsert DD.Apply DD.ApplyProofs DD.ApplyBcdd.
Import ListNotations.

(** ** The invariant *)

Record BcOK (s : snap) : Prop := mkBcOK {
  bc_wf : WF s;
  bc_kind : s_kind s = KBcdd;
  bc_term : length (s_terms s) = 1
}.

Lemma kind_eqb_eq : forall a b, kind_eqb a b = true <-> a = b.
Proof. intros [] []; simpl; split; intro E; try discriminate; reflexivity. Qed.

Theorem bcok_b_spec : forall s, bcok_b s = true <-> BcOK s.
Proof.
  intros s. unfold bcok_b. rewrite !andb_true_iff, wf_b_spec, kind_eqb_eq, Nat.eqb_eq. split.
  - intros [[A B] C]. constructor; assumption.
  - intros [A B C]. auto.
Qed.

Lemma bc_terms_kind : forall s, BcOK s -> terms_kind s.
Proof. intros s B. unfold terms_kind. rewrite (bc_kind s B), (bc_term s B). lia. Qed.

Lemma bc_term_some : forall s, BcOK s -> exists t v, bc_term_id s = Some t /\ term_val s t = Some v.
Proof.
  intros s B. pose proof (bc_term s B) as L. unfold bc_term_id, term_val.
  destruct (s_terms s) as [|[t v] [|]]; simpl in L; try discriminate.
  exists t, v. split; [reflexivity|]. simpl. rewrite N.eqb_refl. reflexivity.
Qed.

Lemma bcok_extends : forall s s', BcOK s -> extends s s' -> WF s' -> BcOK s'.
Proof.
  intros s s' B X W. constructor; [exact W | rewrite (ext_kind _ _ X); apply (bc_kind s B) |
    rewrite (ext_terms _ _ X); apply (bc_term s B)].
Qed.

(** ** Edges *)

Lemma edge_eta : forall e : edge, mkEdge (eref e) (etag e) = e.
Proof. intros [r t]. reflexivity. Qed.

Lemma enot_invol : forall e, enot (enot e) = e.
Proof. intros [r t]. unfold enot. simpl. rewrite negb_involutive. reflexivity. Qed.

Lemma enot_retag : forall e, enot e = retag true e.
Proof. intros e. reflexivity. Qed.

Lemma retag_false : forall e, retag false e = e.
Proof. intros [r []]; reflexivity. Qed.

Lemma edge_eqb_true : forall a b, edge_eqb a b = true -> a = b.
Proof. intros a b. apply edge_eqb_eq. Qed.

Lemma edge_eqb_false : forall a b, edge_eqb a b = false -> a <> b.
Proof. intros a b E Hab. apply edge_eqb_eq in Hab. congruence. Qed.

Lemma bool_eqb_true : forall a b, Bool.eqb a b = true -> a = b.
Proof. intros [] [] E; simpl in E; congruence. Qed.

Lemma bool_eqb_false : forall a b, Bool.eqb a b = false -> a = negb b.
Proof. intros [] [] E; simpl in *; congruence. Qed.

(** ** The interpreter and tags *)

Lemma semc_retag : forall s f b e c,
  semc s f (retag b e) c = option_map (xorb b) (semc s f e c).
Proof.
  intros s f b e c. destruct (eref e) as [t|id] eqn:Er.
  - rewrite (semc_T s f (retag b e) c t) by exact Er. rewrite (semc_T s f e c t Er).
    simpl. destruct b, (etag e); reflexivity.
  - destruct f as [|f].
    + rewrite (semc_O s (retag b e) c id) by exact Er. rewrite (semc_O s e c id Er). reflexivity.
    + rewrite (semc_S s f (retag b e) c id) by exact Er. rewrite (semc_S s f e c id Er).
      destruct (find_node s id) as [nd|]; [|reflexivity].
      destruct (nth_error (nchildren nd) (c (nlevel nd))) as [x|]; [|reflexivity].
      destruct (semc s f x c) as [v|]; [|reflexivity].
      simpl. rewrite xorb_assoc. reflexivity.
Qed.

Lemma semc_enot : forall s f e c, semc s f (enot e) c = option_map negb (semc s f e c).
Proof.
  intros s f e c. rewrite enot_retag, semc_retag.
  destruct (semc s f e c) as [[]|]; reflexivity.
Qed.

(** ** Denotations *)

Definition DenC (s : snap) (e : edge) (phi : (nat -> nat) -> bool) : Prop :=
  ref_ok s (eref e) /\
  forall c, bchoice c -> semc s (S (nlevels s)) e c = Some (phi c).

Lemma bchoice_okc : forall s c, BcOK s -> (choice_ok s c <-> bchoice c).
Proof. intros s c B. apply (choice_ok_b s (bc_kind s B)). Qed.

Lemma denc_ext : forall s e phi phi', DenC s e phi ->
  (forall c, bchoice c -> phi c = phi' c) -> DenC s e phi'.
Proof. intros s e phi phi' [A B] E. split; [exact A|]. intros c Hc. rewrite <- E by exact Hc. auto. Qed.

Lemma denc_unique : forall s e phi phi', DenC s e phi -> DenC s e phi' ->
  forall c, bchoice c -> phi c = phi' c.
Proof.
  intros s e phi phi' [_ A] [_ B] c Hc. specialize (A c Hc). specialize (B c Hc). congruence.
Qed.

Lemma denc_exists : forall s e, BcOK s -> ref_ok s (eref e) -> exists phi, DenC s e phi.
Proof.
  intros s e B Hok.
  exists (fun c => match semc s (S (nlevels s)) e c with Some b => b | None => false end).
  split; [exact Hok|]. intros c Hc.
  pose proof (rlevel_le s (bc_wf s B) (eref e)).
  destruct (semc_total s (bc_wf s B) (S (nlevels s)) e c Hok (proj2 (bchoice_okc s c B) Hc) ltac:(lia))
    as [v Ev].
  rewrite Ev. reflexivity.
Qed.

Lemma denc_extends : forall s s' e phi, BcOK s -> extends s s' -> DenC s e phi -> DenC s' e phi.
Proof.
  intros s s' e phi B X [A D]. split; [apply (ext_ref_ok _ _ _ X A)|].
  intros c Hc. rewrite (ext_nlevels _ _ X), (semc_extends s s' (bc_wf s B) X _ _ c A). auto.
Qed.

Lemma denc_retag : forall s e phi b, DenC s e phi -> DenC s (retag b e) (fun c => xorb b (phi c)).
Proof.
  intros s e phi b [A D]. split; [exact A|]. intros c Hc. rewrite semc_retag, (D c Hc). reflexivity.
Qed.

Lemma denc_not : forall s e phi, DenC s e phi -> DenC s (enot e) (fun c => negb (phi c)).
Proof.
  intros s e phi [A D]. split; [exact A|]. intros c Hc. rewrite semc_enot, (D c Hc). reflexivity.
Qed.

Lemma denc_not_inv : forall s e phi, DenC s (enot e) phi -> DenC s e (fun c => negb (phi c)).
Proof. intros s e phi D. rewrite <- (enot_invol e). apply denc_not. exact D. Qed.

(** the terminal edges *)
Lemma cget_terminal_den : forall s b, BcOK s ->
  exists e, cget_terminal s b = Some e /\ DenC s e (fun _ => b).
Proof.
  intros s b B. destruct (bc_term_some s B) as [t [v [Et Ev]]].
  unfold cget_terminal. rewrite Et. eexists. split; [reflexivity|].
  split; [exists v; exact Ev|]. intros c _.
  rewrite (semc_T _ _ _ _ t) by reflexivity. simpl. rewrite negb_involutive. reflexivity.
Qed.

(** an edge to the terminal denotes the constant given by its tag *)
Lemma denc_term : forall s e t phi, DenC s e phi -> eref e = RT t ->
  forall c, bchoice c -> phi c = negb (etag e).
Proof.
  intros s e t phi [_ D] Er c Hc. specialize (D c Hc). rewrite (semc_T _ _ _ _ t Er) in D. congruence.
Qed.

(** ** Independence of the levels above an edge *)

Lemma denc_indep : forall s e phi, WF s -> DenC s e phi -> indep phi (rlevel s (eref e)).
Proof.
  intros s e phi H [_ D] c c' Hc Hc' E.
  pose proof (D c Hc) as A. pose proof (D c' Hc') as A'.
  rewrite (semc_ext s H _ e c c' E) in A. congruence.
Qed.

Lemma denc_upd_self : forall s e phi c lvl, WF s -> DenC s e phi -> bchoice c ->
  cofn phi lvl (c lvl) c = phi c.
Proof.
  intros s e phi c lvl H D Hc. unfold cofn.
  apply (denc_indep s e phi H D); [apply bchoice_upd; auto | exact Hc|].
  intros l _. unfold cupd. destruct (Nat.eqb_spec l lvl); [subst; reflexivity | reflexivity].
Qed.

Lemma denc_skip : forall s e phi lvl i, WF s -> DenC s e phi -> lvl < rlevel s (eref e) -> i < 2 ->
  DenC s e (cofn phi lvl i).
Proof.
  intros s e phi lvl i H D Hl Hi. apply (denc_ext s e phi); [exact D|].
  intros c Hc. unfold cofn. apply (denc_indep s e phi H D); [exact Hc | apply bchoice_upd; auto|].
  intros l Hle. unfold cupd. destruct (Nat.eqb_spec l lvl); [lia | reflexivity].
Qed.

(** ** Children = Shannon cofactors (with the incoming tag pushed down) *)

Lemma bcdd_children : forall s id nd, BcOK s -> find_node s id = Some nd ->
  exists a b, nchildren nd = [a; b].
Proof.
  intros s id nd B E. pose proof (wf_arity s (bc_wf s B) id nd E) as L.
  rewrite (bc_kind s B) in L. simpl in L.
  destruct (nchildren nd) as [|a [|b [|x r]]]; simpl in L; try discriminate. eauto.
Qed.

Lemma denc_child : forall s e id nd i x phi, BcOK s -> DenC s e phi -> eref e = RN id ->
  find_node s id = Some nd -> nth_error (nchildren nd) i = Some x ->
  DenC s (retag (etag e) x) (cofn phi (nlevel nd) i).
Proof.
  intros s e id nd i x phi B [_ D] Er E He. pose proof (bc_wf s B) as H.
  split; [apply (child_nth s H id nd i x E He)|].
  intros c Hc. rewrite semc_retag.
  pose proof (child_semc s H e id nd i x c Er E He) as Sx. unfold semcn in Sx.
  pose proof (child_index_b s H (bc_kind s B) id nd i x E He) as Hi.
  rewrite (D _ (bchoice_upd c (nlevel nd) i Hc Hi)) in Sx.
  destruct (semc s (S (nlevels s)) x c) as [v|]; simpl in Sx; [|discriminate].
  inversion Sx as [S']. unfold cofn. simpl. rewrite S'. reflexivity.
Qed.

(** an edge whose function ignores all levels below [L] sits at level [L] or
    deeper (a consequence of canonicity) *)
Lemma denc_level : forall s e phi L, BcOK s -> DenC s e phi -> L <= nlevels s ->
  indep phi L -> L <= rlevel s (eref e).
Proof.
  intros s e phi L B [Hok D] HL I.
  pose proof (bc_wf s B) as H. pose proof (bc_kind s B) as Hk.
  destruct (le_lt_dec L (rlevel s (eref e))) as [Hle|Hlt]; [exact Hle|]. exfalso.
  destruct (eref e) as [t|id] eqn:Er; [simpl in Hlt; lia|].
  destruct Hok as [nd E]. rewrite (rlevel_node s id nd E) in Hlt.
  apply (proj1 (reduced_bcdd s Hk _ (wf_reduced s H id nd E))).
  intros a b Ha Hb.
  destruct (In_nth_error _ _ Ha) as [i Hi]. destruct (In_nth_error _ _ Hb) as [j Hj].
  destruct (child_nth s H id nd i a E Hi) as [Oa La].
  destruct (child_nth s H id nd j b E Hj) as [Ob Lb].
  apply (canon_bcdd s H Hk (bc_terms_kind s B) a b Oa Ob). intros c Hc.
  apply (bchoice_okc s c B) in Hc.
  pose proof (child_index_b s H Hk id nd i a E Hi) as Hi2.
  pose proof (child_index_b s H Hk id nd j b E Hj) as Hj2.
  pose proof (child_semc s H e id nd i a c Er E Hi) as Sa.
  pose proof (child_semc s H e id nd j b c Er E Hj) as Sb.
  unfold semcn in Sa, Sb.
  rewrite (D _ (bchoice_upd c (nlevel nd) i Hc Hi2)) in Sa.
  rewrite (D _ (bchoice_upd c (nlevel nd) j Hc Hj2)) in Sb.
  apply (omap_xorb_inj (etag e)). rewrite <- Sa, <- Sb. f_equal.
  apply I; try (apply bchoice_upd; assumption).
  intros l Hl. unfold cupd. destruct (Nat.eqb_spec l (nlevel nd)); [lia | reflexivity].
Qed.

(** what [ccof2] returns for a node at or below the split level *)
Lemma ccof2_ok : forall s e id nd phi lvl, BcOK s -> DenC s e phi -> eref e = RN id ->
  find_node s id = Some nd -> lvl <= nlevel nd ->
  exists ft fe, ccof2 e nd lvl = Some (ft, fe) /\
    DenC s ft (cofn phi lvl 0) /\ DenC s fe (cofn phi lvl 1) /\
    lvl < rlevel s (eref ft) /\ lvl < rlevel s (eref fe).
Proof.
  intros s e id nd phi lvl B D Er E Hle. pose proof (bc_wf s B) as H.
  unfold ccof2. rewrite (wf_stored s H id nd E).
  destruct (Nat.eqb_spec (nlevel nd) lvl) as [Heq|Hne].
  - destruct (bcdd_children s id nd B E) as [a [b Ech]]. unfold ccofs. rewrite Ech.
    assert (Ha : nth_error (nchildren nd) 0 = Some a) by (rewrite Ech; reflexivity).
    assert (Hb : nth_error (nchildren nd) 1 = Some b) by (rewrite Ech; reflexivity).
    exists (retag (etag e) a), (retag (etag e) b). subst lvl.
    split; [reflexivity|].
    split; [apply (denc_child s e id nd 0 a phi B D Er E Ha)|].
    split; [apply (denc_child s e id nd 1 b phi B D Er E Hb)|].
    split; [apply (child_nth s H id nd 0 a E Ha) | apply (child_nth s H id nd 1 b E Hb)].
  - assert (Hl : lvl < rlevel s (eref e)) by (rewrite Er, (rlevel_node s id nd E); lia).
    exists e, e. split; [reflexivity|].
    split; [apply denc_skip; auto|]. split; [apply denc_skip; auto|]. auto.
Qed.

(** ** Canonicity inside one table *)

Lemma denc_canon : forall s e1 e2 phi, BcOK s -> DenC s e1 phi -> DenC s e2 phi -> e1 = e2.
Proof.
  intros s e1 e2 phi B [O1 D1] [O2 D2].
  apply (canon_bcdd s (bc_wf s B) (bc_kind s B) (bc_terms_kind s B) e1 e2 O1 O2).
  intros c Hc. apply (bchoice_okc s c B) in Hc. rewrite (D1 c Hc), (D2 c Hc). reflexivity.
Qed.

(** the cofactor of an existing function w.r.t. a level at or above its root exists *)
Lemma denc_cof_exists : forall s e Phi lvl i, BcOK s -> DenC s e Phi ->
  lvl <= rlevel s (eref e) -> lvl < nlevels s -> i < 2 -> exists e', DenC s e' (cofn Phi lvl i).
Proof.
  intros s e Phi lvl i B D Hle Hl Hi. pose proof (bc_wf s B) as H.
  destruct (eref e) as [t|id] eqn:Er.
  - exists e. apply denc_skip; auto. rewrite Er. simpl. exact Hl.
  - pose proof (proj1 D) as O. rewrite Er in O. destruct O as [nd En].
    rewrite (rlevel_node s id nd En) in Hle.
    destruct (ccof2_ok s e id nd Phi lvl B D Er En Hle) as [ft [fe [_ [D0 [D1 _]]]]].
    destruct i as [|[|k]]; [exists ft; exact D0 | exists fe; exact D1 | lia].
Qed.

(** ** [reduce] = [cmk_node] *)

(** the value of an edge to a stored node, one level down *)
Lemma semc_node : forall s id nd tg c x, WF s -> find_node s id = Some nd ->
  nth_error (nchildren nd) (c (nlevel nd)) = Some x ->
  semc s (S (nlevels s)) (mkEdge (RN id) tg) c = option_map (xorb tg) (semc s (S (nlevels s)) x c).
Proof.
  intros s id nd tg c x H E Hx.
  rewrite (semc_S s (nlevels s) (mkEdge (RN id) tg) c id) by reflexivity. rewrite E, Hx.
  destruct (child_nth s H id nd _ x E Hx) as [Ox Lx].
  pose proof (wf_level s H id nd E). pose proof (rlevel_le s H (eref x)).
  rewrite (semc_fuel s H (nlevels s) (S (nlevels s)) x) by (auto; lia).
  destruct (semc s (S (nlevels s)) x c); reflexivity.
Qed.

Lemma all_same_pair : forall a b : edge, a <> b -> ~ all_same [a; b].
Proof. intros a b Hne A. apply Hne. apply A; simpl; auto. Qed.

Lemma cnode_step : forall s lvl t e P0 P1 s' h, BcOK s -> lvl < nlevels s ->
  DenC s t P0 -> DenC s e P1 -> indep P0 (S lvl) -> indep P1 (S lvl) ->
  cmk_node s lvl t e = (s', h) ->
  BcOK s' /\ extends s s' /\
  DenC s' h (fun c => if Nat.eqb (c lvl) 0 then P0 c else P1 c).
Proof.
  intros s lvl t e P0 P1 s' h B Hl Dt De I0 I1 Hm.
  pose proof (bc_wf s B) as H. pose proof (bc_kind s B) as Hk.
  assert (Lt : S lvl <= rlevel s (eref t)) by (apply (denc_level s t P0); auto).
  assert (Le : S lvl <= rlevel s (eref e)) by (apply (denc_level s e P1); auto).
  unfold cmk_node in Hm. destruct (edge_eqb t e) eqn:Ete.
  - (* equal children *)
    apply edge_eqb_true in Ete. subst e. inversion Hm; subst s' h.
    split; [exact B|]. split; [apply extends_refl|].
    apply (denc_ext s t P0); [exact Dt|]. intros c Hc.
    rewrite (denc_unique s t P0 P1 Dt De c Hc). destruct (Nat.eqb (c lvl) 0); reflexivity.
  - apply edge_eqb_false in Ete.
    (* the stored children [ch] and the tag [tg] of the returned edge *)
    set (tg := etag t) in *.
    set (ch := if tg then [untag t; enot e] else [t; e]).
    assert (Hm' : (let '(s1, r) := get_or_insert s lvl ch in (s1, mkEdge (eref r) tg)) = (s', h))
      by (unfold ch; destruct tg; exact Hm).
    clear Hm.
    assert (Hlen : length ch = arity (s_kind s)) by (rewrite Hk; unfold ch; destruct tg; reflexivity).
    assert (Hce : forall x, In x ch -> ref_ok s (eref x) /\ lvl < rlevel s (eref x)).
    { intros x Hx. unfold ch in Hx. destruct tg; simpl in Hx; destruct Hx as [<-|[<-|[]]]; simpl;
        (split; [first [apply (proj1 Dt) | apply (proj1 De)] | lia]). }
    assert (Hred : reduced s ch).
    { unfold reduced. rewrite Hk. unfold ch. destruct tg eqn:Tg.
      - split; [|eexists; split; reflexivity].
        apply all_same_pair. intros A. apply Ete. inversion A as [[Er Tx]].
        apply edge_ext; [exact Er|]. fold tg. rewrite Tg. destruct (etag e); [reflexivity | discriminate].
      - split; [apply all_same_pair; exact Ete|]. exists t. split; [reflexivity | exact Tg]. }
    assert (Htags : s_kind s <> KBcdd -> forall x, In x ch -> etag x = false) by congruence.
    destruct (get_or_insert s lvl ch) as [s1 r] eqn:Eg. inversion Hm'; subst s' h. clear Hm'.
    destruct (goi_any s lvl ch H Hl Hlen Hce Hred Htags s1 r Eg) as [W' [X [id [nd [Er [E' [El Ec]]]]]]].
    pose proof (bcok_extends s s1 B X W') as B'.
    split; [exact B'|]. split; [exact X|]. subst r. simpl eref.
    split; [exists nd; exact E'|]. intros c Hc.
    pose proof (Hc lvl) as Hc2.
    pose proof (denc_extends s s1 t P0 B X Dt) as Dt1.
    pose proof (denc_extends s s1 e P1 B X De) as De1.
    assert (Hch : forall i x, nth_error ch i = Some x -> c lvl = i ->
              semc s1 (S (nlevels s1)) (mkEdge (RN id) tg) c
              = option_map (xorb tg) (semc s1 (S (nlevels s1)) x c)).
    { intros i x Hx Hi. apply (semc_node s1 id nd tg c x W' E'). rewrite El, Ec, Hi. exact Hx. }
    destruct (c lvl) as [|[|k]] eqn:Ecl; [| |lia]; simpl Nat.eqb; cbv iota.
    + unfold ch in Hch. destruct tg eqn:Tg.
      * rewrite (Hch 0 (untag t) eq_refl eq_refl).
        replace (untag t) with (retag true t)
          by (unfold retag, untag; fold tg; rewrite Tg; reflexivity).
        rewrite semc_retag, (proj2 Dt1 c Hc). simpl. destruct (P0 c); reflexivity.
      * rewrite (Hch 0 t eq_refl eq_refl), (proj2 Dt1 c Hc). simpl. destruct (P0 c); reflexivity.
    + unfold ch in Hch. destruct tg eqn:Tg.
      * rewrite (Hch 1 (enot e) eq_refl eq_refl).
        rewrite semc_enot, (proj2 De1 c Hc). simpl. destruct (P1 c); reflexivity.
      * rewrite (Hch 1 e eq_refl eq_refl), (proj2 De1 c Hc). simpl. destruct (P1 c); reflexivity.
Qed.

(** if the function to be built already has an edge, [cmk_node] returns it
    and leaves the table alone *)
Lemma cmk_node_stable : forall s lvl t e P0 P1 s' h r0, BcOK s -> lvl < nlevels s ->
  DenC s t P0 -> DenC s e P1 -> indep P0 (S lvl) -> indep P1 (S lvl) ->
  cmk_node s lvl t e = (s', h) ->
  DenC s r0 (fun c => if Nat.eqb (c lvl) 0 then P0 c else P1 c) ->
  s' = s /\ h = r0.
Proof.
  intros s lvl t e P0 P1 s' h r0 B Hl Dt De I0 I1 Hm D0.
  destruct (cnode_step s lvl t e P0 P1 s' h B Hl Dt De I0 I1 Hm) as [B' [X Dh]].
  assert (Eh : h = r0) by (apply (denc_canon s' _ _ _ B' Dh (denc_extends s s' _ _ B X D0))).
  split; [|exact Eh].
  unfold cmk_node in Hm. destruct (edge_eqb t e); [inversion Hm; reflexivity|].
  assert (Hgoi : forall ch tg, (let '(s1, r) := get_or_insert s lvl ch in (s1, mkEdge (eref r) tg)) = (s', h) ->
            s' = s).
  { intros ch tg Hg. unfold get_or_insert in Hg.
    destruct (find_dup s lvl ch); inversion Hg as [[Es Ehh]]; [reflexivity|].
    exfalso. rewrite <- Eh, <- Ehh in D0. destruct (proj1 D0) as [nd En]. simpl in En.
    rewrite fresh_id_free in En. discriminate. }
  destruct (etag t); eapply Hgoi; exact Hm.
Qed.

(** ** [get_node] *)

Lemma cnode_total : forall s e, ref_ok s (eref e) -> exists v, cnode s e = Some v.
Proof.
  intros s e Hok. unfold cnode. destruct (eref e) as [t|id].
  - destruct Hok as [v E]. rewrite E. eauto.
  - destruct Hok as [nd E]. rewrite E. eauto.
Qed.

Lemma cnode_NVI : forall s e nd, cnode s e = Some (NVI nd) ->
  exists id, eref e = RN id /\ find_node s id = Some nd.
Proof.
  intros s e nd. unfold cnode. destruct (eref e) as [t|id].
  - destruct (term_val s t); discriminate.
  - destruct (find_node s id) as [nd'|] eqn:E; [|discriminate].
    intros X. inversion X; subst. eauto.
Qed.

Lemma cnode_NVT : forall s e, cnode s e = Some NVT -> exists t, eref e = RT t.
Proof.
  intros s e. unfold cnode. destruct (eref e) as [t|id]; [eauto|].
  destruct (find_node s id); discriminate.
Qed.

(** ** Every case of [terminal_and] / [terminal_xor] agrees with the connective *)

Lemma ref_eqb_true : forall a b, ref_eqb a b = true -> a = b.
Proof. intros a b. apply ref_eqb_eq. Qed.

Theorem cterminal_sound : forall s op f g phi psi, BcOK s -> DenC s f phi -> DenC s g psi ->
  match cterminal s op f g with
  | KDone r => DenC s r (fun c => ceval op (phi c) (psi c))
  | KNodes fn gn => exists idf idg, eref f = RN idf /\ find_node s idf = Some fn /\
                                    eref g = RN idg /\ find_node s idg = Some gn
  | KFail => False
  end.
Proof.
  intros s op f g phi psi B Df Dg.
  (* facts about the operands' functions, case by case *)
  assert (Fsame : eref f = eref g -> etag f = etag g -> forall c, bchoice c -> phi c = psi c).
  { intros Er Et. assert (f = g) by (apply edge_ext; assumption). subst g.
    apply (denc_unique s f phi psi Df Dg). }
  assert (Fopp : eref f = eref g -> etag f = negb (etag g) -> forall c, bchoice c -> phi c = negb (psi c)).
  { intros Er Et. assert (f = enot g) by (apply edge_ext; simpl; assumption). subst f.
    apply (denc_unique s (enot g) phi _ Df (denc_not s g psi Dg)). }
  assert (Ff : cnode s f = Some NVT -> forall c, bchoice c -> phi c = negb (etag f)).
  { intros V. destruct (cnode_NVT s f V) as [t Et]. apply (denc_term s f t phi Df Et). }
  assert (Fg : cnode s g = Some NVT -> forall c, bchoice c -> psi c = negb (etag g)).
  { intros V. destruct (cnode_NVT s g V) as [t Et]. apply (denc_term s g t psi Dg Et). }
  Local Ltac pwc phi psi :=
    let c := fresh "c" in let Hc := fresh "Hc" in
    intros c Hc; cbv beta;
    repeat match goal with
           | Hx : forall c, bchoice c -> _ = _ |- _ => pose proof (Hx c Hc); clear Hx
           end;
    destruct (phi c); destruct (psi c); simpl in *; congruence.
  Local Ltac kt s B phi psi :=
    match goal with
    | |- match kterm s ?b with _ => _ end =>
        let e := fresh "e" in let Ee := fresh "Ee" in let De := fresh "De" in
        destruct (cget_terminal_den s b B) as [e [Ee De]]; unfold kterm; rewrite Ee;
        apply (denc_ext s e _ _ De); pwc phi psi
    end.
  destruct (cnode_total s f (proj1 Df)) as [vf Vf]. destruct (cnode_total s g (proj1 Dg)) as [vg Vg].
  destruct op; unfold cterminal, cterminal_and, cterminal_xor;
    (destruct (ref_eqb (eref f) (eref g)) eqn:Er;
     [ apply ref_eqb_true in Er; specialize (Fsame Er); specialize (Fopp Er); clear Ff Fg;
       destruct (Bool.eqb (etag f) (etag g)) eqn:Et;
       [ apply bool_eqb_true in Et; specialize (Fsame Et); clear Fopp
       | apply bool_eqb_false in Et; specialize (Fopp Et); clear Fsame ]
     | clear Fsame Fopp; rewrite Vf, Vg; destruct vf as [fn|], vg as [gn|];
       [ destruct (cnode_NVI s f fn Vf) as [idf [Ef Efn]]; destruct (cnode_NVI s g gn Vg) as [idg [Eg Egn]];
         exists idf, idg; auto
       | specialize (Fg Vg); clear Ff; destruct (etag g) eqn:Tg
       | specialize (Ff Vf); clear Fg; destruct (etag f) eqn:Tf
       | specialize (Ff Vf); specialize (Fg Vg); destruct (etag f) eqn:Tf; destruct (etag g) eqn:Tg ] ]);
    cbv beta iota;
    try (kt s B phi psi; fail);
    try (apply (denc_ext s f phi _ Df); pwc phi psi; fail);
    try (apply (denc_ext s g psi _ Dg); pwc phi psi; fail);
    try (apply (denc_ext s (enot f) _ _ (denc_not s f phi Df)); pwc phi psi; fail);
    try (apply (denc_ext s (enot g) _ _ (denc_not s g psi Dg)); pwc phi psi; fail).
Qed.

(** ** Caches *)

Section CacheSec.
Variable lt : edge -> edge -> bool.
Variable C : Type.
Variable cget : C -> N -> list edge -> option edge.
Variable cadd : C -> N -> list edge -> edge -> C.

(** the only thing assumed about the cache: what it serves after an insertion
    is the inserted entry or something it served before *)
Definition lossyC : Prop :=
  forall c k a r k' a' r', cget (cadd c k a r) k' a' = Some r' ->
    (k' = k /\ a' = a /\ r' = r) \/ cget c k' a' = Some r'.

Hypothesis Hlossy : lossyC.

(** an entry is correct in table [s] *)
Definition centry_ok (s : snap) (code : N) (args : list edge) (r : edge) : Prop :=
  match args with
  | [f; g] => forall o, code = cop_code o ->
      exists phi psi, DenC s f phi /\ DenC s g psi /\
                      DenC s r (fun c => ceval o (phi c) (psi c))
  | [f; g; h] => code = ccode_ite ->
      exists phi psi theta, DenC s f phi /\ DenC s g psi /\ DenC s h theta /\
                            DenC s r (fun c => if phi c then psi c else theta c)
  | _ => True
  end.

Definition CacheOKC (s : snap) (c : C) : Prop :=
  forall code args r, cget c code args = Some r -> centry_ok s code args r.

Lemma centry_ok_extends : forall s s' code args r, BcOK s -> extends s s' ->
  centry_ok s code args r -> centry_ok s' code args r.
Proof.
  intros s s' code args r B X. unfold centry_ok.
  destruct args as [|f [|g [|h [|x rest]]]]; auto.
  - intros Hx o Hc. destruct (Hx o Hc) as [phi [psi [A [A' D]]]]. exists phi, psi.
    repeat split; eapply denc_extends; eauto.
  - intros Hx Hc. destruct (Hx Hc) as [phi [psi [theta [A [A' [A'' D]]]]]]. exists phi, psi, theta.
    repeat split; eapply denc_extends; eauto.
Qed.

Lemma ccacheok_extends : forall s s' c, BcOK s -> extends s s' -> CacheOKC s c -> CacheOKC s' c.
Proof. intros s s' c B X O code args r E. eapply centry_ok_extends; eauto. Qed.

Lemma ccacheok_add : forall s c code args r, CacheOKC s c -> centry_ok s code args r ->
  CacheOKC s (cadd c code args r).
Proof.
  intros s c code args r O Hn code' args' r' E.
  destruct (Hlossy _ _ _ _ _ _ _ E) as [[-> [-> ->]]|E']; [exact Hn | apply (O _ _ _ E')].
Qed.

Definition cresult_ok (s : snap) (c : C) (res : cres C) (Phi : (nat -> nat) -> bool) : Prop :=
  exists s' c' r, res = Some (s', c', r) /\
    BcOK s' /\ extends s s' /\ CacheOKC s' c' /\ DenC s' r Phi /\
    (* if the result function already has an edge, that edge is returned and
       the table is unchanged *)
    (forall r0, DenC s r0 Phi -> s' = s /\ r = r0).

Lemma cresult_ok_ext : forall s c res Phi Phi', cresult_ok s c res Phi ->
  (forall c0, bchoice c0 -> Phi c0 = Phi' c0) -> cresult_ok s c res Phi'.
Proof.
  intros s c res Phi Phi' [s' [c' [r [E [B [X [O [D S]]]]]]]] Hp.
  exists s', c', r. split; [exact E|]. split; [exact B|]. split; [exact X|]. split; [exact O|].
  split; [apply (denc_ext s' r Phi Phi' D Hp)|].
  intros r0 D0. apply S. apply (denc_ext s r0 Phi' Phi D0). intros c0 Hc. symmetry. apply Hp. exact Hc.
Qed.

Lemma cresult_ok_here : forall s c r Phi, BcOK s -> CacheOKC s c -> DenC s r Phi ->
  cresult_ok s c (Some (s, c, r)) Phi.
Proof.
  intros s c r Phi B O D. exists s, c, r.
  split; [reflexivity|]. split; [exact B|]. split; [apply extends_refl|]. split; [exact O|].
  split; [exact D|]. intros r0 D0. split; [reflexivity | apply (denc_canon s r r0 Phi B D D0)].
Qed.

(** [Ok(not_owned(r?))] *)
Lemma cresult_ok_not : forall s c res Phi, cresult_ok s c res Phi ->
  cresult_ok s c (onot C res) (fun c0 => negb (Phi c0)).
Proof.
  intros s c res Phi [s' [c' [r [E [B [X [O [D S]]]]]]]].
  exists s', c', (enot r). split; [rewrite E; reflexivity|].
  split; [exact B|]. split; [exact X|]. split; [exact O|]. split; [apply denc_not; exact D|].
  intros r0 D0.
  assert (D0' : DenC s (enot r0) Phi).
  { apply (denc_ext s (enot r0) _ _ (denc_not s r0 _ D0)). intros c0 _. apply negb_involutive. }
  destruct (S _ D0') as [Es Er]. split; [exact Es|]. rewrite Er. apply enot_invol.
Qed.

(** ** [not]: the tag flip *)
Theorem capply_not_ok : forall s c f phi, BcOK s -> CacheOKC s c -> DenC s f phi ->
  cresult_ok s c (capply_not C s c f) (fun c0 => negb (phi c0)).
Proof.
  intros s c f phi B O D. unfold capply_not. apply cresult_ok_here; auto. apply denc_not. exact D.
Qed.

(** ** [apply_bin] *)

Lemma ceval_comm : forall o x y, ceval o x y = ceval o y x.
Proof. intros [] [] []; reflexivity. Qed.

Lemma cop_code_inj : forall o o', cop_code o = cop_code o' -> o = o'.
Proof. intros [] [] E; simpl in E; try discriminate; reflexivity. Qed.

(** the step after the terminal cases, for any [rec] that is correct on
    operands one level further down *)
Lemma cbin_step_ok : forall op n (rec : snap -> C -> edge -> edge -> cres C),
  (forall s c f g phi psi, BcOK s -> CacheOKC s c -> DenC s f phi -> DenC s g psi ->
     nlevels s - Nat.min (rlevel s (eref f)) (rlevel s (eref g)) < n ->
     cresult_ok s c (rec s c f g) (fun c0 => ceval op (phi c0) (psi c0))) ->
  forall s c f idf fnd g idg gnd phi psi,
    BcOK s -> CacheOKC s c -> DenC s f phi -> DenC s g psi ->
    eref f = RN idf -> find_node s idf = Some fnd ->
    eref g = RN idg -> find_node s idg = Some gnd ->
    nlevels s - Nat.min (nlevel fnd) (nlevel gnd) < S n ->
    cresult_ok s c (cbin_step C cget cadd rec s c op f fnd g gnd)
               (fun c0 => ceval op (phi c0) (psi c0)).
Proof.
  intros op n rec IH s c f idf fnd g idg gnd phi psi B O Df Dg Erf Ef Erg Eg Hfuel.
  pose proof (bc_wf s B) as H.
  pose proof (wf_level s H idf fnd Ef) as Hlf. pose proof (wf_level s H idg gnd Eg) as Hlg.
  unfold cbin_step.
  destruct (cget c (cop_code op) [f; g]) as [h|] eqn:Ec.
  - (* cache hit *)
    destruct (O _ _ _ Ec op eq_refl) as [pa [pb [Da [Db Dh]]]].
    apply cresult_ok_here; auto. apply (denc_ext s h _ _ Dh). intros c0 Hc.
    rewrite (denc_unique s _ pa phi Da Df c0 Hc), (denc_unique s _ pb psi Db Dg c0 Hc). reflexivity.
  - rewrite (wf_stored s H idf fnd Ef), (wf_stored s H idg gnd Eg).
    set (lvl := Nat.min (nlevel fnd) (nlevel gnd)) in *. cbv zeta.
    destruct (ccof2_ok s f idf fnd phi lvl B Df Erf Ef ltac:(lia)) as [ft [fe [Ecf [Dft [Dfe [Lft Lfe]]]]]].
    destruct (ccof2_ok s g idg gnd psi lvl B Dg Erg Eg ltac:(lia)) as [gt' [ge [Ecg [Dgt [Dge [Lgt Lge]]]]]].
    rewrite Ecf, Ecg.
    assert (Hlvl : lvl < nlevels s) by lia.
    destruct (IH s c ft gt' _ _ B O Dft Dgt ltac:(lia)) as [s1 [c1 [t [E1 [B1 [X1 [O1 [D1 S1]]]]]]]].
    rewrite E1.
    assert (Dfe1 : DenC s1 fe (cofn phi lvl 1)) by (apply (denc_extends s s1 _ _ B X1 Dfe)).
    assert (Dge1 : DenC s1 ge (cofn psi lvl 1)) by (apply (denc_extends s s1 _ _ B X1 Dge)).
    assert (Hf1 : nlevels s1 - Nat.min (rlevel s1 (eref fe)) (rlevel s1 (eref ge)) < n).
    { rewrite (ext_nlevels _ _ X1), (ext_rlevel _ _ _ X1 (proj1 Dfe)), (ext_rlevel _ _ _ X1 (proj1 Dge)). lia. }
    destruct (IH s1 c1 fe ge _ _ B1 O1 Dfe1 Dge1 Hf1) as [s2 [c2 [e [E2 [B2 [X2 [O2 [D2 S2]]]]]]]].
    rewrite E2.
    destruct (cmk_node s2 lvl t e) as [s3 h] eqn:Em.
    assert (D1' : DenC s2 t (fun c0 => ceval op (cofn phi lvl 0 c0) (cofn psi lvl 0 c0)))
      by (apply (denc_extends s1 s2 _ _ B1 X2 D1)).
    assert (Ip : indep phi (nlevel fnd)).
    { rewrite <- (rlevel_node s idf fnd Ef), <- Erf. apply (denc_indep s _ phi H Df). }
    assert (Iq : indep psi (nlevel gnd)).
    { rewrite <- (rlevel_node s idg gnd Eg), <- Erg. apply (denc_indep s _ psi H Dg). }
    assert (II : forall i, i < 2 ->
              indep (fun c0 => ceval op (cofn phi lvl i c0) (cofn psi lvl i c0)) (S lvl)).
    { intros i Hi x y Hx Hy Exy. f_equal.
      - apply (indep_cofn phi _ lvl i Ip ltac:(lia) Hi); auto.
      - apply (indep_cofn psi _ lvl i Iq ltac:(lia) Hi); auto. }
    assert (Hl2 : lvl < nlevels s2)
      by (rewrite (ext_nlevels _ _ X2), (ext_nlevels _ _ X1); exact Hlvl).
    destruct (cnode_step s2 lvl t e _ _ s3 h B2 Hl2 D1' D2 (II 0 ltac:(lia)) (II 1 ltac:(lia)) Em)
      as [B3 [X3 Dh]].
    assert (X03 : extends s s3) by (eapply extends_trans; [|exact X3]; eapply extends_trans; eauto).
    assert (Heq : forall c0, bchoice c0 ->
              (if Nat.eqb (c0 lvl) 0 then ceval op (cofn phi lvl 0 c0) (cofn psi lvl 0 c0)
               else ceval op (cofn phi lvl 1 c0) (cofn psi lvl 1 c0))
              = ceval op (phi c0) (psi c0)).
    { intros c0 Hc.
      rewrite (shannon_pick c0 lvl
                 (fun i => ceval op (cofn phi lvl i c0) (cofn psi lvl i c0)) Hc).
      rewrite (denc_upd_self s _ phi c0 lvl H Df Hc), (denc_upd_self s _ psi c0 lvl H Dg Hc).
      reflexivity. }
    assert (Dres : DenC s3 h (fun c0 => ceval op (phi c0) (psi c0)))
      by (apply (denc_ext _ _ _ _ Dh Heq)).
    exists s3, (cadd c2 (cop_code op) [f; g] h), h.
    split; [reflexivity|]. split; [exact B3|]. split; [exact X03|].
    split; [|split; [exact Dres|]].
    { apply ccacheok_add; [apply (ccacheok_extends s2 s3 c2 B2 X3 O2)|].
      intros o Ho. apply cop_code_inj in Ho. subst o.
      exists phi, psi. split; [apply (denc_extends s s3 _ _ B X03 Df)|].
      split; [apply (denc_extends s s3 _ _ B X03 Dg) | exact Dres]. }
    intros r0 D0.
    assert (J : indep (fun c0 => ceval op (phi c0) (psi c0)) lvl).
    { intros x y Hx Hy Exy. f_equal.
      - apply (indep_mono phi _ lvl Ip ltac:(lia)); auto.
      - apply (indep_mono psi _ lvl Iq ltac:(lia)); auto. }
    assert (L0 : lvl <= rlevel s (eref r0)) by (apply (denc_level s r0 _ lvl B D0 ltac:(lia) J)).
    destruct (denc_cof_exists s r0 _ lvl 0 B D0 L0 Hlvl ltac:(lia)) as [q0 Dq0].
    destruct (denc_cof_exists s r0 _ lvl 1 B D0 L0 Hlvl ltac:(lia)) as [q1 Dq1].
    destruct (S1 q0 Dq0) as [Es1 Et]. subst s1 t.
    destruct (S2 q1 Dq1) as [Es2 Ee]. subst s2 e.
    destruct (cmk_node_stable s lvl q0 q1 _ _ s3 h r0 B Hlvl D1' D2 (II 0 ltac:(lia)) (II 1 ltac:(lia)) Em)
      as [Es3 Eh]; auto.
    apply (denc_ext s r0 _ _ D0). intros c0 Hc. symmetry. apply Heq. exact Hc.
Qed.

Lemma capply_bin_S : forall n s c op f g,
  capply_bin lt C cget cadd (S n) s c op f g =
  match cterminal s op f g with
  | KFail => None
  | KDone h => Some (s, c, h)
  | KNodes fnode gnode =>
    if lt f g then cbin_step C cget cadd (fun s' c' f' g' => capply_bin lt C cget cadd n s' c' op f' g') s c op f fnode g gnode
    else cbin_step C cget cadd (fun s' c' f' g' => capply_bin lt C cget cadd n s' c' op f' g') s c op g gnode f fnode
  end.
Proof. reflexivity. Qed.

Theorem capply_bin_ok : forall op fuel s c f g phi psi,
  BcOK s -> CacheOKC s c -> DenC s f phi -> DenC s g psi ->
  nlevels s - Nat.min (rlevel s (eref f)) (rlevel s (eref g)) < fuel ->
  cresult_ok s c (capply_bin lt C cget cadd fuel s c op f g)
             (fun c0 => ceval op (phi c0) (psi c0)).
Proof.
  intros op. induction fuel as [|n IH]; intros s c f g phi psi B O Df Dg Hfuel; [lia|].
  rewrite capply_bin_S.
  pose proof (cterminal_sound s op f g phi psi B Df Dg) as T.
  destruct (cterminal s op f g) as [r|fn gn|]; [| |contradiction].
  - apply cresult_ok_here; auto.
  - destruct T as [idf [idg [Erf [Ef [Erg Eg]]]]].
    rewrite Erf, Erg, (rlevel_node s idf fn Ef), (rlevel_node s idg gn Eg) in Hfuel.
    destruct (lt f g).
    + apply (cbin_step_ok op n _ IH s c f idf fn g idg gn phi psi); auto.
    + apply (cresult_ok_ext s c _ (fun c0 => ceval op (psi c0) (phi c0))).
      * apply (cbin_step_ok op n _ IH s c g idg gn f idf fn psi phi); auto. lia.
      * intros c0 _. apply ceval_comm.
Qed.

(** ** The eight binary operators of the [BooleanFunction] interface *)

Lemma rlevel_enot : forall s e, rlevel s (eref (enot e)) = rlevel s (eref e).
Proof. reflexivity. Qed.

Theorem capply_op_ok : forall o fuel s c f g phi psi,
  BcOK s -> CacheOKC s c -> DenC s f phi -> DenC s g psi ->
  nlevels s - Nat.min (rlevel s (eref f)) (rlevel s (eref g)) < fuel ->
  cresult_ok s c (capply_op lt C cget cadd fuel s c o f g)
             (fun c0 => eval_bop o (phi c0) (psi c0)).
Proof.
  intros o fuel s c f g phi psi B O Df Dg Hfuel.
  pose proof (denc_not s f phi Df) as Dnf. pose proof (denc_not s g psi Dg) as Dng.
  Local Ltac tt phi psi := let c0 := fresh "c0" in intros c0 _; cbv beta; destruct (phi c0); destruct (psi c0); reflexivity.
  destruct o; unfold capply_op.
  - (* and *)
    apply (cresult_ok_ext s c _ _ _ (capply_bin_ok CAnd fuel s c f g phi psi B O Df Dg Hfuel)). tt phi psi.
  - (* or = not (and (not f) (not g)) *)
    apply (cresult_ok_ext s c _ _ _
             (cresult_ok_not s c _ _ (capply_bin_ok CAnd fuel s c (enot f) (enot g) _ _ B O Dnf Dng Hfuel))).
    tt phi psi.
  - (* xor *)
    apply (cresult_ok_ext s c _ _ _ (capply_bin_ok CXor fuel s c f g phi psi B O Df Dg Hfuel)). tt phi psi.
  - (* equiv = not xor *)
    apply (cresult_ok_ext s c _ _ _
             (cresult_ok_not s c _ _ (capply_bin_ok CXor fuel s c f g phi psi B O Df Dg Hfuel))).
    tt phi psi.
  - (* nand = not and *)
    apply (cresult_ok_ext s c _ _ _
             (cresult_ok_not s c _ _ (capply_bin_ok CAnd fuel s c f g phi psi B O Df Dg Hfuel))).
    tt phi psi.
  - (* nor = and (not f) (not g) *)
    apply (cresult_ok_ext s c _ _ _ (capply_bin_ok CAnd fuel s c (enot f) (enot g) _ _ B O Dnf Dng Hfuel)).
    tt phi psi.
  - (* imp = not (and f (not g)) *)
    apply (cresult_ok_ext s c _ _ _
             (cresult_ok_not s c _ _ (capply_bin_ok CAnd fuel s c f (enot g) _ _ B O Df Dng Hfuel))).
    tt phi psi.
  - (* imp_strict = and (not f) g *)
    apply (cresult_ok_ext s c _ _ _ (capply_bin_ok CAnd fuel s c (enot f) g _ _ B O Dnf Dg Hfuel)).
    tt phi psi.
Qed.

End CacheSec.

Arguments lossyC {C}.
Arguments CacheOKC {C}.
Arguments cresult_ok {C}.
