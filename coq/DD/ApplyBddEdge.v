(** * C02 (plain BDD kind): what an apply operation does to the TABLE

    The correspondence run of checks/C02.py (driver ocaml/c02_main.ml) replays
    every operation of the implementation on the lifted snapshot taken BEFORE the
    operation and compares the model's post table with the implementation's:
    same result edge, same new nodes, no old node changed.  The theorems that
    give this comparison its meaning, for the algorithms of DD/Apply.v
    ([apply_not], [apply_bin] incl. [terminal_bin], [apply_ite], [mk_var]):

    - [apply_*_tight] (no hypothesis at all: any table, any cache content, any
      operand order, any fuel): the result table EXTENDS the given one (every
      stored node is kept unchanged, terminals / order / handles untouched) and
      every node it has in addition is REACHABLE FROM THE RESULT edge: an
      operation creates exactly the missing part of the result's diagram, no
      intermediate node that the result does not use ("no garbage");
    - [apply_*_deterministic]: on a well-formed table, with any two lossy cache
      implementations holding any correct contents and any two operand orders,
      the two runs return the SAME table and the SAME edge (corollary of the
      C20 development: DD/ConfigCache.v with the node store [fresh_id] and the
      sequential schedule);
    - [apply_*_dm]: the instance the driver runs: the direct-mapped cache of
      DD/Cache.v with any hash function, any bucket count, initially empty;
    - [apply_*_existing]: if the result function already has an edge, that edge
      is returned and the table is unchanged (so "same edge" is required by
      the driver whenever the result existed before the operation). *)

From Coq Require Import List NArith PArith Bool Arith Lia FMapPositive.
From OxiVerif Require Import DD.Table DD.TableProofs DD.Canon DD.Sem DD.Build DD.BuildProofs
  DD.Cache DD.CacheProofs DD.Apply DD.ApplyProofs DD.ConfigApply DD.ConfigProofs DD.ConfigCache.
Import ListNotations.

(** ** Reachability from one reference *)

Inductive nreach (s : snap) : ref -> positive -> Prop :=
| nr_here : forall id, nreach s (RN id) id
| nr_child : forall j nd e id, find_node s j = Some nd -> In e (nchildren nd) ->
    nreach s (eref e) id -> nreach s (RN j) id.

Lemma nreach_ext : forall s s' r id, extends s s' -> nreach s r id -> nreach s' r id.
Proof.
  intros s s' r id X R. induction R as [id|j nd e id E Hin R IH].
  - apply nr_here.
  - apply (nr_child s' j nd e id); [apply (ext_nodes _ _ X); exact E | exact Hin | exact IH].
Qed.

(** the same relation in the vocabulary of C05 ([reachable] from a root list) *)
Lemma nreach_reachable : forall s r id, nreach s r id -> reachable s [r] (RN id).
Proof.
  intros s r id R. induction R as [id|j nd e id E Hin R IH].
  - apply reach_root. left. reflexivity.
  - assert (G : forall x, reachable s [eref e] x -> reachable s [RN j] x).
    { intros x Rx. induction Rx as [x Hx|i nd' e' Rx IHx E' Hin'].
      - destruct Hx as [<-|[]]. apply (reach_child s [RN j] j nd e); [apply reach_root; left; reflexivity | exact E | exact Hin].
      - apply (reach_child s [RN j] i nd' e'); [exact IHx | exact E' | exact Hin']. }
    apply G. exact IH.
Qed.

(** every node of [s'] is a node of [s] or belongs to the diagram of [r] *)
Definition tight (s s' : snap) (r : ref) : Prop :=
  forall id nd, find_node s' id = Some nd -> find_node s id = Some nd \/ nreach s' r id.

Lemma tight_refl : forall s r, tight s s r.
Proof. intros s r id nd E. left. exact E. Qed.

(** ** [reduce] + [get_or_insert] *)

Lemma get_or_insert_extends : forall s lvl ch s' h, get_or_insert s lvl ch = (s', h) -> extends s s'.
Proof.
  intros s lvl ch s' h. unfold get_or_insert. destruct (find_dup s lvl ch) as [i|]; intros Hm; inversion Hm; subst.
  - apply extends_refl.
  - constructor; try reflexivity. intros id nd E. unfold find_node, set_nodes. simpl.
    rewrite PositiveMap.gso; [exact E|]. intros ->. unfold find_node in E.
    pose proof (fresh_id_free s) as F. unfold find_node in F. congruence.
Qed.

Lemma mk_node_extends : forall s lvl ch s' h, mk_node s lvl ch = (s', h) -> extends s s'.
Proof.
  intros s lvl ch s' h. unfold mk_node. destruct ch as [|c0 rest].
  - intros Hm. inversion Hm. apply extends_refl.
  - destruct (all_equal (c0 :: rest)).
    + intros Hm. inversion Hm. apply extends_refl.
    + apply get_or_insert_extends.
Qed.

(** the node step of the three algorithms: the only node that can be new is the
    result, and the result's diagram contains the diagrams of both children *)
Lemma mk_node_tight : forall s lvl t e s' h, mk_node s lvl [E t; E e] = (s', h) ->
  extends s s' /\
  (forall id nd, find_node s' id = Some nd -> find_node s id = Some nd \/ eref h = RN id) /\
  (forall id, nreach s' t id \/ nreach s' e id -> nreach s' (eref h) id).
Proof.
  intros s lvl t e s' h Hm. split; [apply (mk_node_extends _ _ _ _ _ Hm)|].
  unfold mk_node in Hm. destruct (all_equal [E t; E e]) eqn:Ea.
  - inversion Hm; subst s' h. split; [intros id nd F; left; exact F|].
    simpl in Ea. rewrite andb_true_r in Ea. apply edge_eqb_eq in Ea. inversion Ea; subst e.
    intros id [R|R]; exact R.
  - unfold get_or_insert in Hm. destruct (find_dup s lvl [E t; E e]) as [i|] eqn:Ed.
    + inversion Hm; subst s' h. split; [intros id nd F; left; exact F|].
      destruct (find_dup_some s lvl _ i Ed) as [nd [En [_ Ech]]].
      intros id [R|R]; simpl.
      * apply (nr_child s i nd (E t) id En); [rewrite Ech; left; reflexivity | exact R].
      * apply (nr_child s i nd (E e) id En); [rewrite Ech; right; left; reflexivity | exact R].
    + inversion Hm; subst s' h. clear Hm.
      set (s' := set_nodes s (PositiveMap.add (fresh_id s) (mkNode lvl [E t; E e] lvl 0%N) (s_nodes s))).
      assert (Enew : find_node s' (fresh_id s) = Some (mkNode lvl [E t; E e] lvl 0%N))
        by (unfold find_node, s', set_nodes; simpl; apply PositiveMap.gss).
      split.
      * intros id nd F. destruct (Pos.eq_dec id (fresh_id s)) as [->|Hne]; [right; reflexivity|].
        left. unfold find_node, s', set_nodes in F. simpl in F. rewrite PositiveMap.gso in F by exact Hne. exact F.
      * intros id [R|R]; simpl.
        -- apply (nr_child s' _ _ (E t) id Enew); [left; reflexivity | exact R].
        -- apply (nr_child s' _ _ (E e) id Enew); [right; left; reflexivity | exact R].
Qed.

(** the common tail: two sub-results, then the node step *)
Lemma join_tight : forall s s1 s2 s3 t e lvl h,
  extends s s1 -> tight s s1 t -> extends s1 s2 -> tight s1 s2 e ->
  mk_node s2 lvl [E t; E e] = (s3, h) ->
  extends s s3 /\ tight s s3 (eref h).
Proof.
  intros s s1 s2 s3 t e lvl h X1 T1 X2 T2 Hm.
  destruct (mk_node_tight s2 lvl t e s3 h Hm) as [X3 [N3 R3]].
  split; [eapply extends_trans; [|exact X3]; eapply extends_trans; eauto|].
  intros id nd F. destruct (N3 id nd F) as [F2|Eh].
  - destruct (T2 id nd F2) as [F1|Re].
    + destruct (T1 id nd F1) as [F0|Rt]; [left; exact F0|].
      right. apply R3. left. apply (nreach_ext s1 s3); [eapply extends_trans; eauto | exact Rt].
    + right. apply R3. right. apply (nreach_ext s2 s3 _ _ X3 Re).
  - right. rewrite Eh. apply nr_here.
Qed.

Section Any.
Variable gt : ref -> ref -> bool.
Variable C : Type.
Variable cget : C -> N -> list ref -> option ref.
Variable cadd : C -> N -> list ref -> ref -> C.

(** ** [apply_not] *)
Theorem apply_not_tight : forall fuel s c f s' c' r,
  apply_not C cget cadd fuel s c f = Some (s', c', r) -> extends s s' /\ tight s s' r.
Proof.
  induction fuel as [|n IH]; intros s c f s' c' r Hr; [discriminate|].
  rewrite apply_not_S in Hr. destruct f as [t|id].
  - destruct (view s (RT t)) as [[|b]|]; try discriminate.
    destruct (term_of s (negb b)); [|discriminate]. inversion Hr; subst.
    split; [apply extends_refl | apply tight_refl].
  - destruct (find_node s id) as [nd|]; [|discriminate].
    destruct (cget c code_not [RN id]) as [h|].
    + inversion Hr; subst. split; [apply extends_refl | apply tight_refl].
    + destruct (nchildren nd) as [|ft [|fe [|x rest]]]; try discriminate.
      destruct (apply_not C cget cadd n s c (eref ft)) as [[[s1 c1] t]|] eqn:E1; [|discriminate].
      destruct (apply_not C cget cadd n s1 c1 (eref fe)) as [[[s2 c2] e]|] eqn:E2; [|discriminate].
      destruct (mk_node s2 (nstored nd) [E t; E e]) as [s3 h] eqn:Em.
      inversion Hr; subst s' c' r.
      destruct (IH _ _ _ _ _ _ E1) as [X1 T1]. destruct (IH _ _ _ _ _ _ E2) as [X2 T2].
      apply (join_tight s s1 s2 s3 t e _ h X1 T1 X2 T2 Em).
Qed.

(** ** [apply_bin] (all cases of [terminal_bin], cache hit, expansion) *)
Theorem apply_bin_tight : forall op fuel s c f g s' c' r,
  apply_bin gt C cget cadd fuel s c op f g = Some (s', c', r) -> extends s s' /\ tight s s' r.
Proof.
  intros op. induction fuel as [|n IH]; intros s c f g s' c' r Hr; [discriminate|].
  rewrite apply_bin_S in Hr. destruct (terminal_bin gt s op f g) as [h|x|o a b|]; [| | |discriminate Hr].
  - inversion Hr; subst. split; [apply extends_refl | apply tight_refl].
  - apply (apply_not_tight _ _ _ _ _ _ _ Hr).
  - destruct (cget c (op_code o) [a; b]) as [h|].
    + inversion Hr; subst. split; [apply extends_refl | apply tight_refl].
    + destruct (inner s f) as [fnode|]; [|discriminate]. destruct (inner s g) as [gnode|]; [|discriminate].
      cbv zeta in Hr.
      destruct (cof2 f fnode (Nat.min (nstored fnode) (nstored gnode))) as [[ft fe]|]; [|discriminate].
      destruct (cof2 g gnode (Nat.min (nstored fnode) (nstored gnode))) as [[gt' ge]|]; [|discriminate].
      destruct (apply_bin gt C cget cadd n s c op ft gt') as [[[s1 c1] t]|] eqn:E1; [|discriminate].
      destruct (apply_bin gt C cget cadd n s1 c1 op fe ge) as [[[s2 c2] e]|] eqn:E2; [|discriminate].
      destruct (mk_node s2 (Nat.min (nstored fnode) (nstored gnode)) [E t; E e]) as [s3 h] eqn:Em.
      inversion Hr; subst s' c' r.
      destruct (IH _ _ _ _ _ _ _ E1) as [X1 T1]. destruct (IH _ _ _ _ _ _ _ E2) as [X2 T2].
      apply (join_tight s s1 s2 s3 t e _ h X1 T1 X2 T2 Em).
Qed.

(** ** [apply_ite] (all short-cuts, cache hit, expansion) *)
Theorem apply_ite_tight : forall fuel s c f g h s' c' r,
  apply_ite gt C cget cadd fuel s c f g h = Some (s', c', r) -> extends s s' /\ tight s s' r.
Proof.
  induction fuel as [|n IH]; intros s c f g h s' c' r Hr; [discriminate|].
  rewrite apply_ite_S in Hr.
  assert (Here : forall x, Some (s, c, x) = Some (s', c', r) -> extends s s' /\ tight s s' r).
  { intros x Hx. inversion Hx; subst. split; [apply extends_refl | apply tight_refl]. }
  destruct (ref_eqb g h); [apply (Here _ Hr)|].
  destruct (ref_eqb f g); [apply (apply_bin_tight _ _ _ _ _ _ _ _ _ Hr)|].
  destruct (ref_eqb f h); [apply (apply_bin_tight _ _ _ _ _ _ _ _ _ Hr)|].
  destruct (view s f) as [[|bf]|]; [| |discriminate].
  2: { destruct bf; apply (Here _ Hr). }
  destruct (view s g) as [[|[|]]|]; [| | |discriminate]; (destruct (view s h) as [[|bh]|]; [| |discriminate]).
  - destruct (cget c code_ite [f; g; h]) as [x|]; [apply (Here _ Hr)|].
    destruct (inner s f) as [fnode|]; [|discriminate]. destruct (inner s g) as [gnode|]; [|discriminate].
    destruct (inner s h) as [hnode|]; [|discriminate]. cbv zeta in Hr.
    set (lvl := Nat.min (Nat.min (nstored fnode) (nstored gnode)) (nstored hnode)) in *.
    destruct (cof2 f fnode lvl) as [[ft fe]|]; [|discriminate].
    destruct (cof2 g gnode lvl) as [[gt' ge]|]; [|discriminate].
    destruct (cof2 h hnode lvl) as [[ht he]|]; [|discriminate].
    destruct (apply_ite gt C cget cadd n s c ft gt' ht) as [[[s1 c1] t]|] eqn:E1; [|discriminate].
    destruct (apply_ite gt C cget cadd n s1 c1 fe ge he) as [[[s2 c2] e]|] eqn:E2; [|discriminate].
    destruct (mk_node s2 lvl [E t; E e]) as [s3 x] eqn:Em.
    inversion Hr; subst s' c' r.
    destruct (IH _ _ _ _ _ _ _ _ E1) as [X1 T1]. destruct (IH _ _ _ _ _ _ _ _ E2) as [X2 T2].
    apply (join_tight s s1 s2 s3 t e _ x X1 T1 X2 T2 Em).
  - destruct bh; apply (apply_bin_tight _ _ _ _ _ _ _ _ _ Hr).
  - apply (apply_bin_tight _ _ _ _ _ _ _ _ _ Hr).
  - apply (Here _ Hr).
  - apply (apply_bin_tight _ _ _ _ _ _ _ _ _ Hr).
  - apply (apply_not_tight _ _ _ _ _ _ _ Hr).
Qed.

End Any.

(** ** [var_edge] / [not_var_edge] *)
Theorem mk_var_tight : forall s v neg s' r, mk_var s v neg = Some (s', r) ->
  extends s s' /\ forall id nd, find_node s' id = Some nd -> find_node s id = Some nd \/ r = RN id.
Proof.
  intros s v neg s' r. unfold mk_var.
  destruct (nth_error (s_v2l s) v) as [lvl|]; [|discriminate].
  destruct (term_of s true) as [t1|]; [|discriminate]. destruct (term_of s false) as [t0|]; [|discriminate].
  set (ch := if neg then [E (RT t0); E (RT t1)] else [E (RT t1); E (RT t0)]).
  destruct (get_or_insert s lvl ch) as [s1 e] eqn:Eg. intros Hr. inversion Hr; subst s' r.
  split; [apply (get_or_insert_extends _ _ _ _ _ Eg)|].
  unfold get_or_insert in Eg. destruct (find_dup s lvl ch) as [i|]; inversion Eg; subst s1 e.
  - intros id nd F. left. exact F.
  - intros id nd F. destruct (Pos.eq_dec id (fresh_id s)) as [->|Hne]; [right; reflexivity|].
    left. unfold find_node, set_nodes in F. simpl in F. rewrite PositiveMap.gso in F by exact Hne. exact F.
Qed.

(** ** The result does not depend on the cache or on the operand order *)

Section Det.
Variables gt1 gt2 : ref -> ref -> bool.
Variables C1 C2 : Type.
Variable cget1 : C1 -> N -> list ref -> option ref.
Variable cadd1 : C1 -> N -> list ref -> ref -> C1.
Variable cget2 : C2 -> N -> list ref -> option ref.
Variable cadd2 : C2 -> N -> list ref -> ref -> C2.
Hypothesis L1 : lossy cget1 cadd1.
Hypothesis L2 : lossy cget2 cadd2.

Theorem apply_not_deterministic : forall fuel s c1 c2 f,
  BddOK s -> CacheOK cget1 s c1 -> CacheOK cget2 s c2 -> ref_ok s f -> FUEL s <= fuel ->
  exists s' c1' c2' r,
    apply_not C1 cget1 cadd1 fuel s c1 f = Some (s', c1', r) /\
    apply_not C2 cget2 cadd2 fuel s c2 f = Some (s', c2', r).
Proof.
  intros fuel s c1 c2 f B O1 O2 Hf F.
  pose proof (apply_not_g_cache_exact fresh_id fresh_id_alloc_ok C1 C2 cget1 cadd1 cget2 cadd2 L1 L2
                fuel SSeq s c1 c2 f B O1 O2 Hf F) as H.
  rewrite !apply_not_g_seq in H. unfold same_out in H.
  destruct (apply_not C1 cget1 cadd1 fuel s c1 f) as [[[s1 c1'] r1]|]; [|contradiction].
  destruct (apply_not C2 cget2 cadd2 fuel s c2 f) as [[[s2 c2'] r2]|]; [|contradiction].
  destruct H as [-> ->]. exists s2, c1', c2', r2. auto.
Qed.

Theorem apply_bin_deterministic : forall op fuel s c1 c2 f g,
  BddOK s -> CacheOK cget1 s c1 -> CacheOK cget2 s c2 -> ref_ok s f -> ref_ok s g -> FUEL s <= fuel ->
  exists s' c1' c2' r,
    apply_bin gt1 C1 cget1 cadd1 fuel s c1 op f g = Some (s', c1', r) /\
    apply_bin gt2 C2 cget2 cadd2 fuel s c2 op f g = Some (s', c2', r).
Proof.
  intros op fuel s c1 c2 f g B O1 O2 Hf Hg F.
  pose proof (apply_bin_g_cache_exact fresh_id fresh_id_alloc_ok gt1 gt2 C1 C2 cget1 cadd1 cget2 cadd2 L1 L2
                op fuel SSeq s c1 c2 f g B O1 O2 Hf Hg F) as H.
  rewrite !apply_bin_g_seq in H. unfold same_out in H.
  destruct (apply_bin gt1 C1 cget1 cadd1 fuel s c1 op f g) as [[[s1 c1'] r1]|]; [|contradiction].
  destruct (apply_bin gt2 C2 cget2 cadd2 fuel s c2 op f g) as [[[s2 c2'] r2]|]; [|contradiction].
  destruct H as [-> ->]. exists s2, c1', c2', r2. auto.
Qed.

Theorem apply_ite_deterministic : forall fuel s c1 c2 f g h,
  BddOK s -> CacheOK cget1 s c1 -> CacheOK cget2 s c2 -> ref_ok s f -> ref_ok s g -> ref_ok s h ->
  FUEL s <= fuel ->
  exists s' c1' c2' r,
    apply_ite gt1 C1 cget1 cadd1 fuel s c1 f g h = Some (s', c1', r) /\
    apply_ite gt2 C2 cget2 cadd2 fuel s c2 f g h = Some (s', c2', r).
Proof.
  intros fuel s c1 c2 f g h B O1 O2 Hf Hg Hh F.
  pose proof (apply_ite_g_cache_exact fresh_id fresh_id_alloc_ok gt1 gt2 C1 C2 cget1 cadd1 cget2 cadd2 L1 L2
                fuel SSeq s c1 c2 f g h B O1 O2 Hf Hg Hh F) as H.
  rewrite !apply_ite_g_seq in H. unfold same_out in H.
  destruct (apply_ite gt1 C1 cget1 cadd1 fuel s c1 f g h) as [[[s1 c1'] r1]|]; [|contradiction].
  destruct (apply_ite gt2 C2 cget2 cadd2 fuel s c2 f g h) as [[[s2 c2'] r2]|]; [|contradiction].
  destruct H as [-> ->]. exists s2, c1', c2', r2. auto.
Qed.

End Det.

(** ** If the result function already has an edge: that edge, and nothing is created *)

Section Existing.
Variable gt : ref -> ref -> bool.
Variable C : Type.
Variable cget : C -> N -> list ref -> option ref.
Variable cadd : C -> N -> list ref -> ref -> C.
Hypothesis L : lossy cget cadd.

Theorem apply_not_existing : forall fuel s c f phi r0,
  BddOK s -> CacheOK cget s c -> Den s f phi -> FUEL s <= fuel ->
  Den s r0 (fun c0 => negb (phi c0)) ->
  exists c', apply_not C cget cadd fuel s c f = Some (s, c', r0).
Proof.
  intros fuel s c f phi r0 B O D F D0. unfold FUEL in F.
  pose proof (rlevel_le s (bo_wf s B) f).
  destruct (apply_not_ok C cget cadd L fuel s c f phi B O D ltac:(lia)) as [s' [c' [r [E [_ [_ [_ [_ S]]]]]]]].
  destruct (S r0 D0) as [-> ->]. exists c'. exact E.
Qed.

Theorem apply_bin_existing : forall op fuel s c f g phi psi r0,
  BddOK s -> CacheOK cget s c -> Den s f phi -> Den s g psi -> FUEL s <= fuel ->
  Den s r0 (fun c0 => eval_bop op (phi c0) (psi c0)) ->
  exists c', apply_bin gt C cget cadd fuel s c op f g = Some (s, c', r0).
Proof.
  intros op fuel s c f g phi psi r0 B O Df Dg F D0. unfold FUEL in F.
  destruct (apply_bin_ok gt C cget cadd L op fuel s c f g phi psi B O Df Dg ltac:(lia))
    as [s' [c' [r [E [_ [_ [_ [_ S]]]]]]]].
  destruct (S r0 D0) as [-> ->]. exists c'. exact E.
Qed.

Theorem apply_ite_existing : forall fuel s c f g h phi psi theta r0,
  BddOK s -> CacheOK cget s c -> Den s f phi -> Den s g psi -> Den s h theta -> FUEL s <= fuel ->
  Den s r0 (fun c0 => if phi c0 then psi c0 else theta c0) ->
  exists c', apply_ite gt C cget cadd fuel s c f g h = Some (s, c', r0).
Proof.
  intros fuel s c f g h phi psi theta r0 B O Df Dg Dh F D0. unfold FUEL in F.
  destruct (apply_ite_ok gt C cget cadd L fuel s c f g h phi psi theta B O Df Dg Dh ltac:(lia))
    as [s' [c' [r [E [_ [_ [_ [_ S]]]]]]]].
  destruct (S r0 D0) as [-> ->]. exists c'. exact E.
Qed.

End Existing.

(** ** The instance of the correspondence run: direct-mapped cache (any hash
    function, any number of buckets, any entry capacity), initially empty, any
    operand order.  One statement per algorithm: defined; well-formed extension;
    new nodes = new part of the result's diagram; pointwise correct; and the
    very same table and edge as the run WITHOUT cache under any other order. *)

Section Dm.
Variable hash : dm_key -> N.
Variable gt : ref -> ref -> bool.
Let dget := dmr_get hash.
Let dadd := dmr_add hash.

Theorem apply_not_dm : forall nb cap s f, BddOK s -> ref_ok s f ->
  exists s' c' r,
    apply_not dm_cache dget dadd (FUEL s) s (dm_init nb cap) f = Some (s', c', r) /\
    BddOK s' /\ extends s s' /\ tight s s' r /\ ref_ok s' r /\
    (forall c0, bchoice c0 -> exists x, bvalue s f c0 x /\ bvalue s' r c0 (negb x)) /\
    exists c2', apply_not unit nc_get nc_add (FUEL s) s tt f = Some (s', c2', r).
Proof.
  intros nb cap s f B Hf.
  destruct (apply_not_sound dm_cache dget dadd (dmr_lossy hash) (FUEL s) s (dm_init nb cap) f B
              (dm_cacheok_init hash s nb cap) Hf (le_n _)) as [s' [c' [r [E [B' [X [_ [Hr Hv]]]]]]]].
  exists s', c', r. split; [exact E|]. split; [exact B'|]. split; [exact X|].
  split; [apply (apply_not_tight dm_cache dget dadd _ _ _ _ _ _ _ E)|]. split; [exact Hr|]. split; [exact Hv|].
  destruct (apply_not_deterministic dm_cache unit dget dadd nc_get nc_add (dmr_lossy hash) nc_lossy
              (FUEL s) s (dm_init nb cap) tt f B (dm_cacheok_init hash s nb cap) (nc_ok s tt) Hf (le_n _))
    as [s2 [c1' [c2' [r2 [E1 E2]]]]].
  fold dget dadd in E1. rewrite E in E1. inversion E1; subst. exists c2'. exact E2.
Qed.

Theorem apply_bin_dm : forall gt2 nb cap op s f g, BddOK s -> ref_ok s f -> ref_ok s g ->
  exists s' c' r,
    apply_bin gt dm_cache dget dadd (FUEL s) s (dm_init nb cap) op f g = Some (s', c', r) /\
    BddOK s' /\ extends s s' /\ tight s s' r /\ ref_ok s' r /\
    (forall c0, bchoice c0 -> exists x y,
        bvalue s f c0 x /\ bvalue s g c0 y /\ bvalue s' r c0 (eval_bop op x y)) /\
    exists c2', apply_bin gt2 unit nc_get nc_add (FUEL s) s tt op f g = Some (s', c2', r).
Proof.
  intros gt2 nb cap op s f g B Hf Hg.
  destruct (apply_bin_sound gt dm_cache dget dadd (dmr_lossy hash) op (FUEL s) s (dm_init nb cap) f g B
              (dm_cacheok_init hash s nb cap) Hf Hg (le_n _)) as [s' [c' [r [E [B' [X [_ [Hr Hv]]]]]]]].
  exists s', c', r. split; [exact E|]. split; [exact B'|]. split; [exact X|].
  split; [apply (apply_bin_tight gt dm_cache dget dadd _ _ _ _ _ _ _ _ _ E)|]. split; [exact Hr|]. split; [exact Hv|].
  destruct (apply_bin_deterministic gt gt2 dm_cache unit dget dadd nc_get nc_add (dmr_lossy hash) nc_lossy
              op (FUEL s) s (dm_init nb cap) tt f g B (dm_cacheok_init hash s nb cap) (nc_ok s tt) Hf Hg (le_n _))
    as [s2 [c1' [c2' [r2 [E1 E2]]]]].
  fold dget dadd in E1. rewrite E in E1. inversion E1; subst. exists c2'. exact E2.
Qed.

Theorem apply_ite_dm : forall gt2 nb cap s f g h, BddOK s -> ref_ok s f -> ref_ok s g -> ref_ok s h ->
  exists s' c' r,
    apply_ite gt dm_cache dget dadd (FUEL s) s (dm_init nb cap) f g h = Some (s', c', r) /\
    BddOK s' /\ extends s s' /\ tight s s' r /\ ref_ok s' r /\
    (forall c0, bchoice c0 -> exists x y z,
        bvalue s f c0 x /\ bvalue s g c0 y /\ bvalue s h c0 z /\ bvalue s' r c0 (if x then y else z)) /\
    exists c2', apply_ite gt2 unit nc_get nc_add (FUEL s) s tt f g h = Some (s', c2', r).
Proof.
  intros gt2 nb cap s f g h B Hf Hg Hh.
  destruct (apply_ite_sound gt dm_cache dget dadd (dmr_lossy hash) (FUEL s) s (dm_init nb cap) f g h B
              (dm_cacheok_init hash s nb cap) Hf Hg Hh (le_n _)) as [s' [c' [r [E [B' [X [_ [Hr Hv]]]]]]]].
  exists s', c', r. split; [exact E|]. split; [exact B'|]. split; [exact X|].
  split; [apply (apply_ite_tight gt dm_cache dget dadd _ _ _ _ _ _ _ _ _ E)|]. split; [exact Hr|]. split; [exact Hv|].
  destruct (apply_ite_deterministic gt gt2 dm_cache unit dget dadd nc_get nc_add (dmr_lossy hash) nc_lossy
              (FUEL s) s (dm_init nb cap) tt f g h B (dm_cacheok_init hash s nb cap) (nc_ok s tt) Hf Hg Hh (le_n _))
    as [s2 [c1' [c2' [r2 [E1 E2]]]]].
  fold dget dadd in E1. rewrite E in E1. inversion E1; subst. exists c2'. exact E2.
Qed.

End Dm.

(** ** A concrete run: hypotheses satisfiable, a node is created, [tight] is not vacuous *)

Definition edge_hash (k : dm_key) : N := (k_op k * 7 + N.of_nat (length (k_eops k)))%N.
Definition edge_gt (a b : ref) : bool := match a, b with RN x, RN y => Pos.ltb y x | _, _ => false end.

(** [ex_snap] (DD/TableProofs.v): node 1 = "level 1", node 2 = "not level 1",
    node 3 = "level 0 <-> level 1".  (l0 <-> l1) and l1 = l0 and l1: exactly one
    new node (id 4, the result); (l0 <-> l1) xor l1 = not l0: one new node;
    l1 nand l1 = not l1 exists already: nothing is created and node 2 is returned *)
Example edge_example :
  BddOK ex_snap /\
  (match apply_bin edge_gt dm_cache (dmr_get edge_hash) (dmr_add edge_hash) (FUEL ex_snap) ex_snap
           (dm_init 4 8) OAnd (RN 3) (RN 1) with
   | Some (s', _, r) =>
     r = RN 4 /\ find_node ex_snap 4 = None /\
     find_node s' 4 = Some (mkNode 0 [E (RN 1); E (RT 0)] 0 0) /\
     length (PositiveMap.elements (s_nodes s')) = 4
   | None => False
   end) /\
  (match apply_bin edge_gt dm_cache (dmr_get edge_hash) (dmr_add edge_hash) (FUEL ex_snap) ex_snap
           (dm_init 4 8) ONand (RN 1) (RN 1) with
   | Some (s', _, r) => r = RN 2 /\ s' = ex_snap
   | None => False
   end).
Proof.
  split; [apply bdd_ok_b_spec; vm_compute; reflexivity|]. split.
  - vm_compute. repeat split; reflexivity.
  - vm_compute. split; reflexivity.
Qed.
