(** * Constants, variables, evaluation and cofactors of the BDD kind

    - [choice_of], [bfun_of]: from assignments (variable |-> bool) to choices
      (level |-> child index) and the Boolean function (DD/Sem.v [bfun]) a
      reference denotes under the current variable order;
    - [eval_walk_sem], [eval_edge_sem]: the walk of [eval_edge] computes the
      node-by-node interpretation [semk];
    - [cofactors_shannon], [cofactors_cof]: the children of the root are the
      two Shannon cofactors w.r.t. the top-most variable ([Sem.cof]);
    - [mk_var_sem], [mk_const_sem]. *)

From Coq Require Import List NArith PArith Bool Arith Lia FMapPositive.
From OxiVerif Require Import DD.Table DD.TableProofs DD.Canon DD.Sem DD.Build DD.BuildProofs DD.Apply DD.ApplyProofs.
Import ListNotations.

(** the choice function of an assignment under the table's variable order
    (child 0 = then = the level's variable is true) *)
Definition choice_of (s : snap) (a : asg) : nat -> nat :=
  fun l => match nth_error (s_l2v s) l with
           | Some v => if a v then 0 else 1
           | None => 0
           end.

Lemma choice_of_bchoice : forall s a, bchoice (choice_of s a).
Proof.
  intros s a l. unfold choice_of. destruct (nth_error (s_l2v s) l) as [v|]; [destruct (a v)|]; lia.
Qed.

(** the Boolean function of a reference *)
Definition bfun_of (s : snap) (r : ref) : bfun :=
  fun a => match semk s (FUEL s) r (choice_of s a) with Some 1%N => true | _ => false end.

Lemma bfun_of_den : forall s r phi, Den s r phi -> forall a, bfun_of s r a = phi (choice_of s a).
Proof.
  intros s r phi [_ D] a. unfold bfun_of, FUEL. rewrite (D _ (choice_of_bchoice s a)).
  destruct (phi (choice_of s a)); reflexivity.
Qed.

(** ** Evaluation *)

Theorem eval_walk_sem : forall s, WF s -> forall fuel r ch,
  eval_walk fuel s r ch =
  option_map (fun v => N.eqb v 1) (semk s fuel r (fun l => if ch l then 1 else 0)).
Proof.
  intros s H. induction fuel as [|n IH]; intros r ch.
  - destruct r as [t|id]; simpl; [|reflexivity].
    rewrite semk_T. destruct (term_val s t); reflexivity.
  - destruct r as [t|id]; simpl eval_walk.
    + rewrite semk_T. destruct (term_val s t); reflexivity.
    + rewrite semk_S. destruct (find_node s id) as [nd|] eqn:En; [|reflexivity].
      rewrite (wf_stored s H id nd En).
      destruct (ch (nlevel nd));
        (destruct (nth_error (nchildren nd) _) as [e|]; [apply IH | reflexivity]).
Qed.

(** [eval_edge] on an existing reference: always a result, and it is the value
    [semk] gives under the choices built from the argument list *)
Theorem eval_edge_sem : forall s r args, BddOK s -> ref_ok s r ->
  exists x, eval_edge s r args = Some x /\
    bvalue s r (fun l => if choices_of s args (fun _ => false) l then 1 else 0) x.
Proof.
  intros s r args B Hok. unfold eval_edge. rewrite (eval_walk_sem s (bo_wf s B)).
  destruct (den_exists s r B Hok) as [phi D].
  set (c := fun l => if choices_of s args (fun _ => false) l then 1 else 0).
  assert (Hc : bchoice c) by (intros l; unfold c; destruct (choices_of s args _ l); lia).
  exists (phi c). unfold bvalue, FUEL. rewrite (proj2 D c Hc). split; [|reflexivity].
  destruct (phi c); reflexivity.
Qed.

(** what [choices_of] computes when the argument list is consistent with an
    assignment [a]: every listed variable's level gets [negb (a var)] *)
Lemma choices_of_consistent : forall s (a : asg), WF s -> forall args acc l,
  (forall v b, In (v, b) args -> b = a v /\ v < length (s_v2l s)) ->
  choices_of s args acc l =
  if existsb (fun p : nat * bool => match nth_error (s_v2l s) (fst p) with
                                    | Some lv => Nat.eqb l lv | None => false end) args
  then match nth_error (s_l2v s) l with Some v => negb (a v) | None => acc l end
  else acc l.
Proof.
  intros s a H. induction args as [|[v b] rest IH]; intros acc l Hall; [reflexivity|].
  simpl. destruct (Hall v b (or_introl eq_refl)) as [-> Hv].
  destruct (wf_perm_v2l s H v Hv) as [lv [E1 E2]]. rewrite E1.
  rewrite IH by (intros v' b' Hin; apply Hall; right; exact Hin).
  destruct (Nat.eqb_spec l lv) as [->|Hne]; simpl.
  - rewrite E2. destruct (existsb _ rest); reflexivity.
  - reflexivity.
Qed.

(** for an argument list that gives every variable its value under [a],
    [eval_edge] returns the value of the reference's function at [a] *)
Theorem eval_edge_assignment : forall s r (a : asg) args, BddOK s -> ref_ok s r ->
  (forall v b, In (v, b) args -> b = a v /\ v < nlevels s) ->
  (forall v, v < nlevels s -> In v (map fst args)) ->
  eval_edge s r args = Some (bfun_of s r a).
Proof.
  intros s r a args B Hok Hcons Hall. pose proof (bo_wf s B) as H.
  destruct (eval_edge_sem s r args B Hok) as [x [E V]]. rewrite E. f_equal.
  destruct (den_exists s r B Hok) as [phi D]. rewrite (bfun_of_den s r phi D).
  set (c := fun l => if choices_of s args (fun _ => false) l then 1 else 0) in *.
  assert (Hc : bchoice c) by (intros l; unfold c; destruct (choices_of s args _ l); lia).
  apply (bvalue_fun s r c); [exact V|]. unfold bvalue, FUEL.
  rewrite (proj2 D c Hc). do 2 f_equal.
  apply (den_indep s r phi H D c (choice_of s a) Hc (choice_of_bchoice s a)).
  intros l _. unfold c, choice_of.
  assert (Hlen : length (s_v2l s) = nlevels s) by (apply (wf_perm_len s H)).
  rewrite (choices_of_consistent s a H args _ l)
    by (intros v b Hin; destruct (Hcons v b Hin); split; [assumption | lia]).
  destruct (nth_error (s_l2v s) l) as [v|] eqn:El.
  - assert (Hl : l < length (s_l2v s)) by (apply nth_error_Some; congruence).
    destruct (wf_perm_l2v s H l Hl) as [v' [E1 E2]]. rewrite El in E1. inversion E1; subst v'.
    assert (Hv : v < nlevels s) by (rewrite <- Hlen; apply nth_error_Some; congruence).
    assert (Hex : existsb (fun p : nat * bool => match nth_error (s_v2l s) (fst p) with
                              | Some lv => Nat.eqb l lv | None => false end) args = true).
    { apply existsb_exists. specialize (Hall v Hv). apply in_map_iff in Hall.
      destruct Hall as [[v0 b0] [Ev Hin]]. simpl in Ev. subst v0.
      exists (v, b0). split; [exact Hin|]. simpl. rewrite E2. apply Nat.eqb_refl. }
    rewrite Hex. destruct (a v); reflexivity.
  - destruct (existsb _ args); reflexivity.
Qed.

(** ** Cofactors *)

Theorem cofactors_shannon : forall s r t e, BddOK s -> ref_ok s r ->
  cofactors s r = Some (t, e) ->
  exists id nd, r = RN id /\ find_node s id = Some nd /\ rlevel s r = nlevel nd /\
    ref_ok s t /\ ref_ok s e /\
    forall c, bchoice c ->
      semk s (FUEL s) t c = semk s (FUEL s) r (cupd c (nlevel nd) 0) /\
      semk s (FUEL s) e c = semk s (FUEL s) r (cupd c (nlevel nd) 1).
Proof.
  intros s r t e B Hok Hc. pose proof (bo_wf s B) as H.
  destruct r as [x|id]; [discriminate|]. simpl in Hc.
  destruct (find_node s id) as [nd|] eqn:En; [|discriminate].
  destruct (bdd_children s id nd B En) as [a [b Ech]]. rewrite Ech in Hc. inversion Hc; subst t e.
  assert (Ha : nth_error (nchildren nd) 0 = Some a) by (rewrite Ech; reflexivity).
  assert (Hb : nth_error (nchildren nd) 1 = Some b) by (rewrite Ech; reflexivity).
  exists id, nd. split; [reflexivity|]. split; [exact En|].
  split; [apply (rlevel_node s id nd En)|].
  split; [apply (child_nth s H id nd 0 a En Ha)|]. split; [apply (child_nth s H id nd 1 b En Hb)|].
  intros c _. split.
  - apply (child_sem s H id nd 0 a c En Ha).
  - apply (child_sem s H id nd 1 b c En Hb).
Qed.

(** setting variable [v] in the assignment = setting its level in the choice *)
Lemma choice_of_upd : forall s (a : asg) v lvl b, WF s ->
  nth_error (s_l2v s) lvl = Some v ->
  forall l, choice_of s (Sem.upd a v b) l = cupd (choice_of s a) lvl (if b then 0 else 1) l.
Proof.
  intros s a v lvl b H El l. unfold choice_of, Sem.upd, cupd.
  assert (Hlvl : lvl < length (s_l2v s)) by (apply nth_error_Some; congruence).
  destruct (nth_error (s_l2v s) l) as [v'|] eqn:E.
  - assert (Hl : l < length (s_l2v s)) by (apply nth_error_Some; congruence).
    destruct (wf_perm_l2v s H l Hl) as [x [E1 E2]]. rewrite E in E1. inversion E1; subst x.
    destruct (wf_perm_l2v s H lvl Hlvl) as [y [F1 F2]]. rewrite El in F1. inversion F1; subst y.
    destruct (Nat.eqb_spec v' v) as [->|Hne]; destruct (Nat.eqb_spec l lvl) as [->|Hnl];
      try reflexivity.
    + rewrite E2 in F2. inversion F2. contradiction.
    + rewrite E in El. inversion El. contradiction.
  - destruct (Nat.eqb_spec l lvl) as [->|Hnl]; [congruence | reflexivity].
Qed.

(** C02: the two results of [cofactors] are the Shannon cofactors of the
    handle's function w.r.t. the variable at its root level *)
Theorem cofactors_cof : forall s r t e, BddOK s -> ref_ok s r ->
  cofactors s r = Some (t, e) ->
  exists v, nth_error (s_l2v s) (rlevel s r) = Some v /\
    forall a, bfun_of s t a = cof (bfun_of s r) v true a /\
              bfun_of s e a = cof (bfun_of s r) v false a.
Proof.
  intros s r t e B Hok Hc. pose proof (bo_wf s B) as H.
  destruct (cofactors_shannon s r t e B Hok Hc) as [id [nd [-> [En [Hl [Ot [Oe Hs]]]]]]].
  pose proof (wf_level s H id nd En) as Hlv.
  destruct (nth_error (s_l2v s) (nlevel nd)) as [v|] eqn:Ev;
    [|apply nth_error_None in Ev; unfold nlevels in Hlv; lia].
  exists v. rewrite Hl. split; [exact Ev|]. intros a.
  destruct (Hs (choice_of s a) (choice_of_bchoice s a)) as [S0 S1].
  unfold cof, bfun_of. split.
  - rewrite S0. rewrite (semk_ext s H _ (RN id) _ _ (fun l _ => choice_of_upd s a v (nlevel nd) true H Ev l)).
    reflexivity.
  - rewrite S1. rewrite (semk_ext s H _ (RN id) _ _ (fun l _ => choice_of_upd s a v (nlevel nd) false H Ev l)).
    reflexivity.
Qed.

(** ** Constants and variables *)

Theorem mk_const_sem : forall s b, BddOK s ->
  exists r, mk_const s b = Some r /\ Den s r (fun _ => b).
Proof.
  intros s b B. unfold mk_const. destruct (term_of_total s b B) as [t E]. rewrite E.
  exists (RT t). split; [reflexivity | apply den_const; assumption].
Qed.

Theorem mk_var_sem : forall s v neg, BddOK s -> v < nlevels s ->
  exists lvl s' r, nth_error (s_v2l s) v = Some lvl /\ mk_var s v neg = Some (s', r) /\
    BddOK s' /\ extends s s' /\
    Den s' r (fun c => xorb neg (Nat.eqb (c lvl) 0)).
Proof.
  intros s v neg B Hv. pose proof (bo_wf s B) as H.
  assert (Hv' : v < length (s_v2l s)) by (rewrite (wf_perm_len s H); exact Hv).
  destruct (wf_perm_v2l s H v Hv') as [lvl [E1 E2]].
  assert (Hlvl : lvl < nlevels s) by (unfold nlevels; apply nth_error_Some; congruence).
  destruct (term_of_total s true B) as [t1 T1]. destruct (term_of_total s false B) as [t0 T0].
  pose proof (term_of_spec s true t1 H T1) as V1. pose proof (term_of_spec s false t0 H T0) as V0.
  simpl in V1, V0.
  assert (Hne : t1 <> t0) by (intros ->; rewrite V1 in V0; discriminate).
  unfold mk_var. rewrite E1, T1, T0.
  set (ch := if neg then [E (RT t0); E (RT t1)] else [E (RT t1); E (RT t0)]).
  assert (Hae : all_equal ch = false).
  { unfold ch. destruct neg; simpl; unfold edge_eqb; simpl; rewrite andb_true_r, andb_false_iff; left;
      apply N.eqb_neq; congruence. }
  assert (Hch : children_ok s lvl ch).
  { split; [rewrite (bo_kind s B); unfold ch; destruct neg; reflexivity|].
    intros e He.
    assert (Hx : e = E (RT t1) \/ e = E (RT t0))
      by (unfold ch in He; destruct neg; simpl in He; intuition).
    destruct Hx as [->| ->]; simpl; (split; [eexists; eassumption | split; [exact Hlvl | reflexivity]]). }
  destruct (get_or_insert s lvl ch) as [s' e] eqn:Eg.
  destruct (get_or_insert_wf s lvl ch s' e H (bdd_kary s B) Hlvl Hch Hae Eg) as [W [X [O [_ [_ Sh]]]]].
  exists lvl, s', (eref e). split; [reflexivity|]. split; [reflexivity|].
  split; [apply (bddok_extends s s' B X W)|]. split; [exact X|].
  split; [exact O|]. intros c Hc. pose proof (Hc lvl) as Hc2.
  destruct (c lvl) as [|[|k]] eqn:Ec; [| |lia].
  - destruct neg; unfold ch in Sh.
    + rewrite (Sh c 0 (E (RT t0)) Ec eq_refl). simpl. rewrite semk_T. exact V0.
    + rewrite (Sh c 0 (E (RT t1)) Ec eq_refl). simpl. rewrite semk_T. exact V1.
  - destruct neg; unfold ch in Sh.
    + rewrite (Sh c 1 (E (RT t1)) Ec eq_refl). simpl. rewrite semk_T. exact V1.
    + rewrite (Sh c 1 (E (RT t0)) Ec eq_refl). simpl. rewrite semk_T. exact V0.
Qed.

(** in terms of assignments: the (negated) variable *)
Theorem mk_var_bfun : forall s v neg, BddOK s -> v < nlevels s ->
  exists s' r, mk_var s v neg = Some (s', r) /\ BddOK s' /\ extends s s' /\ ref_ok s' r /\
    forall a, bfun_of s' r a = xorb neg (var_s v a).
Proof.
  intros s v neg B Hv.
  destruct (mk_var_sem s v neg B Hv) as [lvl [s' [r [E1 [Em [B' [X D]]]]]]].
  exists s', r. split; [exact Em|]. split; [exact B'|]. split; [exact X|]. split; [apply (proj1 D)|].
  intros a. rewrite (bfun_of_den s' r _ D). unfold var_s, choice_of.
  pose proof (bo_wf s B) as H.
  assert (Hv' : v < length (s_v2l s)) by (rewrite (wf_perm_len s H); exact Hv).
  destruct (wf_perm_v2l s H v Hv') as [lvl' [F1 F2]]. rewrite E1 in F1. inversion F1; subst lvl'.
  rewrite (ext_l2v _ _ X), F2. destruct (a v); reflexivity.
Qed.

(** the binary operators in terms of Boolean functions of assignments *)
Theorem apply_bin_bfun : forall gt C cget cadd, lossy cget cadd ->
  forall op s (c : C) f g,
  BddOK s -> CacheOK cget s c -> ref_ok s f -> ref_ok s g ->
  exists s' c' r, apply_bin gt C cget cadd (S (nlevels s)) s c op f g = Some (s', c', r) /\
    BddOK s' /\ extends s s' /\
    forall a, bfun_of s' r a = lift2 op (bfun_of s f) (bfun_of s g) a.
Proof.
  intros gt C cget cadd L op s c f g B O Hf Hg.
  destruct (den_exists s f B Hf) as [phi Df]. destruct (den_exists s g B Hg) as [psi Dg].
  destruct (apply_bin_ok gt C cget cadd L op (S (nlevels s)) s c f g phi psi B O Df Dg ltac:(lia))
    as [s' [c' [r [E [B' [X [_ [D' _]]]]]]]].
  exists s', c', r. split; [exact E|]. split; [exact B'|]. split; [exact X|].
  intros a. unfold lift2.
  rewrite (bfun_of_den s' r _ D'), (bfun_of_den s f phi Df), (bfun_of_den s g psi Dg).
  unfold choice_of. rewrite (ext_l2v _ _ X). reflexivity.
Qed.
