(** * The hypotheses of the C02 / C06 theorems are satisfiable, and the
    algorithms run: concrete tables, [vm_compute] runs, and the instance of
    the cache-independence theorem for the direct-mapped cache. *)

From Coq Require Import List NArith PArith Bool Arith Lia FMapPositive.
From OxiVerif Require Import DD.Table DD.TableProofs DD.Sem DD.Build DD.BuildProofs
  DD.Apply DD.ApplyProofs DD.ApplyEvalProofs DD.Cache DD.CacheProofs.
Import ListNotations.

(** an operand order (by node id), standing for the address order of the code *)
Definition gt_id (a b : ref) : bool :=
  match a, b with RN x, RN y => Pos.ltb y x | _, _ => false end.

(** a hash function for the direct-mapped model *)
Definition hash_op (k : dm_key) : N := (k_op k + N.of_nat (length (k_eops k)))%N.

(** [ex_snap] (DD/TableProofs.v): 2 levels, node 1 = "level 1", node 2 = "not
    level 1", node 3 = "level 0 <-> level 1" *)
Example ex_snap_bdd_ok : BddOK ex_snap.
Proof. apply bdd_ok_b_spec. vm_compute. reflexivity. Qed.

Example ex_cache_ok : CacheOK ac_get ex_snap [].
Proof. apply ac_empty_ok. Qed.

Definition nodes_of (r : option (snap * acache * ref)) :=
  match r with
  | Some (s, _, r) => Some (PositiveMap.elements (s_nodes s), r)
  | None => None
  end.

(** (l0 <-> l1) /\ l1  =  l0 /\ l1: one new node (id 4) at level 0 *)
Example ex_apply_and :
  nodes_of (apply_bin gt_id acache ac_get ac_add (FUEL ex_snap) ex_snap [] OAnd (RN 3) (RN 1)) =
  Some ([(4%positive, mkNode 0 [E (RN 1); E (RT 0)] 0 0);
         (2%positive, mkNode 1 [E (RT 0); E (RT 1)] 1 1);
         (1%positive, mkNode 1 [E (RT 1); E (RT 0)] 1 1);
         (3%positive, mkNode 0 [E (RN 1); E (RN 2)] 0 1)], RN 4).
Proof. vm_compute. reflexivity. Qed.

(** the cache after that run holds the two results that were memoised, each
    under its operator code and (ordered) operand pair *)
Example ex_apply_and_cache :
  match apply_bin gt_id acache ac_get ac_add (FUEL ex_snap) ex_snap [] OAnd (RN 3) (RN 1) with
  | Some (_, c, _) => c = [(1%N, [RN 1; RN 3], RN 4); (1%N, [RN 1; RN 2], RT 0%N)]
  | None => False
  end.
Proof. vm_compute. reflexivity. Qed.

(** the same operation with: no cache at all; a direct-mapped cache with one
    bucket (every insertion evicts the previous entry); one with 8 buckets -
    the same table and the same reference *)
Example ex_apply_and_caches :
  let r0 := apply_bin gt_id acache ac_get ac_add 3 ex_snap [] OAnd (RN 3) (RN 1) in
  let r1 := apply_bin gt_id unit nc_get nc_add 3 ex_snap tt OAnd (RN 3) (RN 1) in
  let r2 := apply_bin gt_id dm_cache (dmr_get hash_op) (dmr_add hash_op) 3 ex_snap
                      (dm_init 1 4) OAnd (RN 3) (RN 1) in
  let r3 := apply_bin gt_id dm_cache (dmr_get hash_op) (dmr_add hash_op) 3 ex_snap
                      (dm_init 8 4) OAnd (RN 3) (RN 1) in
  let out {C} (r : option (snap * C * ref)) :=
    match r with Some (s, _, r) => Some (PositiveMap.elements (s_nodes s), r) | None => None end in
  out r0 = out r1 /\ out r0 = out r2 /\ out r0 = out r3 /\ out r0 <> None.
Proof. vm_compute. repeat split; try reflexivity. discriminate. Qed.

(** (l0 <-> l1) xor l1 = not l0;  ite(l0 <-> l1, l1, not l1) = l0 *)
Example ex_apply_xor_ite :
  (match apply_bin gt_id acache ac_get ac_add 3 ex_snap [] OXor (RN 3) (RN 1) with
   | Some (s, _, r) => find_node s 4%positive = Some (mkNode 0 [E (RT 0); E (RT 1)] 0 0) /\ r = RN 4
   | None => False end) /\
  (match apply_ite gt_id acache ac_get ac_add 3 ex_snap [] (RN 3) (RN 1) (RN 2) with
   | Some (s, _, r) => find_node s 4%positive = Some (mkNode 0 [E (RT 1); E (RT 0)] 0 0) /\ r = RN 4
   | None => False end).
Proof. vm_compute. repeat split; reflexivity. Qed.

(** repeating the operation on the result table (with an empty cache) returns
    the same reference and creates nothing *)
Example ex_rerun :
  match apply_bin gt_id acache ac_get ac_add 3 ex_snap [] OAnd (RN 3) (RN 1) with
  | Some (s1, _, r1) =>
    match apply_bin gt_id dm_cache (dmr_get hash_op) (dmr_add hash_op) 3 s1 (dm_init 2 4) OAnd (RN 3) (RN 1) with
    | Some (s2, _, r2) => r2 = r1 /\ PositiveMap.elements (s_nodes s2) = PositiveMap.elements (s_nodes s1)
    | None => False
    end
  | None => False
  end.
Proof. vm_compute. split; reflexivity. Qed.

(** variables, constants, evaluation, cofactors on the example *)
Example ex_var_eval_cof :
  (match mk_var ex_snap 0 false with
   | Some (s, r) => r = RN 1 /\ PositiveMap.cardinal (s_nodes s) = 3
   | None => False end) /\
  mk_const ex_snap true = Some (RT 1%N) /\
  eval_edge ex_snap (RN 3) [(0, true); (1, true)] = Some true /\
  eval_edge ex_snap (RN 3) [(0, true); (1, false)] = Some false /\
  cofactors ex_snap (RN 3) = Some (RN 1, RN 2).
Proof. vm_compute. repeat split; reflexivity. Qed.

(** a direct-mapped cache history: insertion, hit, eviction by a colliding
    key, clear *)
Example ex_dm_history :
  let k1 := ukey 1 [RN 1; RN 3] in
  let k2 := ukey 1 [RN 1; RN 2] in
  let v4 := mkVal [E (RN 4)] [] in
  let v0 := mkVal [E (RT 0)] [] in
  let c1 := dm_run hash_op (dm_init 1 4) [DAdd k1 v4] in
  let c2 := dm_run hash_op (dm_init 1 4) [DAdd k1 v4; DAdd k2 v0] in
  let c3 := dm_run hash_op (dm_init 1 4) [DAdd k1 v4; DAdd k2 v0; DClear] in
  dm_get hash_op c1 k1 1 0 = Some v4 /\ dm_get hash_op c1 k2 1 0 = None /\
  dm_get hash_op c2 k1 1 0 = None /\ dm_get hash_op c2 k2 1 0 = Some v0 /\
  dm_get hash_op c3 k2 1 0 = None /\
  (* same operands, other operator: never served *)
  dm_get hash_op c1 (ukey 2 [RN 1; RN 3]) 1 0 = None.
Proof. vm_compute. repeat split; reflexivity. Qed.

(** ** C06 for the direct-mapped cache: whatever the bucket counts, entry
    capacities, hash functions and contents (as long as what can be served is
    correct), repeating an operation returns the identical reference *)
Theorem dm_history_independent : forall gt1 gt2 hash1 hash2 op s c1 f g fuel1 s1 c1' r1,
  BddOK s -> CacheOK (dmr_get hash1) s c1 -> ref_ok s f -> ref_ok s g -> FUEL s <= fuel1 ->
  apply_bin gt1 dm_cache (dmr_get hash1) (dmr_add hash1) fuel1 s c1 op f g = Some (s1, c1', r1) ->
  forall s2 c2 fuel2, BddOK s2 -> extends s1 s2 -> CacheOK (dmr_get hash2) s2 c2 -> FUEL s2 <= fuel2 ->
  exists c2', apply_bin gt2 dm_cache (dmr_get hash2) (dmr_add hash2) fuel2 s2 c2 op f g
              = Some (s2, c2', r1).
Proof.
  intros gt1 gt2 hash1 hash2.
  apply (apply_bin_history_independent gt1 gt2 dm_cache dm_cache _ _ _ _
           (dmr_lossy hash1) (dmr_lossy hash2)).
Qed.
