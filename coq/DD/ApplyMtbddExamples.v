(** * The hypotheses of the C10 function-level theorems are satisfiable, the
      model runs, and two short-cuts that are NOT laws are refuted at the
      diagram level

    - [ex0]: the empty MTBDD manager with two variables is [MtOK]; the table
      built from it by the model (f = 3*x0 + x1) is [MtOK] again;
    - [vm_compute] runs of add/sub/mul/min/max/ite/restrict/eval on it;
    - the witnesses of the two defects that were fixed in /repo: [0 - f] is
      not [f] (the former Sub arm [(Terminal(zero), _) => g]) and a result of
      [max] is not a correct cache entry under the key of [min] (the former
      Max arms built [Binary(MTBDDOp::Min, ..)]). *)

From Coq Require Import List NArith ZArith PArith Bool Arith Lia FMapPositive.
From OxiVerif Require Import DD.Table DD.TableProofs DD.Sem DD.Build DD.BuildProofs
  DD.Apply DD.ApplyProofs DD.ApplyMtbdd DD.ApplyMtbddBase DD.ApplyMtbddProofs
  DD.ApplyMtbddIte DD.ApplyMtbddRestrict DD.ApplyMtbddTop Num.I64 Num.I64Proofs.
Import ListNotations.

(** an operand order (by node id), standing for the address order of the code *)
Definition mgt_id (a b : ref) : bool :=
  match a, b with
  | RN x, RN y => Pos.ltb y x
  | RN _, RT _ => true
  | RT x, RT y => N.ltb y x
  | RT _, RN _ => false
  end.

(** a fresh manager with two variables: no node, no terminal *)
Definition ex0 : snap := mkSnap KMtbdd (PositiveMap.empty node) [] [0; 1] [0; 1] [].

Example ex0_ok : MtOK ex0.
Proof. apply mt_ok_b_spec. vm_compute. reflexivity. Qed.

Example ex0_cache_ok : MCacheOK ac_get ex0 [].
Proof. apply mac_empty_ok. Qed.

Definition bin (s : snap) (c : acache) (op : mop) (f g : ref) :=
  mt_apply_bin mgt_id acache ac_get ac_add (S (nlevels s)) s c op f g.

(** x0, x1, f = 3 * x0 + x1, built by the model *)
Definition ex_build : option (snap * acache * (ref * ref * ref)) :=
  match mt_var ex0 0 with
  | Some (s1, x0) =>
    match mt_var s1 1 with
    | Some (s2, x1) =>
      let '(s3, three) := mt_const s2 (INum 3) in
      match bin s3 [] MMul three x0 with
      | Some (s4, c4, m) =>
        match bin s4 c4 MAdd m x1 with
        | Some (s5, c5, f) => Some (s5, c5, (x0, x1, f))
        | None => None
        end
      | None => None
      end
    | None => None
    end
  | None => None
  end.

Definition ex1 : snap := match ex_build with Some (s, _, _) => s | None => ex0 end.
Definition ex_x0 : ref := match ex_build with Some (_, _, (x, _, _)) => x | None => RT 0 end.
Definition ex_x1 : ref := match ex_build with Some (_, _, (_, x, _)) => x | None => RT 0 end.
Definition ex_f : ref := match ex_build with Some (_, _, (_, _, x)) => x | None => RT 0 end.

Example ex_build_runs : ex_build <> None /\ ex_x0 = RN 2 /\ ex_x1 = RN 3 /\ ex_f = RN 6.
Proof. vm_compute. repeat split; try reflexivity. discriminate. Qed.

(** the table the model built satisfies the invariant (a non-trivial state
    for the hypotheses of every theorem) *)
Example ex1_ok : MtOK ex1.
Proof. apply mt_ok_b_spec. vm_compute. reflexivity. Qed.

(** value table of a reference by [mt_eval]: assignments (x0, x1) = 00, 10, 01, 11 *)
Definition vt (s : snap) (r : ref) : list (option i64v) :=
  map (fun p : bool * bool => mt_eval s r [(0, fst p); (1, snd p)])
      [(false, false); (true, false); (false, true); (true, true)].

Example ex_f_table : vt ex1 ex_f = [Some (INum 0); Some (INum 3); Some (INum 1); Some (INum 4)].
Proof. vm_compute. reflexivity. Qed.

Definition run_vt (res : option (snap * acache * ref)) : list (option i64v) :=
  match res with Some (s, _, r) => vt s r | None => [] end.

(** 0 - f = -f (not f: the witness of the fixed Sub short-cut), f - 0 = f *)
Example ex_sub_zero :
  (let '(s, z) := mt_const ex1 (INum 0) in run_vt (bin s [] MSub z ex_f))
  = [Some (INum 0); Some (INum (-3)); Some (INum (-1)); Some (INum (-4))] /\
  (let '(s, z) := mt_const ex1 (INum 0) in
   match bin s [] MSub ex_f z with Some (_, _, r) => r = ex_f | None => False end).
Proof. vm_compute. split; reflexivity. Qed.

(** min and max of 3*x0 and x1, back to back with a shared cache: different
    functions (the witness of the fixed Max arms) *)
Example ex_min_max :
  match (let '(s0, three) := mt_const ex1 (INum 3) in bin s0 [] MMul three ex_x0) with
  | Some (s, c, m) =>
    match bin s c MMin m ex_x1 with
    | Some (s', c', r) =>
      vt s' r = [Some (INum 0); Some (INum 0); Some (INum 0); Some (INum 1)] /\
      run_vt (bin s' c' MMax m ex_x1) = [Some (INum 0); Some (INum 3); Some (INum 1); Some (INum 3)]
    | None => False
    end
  | None => False
  end.
Proof. vm_compute. split; reflexivity. Qed.

(** saturation and undefined forms pointwise: f * MAX, (f * MAX) - (f * MAX), f / x1 *)
Example ex_saturation :
  (let '(s, k) := mt_const ex1 (INum i64_MAX) in
   match bin s [] MMul ex_f k with
   | Some (s', c', p) =>
     vt s' p = [Some (INum 0); Some IPlusInf; Some (INum i64_MAX); Some IPlusInf] /\
     run_vt (bin s' c' MSub p p) = [Some (INum 0); Some INaN; Some (INum 0); Some INaN]
   | None => False
   end) /\
  run_vt (bin ex1 [] MDiv ex_f ex_x1) = [Some INaN; Some IPlusInf; Some (INum 1); Some (INum 4)].
Proof. vm_compute. repeat split; reflexivity. Qed.

(** ite(x0, f, x1) and restrict(f, x0 := 1), restrict(f, x0 := 0 /\ x1 := 1) *)
Example ex_ite_restrict :
  run_vt (mt_apply_ite acache ac_get ac_add 3 ex1 [] ex_x0 ex_f ex_x1)
  = [Some (INum 0); Some (INum 3); Some (INum 1); Some (INum 4)] /\
  cube_lits 3 ex1 ex_x0 = Some [(0, true)] /\
  run_vt (mt_restrict acache ac_get ac_add 3 ex1 [] ex_f ex_x0)
  = [Some (INum 3); Some (INum 3); Some (INum 4); Some (INum 4)] /\
  (let '(s, one) := mt_const ex1 (INum 1) in
   match bin s [] MSub one ex_x0 with
   | Some (s1, c1, nx0) =>
     match bin s1 c1 MMul nx0 ex_x1 with
     | Some (s2, c2, cube) =>
       cube_lits 3 s2 cube = Some [(0, false); (1, true)] /\
       run_vt (mt_restrict acache ac_get ac_add 3 s2 c2 ex_f cube)
       = [Some (INum 1); Some (INum 1); Some (INum 1); Some (INum 1)]
     | None => False
     end
   | None => False
   end).
Proof. vm_compute. repeat split; reflexivity. Qed.

(** the same operation with no cache at all, and repeated on the result
    table: the same reference, nothing new *)
Example ex_rerun :
  match bin ex1 [] MAdd ex_f ex_x0 with
  | Some (s1, _, r1) =>
    match mt_apply_bin (fun _ _ => false) unit nc_get nc_add 3 s1 tt MAdd ex_f ex_x0 with
    | Some (s2, _, r2) =>
      r2 = r1 /\ PositiveMap.elements (s_nodes s2) = PositiveMap.elements (s_nodes s1)
      /\ s_terms s2 = s_terms s1
    | None => False
    end
  | None => False
  end.
Proof. vm_compute. repeat split; reflexivity. Qed.

(** ** Short-cuts that are not laws *)

(** returning [g] for [0 - g] (the arm [(Terminal(t), _) if t.is_zero() => g]
    that the Sub case of [terminal_bin] had) does not denote the pointwise
    difference: with that arm [mt_tb_sound] is false *)
Theorem sub_zero_shortcut_unsound :
  exists s f g phi psi, MtOK s /\ DenM s f phi /\ DenM s g psi /\
    (forall c, phi c = i64_zero) /\
    ~ DenM s g (fun c => i64_sub (phi c) (psi c)).
Proof.
  destruct (mt_const ex1 (INum 0)) as [s z] eqn:Ez.
  destruct (mt_const_ok ex1 (INum 0) s z ex1_ok wf_zero Ez) as [B [X [Dz _]]].
  assert (Ox : ref_ok s ex_x1).
  { apply (mx_ref_ok ex1 s _ X). vm_compute. eexists. reflexivity. }
  destruct (denm_exists s ex_x1 B Ox) as [psi Dpsi].
  exists s, z, ex_x1, (fun _ => i64_zero), psi.
  split; [exact B|]. split; [exact Dz|]. split; [exact Dpsi|]. split; [reflexivity|].
  intros D.
  assert (Hc : bchoice (fun _ => 0)) by (intros l; lia).
  pose proof (denm_unique s ex_x1 _ _ Dpsi D (fun _ => 0) Hc) as U. cbv beta in U.
  assert (V : psi (fun _ => 0) = i64_one).
  { apply code_inj. pose proof (proj2 Dpsi (fun _ => 0) Hc) as E.
    assert (E' : semk s (S (nlevels s)) ex_x1 (fun _ => 0) = Some (code i64_one)).
    { inversion Ez; subst s. vm_compute. reflexivity. }
    congruence. }
  rewrite V in U. vm_compute in U. discriminate.
Qed.

(** a result of [max] stored under the key (Min, f, g) is not a correct cache
    entry: whoever asks for [min f g] with the same key would be served the
    maximum *)
Theorem max_under_min_key_unsound :
  exists s f g r phi psi, MtOK s /\ DenM s f phi /\ DenM s g psi /\
    DenM s r (fun c => i64_max (phi c) (psi c)) /\
    ~ mentry_ok s (mop_code MMin) [f; g] r.
Proof.
  destruct (bin ex1 [] MMax ex_x0 ex_f) as [[[s c] r]|] eqn:Er; [|vm_compute in Er; discriminate].
  assert (O0 : ref_ok ex1 ex_x0) by (vm_compute; eexists; reflexivity).
  assert (Of : ref_ok ex1 ex_f) by (vm_compute; eexists; reflexivity).
  destruct (denm_exists ex1 ex_x0 ex1_ok O0) as [phi Dphi].
  destruct (denm_exists ex1 ex_f ex1_ok Of) as [psi Dpsi].
  destruct (mt_apply_bin_ok mgt_id acache ac_get ac_add ac_lossy MMax (S (nlevels ex1)) ex1 [] ex_x0 ex_f
              phi psi ex1_ok (mac_empty_ok ex1) Dphi Dpsi ltac:(lia)) as [s' [c' [r' [E [B [X [_ [D _]]]]]]]].
  unfold bin in Er. rewrite Er in E. inversion E; subst s' c' r'. clear E.
  pose proof (denm_mext ex1 s _ _ ex1_ok X Dphi) as Dphi'.
  pose proof (denm_mext ex1 s _ _ ex1_ok X Dpsi) as Dpsi'.
  exists s, ex_x0, ex_f, r, phi, psi.
  split; [exact B|]. split; [exact Dphi'|]. split; [exact Dpsi'|]. split; [exact D|].
  intros [Hm _]. destruct (Hm MMin eq_refl) as [pa [pb [Da [Db Dr]]]].
  (* under the choice x0 = 1, x1 = 0: x0 = 1, f = 3, max = 3, min = 1 *)
  set (c0 := fun l : nat => match l with 0 => 0 | _ => 1 end).
  assert (Hc : bchoice c0) by (intros [|[|l]]; simpl; lia).
  pose proof (denm_unique s r _ _ D Dr c0 Hc) as U. cbv beta in U. simpl mop_eval in U.
  rewrite (denm_unique s _ pa phi Da Dphi' c0 Hc), (denm_unique s _ pb psi Db Dpsi' c0 Hc) in U.
  assert (V0 : phi c0 = INum 1).
  { apply code_inj. pose proof (proj2 Dphi c0 Hc) as E1.
    assert (E2 : semk ex1 (S (nlevels ex1)) ex_x0 c0 = Some (code (INum 1))) by (vm_compute; reflexivity).
    congruence. }
  assert (V1 : psi c0 = INum 3).
  { apply code_inj. pose proof (proj2 Dpsi c0 Hc) as E1.
    assert (E2 : semk ex1 (S (nlevels ex1)) ex_f c0 = Some (code (INum 3))) by (vm_compute; reflexivity).
    congruence. }
  rewrite V0, V1 in U. vm_compute in U. discriminate.
Qed.

(** ** Statements used by Props/C10.v *)

Theorem mt_invariant_checker :
  forall s, mt_ok_b s = true <->
    (WF s /\ s_kind s = KMtbdd /\ forall t c, term_val s t = Some c -> wf (decode c)).
Proof.
  intros s. rewrite mt_ok_b_spec. split.
  - intros B. split; [apply (mo_wf s B)|]. split; [apply (mo_kind s B) | apply (mo_vals s B)].
  - intros [A [B C]]. constructor; assumption.
Qed.

Theorem mt_code_bijection :
  (forall v, decode (code v) = v) /\ (forall n, code (decode n) = n).
Proof. exact (conj decode_code code_decode). Qed.

Theorem mt_hypotheses_satisfiable :
  MtOK ex0 /\ MtOK ex1 /\ MCacheOK ac_get ex1 [] /\
  ref_ok ex1 ex_f /\ ref_ok ex1 ex_x0 /\ Cube ex1 ex_x0 [(0, true)] /\
  vt ex1 ex_f = [Some (INum 0); Some (INum 3); Some (INum 1); Some (INum 4)].
Proof.
  split; [exact ex0_ok|]. split; [exact ex1_ok|]. split; [apply mac_empty_ok|].
  split; [vm_compute; eexists; reflexivity|]. split; [vm_compute; eexists; reflexivity|].
  split; [apply (cube_lits_sound ex1 ex1_ok 3); vm_compute; reflexivity | exact ex_f_table].
Qed.

Theorem mt_cache_instances :
  lossy ac_get ac_add /\ lossy nc_get nc_add /\
  (forall s, MCacheOK ac_get s []) /\ (forall s c, MCacheOK nc_get s c).
Proof. exact (conj ac_lossy (conj nc_lossy (conj mac_empty_ok mnc_ok))). Qed.
