(** * Correctness of the BDD apply algorithms (DD/Apply.v)

    - [BddOK]: the invariant (well-formed BDD table with exactly the two
      Boolean terminals), decided by [bdd_ok_b];
    - [Den s r phi]: reference [r] of table [s] denotes the Boolean function
      [phi] of the choice (= assignment by level);
    - [tb_sound]: every case of [terminal_bin] agrees with [eval_bop];
    - [CacheOK]: every entry a cache can serve is semantically correct;
    - [apply_not_ok], [apply_bin_ok], [apply_ite_ok]: with fuel [S (nlevels s)]
      the algorithms return (never [None]) a well-formed extension of the
      table, a correct cache, and a reference denoting the connective of the
      operands' functions - for every cache implementation that only ever
      serves what was added ([lossy]);
    - [result_unique], [cache_transparent_*], [history_independent]: C06. *)

From Coq Require Import List NArith PArith Bool Arith Lia FMapPositive.
From OxiVerif Require Import DD.Table DD.TableProofs DD.Canon DD.Sem DD.Build DD.BuildProofs DD.Apply.
Import ListNotations.

Notation cupd := TableProofs.upd.

(** ** The invariant *)

Record BddOK (s : snap) : Prop := mkBddOK {
  bo_wf : WF s;
  bo_kind : s_kind s = KBdd;
  bo_codes : forall t v, term_val s t = Some v -> v = 0%N \/ v = 1%N;
  bo_false : exists t, term_val s t = Some 0%N;
  bo_true : exists t, term_val s t = Some 1%N
}.

Lemma In_assoc_N : forall (l : list (N * N)) k v,
  NoDup (map fst l) -> In (k, v) l -> assoc_N l k = Some v.
Proof.
  induction l as [|[a b] r IH]; intros k v Hnd Hin; [destruct Hin|].
  simpl in Hnd. inversion Hnd as [|? ? Ha Hr]; subst. simpl.
  destruct Hin as [Hin|Hin].
  - inversion Hin; subst. rewrite N.eqb_refl. reflexivity.
  - destruct (N.eqb_spec a k) as [->|Hne].
    + exfalso. apply Ha. apply (in_map fst) in Hin. exact Hin.
    + apply IH; assumption.
Qed.

Lemma rassoc_N_In : forall l v t, rassoc_N l v = Some t -> In (t, v) l.
Proof.
  induction l as [|[a b] r IH]; intros v t E; simpl in E; [discriminate|].
  destruct (N.eqb_spec b v) as [->|Hne].
  - inversion E; subst. left. reflexivity.
  - right. apply IH. exact E.
Qed.

Lemma rassoc_N_total : forall l v t, In (t, v) l -> exists t', rassoc_N l v = Some t'.
Proof.
  induction l as [|[a b] r IH]; intros v t Hin; [destruct Hin|]. simpl.
  destruct (N.eqb_spec b v) as [->|Hne]; [eauto|].
  destruct Hin as [Hin|Hin]; [inversion Hin; subst; congruence|]. eapply IH; eauto.
Qed.

Lemma term_of_spec : forall s b t, WF s -> term_of s b = Some t -> term_val s t = Some (b2c b).
Proof.
  intros s b t H E. apply rassoc_N_In in E. apply In_assoc_N; [apply (wf_term_ids s H) | exact E].
Qed.

Lemma term_of_total : forall s b, BddOK s -> exists t, term_of s b = Some t.
Proof.
  intros s b B. unfold term_of.
  assert (Hx : exists t, term_val s t = Some (b2c b))
    by (destruct b; [apply (bo_true s B) | apply (bo_false s B)]).
  destruct Hx as [t Ht]. apply assoc_N_In in Ht. eapply rassoc_N_total; eauto.
Qed.

Theorem bdd_ok_b_spec : forall s, bdd_ok_b s = true <-> BddOK s.
Proof.
  intros s. unfold bdd_ok_b. rewrite !andb_true_iff, wf_b_spec, forallb_forall, !existsb_exists.
  split.
  - intros [[[[H Hk] Hc] [p0 [I0 E0]]] [p1 [I1 E1]]].
    apply N.eqb_eq in E0. apply N.eqb_eq in E1. destruct p0 as [t0 v0], p1 as [t1 v1]. simpl in *. subst.
    constructor; auto.
    + destruct (s_kind s); simpl in Hk; congruence.
    + intros t v E. apply assoc_N_In in E. specialize (Hc _ E). simpl in Hc.
      apply N.leb_le in Hc. lia.
    + exists t0. apply In_assoc_N; [apply (wf_term_ids s H) | exact I0].
    + exists t1. apply In_assoc_N; [apply (wf_term_ids s H) | exact I1].
  - intros B. pose proof (bo_wf s B) as H.
    destruct (bo_false s B) as [t0 E0]. destruct (bo_true s B) as [t1 E1].
    split; [split; [split; [split|]|]|].
    + exact H.
    + rewrite (bo_kind s B). reflexivity.
    + intros [t v] Hin. simpl. apply N.leb_le.
      assert (E : term_val s t = Some v) by (apply In_assoc_N; [apply (wf_term_ids s H) | exact Hin]).
      destruct (bo_codes s B t v E); lia.
    + exists (t0, 0%N). split; [apply assoc_N_In; exact E0 | reflexivity].
    + exists (t1, 1%N). split; [apply assoc_N_In; exact E1 | reflexivity].
Qed.

Lemma bdd_kary : forall s, BddOK s -> kary (s_kind s).
Proof. intros s B. rewrite (bo_kind s B). split; discriminate. Qed.

Lemma bddok_extends : forall s s', BddOK s -> extends s s' -> WF s' -> BddOK s'.
Proof.
  intros s s' B X H'. constructor.
  - exact H'.
  - rewrite (ext_kind _ _ X). apply (bo_kind s B).
  - intros t v. rewrite (ext_term_val _ _ t X). apply (bo_codes s B).
  - destruct (bo_false s B) as [t E]. exists t. rewrite (ext_term_val _ _ t X). exact E.
  - destruct (bo_true s B) as [t E]. exists t. rewrite (ext_term_val _ _ t X). exact E.
Qed.

(** ** Denotations *)

(** a binary choice at every level *)
Definition bchoice (c : nat -> nat) : Prop := forall l, c l < 2.

Lemma bchoice_ok : forall s c, BddOK s -> (choice_ok s c <-> bchoice c).
Proof. intros s c B. unfold choice_ok, bchoice. rewrite (bo_kind s B). reflexivity. Qed.

Lemma bchoice_upd : forall c l i, bchoice c -> i < 2 -> bchoice (cupd c l i).
Proof. intros c l i Hc Hi x. unfold cupd. destruct (Nat.eqb x l); auto. Qed.

Definition Den (s : snap) (r : ref) (phi : (nat -> nat) -> bool) : Prop :=
  ref_ok s r /\
  forall c, bchoice c -> semk s (S (nlevels s)) r c = Some (b2c (phi c)).

Lemma b2c_inj : forall a b, b2c a = b2c b -> a = b.
Proof. intros [] [] E; simpl in E; congruence. Qed.

Lemma den_ext : forall s r phi phi', Den s r phi ->
  (forall c, bchoice c -> phi c = phi' c) -> Den s r phi'.
Proof. intros s r phi phi' [A B] E. split; [exact A|]. intros c Hc. rewrite <- E by exact Hc. auto. Qed.

Lemma den_unique : forall s r phi phi', Den s r phi -> Den s r phi' ->
  forall c, bchoice c -> phi c = phi' c.
Proof.
  intros s r phi phi' [_ A] [_ B] c Hc. apply b2c_inj.
  specialize (A c Hc). specialize (B c Hc). congruence.
Qed.

Lemma semk_code : forall s, BddOK s -> forall f r c v, semk s f r c = Some v -> v = 0%N \/ v = 1%N.
Proof.
  intros s B. induction f as [|f IH]; intros r c v E.
  - destruct r as [t|id]; [rewrite semk_T in E; apply (bo_codes s B t v E) | discriminate].
  - destruct r as [t|id]; [rewrite semk_T in E; apply (bo_codes s B t v E)|].
    rewrite semk_S in E. destruct (find_node s id) as [nd|]; [|discriminate].
    destruct (nth_error (nchildren nd) (c (nlevel nd))) as [e|]; [|discriminate].
    eapply IH; eauto.
Qed.

Lemma den_exists : forall s r, BddOK s -> ref_ok s r -> exists phi, Den s r phi.
Proof.
  intros s r B Hok.
  exists (fun c => match semk s (S (nlevels s)) r c with Some 1%N => true | _ => false end).
  split; [exact Hok|]. intros c Hc.
  pose proof (rlevel_le s (bo_wf s B) r).
  destruct (semk_total s (bo_wf s B) (S (nlevels s)) r c Hok (proj2 (bchoice_ok s c B) Hc) ltac:(lia))
    as [v Ev].
  rewrite Ev. destruct (semk_code s B _ _ _ _ Ev) as [->| ->]; reflexivity.
Qed.

Lemma den_extends : forall s s' r phi, BddOK s -> extends s s' -> Den s r phi -> Den s' r phi.
Proof.
  intros s s' r phi B X [A D]. split; [apply (ext_ref_ok _ _ _ X A)|].
  intros c Hc. rewrite (ext_nlevels _ _ X), (semk_extends s s' (bo_wf s B) X _ _ c A). auto.
Qed.

Lemma den_term : forall s t b, term_val s t = Some (b2c b) -> Den s (RT t) (fun _ => b).
Proof. intros s t b E. split; [exists (b2c b); exact E|]. intros c _. rewrite semk_T. exact E. Qed.

Lemma den_const : forall s b t, BddOK s -> term_of s b = Some t -> Den s (RT t) (fun _ => b).
Proof. intros s b t B E. apply den_term. apply term_of_spec; [apply (bo_wf s B) | exact E]. Qed.

(** ** [view] *)

Lemma view_total : forall s r, BddOK s -> ref_ok s r -> exists v, view s r = Some v.
Proof.
  intros s [t|id] B Hok; simpl; [|eauto].
  destruct Hok as [v E]. rewrite E. destruct (bo_codes s B t v E) as [->| ->]; eauto.
Qed.

Lemma view_VI : forall s r, view s r = Some VI -> exists id, r = RN id.
Proof.
  intros s [t|id]; unfold view; [|eauto].
  destruct (term_val s t) as [[|[p|p|]]|]; discriminate.
Qed.

Lemma view_VT : forall s r b, view s r = Some (VT b) -> exists t, r = RT t /\ term_val s t = Some (b2c b).
Proof.
  intros s [t|id] b; unfold view; [|discriminate].
  destruct (term_val s t) as [[|[p|p|]]|] eqn:Et; try discriminate; intros E; inversion E; subst;
    (exists t; split; [reflexivity | exact Et]).
Qed.

Lemma view_den_T : forall s r b phi, Den s r phi -> view s r = Some (VT b) ->
  forall c, bchoice c -> phi c = b.
Proof.
  intros s r b phi [_ D] V c Hc. destruct (view_VT s r b V) as [t [-> E]].
  specialize (D c Hc). rewrite semk_T, E in D. apply b2c_inj. congruence.
Qed.

(** ** Independence of the levels above a reference *)

Definition indep (phi : (nat -> nat) -> bool) (L : nat) : Prop :=
  forall c c', bchoice c -> bchoice c' -> (forall l, L <= l -> c l = c' l) -> phi c = phi c'.

Definition cofn (phi : (nat -> nat) -> bool) (lvl i : nat) : (nat -> nat) -> bool :=
  fun c => phi (cupd c lvl i).

Lemma den_indep : forall s r phi, WF s -> Den s r phi -> indep phi (rlevel s r).
Proof.
  intros s r phi H [_ D] c c' Hc Hc' E. apply b2c_inj.
  pose proof (D c Hc) as A. pose proof (D c' Hc') as A'.
  rewrite (semk_ext s H _ r c c' E) in A. congruence.
Qed.

Lemma indep_mono : forall phi L L', indep phi L -> L' <= L -> indep phi L'.
Proof. intros phi L L' I Hle c c' Hc Hc' E. apply I; auto. intros l Hl. apply E. lia. Qed.

Lemma indep_cofn : forall phi L lvl i, indep phi L -> lvl <= L -> i < 2 -> indep (cofn phi lvl i) (S lvl).
Proof.
  intros phi L lvl i I Hle Hi c c' Hc Hc' E. unfold cofn.
  apply I; try (apply bchoice_upd; assumption).
  intros l Hl. unfold cupd. destruct (Nat.eqb_spec l lvl); [reflexivity|]. apply E. lia.
Qed.

(** setting a level to the value it already has changes nothing *)
Lemma den_upd_self : forall s r phi c lvl, WF s -> Den s r phi -> bchoice c ->
  cofn phi lvl (c lvl) c = phi c.
Proof.
  intros s r phi c lvl H D Hc. unfold cofn.
  apply (den_indep s r phi H D); [apply bchoice_upd; auto | exact Hc|].
  intros l _. unfold cupd. destruct (Nat.eqb_spec l lvl); [subst; reflexivity | reflexivity].
Qed.

(** a reference whose function ignores all levels below [L] sits at level [L]
    or deeper (a consequence of canonicity) *)
Lemma den_level : forall s r phi L, BddOK s -> Den s r phi -> L <= nlevels s ->
  indep phi L -> L <= rlevel s r.
Proof.
  intros s r phi L B [Hok D] HL I.
  pose proof (bo_wf s B) as H. pose proof (bdd_kary s B) as Hk.
  destruct (le_lt_dec L (rlevel s r)) as [Hle|Hlt]; [exact Hle|]. exfalso.
  destruct r as [t|id]; [simpl in Hlt; lia|].
  destruct Hok as [nd E]. rewrite (rlevel_node s id nd E) in Hlt.
  apply (reduced_kary s Hk _ (wf_reduced s H id nd E)).
  intros a b Ha Hb.
  destruct (In_nth_error _ _ Ha) as [i Hi]. destruct (In_nth_error _ _ Hb) as [j Hj].
  destruct (child_nth s H id nd i a E Hi) as [Oa La].
  destruct (child_nth s H id nd j b E Hj) as [Ob Lb].
  apply (child_edge_eq s id id nd nd a b H (proj1 Hk) E E Ha Hb).
  apply (canon_kary s H Hk _ _ Oa Ob). intros c Hc.
  apply (bchoice_ok s c B) in Hc.
  pose proof (child_index s H id nd i a E Hi) as Hi2.
  pose proof (child_index s H id nd j b E Hj) as Hj2.
  rewrite (bo_kind s B) in Hi2, Hj2. simpl in Hi2, Hj2.
  pose proof (child_sem s H id nd i a c E Hi) as Sa.
  pose proof (child_sem s H id nd j b c E Hj) as Sb.
  unfold semn in Sa, Sb. rewrite Sa, Sb.
  rewrite (D _ (bchoice_upd c (nlevel nd) i Hc Hi2)), (D _ (bchoice_upd c (nlevel nd) j Hc Hj2)).
  f_equal. f_equal. apply I; try (apply bchoice_upd; assumption).
  intros l Hl. unfold cupd. destruct (Nat.eqb_spec l (nlevel nd)); [lia | reflexivity].
Qed.

(** ** Shannon cofactors of a reference *)

Lemma bdd_children : forall s id nd, BddOK s -> find_node s id = Some nd ->
  exists a b, nchildren nd = [a; b].
Proof.
  intros s id nd B E. pose proof (wf_arity s (bo_wf s B) id nd E) as L.
  rewrite (bo_kind s B) in L. simpl in L.
  destruct (nchildren nd) as [|a [|b [|x r]]]; simpl in L; try discriminate. eauto.
Qed.

Lemma den_child : forall s id nd i e phi, BddOK s -> Den s (RN id) phi ->
  find_node s id = Some nd -> nth_error (nchildren nd) i = Some e ->
  Den s (eref e) (cofn phi (nlevel nd) i).
Proof.
  intros s id nd i e phi B [_ D] E He. pose proof (bo_wf s B) as H.
  split; [apply (child_nth s H id nd i e E He)|].
  intros c Hc. pose proof (child_sem s H id nd i e c E He) as S. unfold semn in S. rewrite S.
  pose proof (child_index s H id nd i e E He) as Hi. rewrite (bo_kind s B) in Hi. simpl in Hi.
  apply D. apply bchoice_upd; assumption.
Qed.

Lemma den_skip : forall s r phi lvl i, WF s -> Den s r phi -> lvl < rlevel s r -> i < 2 ->
  Den s r (cofn phi lvl i).
Proof.
  intros s r phi lvl i H D Hl Hi. apply (den_ext s r phi); [exact D|].
  intros c Hc. unfold cofn. apply (den_indep s r phi H D); [exact Hc | apply bchoice_upd; auto|].
  intros l Hle. unfold cupd. destruct (Nat.eqb_spec l lvl); [lia | reflexivity].
Qed.

(** what [cof2] returns for a node at or below the split level *)
Lemma cof2_ok : forall s id nd phi lvl, BddOK s -> Den s (RN id) phi ->
  find_node s id = Some nd -> lvl <= nlevel nd ->
  exists ft fe, cof2 (RN id) nd lvl = Some (ft, fe) /\
    Den s ft (cofn phi lvl 0) /\ Den s fe (cofn phi lvl 1) /\
    lvl < rlevel s ft /\ lvl < rlevel s fe.
Proof.
  intros s id nd phi lvl B D E Hle. pose proof (bo_wf s B) as H.
  unfold cof2. rewrite (wf_stored s H id nd E).
  destruct (Nat.eqb_spec (nlevel nd) lvl) as [Heq|Hne].
  - destruct (bdd_children s id nd B E) as [a [b Ech]]. rewrite Ech.
    assert (Ha : nth_error (nchildren nd) 0 = Some a) by (rewrite Ech; reflexivity).
    assert (Hb : nth_error (nchildren nd) 1 = Some b) by (rewrite Ech; reflexivity).
    exists (eref a), (eref b). subst lvl.
    split; [reflexivity|].
    split; [apply (den_child s id nd 0 a phi B D E Ha)|].
    split; [apply (den_child s id nd 1 b phi B D E Hb)|].
    split; [apply (child_nth s H id nd 0 a E Ha) | apply (child_nth s H id nd 1 b E Hb)].
  - assert (Hl : lvl < rlevel s (RN id)) by (rewrite (rlevel_node s id nd E); lia).
    exists (RN id), (RN id). split; [reflexivity|].
    split; [apply den_skip; auto|]. split; [apply den_skip; auto|]. auto.
Qed.

(** ** The node step shared by the three algorithms *)

Lemma node_step : forall s lvl t e P0 P1 s' h, BddOK s -> lvl < nlevels s ->
  Den s t P0 -> Den s e P1 -> indep P0 (S lvl) -> indep P1 (S lvl) ->
  mk_node s lvl [E t; E e] = (s', h) ->
  BddOK s' /\ extends s s' /\
  Den s' (eref h) (fun c => if Nat.eqb (c lvl) 0 then P0 c else P1 c).
Proof.
  intros s lvl t e P0 P1 s' h B Hl Dt De I0 I1 Hm.
  pose proof (bo_wf s B) as H. pose proof (bdd_kary s B) as Hk.
  assert (Lt : S lvl <= rlevel s t) by (apply (den_level s t P0); auto).
  assert (Le : S lvl <= rlevel s e) by (apply (den_level s e P1); auto).
  assert (Hch : children_ok s lvl [E t; E e]).
  { split; [rewrite (bo_kind s B); reflexivity|].
    intros x [<-|[<-|[]]]; simpl; (split; [|split; [lia | reflexivity]]);
      [apply (proj1 Dt) | apply (proj1 De)]. }
  destruct (mk_node_wf s lvl _ s' h H Hk Hl Hch Hm) as [W [X [O [T [Sold [Sh _]]]]]].
  split; [apply (bddok_extends s s' B X W)|]. split; [exact X|].
  split; [exact O|]. intros c Hc.
  pose proof (Hc lvl) as Hc2.
  destruct (c lvl) as [|[|k]] eqn:Ec; [| |lia].
  - rewrite (Sh c 0 (E t) Ec eq_refl). simpl. apply (proj2 Dt c Hc).
  - rewrite (Sh c 1 (E e) Ec eq_refl). simpl. apply (proj2 De c Hc).
Qed.

(** recombining the two cofactor results *)
Lemma shannon_pick : forall (c : nat -> nat) lvl (G : nat -> bool), bchoice c ->
  (if Nat.eqb (c lvl) 0 then G 0 else G 1) = G (c lvl).
Proof.
  intros c lvl G Hc. pose proof (Hc lvl). destruct (c lvl) as [|[|k]]; [reflexivity | reflexivity | lia].
Qed.

(** ** Every case of [terminal_bin] agrees with [eval_bop] *)

Section TB.
Variable gt : ref -> ref -> bool.

Lemma get_term_den : forall s b, BddOK s ->
  match get_term s b with TDone r => Den s r (fun _ => b) | _ => False end.
Proof.
  intros s b B. unfold get_term. destruct (term_of_total s b B) as [t E]. rewrite E.
  apply den_const; assumption.
Qed.

Lemma ref_eqb_true : forall a b, ref_eqb a b = true -> a = b.
Proof. intros a b. apply ref_eqb_eq. Qed.

Theorem tb_sound : forall s op f g vf vg phi psi, BddOK s ->
  Den s f phi -> Den s g psi -> view s f = Some vf -> view s g = Some vg ->
  match tb gt s op f g vf vg with
  | TDone r => Den s r (fun c => eval_bop op (phi c) (psi c))
  | TNot r => (r = f \/ r = g) /\
              exists rho, Den s r rho /\
                forall c, bchoice c -> eval_bop op (phi c) (psi c) = negb (rho c)
  | TBin o a b => o = op /\ vf = VI /\ vg = VI /\
                  ((a = f /\ b = g) \/
                   (a = g /\ b = f /\ forall x y, eval_bop op x y = eval_bop op y x))
  | TFail => False
  end.
Proof.
  intros s op f g vf vg phi psi B Hf Hg Vf Vg.
  assert (Ff : forall b, vf = VT b -> forall c, bchoice c -> phi c = b)
    by (intros b -> c Hc; apply (view_den_T s f b phi Hf Vf c Hc)).
  assert (Fg : forall b, vg = VT b -> forall c, bchoice c -> psi c = b)
    by (intros b -> c Hc; apply (view_den_T s g b psi Hg Vg c Hc)).
  assert (Fe : ref_eqb f g = true -> forall c, bchoice c -> phi c = psi c).
  { intros E c Hc. apply ref_eqb_true in E. subst g. apply (den_unique s f phi psi Hf Hg c Hc). }
  pose proof (get_term_den s false B) as Ht0. pose proof (get_term_den s true B) as Ht1.
  assert (Comm : forall o, In o [OAnd; OOr; ONand; ONor; OXor; OEquiv] ->
            forall x y, eval_bop o x y = eval_bop o y x).
  { intros o Ho [] []; simpl in Ho; repeat (destruct Ho as [<-|Ho]; [reflexivity|]); destruct Ho. }
  Local Ltac pw Ff Fg Fe E phi psi :=
    let c := fresh "c" in let Hc := fresh "Hc" in
    intros c Hc; cbv beta;
    try (pose proof (Ff _ eq_refl c Hc));
    try (pose proof (Fg _ eq_refl c Hc));
    try (pose proof (Fe eq_refl c Hc));
    destruct (phi c); destruct (psi c); simpl in *; congruence.
  Local Ltac tbcase Ff Fg Fe E phi psi Hf Hg Ht0 Ht1 Comm :=
    cbv beta iota;
    match goal with
    | |- match (if ?gt ?f ?g then _ else _) with _ => _ end =>
        destruct (gt f g); cbv beta iota;
        (split; [reflexivity|]; split; [reflexivity|]; split; [reflexivity|]);
        [ right; split; [reflexivity|]; split; [reflexivity|]; apply Comm; simpl; tauto
        | left; split; reflexivity ]
    | |- match get_term _ false with _ => _ end =>
        destruct (get_term _ false); try contradiction;
        eapply den_ext; [exact Ht0 | pw Ff Fg Fe E phi psi]
    | |- match get_term _ true with _ => _ end =>
        destruct (get_term _ true); try contradiction;
        eapply den_ext; [exact Ht1 | pw Ff Fg Fe E phi psi]
    | |- Den _ ?f _ => first [ eapply den_ext; [exact Hf | pw Ff Fg Fe E phi psi]
                             | eapply den_ext; [exact Hg | pw Ff Fg Fe E phi psi] ]
    | |- (?r = _ \/ _) /\ _ =>
        first [ split; [left; reflexivity|]; exists phi; split; [exact Hf | pw Ff Fg Fe E phi psi]
              | split; [right; reflexivity|]; exists psi; split; [exact Hg | pw Ff Fg Fe E phi psi] ]
    | |- _ = _ /\ _ =>
        split; [reflexivity|]; split; [reflexivity|]; split; [reflexivity|];
        left; split; reflexivity
    end.
  destruct op; unfold tb; destruct (ref_eqb f g) eqn:E;
    try (tbcase Ff Fg Fe E phi psi Hf Hg Ht0 Ht1 Comm; fail);
    destruct vf as [|[]], vg as [|[]];
    tbcase Ff Fg Fe E phi psi Hf Hg Ht0 Ht1 Comm.
Qed.

Theorem terminal_bin_sound : forall s op f g phi psi, BddOK s -> Den s f phi -> Den s g psi ->
  match terminal_bin gt s op f g with
  | TDone r => Den s r (fun c => eval_bop op (phi c) (psi c))
  | TNot r => (r = f \/ r = g) /\
              exists rho, Den s r rho /\
                forall c, bchoice c -> eval_bop op (phi c) (psi c) = negb (rho c)
  | TBin o a b => o = op /\ (exists idf, f = RN idf) /\ (exists idg, g = RN idg) /\
                  ((a = f /\ b = g) \/
                   (a = g /\ b = f /\ forall x y, eval_bop op x y = eval_bop op y x))
  | TFail => False
  end.
Proof.
  intros s op f g phi psi B Hf Hg. unfold terminal_bin.
  destruct (view_total s f B (proj1 Hf)) as [vf Vf]. destruct (view_total s g B (proj1 Hg)) as [vg Vg].
  rewrite Vf, Vg. pose proof (tb_sound s op f g vf vg phi psi B Hf Hg Vf Vg) as T.
  destruct (tb gt s op f g vf vg); auto.
  destruct T as [A [-> [-> D]]].
  split; [exact A|]. split; [apply (view_VI s f Vf)|]. split; [apply (view_VI s g Vg) | exact D].
Qed.

End TB.

(** ** Canonicity inside one table *)

(** two references of one table with the same value under every choice are equal *)
Lemma den_canon : forall s r1 r2 phi, BddOK s -> Den s r1 phi -> Den s r2 phi -> r1 = r2.
Proof.
  intros s r1 r2 phi B [O1 D1] [O2 D2].
  apply (canon_kary s (bo_wf s B) (bdd_kary s B) r1 r2 O1 O2).
  intros c Hc. apply (bchoice_ok s c B) in Hc. rewrite (D1 c Hc), (D2 c Hc). reflexivity.
Qed.

(** the cofactor of an existing function w.r.t. a level at or above its root exists *)
Lemma den_cof_exists : forall s r Phi lvl i, BddOK s -> Den s r Phi ->
  lvl <= rlevel s r -> lvl < nlevels s -> i < 2 -> exists r', Den s r' (cofn Phi lvl i).
Proof.
  intros s r Phi lvl i B D Hle Hl Hi. pose proof (bo_wf s B) as H.
  destruct r as [t|id].
  - exists (RT t). apply den_skip; auto.
  - destruct (proj1 D) as [nd En]. rewrite (rlevel_node s id nd En) in Hle.
    destruct (cof2_ok s id nd Phi lvl B D En Hle) as [ft [fe [_ [D0 [D1 _]]]]].
    destruct i as [|[|k]]; [exists ft; exact D0 | exists fe; exact D1 | lia].
Qed.

(** if the function to be built already has a reference, [mk_node] returns it
    and leaves the table alone *)
Lemma mk_node_stable : forall s lvl t e P0 P1 s' h r0, BddOK s -> lvl < nlevels s ->
  Den s t P0 -> Den s e P1 -> indep P0 (S lvl) -> indep P1 (S lvl) ->
  mk_node s lvl [E t; E e] = (s', h) ->
  Den s r0 (fun c => if Nat.eqb (c lvl) 0 then P0 c else P1 c) ->
  s' = s /\ eref h = r0.
Proof.
  intros s lvl t e P0 P1 s' h r0 B Hl Dt De I0 I1 Hm D0.
  destruct (node_step s lvl t e P0 P1 s' h B Hl Dt De I0 I1 Hm) as [B' [X Dh]].
  assert (Eh : eref h = r0) by (apply (den_canon s' _ _ _ B' Dh (den_extends s s' _ _ B X D0))).
  split; [|exact Eh].
  unfold mk_node in Hm. destruct (all_equal [E t; E e]); [inversion Hm; reflexivity|].
  unfold get_or_insert in Hm. destruct (find_dup s lvl [E t; E e]); inversion Hm; [reflexivity|].
  exfalso. subst h. simpl in Eh. subst r0. destruct (proj1 D0) as [nd En].
  rewrite fresh_id_free in En. discriminate.
Qed.

Lemma op_code_inj : forall o o', op_code o = op_code o' -> o = o'.
Proof. intros [] [] E; simpl in E; try discriminate; reflexivity. Qed.

(** ** Caches *)

Section CacheSec.
Variable gt : ref -> ref -> bool.
Variable C : Type.
Variable cget : C -> N -> list ref -> option ref.
Variable cadd : C -> N -> list ref -> ref -> C.

(** the only thing assumed about the cache: what it serves after an insertion
    is the inserted entry or something it served before (entries may be lost
    at any time, never invented or mixed up) *)
Definition lossy : Prop :=
  forall c k a r k' a' r', cget (cadd c k a r) k' a' = Some r' ->
    (k' = k /\ a' = a /\ r' = r) \/ cget c k' a' = Some r'.

Hypothesis Hlossy : lossy.

(** an entry is correct in table [s] *)
Definition entry_ok (s : snap) (code : N) (args : list ref) (r : ref) : Prop :=
  match args with
  | [f] => code = code_not ->
      exists phi, Den s f phi /\ Den s r (fun c => negb (phi c))
  | [f; g] => forall o, code = op_code o ->
      exists phi psi, Den s f phi /\ Den s g psi /\
                      Den s r (fun c => eval_bop o (phi c) (psi c))
  | [f; g; h] => code = code_ite ->
      exists phi psi theta, Den s f phi /\ Den s g psi /\ Den s h theta /\
                            Den s r (fun c => if phi c then psi c else theta c)
  | _ => True
  end.

Definition CacheOK (s : snap) (c : C) : Prop :=
  forall code args r, cget c code args = Some r -> entry_ok s code args r.

Lemma entry_ok_extends : forall s s' code args r, BddOK s -> extends s s' ->
  entry_ok s code args r -> entry_ok s' code args r.
Proof.
  intros s s' code args r B X. unfold entry_ok.
  destruct args as [|f [|g [|h [|x rest]]]]; auto.
  - intros Hx Hc. destruct (Hx Hc) as [phi [A D]]. exists phi.
    split; eapply den_extends; eauto.
  - intros Hx o Hc. destruct (Hx o Hc) as [phi [psi [A [A' D]]]]. exists phi, psi.
    repeat split; eapply den_extends; eauto.
  - intros Hx Hc. destruct (Hx Hc) as [phi [psi [theta [A [A' [A'' D]]]]]]. exists phi, psi, theta.
    repeat split; eapply den_extends; eauto.
Qed.

Lemma cacheok_extends : forall s s' c, BddOK s -> extends s s' -> CacheOK s c -> CacheOK s' c.
Proof. intros s s' c B X O code args r E. eapply entry_ok_extends; eauto. Qed.

Lemma cacheok_add : forall s c code args r, CacheOK s c -> entry_ok s code args r ->
  CacheOK s (cadd c code args r).
Proof.
  intros s c code args r O Hn code' args' r' E.
  destruct (Hlossy _ _ _ _ _ _ _ E) as [[-> [-> ->]]|E']; [exact Hn | apply (O _ _ _ E')].
Qed.

Definition result_ok (s : snap) (c : C) (res : option (snap * C * ref))
  (Phi : (nat -> nat) -> bool) : Prop :=
  exists s' c' r, res = Some (s', c', r) /\
    BddOK s' /\ extends s s' /\ CacheOK s' c' /\ Den s' r Phi /\
    (* if the result function already has a reference, that reference is
       returned and the table is unchanged *)
    (forall r0, Den s r0 Phi -> s' = s /\ r = r0).

Lemma result_ok_ext : forall s c res Phi Phi', result_ok s c res Phi ->
  (forall c0, bchoice c0 -> Phi c0 = Phi' c0) -> result_ok s c res Phi'.
Proof.
  intros s c res Phi Phi' [s' [c' [r [E [B [X [O [D S]]]]]]]] Hp.
  exists s', c', r. split; [exact E|]. split; [exact B|]. split; [exact X|]. split; [exact O|].
  split; [apply (den_ext s' r Phi Phi' D Hp)|].
  intros r0 D0. apply S. apply (den_ext s r0 Phi' Phi D0). intros c0 Hc. symmetry. apply Hp. exact Hc.
Qed.

Lemma result_ok_here : forall s c r Phi, BddOK s -> CacheOK s c -> Den s r Phi ->
  result_ok s c (Some (s, c, r)) Phi.
Proof.
  intros s c r Phi B O D. exists s, c, r.
  split; [reflexivity|]. split; [exact B|]. split; [apply extends_refl|]. split; [exact O|].
  split; [exact D|]. intros r0 D0. split; [reflexivity | apply (den_canon s r r0 Phi B D D0)].
Qed.

(** ** [apply_not] *)

Lemma apply_not_S : forall n s c f,
  apply_not C cget cadd (S n) s c f =
  match f with
  | RT _ =>
    match view s f with
    | Some (VT b) =>
      match term_of s (negb b) with Some t => Some (s, c, RT t) | None => None end
    | _ => None
    end
  | RN id =>
    match find_node s id with
    | None => None
    | Some nd =>
      match cget c code_not [f] with
      | Some h => Some (s, c, h)
      | None =>
        match nchildren nd with
        | [ft; fe] =>
          match apply_not C cget cadd n s c (eref ft) with
          | None => None
          | Some (s1, c1, t) =>
            match apply_not C cget cadd n s1 c1 (eref fe) with
            | None => None
            | Some (s2, c2, e) =>
              let '(s3, h) := mk_node s2 (nstored nd) [E t; E e] in
              Some (s3, cadd c2 code_not [f] (eref h), eref h)
            end
          end
        | _ => None
        end
      end
    end
  end.
Proof. reflexivity. Qed.

Theorem apply_not_ok : forall fuel s c f phi,
  BddOK s -> CacheOK s c -> Den s f phi -> nlevels s - rlevel s f < fuel ->
  result_ok s c (apply_not C cget cadd fuel s c f) (fun c0 => negb (phi c0)).
Proof.
  induction fuel as [|n IH]; intros s c f phi B O D Hf; [lia|].
  pose proof (bo_wf s B) as H.
  rewrite apply_not_S. destruct f as [t|id].
  - destruct (view_total s (RT t) B (proj1 D)) as [v V]. rewrite V.
    destruct v as [|b]; [destruct (view_VI s _ V) as [i Hi]; discriminate|].
    destruct (term_of_total s (negb b) B) as [t' Et]. rewrite Et.
    apply result_ok_here; auto.
    apply (den_ext s (RT t') (fun _ => negb b)); [apply den_const; auto|].
    intros c0 Hc. rewrite (view_den_T s (RT t) b phi D V c0 Hc). reflexivity.
  - destruct (proj1 D) as [nd E]. rewrite E.
    rewrite (rlevel_node s id nd E) in Hf. pose proof (wf_level s H id nd E) as Hlv.
    destruct (cget c code_not [RN id]) as [h|] eqn:Eg.
    + (* cache hit *)
      destruct (O _ _ _ Eg eq_refl) as [phi' [D' Dh]].
      apply result_ok_here; auto.
      apply (den_ext s h _ _ Dh). intros c0 Hc.
      rewrite (den_unique s (RN id) phi' phi D' D c0 Hc). reflexivity.
    + destruct (bdd_children s id nd B E) as [a [b Ech]]. rewrite Ech.
      assert (Ha : nth_error (nchildren nd) 0 = Some a) by (rewrite Ech; reflexivity).
      assert (Hb : nth_error (nchildren nd) 1 = Some b) by (rewrite Ech; reflexivity).
      pose proof (den_child s id nd 0 a phi B D E Ha) as Da.
      pose proof (den_child s id nd 1 b phi B D E Hb) as Db.
      destruct (child_nth s H id nd 0 a E Ha) as [Oa La].
      destruct (child_nth s H id nd 1 b E Hb) as [Ob Lb].
      destruct (IH s c (eref a) _ B O Da ltac:(lia)) as [s1 [c1 [t [E1 [B1 [X1 [O1 [D1 S1]]]]]]]].
      rewrite E1.
      assert (Db1 : Den s1 (eref b) (cofn phi (nlevel nd) 1)) by (apply (den_extends s s1 _ _ B X1 Db)).
      assert (Hf1 : nlevels s1 - rlevel s1 (eref b) < n)
        by (rewrite (ext_nlevels _ _ X1), (ext_rlevel _ _ _ X1 Ob); lia).
      destruct (IH s1 c1 (eref b) _ B1 O1 Db1 Hf1) as [s2 [c2 [e [E2 [B2 [X2 [O2 [D2 S2]]]]]]]].
      rewrite E2.
      rewrite (wf_stored s H id nd E).
      destruct (mk_node s2 (nlevel nd) [Build.E t; Build.E e]) as [s3 h] eqn:Em.
      assert (D1' : Den s2 t (fun c0 => negb (cofn phi (nlevel nd) 0 c0))) by (apply (den_extends s1 s2 _ _ B1 X2 D1)).
      assert (Ip : indep phi (nlevel nd))
        by (rewrite <- (rlevel_node s id nd E); apply (den_indep s _ phi H D)).
      assert (I0 : indep (fun c0 => negb (cofn phi (nlevel nd) 0 c0)) (S (nlevel nd))).
      { intros x y Hx Hy Exy. f_equal. apply (indep_cofn phi _ _ 0 Ip (le_n _) ltac:(lia)); auto. }
      assert (I1 : indep (fun c0 => negb (cofn phi (nlevel nd) 1 c0)) (S (nlevel nd))).
      { intros x y Hx Hy Exy. f_equal. apply (indep_cofn phi _ _ 1 Ip (le_n _) ltac:(lia)); auto. }
      assert (Hl2 : nlevel nd < nlevels s2)
        by (rewrite (ext_nlevels _ _ X2), (ext_nlevels _ _ X1); exact Hlv).
      destruct (node_step s2 (nlevel nd) t e _ _ s3 h B2 Hl2 D1' D2 I0 I1 Em) as [B3 [X3 Dh]].
      assert (X03 : extends s s3) by (eapply extends_trans; [|exact X3]; eapply extends_trans; eauto).
      assert (Heq : forall c0, bchoice c0 ->
                (if Nat.eqb (c0 (nlevel nd)) 0 then negb (cofn phi (nlevel nd) 0 c0)
                 else negb (cofn phi (nlevel nd) 1 c0)) = negb (phi c0)).
      { intros c0 Hc.
        rewrite (shannon_pick c0 (nlevel nd) (fun i => negb (cofn phi (nlevel nd) i c0)) Hc).
        rewrite (den_upd_self s (RN id) phi c0 (nlevel nd) H D Hc). reflexivity. }
      assert (Dres : Den s3 (eref h) (fun c0 => negb (phi c0))) by (apply (den_ext _ _ _ _ Dh Heq)).
      exists s3, (cadd c2 code_not [RN id] (eref h)), (eref h).
      split; [reflexivity|]. split; [exact B3|]. split; [exact X03|].
      split; [|split; [exact Dres|]].
      { apply cacheok_add; [apply (cacheok_extends s2 s3 c2 B2 X3 O2)|].
        intros _. exists phi. split; [apply (den_extends s s3 _ _ B X03 D) | exact Dres]. }
      intros r0 D0.
      assert (J : indep (fun c0 => negb (phi c0)) (nlevel nd))
        by (intros x y Hx Hy Exy; f_equal; apply Ip; auto).
      assert (L0 : nlevel nd <= rlevel s r0)
        by (apply (den_level s r0 _ (nlevel nd) B D0 ltac:(lia) J)).
      destruct (den_cof_exists s r0 _ (nlevel nd) 0 B D0 L0 Hlv ltac:(lia)) as [q0 Dq0].
      destruct (den_cof_exists s r0 _ (nlevel nd) 1 B D0 L0 Hlv ltac:(lia)) as [q1 Dq1].
      destruct (S1 q0 Dq0) as [Es1 Et]. subst s1 t.
      destruct (S2 q1 Dq1) as [Es2 Ee]. subst s2 e.
      destruct (mk_node_stable s (nlevel nd) q0 q1 _ _ s3 h r0 B Hlv D1' D2 I0 I1 Em) as [Es3 Eh]; auto.
      apply (den_ext s r0 _ _ D0). intros c0 Hc. symmetry. apply Heq. exact Hc.
Qed.

(** ** [apply_bin] *)

Lemma apply_bin_S : forall n s c op f g,
  apply_bin gt C cget cadd (S n) s c op f g =
  match terminal_bin gt s op f g with
  | TFail => None
  | TDone h => Some (s, c, h)
  | TNot r => apply_not C cget cadd (S n) s c r
  | TBin o a b =>
    match cget c (op_code o) [a; b] with
    | Some h => Some (s, c, h)
    | None =>
      match inner s f, inner s g with
      | Some fnode, Some gnode =>
        let lvl := Nat.min (nstored fnode) (nstored gnode) in
        match cof2 f fnode lvl, cof2 g gnode lvl with
        | Some (ft, fe), Some (gt', ge) =>
          match apply_bin gt C cget cadd n s c op ft gt' with
          | None => None
          | Some (s1, c1, t) =>
            match apply_bin gt C cget cadd n s1 c1 op fe ge with
            | None => None
            | Some (s2, c2, e) =>
              let '(s3, h) := mk_node s2 lvl [E t; E e] in
              Some (s3, cadd c2 (op_code o) [a; b] (eref h), eref h)
            end
          end
        | _, _ => None
        end
      | _, _ => None
      end
    end
  end.
Proof. reflexivity. Qed.

Theorem apply_bin_ok : forall op fuel s c f g phi psi,
  BddOK s -> CacheOK s c -> Den s f phi -> Den s g psi ->
  nlevels s - Nat.min (rlevel s f) (rlevel s g) < fuel ->
  result_ok s c (apply_bin gt C cget cadd fuel s c op f g)
            (fun c0 => eval_bop op (phi c0) (psi c0)).
Proof.
  intros op. induction fuel as [|n IH]; intros s c f g phi psi B O Df Dg Hfuel; [lia|].
  pose proof (bo_wf s B) as H.
  rewrite apply_bin_S.
  pose proof (terminal_bin_sound gt s op f g phi psi B Df Dg) as T.
  destruct (terminal_bin gt s op f g) as [r|r|o a b|] eqn:Etb; [| | |contradiction].
  - apply result_ok_here; auto.
  - destruct T as [Hr [rho [Dr Hrho]]].
    assert (Hfr : nlevels s - rlevel s r < S n) by (destruct Hr as [->| ->]; lia).
    apply (result_ok_ext s c _ (fun c0 => negb (rho c0))).
    + apply (apply_not_ok (S n) s c r rho B O Dr Hfr).
    + intros c0 Hc. symmetry. apply Hrho. exact Hc.
  - destruct T as [-> [[idf ->] [[idg ->] Hab]]].
    destruct (proj1 Df) as [fnd Ef]. destruct (proj1 Dg) as [gnd Eg].
    rewrite (rlevel_node s idf fnd Ef), (rlevel_node s idg gnd Eg) in Hfuel.
    pose proof (wf_level s H idf fnd Ef) as Hlf. pose proof (wf_level s H idg gnd Eg) as Hlg.
    destruct (cget c (op_code op) [a; b]) as [h|] eqn:Ec.
    + (* cache hit *)
      destruct (O _ _ _ Ec op eq_refl) as [pa [pb [Da [Db Dh]]]].
      apply result_ok_here; auto. apply (den_ext s h _ _ Dh). intros c0 Hc.
      destruct Hab as [[-> ->]|[-> [-> Hcomm]]].
      * rewrite (den_unique s _ pa phi Da Df c0 Hc), (den_unique s _ pb psi Db Dg c0 Hc). reflexivity.
      * rewrite (den_unique s _ pa psi Da Dg c0 Hc), (den_unique s _ pb phi Db Df c0 Hc). apply Hcomm.
    + simpl inner. rewrite Ef, Eg.
      rewrite (wf_stored s H idf fnd Ef), (wf_stored s H idg gnd Eg).
      set (lvl := Nat.min (nlevel fnd) (nlevel gnd)) in *. cbv zeta.
      destruct (cof2_ok s idf fnd phi lvl B Df Ef ltac:(lia)) as [ft [fe [Ecf [Dft [Dfe [Lft Lfe]]]]]].
      destruct (cof2_ok s idg gnd psi lvl B Dg Eg ltac:(lia)) as [gt' [ge [Ecg [Dgt [Dge [Lgt Lge]]]]]].
      rewrite Ecf, Ecg.
      assert (Hlvl : lvl < nlevels s) by lia.
      destruct (IH s c ft gt' _ _ B O Dft Dgt ltac:(lia)) as [s1 [c1 [t [E1 [B1 [X1 [O1 [D1 S1]]]]]]]].
      rewrite E1.
      assert (Dfe1 : Den s1 fe (cofn phi lvl 1)) by (apply (den_extends s s1 _ _ B X1 Dfe)).
      assert (Dge1 : Den s1 ge (cofn psi lvl 1)) by (apply (den_extends s s1 _ _ B X1 Dge)).
      assert (Hf1 : nlevels s1 - Nat.min (rlevel s1 fe) (rlevel s1 ge) < n).
      { rewrite (ext_nlevels _ _ X1), (ext_rlevel _ _ _ X1 (proj1 Dfe)), (ext_rlevel _ _ _ X1 (proj1 Dge)). lia. }
      destruct (IH s1 c1 fe ge _ _ B1 O1 Dfe1 Dge1 Hf1) as [s2 [c2 [e [E2 [B2 [X2 [O2 [D2 S2]]]]]]]].
      rewrite E2.
      destruct (mk_node s2 lvl [Build.E t; Build.E e]) as [s3 h] eqn:Em.
      assert (D1' : Den s2 t (fun c0 => eval_bop op (cofn phi lvl 0 c0) (cofn psi lvl 0 c0)))
        by (apply (den_extends s1 s2 _ _ B1 X2 D1)).
      assert (Ip : indep phi (nlevel fnd))
        by (rewrite <- (rlevel_node s idf fnd Ef); apply (den_indep s _ phi H Df)).
      assert (Iq : indep psi (nlevel gnd))
        by (rewrite <- (rlevel_node s idg gnd Eg); apply (den_indep s _ psi H Dg)).
      assert (II : forall i, i < 2 ->
                indep (fun c0 => eval_bop op (cofn phi lvl i c0) (cofn psi lvl i c0)) (S lvl)).
      { intros i Hi x y Hx Hy Exy. f_equal.
        - apply (indep_cofn phi _ lvl i Ip ltac:(lia) Hi); auto.
        - apply (indep_cofn psi _ lvl i Iq ltac:(lia) Hi); auto. }
      assert (Hl2 : lvl < nlevels s2)
        by (rewrite (ext_nlevels _ _ X2), (ext_nlevels _ _ X1); exact Hlvl).
      destruct (node_step s2 lvl t e _ _ s3 h B2 Hl2 D1' D2 (II 0 ltac:(lia)) (II 1 ltac:(lia)) Em)
        as [B3 [X3 Dh]].
      assert (X03 : extends s s3) by (eapply extends_trans; [|exact X3]; eapply extends_trans; eauto).
      assert (Heq : forall c0, bchoice c0 ->
                (if Nat.eqb (c0 lvl) 0 then eval_bop op (cofn phi lvl 0 c0) (cofn psi lvl 0 c0)
                 else eval_bop op (cofn phi lvl 1 c0) (cofn psi lvl 1 c0))
                = eval_bop op (phi c0) (psi c0)).
      { intros c0 Hc.
        rewrite (shannon_pick c0 lvl
                   (fun i => eval_bop op (cofn phi lvl i c0) (cofn psi lvl i c0)) Hc).
        rewrite (den_upd_self s _ phi c0 lvl H Df Hc), (den_upd_self s _ psi c0 lvl H Dg Hc).
        reflexivity. }
      assert (Dres : Den s3 (eref h) (fun c0 => eval_bop op (phi c0) (psi c0)))
        by (apply (den_ext _ _ _ _ Dh Heq)).
      exists s3, (cadd c2 (op_code op) [a; b] (eref h)), (eref h).
      split; [reflexivity|]. split; [exact B3|]. split; [exact X03|].
      split; [|split; [exact Dres|]].
      { apply cacheok_add; [apply (cacheok_extends s2 s3 c2 B2 X3 O2)|].
        intros o Ho. apply op_code_inj in Ho. subst o.
        pose proof (den_extends s s3 _ _ B X03 Df) as Df3.
        pose proof (den_extends s s3 _ _ B X03 Dg) as Dg3.
        destruct Hab as [[-> ->]|[-> [-> Hcomm]]].
        * exists phi, psi. auto.
        * exists psi, phi. split; [exact Dg3|]. split; [exact Df3|].
          apply (den_ext _ _ _ _ Dres). intros c0 _. apply Hcomm. }
      intros r0 D0.
      assert (J : indep (fun c0 => eval_bop op (phi c0) (psi c0)) lvl).
      { intros x y Hx Hy Exy. f_equal.
        - apply (indep_mono phi _ lvl Ip ltac:(lia)); auto.
        - apply (indep_mono psi _ lvl Iq ltac:(lia)); auto. }
      assert (L0 : lvl <= rlevel s r0) by (apply (den_level s r0 _ lvl B D0 ltac:(lia) J)).
      destruct (den_cof_exists s r0 _ lvl 0 B D0 L0 Hlvl ltac:(lia)) as [q0 Dq0].
      destruct (den_cof_exists s r0 _ lvl 1 B D0 L0 Hlvl ltac:(lia)) as [q1 Dq1].
      destruct (S1 q0 Dq0) as [Es1 Et]. subst s1 t.
      destruct (S2 q1 Dq1) as [Es2 Ee]. subst s2 e.
      destruct (mk_node_stable s lvl q0 q1 _ _ s3 h r0 B Hlvl D1' D2 (II 0 ltac:(lia)) (II 1 ltac:(lia)) Em)
        as [Es3 Eh]; auto.
      apply (den_ext s r0 _ _ D0). intros c0 Hc. symmetry. apply Heq. exact Hc.
Qed.

(** ** [apply_ite] *)

Lemma apply_ite_S : forall n s c f g h,
  apply_ite gt C cget cadd (S n) s c f g h =
    if ref_eqb g h then Some (s, c, g)
    else if ref_eqb f g then apply_bin gt C cget cadd (S n) s c OOr f h
    else if ref_eqb f h then apply_bin gt C cget cadd (S n) s c OAnd f g
    else
      match view s f with
      | None => None
      | Some (VT b) => Some (s, c, if b then g else h)
      | Some VI =>
        match view s g, view s h with
        | Some (VT true), Some VI => apply_bin gt C cget cadd (S n) s c OOr f h
        | Some (VT false), Some VI => apply_bin gt C cget cadd (S n) s c OImpStrict f h
        | Some VI, Some (VT true) => apply_bin gt C cget cadd (S n) s c OImp f g
        | Some VI, Some (VT false) => apply_bin gt C cget cadd (S n) s c OAnd f g
        | Some (VT false), Some (VT _) => apply_not C cget cadd (S n) s c f
        | Some (VT true), Some (VT _) => Some (s, c, f)
        | Some VI, Some VI =>
          match cget c code_ite [f; g; h] with
          | Some r => Some (s, c, r)
          | None =>
            match inner s f, inner s g, inner s h with
            | Some fnode, Some gnode, Some hnode =>
              let lvl := Nat.min (Nat.min (nstored fnode) (nstored gnode)) (nstored hnode) in
              match cof2 f fnode lvl, cof2 g gnode lvl, cof2 h hnode lvl with
              | Some (ft, fe), Some (gt', ge), Some (ht, he) =>
                match apply_ite gt C cget cadd n s c ft gt' ht with
                | None => None
                | Some (s1, c1, t) =>
                  match apply_ite gt C cget cadd n s1 c1 fe ge he with
                  | None => None
                  | Some (s2, c2, e) =>
                    let '(s3, r) := mk_node s2 lvl [E t; E e] in
                    Some (s3, cadd c2 code_ite [f; g; h] (eref r), eref r)
                  end
                end
              | _, _, _ => None
              end
            | _, _, _ => None
            end
          end
        | _, _ => None
        end
      end.
Proof. reflexivity. Qed.

Local Ltac pw3 phi psi theta :=
  let c0 := fresh "c0" in let Hc := fresh "Hc" in
  intros c0 Hc; cbv beta;
  repeat match goal with
         | Hx : forall c, bchoice c -> _ = _ |- _ => pose proof (Hx c0 Hc); clear Hx
         end;
  destruct (phi c0); destruct (psi c0); destruct (theta c0); simpl in *; congruence.

Theorem apply_ite_ok : forall fuel s c f g h phi psi theta,
  BddOK s -> CacheOK s c -> Den s f phi -> Den s g psi -> Den s h theta ->
  nlevels s - Nat.min (Nat.min (rlevel s f) (rlevel s g)) (rlevel s h) < fuel ->
  result_ok s c (apply_ite gt C cget cadd fuel s c f g h)
            (fun c0 => if phi c0 then psi c0 else theta c0).
Proof.
  induction fuel as [|n IH]; intros s c f g h phi psi theta B O Df Dg Dh Hfuel; [lia|].
  pose proof (bo_wf s B) as H.
  rewrite apply_ite_S.
  destruct (ref_eqb g h) eqn:Egh.
  { apply ref_eqb_true in Egh. subst h.
    pose proof (den_unique s g psi theta Dg Dh) as U.
    apply result_ok_here; auto. apply (den_ext s g psi); [exact Dg|]. pw3 phi psi theta. }
  destruct (ref_eqb f g) eqn:Efg.
  { apply ref_eqb_true in Efg. subst g.
    pose proof (den_unique s f phi psi Df Dg) as U.
    apply (result_ok_ext s c _ (fun c0 => eval_bop OOr (phi c0) (theta c0))).
    - apply (apply_bin_ok OOr (S n) s c f h phi theta B O Df Dh). lia.
    - pw3 phi psi theta. }
  destruct (ref_eqb f h) eqn:Efh.
  { apply ref_eqb_true in Efh. subst h.
    pose proof (den_unique s f phi theta Df Dh) as U.
    apply (result_ok_ext s c _ (fun c0 => eval_bop OAnd (phi c0) (psi c0))).
    - apply (apply_bin_ok OAnd (S n) s c f g phi psi B O Df Dg). lia.
    - pw3 phi psi theta. }
  destruct (view_total s f B (proj1 Df)) as [vf Vf].
  destruct (view_total s g B (proj1 Dg)) as [vg Vg].
  destruct (view_total s h B (proj1 Dh)) as [vh Vh].
  rewrite Vf. destruct vf as [|bf].
  2:{ pose proof (view_den_T s f bf phi Df Vf) as U.
      apply result_ok_here; auto. destruct bf.
      - apply (den_ext s g psi); [exact Dg|]. pw3 phi psi theta.
      - apply (den_ext s h theta); [exact Dh|]. pw3 phi psi theta. }
  rewrite Vg, Vh. destruct vg as [|[]], vh as [|[]].
  - (* all three inner *)
    destruct (view_VI s f Vf) as [idf ->]. destruct (view_VI s g Vg) as [idg ->].
    destruct (view_VI s h Vh) as [idh ->].
    destruct (proj1 Df) as [fnd Ef]. destruct (proj1 Dg) as [gnd Eg]. destruct (proj1 Dh) as [hnd Eh].
    rewrite (rlevel_node s idf fnd Ef), (rlevel_node s idg gnd Eg), (rlevel_node s idh hnd Eh) in Hfuel.
    pose proof (wf_level s H idf fnd Ef) as Hlf. pose proof (wf_level s H idg gnd Eg) as Hlg.
    pose proof (wf_level s H idh hnd Eh) as Hlh.
    destruct (cget c code_ite [RN idf; RN idg; RN idh]) as [r|] eqn:Ec.
    + destruct (O _ _ _ Ec eq_refl) as [pa [pb [pc [Da [Db [Dc Dr]]]]]].
      apply result_ok_here; auto. apply (den_ext s r _ _ Dr). intros c0 Hc.
      rewrite (den_unique s _ pa phi Da Df c0 Hc), (den_unique s _ pb psi Db Dg c0 Hc),
              (den_unique s _ pc theta Dc Dh c0 Hc). reflexivity.
    + simpl inner. rewrite Ef, Eg, Eh.
      rewrite (wf_stored s H idf fnd Ef), (wf_stored s H idg gnd Eg), (wf_stored s H idh hnd Eh).
      set (lvl := Nat.min (Nat.min (nlevel fnd) (nlevel gnd)) (nlevel hnd)) in *. cbv zeta.
      destruct (cof2_ok s idf fnd phi lvl B Df Ef ltac:(lia)) as [ft [fe [Ecf [Dft [Dfe [Lft Lfe]]]]]].
      destruct (cof2_ok s idg gnd psi lvl B Dg Eg ltac:(lia)) as [gt' [ge [Ecg [Dgt [Dge [Lgt Lge]]]]]].
      destruct (cof2_ok s idh hnd theta lvl B Dh Eh ltac:(lia)) as [ht [he [Ech [Dht [Dhe [Lht Lhe]]]]]].
      rewrite Ecf, Ecg, Ech.
      assert (Hlvl : lvl < nlevels s) by lia.
      destruct (IH s c ft gt' ht _ _ _ B O Dft Dgt Dht ltac:(lia)) as [s1 [c1 [t [E1 [B1 [X1 [O1 [D1 S1]]]]]]]].
      rewrite E1.
      assert (Dfe1 : Den s1 fe (cofn phi lvl 1)) by (apply (den_extends s s1 _ _ B X1 Dfe)).
      assert (Dge1 : Den s1 ge (cofn psi lvl 1)) by (apply (den_extends s s1 _ _ B X1 Dge)).
      assert (Dhe1 : Den s1 he (cofn theta lvl 1)) by (apply (den_extends s s1 _ _ B X1 Dhe)).
      assert (Hf1 : nlevels s1 - Nat.min (Nat.min (rlevel s1 fe) (rlevel s1 ge)) (rlevel s1 he) < n).
      { rewrite (ext_nlevels _ _ X1), (ext_rlevel _ _ _ X1 (proj1 Dfe)),
                (ext_rlevel _ _ _ X1 (proj1 Dge)), (ext_rlevel _ _ _ X1 (proj1 Dhe)). lia. }
      destruct (IH s1 c1 fe ge he _ _ _ B1 O1 Dfe1 Dge1 Dhe1 Hf1) as [s2 [c2 [e [E2 [B2 [X2 [O2 [D2 S2]]]]]]]].
      rewrite E2.
      destruct (mk_node s2 lvl [Build.E t; Build.E e]) as [s3 r] eqn:Em.
      assert (D1' : Den s2 t (fun c0 => if cofn phi lvl 0 c0 then cofn psi lvl 0 c0 else cofn theta lvl 0 c0))
        by (apply (den_extends s1 s2 _ _ B1 X2 D1)).
      assert (Ip : indep phi (nlevel fnd))
        by (rewrite <- (rlevel_node s idf fnd Ef); apply (den_indep s _ phi H Df)).
      assert (Iq : indep psi (nlevel gnd))
        by (rewrite <- (rlevel_node s idg gnd Eg); apply (den_indep s _ psi H Dg)).
      assert (Ir : indep theta (nlevel hnd))
        by (rewrite <- (rlevel_node s idh hnd Eh); apply (den_indep s _ theta H Dh)).
      assert (II : forall i, i < 2 ->
                indep (fun c0 => if cofn phi lvl i c0 then cofn psi lvl i c0 else cofn theta lvl i c0) (S lvl)).
      { intros i Hi x y Hx Hy Exy.
        rewrite (indep_cofn phi _ lvl i Ip ltac:(lia) Hi x y Hx Hy Exy).
        rewrite (indep_cofn psi _ lvl i Iq ltac:(lia) Hi x y Hx Hy Exy).
        rewrite (indep_cofn theta _ lvl i Ir ltac:(lia) Hi x y Hx Hy Exy). reflexivity. }
      assert (Hl2 : lvl < nlevels s2)
        by (rewrite (ext_nlevels _ _ X2), (ext_nlevels _ _ X1); exact Hlvl).
      destruct (node_step s2 lvl t e _ _ s3 r B2 Hl2 D1' D2 (II 0 ltac:(lia)) (II 1 ltac:(lia)) Em)
        as [B3 [X3 Dr]].
      assert (X03 : extends s s3) by (eapply extends_trans; [|exact X3]; eapply extends_trans; eauto).
      assert (Heq : forall c0, bchoice c0 ->
                (if Nat.eqb (c0 lvl) 0
                 then (if cofn phi lvl 0 c0 then cofn psi lvl 0 c0 else cofn theta lvl 0 c0)
                 else (if cofn phi lvl 1 c0 then cofn psi lvl 1 c0 else cofn theta lvl 1 c0))
                = if phi c0 then psi c0 else theta c0).
      { intros c0 Hc.
        rewrite (shannon_pick c0 lvl
                   (fun i => if cofn phi lvl i c0 then cofn psi lvl i c0 else cofn theta lvl i c0) Hc).
        rewrite (den_upd_self s _ phi c0 lvl H Df Hc), (den_upd_self s _ psi c0 lvl H Dg Hc),
                (den_upd_self s _ theta c0 lvl H Dh Hc).
        reflexivity. }
      assert (Dres : Den s3 (eref r) (fun c0 => if phi c0 then psi c0 else theta c0))
        by (apply (den_ext _ _ _ _ Dr Heq)).
      exists s3, (cadd c2 code_ite [RN idf; RN idg; RN idh] (eref r)), (eref r).
      split; [reflexivity|]. split; [exact B3|]. split; [exact X03|].
      split; [|split; [exact Dres|]].
      { apply cacheok_add; [apply (cacheok_extends s2 s3 c2 B2 X3 O2)|].
        intros _. exists phi, psi, theta.
        split; [apply (den_extends s s3 _ _ B X03 Df)|].
        split; [apply (den_extends s s3 _ _ B X03 Dg)|].
        split; [apply (den_extends s s3 _ _ B X03 Dh) | exact Dres]. }
      intros r0 D0.
      assert (J : indep (fun c0 => if phi c0 then psi c0 else theta c0) lvl).
      { intros x y Hx Hy Exy.
        rewrite (indep_mono phi _ lvl Ip ltac:(lia) x y Hx Hy Exy).
        rewrite (indep_mono psi _ lvl Iq ltac:(lia) x y Hx Hy Exy).
        rewrite (indep_mono theta _ lvl Ir ltac:(lia) x y Hx Hy Exy). reflexivity. }
      assert (L0 : lvl <= rlevel s r0) by (apply (den_level s r0 _ lvl B D0 ltac:(lia) J)).
      destruct (den_cof_exists s r0 _ lvl 0 B D0 L0 Hlvl ltac:(lia)) as [q0 Dq0].
      destruct (den_cof_exists s r0 _ lvl 1 B D0 L0 Hlvl ltac:(lia)) as [q1 Dq1].
      destruct (S1 q0 Dq0) as [Es1 Et]. subst s1 t.
      destruct (S2 q1 Dq1) as [Es2 Ee]. subst s2 e.
      destruct (mk_node_stable s lvl q0 q1 _ _ s3 r r0 B Hlvl D1' D2 (II 0 ltac:(lia)) (II 1 ltac:(lia)) Em)
        as [Es3 Ehr]; auto.
      apply (den_ext s r0 _ _ D0). intros c0 Hc. symmetry. apply Heq. exact Hc.
  - (* g inner, h = true: f -> g *)
    pose proof (view_den_T s h true theta Dh Vh) as U.
    apply (result_ok_ext s c _ (fun c0 => eval_bop OImp (phi c0) (psi c0))).
    + apply (apply_bin_ok OImp (S n) s c f g phi psi B O Df Dg). lia.
    + pw3 phi psi theta.
  - (* g inner, h = false: f /\ g *)
    pose proof (view_den_T s h false theta Dh Vh) as U.
    apply (result_ok_ext s c _ (fun c0 => eval_bop OAnd (phi c0) (psi c0))).
    + apply (apply_bin_ok OAnd (S n) s c f g phi psi B O Df Dg). lia.
    + pw3 phi psi theta.
  - (* g = true, h inner: f \/ h *)
    pose proof (view_den_T s g true psi Dg Vg) as U.
    apply (result_ok_ext s c _ (fun c0 => eval_bop OOr (phi c0) (theta c0))).
    + apply (apply_bin_ok OOr (S n) s c f h phi theta B O Df Dh). lia.
    + pw3 phi psi theta.
  - (* g = true, h = true: excluded by g <> h, the code returns f *)
    pose proof (view_den_T s g true psi Dg Vg) as U. pose proof (view_den_T s h true theta Dh Vh) as U'.
    exfalso. destruct (view_VT s g true Vg) as [tg [-> Tg]]. destruct (view_VT s h true Vh) as [th [-> Th]].
    rewrite (term_val_inj s tg th _ H Tg Th) in Egh.
    assert (X : ref_eqb (RT th) (RT th) = true) by (apply ref_eqb_eq; reflexivity). congruence.
  - (* g = true, h = false: f *)
    pose proof (view_den_T s g true psi Dg Vg) as U. pose proof (view_den_T s h false theta Dh Vh) as U'.
    apply result_ok_here; auto. apply (den_ext s f phi); [exact Df|]. pw3 phi psi theta.
  - (* g = false, h inner: ~f /\ h *)
    pose proof (view_den_T s g false psi Dg Vg) as U.
    apply (result_ok_ext s c _ (fun c0 => eval_bop OImpStrict (phi c0) (theta c0))).
    + apply (apply_bin_ok OImpStrict (S n) s c f h phi theta B O Df Dh). lia.
    + pw3 phi psi theta.
  - (* g = false, h = true: ~f *)
    pose proof (view_den_T s g false psi Dg Vg) as U. pose proof (view_den_T s h true theta Dh Vh) as U'.
    apply (result_ok_ext s c _ (fun c0 => negb (phi c0))).
    + apply (apply_not_ok (S n) s c f phi B O Df). lia.
    + pw3 phi psi theta.
  - (* g = false, h = false: excluded by g <> h *)
    exfalso. destruct (view_VT s g false Vg) as [tg [-> Tg]]. destruct (view_VT s h false Vh) as [th [-> Th]].
    rewrite (term_val_inj s tg th _ H Tg Th) in Egh.
    assert (X : ref_eqb (RT th) (RT th) = true) by (apply ref_eqb_eq; reflexivity). congruence.
Qed.

End CacheSec.

Arguments lossy {C}.
Arguments CacheOK {C}.

(** ** Cache instances *)

Lemma refs_eqb_eq : forall a b, refs_eqb a b = true <-> a = b.
Proof.
  induction a as [|x a IH]; intros [|y b]; simpl; split; intro Hx;
    try discriminate; try reflexivity.
  - apply andb_true_iff in Hx. destruct Hx as [H1 H2].
    apply ref_eqb_eq in H1. apply IH in H2. congruence.
  - inversion Hx; subst. apply andb_true_iff. split; [apply ref_eqb_eq | apply IH]; reflexivity.
Qed.

Lemma ac_lossy : lossy ac_get ac_add.
Proof.
  intros c k a r k' a' r' E. unfold ac_add in E. simpl in E.
  destruct (N.eqb k k' && refs_eqb a a') eqn:Ek; [|right; exact E].
  apply andb_true_iff in Ek. destruct Ek as [E1 E2].
  apply N.eqb_eq in E1. apply refs_eqb_eq in E2. inversion E; subst. left. auto.
Qed.

Lemma nc_lossy : lossy nc_get nc_add.
Proof. intros c k a r k' a' r' E. discriminate. Qed.

Lemma ac_empty_ok : forall s, CacheOK ac_get s [].
Proof. intros s code args r E. discriminate. Qed.

Lemma nc_ok : forall s c, CacheOK nc_get s c.
Proof. intros s c code args r E. discriminate. Qed.

(** ** The theorems in terms of [semk] only *)

Definition FUEL (s : snap) : nat := S (nlevels s).

(** value of [r] under [c0]: [semk] with the standard fuel, as a Boolean *)
Definition bvalue (s : snap) (r : ref) (c0 : nat -> nat) (x : bool) : Prop :=
  semk s (FUEL s) r c0 = Some (b2c x).

Lemma bvalue_fun : forall s r c0 x y, bvalue s r c0 x -> bvalue s r c0 y -> x = y.
Proof. intros s r c0 x y A B. unfold bvalue in *. apply b2c_inj. congruence. Qed.

Section Top.
Variable gt : ref -> ref -> bool.
Variable C : Type.
Variable cget : C -> N -> list ref -> option ref.
Variable cadd : C -> N -> list ref -> ref -> C.
Hypothesis Hlossy : lossy cget cadd.

Theorem apply_not_sound : forall fuel s c f,
  BddOK s -> CacheOK cget s c -> ref_ok s f -> FUEL s <= fuel ->
  exists s' c' r, apply_not C cget cadd fuel s c f = Some (s', c', r) /\
    BddOK s' /\ extends s s' /\ CacheOK cget s' c' /\ ref_ok s' r /\
    forall c0, bchoice c0 -> exists x,
      bvalue s f c0 x /\ bvalue s' r c0 (negb x).
Proof.
  intros fuel s c f B O Hf Hfuel. destruct (den_exists s f B Hf) as [phi D].
  pose proof (rlevel_le s (bo_wf s B) f). unfold FUEL in Hfuel.
  destruct (apply_not_ok C cget cadd Hlossy fuel s c f phi B O D ltac:(lia))
    as [s' [c' [r [E [B' [X [O' [D' _]]]]]]]].
  exists s', c', r. repeat (split; [assumption|]). split; [apply (proj1 D')|].
  intros c0 Hc. exists (phi c0). split; [apply (proj2 D c0 Hc) | apply (proj2 D' c0 Hc)].
Qed.

Theorem apply_bin_sound : forall op fuel s c f g,
  BddOK s -> CacheOK cget s c -> ref_ok s f -> ref_ok s g -> FUEL s <= fuel ->
  exists s' c' r, apply_bin gt C cget cadd fuel s c op f g = Some (s', c', r) /\
    BddOK s' /\ extends s s' /\ CacheOK cget s' c' /\ ref_ok s' r /\
    forall c0, bchoice c0 -> exists x y,
      bvalue s f c0 x /\ bvalue s g c0 y /\ bvalue s' r c0 (eval_bop op x y).
Proof.
  intros op fuel s c f g B O Hf Hg Hfuel.
  destruct (den_exists s f B Hf) as [phi Df]. destruct (den_exists s g B Hg) as [psi Dg].
  unfold FUEL in Hfuel.
  destruct (apply_bin_ok gt C cget cadd Hlossy op fuel s c f g phi psi B O Df Dg ltac:(lia))
    as [s' [c' [r [E [B' [X [O' [D' _]]]]]]]].
  exists s', c', r. repeat (split; [assumption|]). split; [apply (proj1 D')|].
  intros c0 Hc. exists (phi c0), (psi c0).
  split; [apply (proj2 Df c0 Hc)|]. split; [apply (proj2 Dg c0 Hc) | apply (proj2 D' c0 Hc)].
Qed.

Theorem apply_ite_sound : forall fuel s c f g h,
  BddOK s -> CacheOK cget s c -> ref_ok s f -> ref_ok s g -> ref_ok s h -> FUEL s <= fuel ->
  exists s' c' r, apply_ite gt C cget cadd fuel s c f g h = Some (s', c', r) /\
    BddOK s' /\ extends s s' /\ CacheOK cget s' c' /\ ref_ok s' r /\
    forall c0, bchoice c0 -> exists x y z,
      bvalue s f c0 x /\ bvalue s g c0 y /\ bvalue s h c0 z /\
      bvalue s' r c0 (if x then y else z).
Proof.
  intros fuel s c f g h B O Hf Hg Hh Hfuel.
  destruct (den_exists s f B Hf) as [phi Df]. destruct (den_exists s g B Hg) as [psi Dg].
  destruct (den_exists s h B Hh) as [theta Dh]. unfold FUEL in Hfuel.
  destruct (apply_ite_ok gt C cget cadd Hlossy fuel s c f g h phi psi theta B O Df Dg Dh ltac:(lia))
    as [s' [c' [r [E [B' [X [O' [D' _]]]]]]]].
  exists s', c', r. repeat (split; [assumption|]). split; [apply (proj1 D')|].
  intros c0 Hc. exists (phi c0), (psi c0), (theta c0).
  split; [apply (proj2 Df c0 Hc)|]. split; [apply (proj2 Dg c0 Hc)|].
  split; [apply (proj2 Dh c0 Hc) | apply (proj2 D' c0 Hc)].
Qed.

End Top.


(** ** C06: the returned handle does not depend on the cache or on history *)

Section Transparent.
(** two arbitrary cache implementations and operand orders *)
Variables gt1 gt2 : ref -> ref -> bool.
Variables C1 C2 : Type.
Variable cget1 : C1 -> N -> list ref -> option ref.
Variable cadd1 : C1 -> N -> list ref -> ref -> C1.
Variable cget2 : C2 -> N -> list ref -> option ref.
Variable cadd2 : C2 -> N -> list ref -> ref -> C2.
Hypothesis L1 : lossy cget1 cadd1.
Hypothesis L2 : lossy cget2 cadd2.

(** generic form: two runs of anything satisfying [result_ok] *)
Lemma runs_same_function : forall s c1 c2 res1 res2 Phi s1 c1' r1 s2 c2' r2,
  result_ok C1 cget1 s c1 res1 Phi -> result_ok C2 cget2 s c2 res2 Phi ->
  res1 = Some (s1, c1', r1) -> res2 = Some (s2, c2', r2) ->
  forall c0, bchoice c0 -> semk s1 (FUEL s1) r1 c0 = semk s2 (FUEL s2) r2 c0.
Proof.
  intros s c1 c2 res1 res2 Phi s1 c1' r1 s2 c2' r2
    [sa [ca [ra [Ea [_ [_ [_ [Da _]]]]]]]] [sb [cb [rb [Eb [_ [_ [_ [Db _]]]]]]]] E1 E2 c0 Hc.
  rewrite E1 in Ea. rewrite E2 in Eb. inversion Ea; subst. inversion Eb; subst.
  unfold FUEL. rewrite (proj2 Da c0 Hc), (proj2 Db c0 Hc). reflexivity.
Qed.


(** (a) whatever the two caches contain (as long as it is correct), the two
    results denote the same function *)
Theorem apply_bin_cache_transparent_sem : forall op s c1 c2 f g fuel1 fuel2 s1 c1' r1 s2 c2' r2,
  BddOK s -> CacheOK cget1 s c1 -> CacheOK cget2 s c2 -> ref_ok s f -> ref_ok s g ->
  FUEL s <= fuel1 -> FUEL s <= fuel2 ->
  apply_bin gt1 C1 cget1 cadd1 fuel1 s c1 op f g = Some (s1, c1', r1) ->
  apply_bin gt2 C2 cget2 cadd2 fuel2 s c2 op f g = Some (s2, c2', r2) ->
  forall c0, bchoice c0 -> semk s1 (FUEL s1) r1 c0 = semk s2 (FUEL s2) r2 c0.
Proof.
  intros op s c1 c2 f g fuel1 fuel2 s1 c1' r1 s2 c2' r2 B O1 O2 Hf Hg F1 F2 E1 E2.
  destruct (den_exists s f B Hf) as [phi Df]. destruct (den_exists s g B Hg) as [psi Dg].
  unfold FUEL in F1, F2.
  eapply runs_same_function; [| | exact E1 | exact E2].
  - apply (apply_bin_ok gt1 C1 cget1 cadd1 L1 op fuel1 s c1 f g phi psi B O1 Df Dg). lia.
  - apply (apply_bin_ok gt2 C2 cget2 cadd2 L2 op fuel2 s c2 f g phi psi B O2 Df Dg). lia.
Qed.

(** (b) repeating the operation in any later state of the same table (more
    nodes, any correct cache of any implementation, any operand order) returns
    the identical reference and leaves the table unchanged *)
Theorem apply_bin_history_independent : forall op s c1 f g fuel1 s1 c1' r1,
  BddOK s -> CacheOK cget1 s c1 -> ref_ok s f -> ref_ok s g -> FUEL s <= fuel1 ->
  apply_bin gt1 C1 cget1 cadd1 fuel1 s c1 op f g = Some (s1, c1', r1) ->
  forall s2 c2 fuel2, BddOK s2 -> extends s1 s2 -> CacheOK cget2 s2 c2 -> FUEL s2 <= fuel2 ->
  exists c2', apply_bin gt2 C2 cget2 cadd2 fuel2 s2 c2 op f g = Some (s2, c2', r1).
Proof.
  intros op s c1 f g fuel1 s1 c1' r1 B O1 Hf Hg F1 E1 s2 c2 fuel2 B2 X O2 F2.
  destruct (den_exists s f B Hf) as [phi Df]. destruct (den_exists s g B Hg) as [psi Dg].
  unfold FUEL in F1, F2.
  destruct (apply_bin_ok gt1 C1 cget1 cadd1 L1 op fuel1 s c1 f g phi psi B O1 Df Dg ltac:(lia))
    as [sa [ca [ra [Ea [Ba [Xa [_ [Da _]]]]]]]].
  rewrite E1 in Ea. inversion Ea; subst sa ca ra.
  assert (X02 : extends s s2) by (eapply extends_trans; eauto).
  pose proof (den_extends s s2 _ _ B X02 Df) as Df2. pose proof (den_extends s s2 _ _ B X02 Dg) as Dg2.
  destruct (apply_bin_ok gt2 C2 cget2 cadd2 L2 op fuel2 s2 c2 f g phi psi B2 O2 Df2 Dg2 ltac:(lia))
    as [sb [cb [rb [Eb [_ [_ [_ [_ Sb]]]]]]]].
  destruct (Sb r1 (den_extends s1 s2 _ _ Ba X Da)) as [-> ->].
  exists cb. exact Eb.
Qed.

Theorem apply_not_history_independent : forall s c1 f fuel1 s1 c1' r1,
  BddOK s -> CacheOK cget1 s c1 -> ref_ok s f -> FUEL s <= fuel1 ->
  apply_not C1 cget1 cadd1 fuel1 s c1 f = Some (s1, c1', r1) ->
  forall s2 c2 fuel2, BddOK s2 -> extends s1 s2 -> CacheOK cget2 s2 c2 -> FUEL s2 <= fuel2 ->
  exists c2', apply_not C2 cget2 cadd2 fuel2 s2 c2 f = Some (s2, c2', r1).
Proof.
  intros s c1 f fuel1 s1 c1' r1 B O1 Hf F1 E1 s2 c2 fuel2 B2 X O2 F2.
  destruct (den_exists s f B Hf) as [phi Df]. unfold FUEL in F1, F2.
  pose proof (rlevel_le s (bo_wf s B) f).
  destruct (apply_not_ok C1 cget1 cadd1 L1 fuel1 s c1 f phi B O1 Df ltac:(lia))
    as [sa [ca [ra [Ea [Ba [Xa [_ [Da _]]]]]]]].
  rewrite E1 in Ea. inversion Ea; subst sa ca ra.
  assert (X02 : extends s s2) by (eapply extends_trans; eauto).
  pose proof (den_extends s s2 _ _ B X02 Df) as Df2.
  pose proof (rlevel_le s2 (bo_wf s2 B2) f).
  destruct (apply_not_ok C2 cget2 cadd2 L2 fuel2 s2 c2 f phi B2 O2 Df2 ltac:(lia))
    as [sb [cb [rb [Eb [_ [_ [_ [_ Sb]]]]]]]].
  destruct (Sb r1 (den_extends s1 s2 _ _ Ba X Da)) as [-> ->].
  exists cb. exact Eb.
Qed.

Theorem apply_ite_history_independent : forall s c1 f g h fuel1 s1 c1' r1,
  BddOK s -> CacheOK cget1 s c1 -> ref_ok s f -> ref_ok s g -> ref_ok s h -> FUEL s <= fuel1 ->
  apply_ite gt1 C1 cget1 cadd1 fuel1 s c1 f g h = Some (s1, c1', r1) ->
  forall s2 c2 fuel2, BddOK s2 -> extends s1 s2 -> CacheOK cget2 s2 c2 -> FUEL s2 <= fuel2 ->
  exists c2', apply_ite gt2 C2 cget2 cadd2 fuel2 s2 c2 f g h = Some (s2, c2', r1).
Proof.
  intros s c1 f g h fuel1 s1 c1' r1 B O1 Hf Hg Hh F1 E1 s2 c2 fuel2 B2 X O2 F2.
  destruct (den_exists s f B Hf) as [phi Df]. destruct (den_exists s g B Hg) as [psi Dg].
  destruct (den_exists s h B Hh) as [theta Dh]. unfold FUEL in F1, F2.
  destruct (apply_ite_ok gt1 C1 cget1 cadd1 L1 fuel1 s c1 f g h phi psi theta B O1 Df Dg Dh ltac:(lia))
    as [sa [ca [ra [Ea [Ba [Xa [_ [Da _]]]]]]]].
  rewrite E1 in Ea. inversion Ea; subst sa ca ra.
  assert (X02 : extends s s2) by (eapply extends_trans; eauto).
  pose proof (den_extends s s2 _ _ B X02 Df) as Df2. pose proof (den_extends s s2 _ _ B X02 Dg) as Dg2.
  pose proof (den_extends s s2 _ _ B X02 Dh) as Dh2.
  destruct (apply_ite_ok gt2 C2 cget2 cadd2 L2 fuel2 s2 c2 f g h phi psi theta B2 O2 Df2 Dg2 Dh2 ltac:(lia))
    as [sb [cb [rb [Eb [_ [_ [_ [_ Sb]]]]]]]].
  destruct (Sb r1 (den_extends s1 s2 _ _ Ba X Da)) as [-> ->].
  exists cb. exact Eb.
Qed.

End Transparent.

(** (c) in its result table the returned reference is THE reference with the
    result's meaning *)
Theorem apply_bin_result_unique : forall gt C cget cadd, lossy cget cadd ->
  forall op fuel s (c : C) f g s' c' r,
  BddOK s -> CacheOK cget s c -> ref_ok s f -> ref_ok s g -> FUEL s <= fuel ->
  apply_bin gt C cget cadd fuel s c op f g = Some (s', c', r) ->
  forall r0, ref_ok s' r0 ->
    (forall c0, bchoice c0 -> exists x y,
        bvalue s f c0 x /\ bvalue s g c0 y /\ bvalue s' r0 c0 (eval_bop op x y)) ->
    r0 = r.
Proof.
  intros gt C cget cadd L op fuel s c f g s' c' r B O Hf Hg F E r0 H0 Hsem.
  destruct (den_exists s f B Hf) as [phi Df]. destruct (den_exists s g B Hg) as [psi Dg].
  unfold FUEL in F.
  destruct (apply_bin_ok gt C cget cadd L op fuel s c f g phi psi B O Df Dg ltac:(lia))
    as [sa [ca [ra [Ea [Ba [_ [_ [Da _]]]]]]]].
  rewrite E in Ea. inversion Ea; subst sa ca ra.
  apply (den_canon s' r0 r (fun c0 => eval_bop op (phi c0) (psi c0)) Ba); [|exact Da].
  split; [exact H0|]. intros c0 Hc. destruct (Hsem c0 Hc) as [x [y [Vx [Vy V0]]]].
  rewrite (bvalue_fun s f c0 _ _ (proj2 Df c0 Hc) Vx), (bvalue_fun s g c0 _ _ (proj2 Dg c0 Hc) Vy).
  exact V0.
Qed.
