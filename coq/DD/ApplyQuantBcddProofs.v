(** * Soundness of the fused [capply_quant] and of the two dispatch tables
      (complement-edge kind)

    [capply_quant_ok]: for the three instances [And], [Xor], [UniqueNand] of
    [OP] and every quantifier for which the code is instantiated, the result
    denotes the quantification of the operator applied pointwise.
    [capply_quant_edge_ok]: [apply_forall_edge] / [apply_exists_edge] /
    [apply_unique_edge] through [apply_quant_dispatch::<Q, QN>] and
    [apply_quant_unique_dispatch], all 8 operators: the quantification of
    [eval_bop op]. *)

From Coq Require Import List NArith PArith Bool Arith Lia FMapPositive.
From OxiVerif Require Import DD.Table DD.TableProofs DD.Canon DD.CanonBcdd DD.Sem DD.Build DD.BuildProofs
  DD.Apply DD.ApplyProofs DD.ApplyBcdd DD.ApplyBcddProofs DD.ApplyBcddIte
  DD.Quant DD.QuantSpecProofs DD.QuantLemmas DD.QuantProofs DD.QuantBcdd DD.QuantBcddLemmas DD.QuantBcddProofs.
Import ListNotations.

Section AQ.
Variable lt : edge -> edge -> bool.
Variable C : Type.
Variable cget : C -> N -> list edge -> option edge.
Variable cadd : C -> N -> list edge -> edge -> C.
Hypothesis Hlossy : lossyC cget cadd.
Variable Sg : N -> option (list (nat * edge)).

Notation QOKC := (QCacheOKC cget Sg).
Notation qcres := (qcresult_ok cget Sg).
Notation cres := (option (snap * C * edge)).

(** the part of [apply_quant] after the terminal cases and the operand ordering *)
Definition caq_body (rec : snap -> C -> edge -> edge -> edge -> cres)
           (s : snap) (c : C) (q : quantifier) (o : aqop) (operator : N)
           (f : edge) (fnode : node) (g : edge) (gnode : node) (vars : edge) : cres :=
  let flevel := nstored fnode in
  let glevel := nstored gnode in
  let min_level := Nat.min flevel glevel in
  match (if is_unique q then Some vars else cset_pop (S (nlevels s)) s vars min_level) with
  | None => None
  | Some vars' =>
    match eref vars' with
    | RT _ => cplain lt C cget cadd s c o f g
    | RN vid =>
      match find_node s vid with
      | None => None
      | Some vnode =>
        let vlevel := nstored vnode in
        if Nat.ltb vlevel min_level && is_unique q then cfalse C s c
        else if Nat.ltb vlevel min_level then cplain lt C cget cadd s c o f g
        else
          match cget c operator [f; g; vars'] with
          | Some h => Some (s, c, h)
          | None =>
            match (if Nat.eqb vlevel min_level
                   then match nchildren vnode with [vt; _] => Some vt | _ => None end
                   else Some vars'),
                  (if Nat.leb flevel glevel then ccofs (etag f) fnode else Some (f, f)),
                  (if Nat.leb glevel flevel then ccofs (etag g) gnode else Some (g, g)) with
            | Some vt, Some (ft, fe), Some (gt', ge) =>
              match rec s c ft gt' vt with
              | None => None
              | Some (s1, c1, t) =>
                match rec s1 c1 fe ge vt with
                | None => None
                | Some (s2, c2, e) =>
                  if Nat.eqb min_level vlevel then
                    match ccombine lt C cget cadd s2 c2 q t e with
                    | None => None
                    | Some (s3, c3, res) => Some (s3, cadd c3 operator [f; g; vars'] res, res)
                    end
                  else
                    let '(s3, h) := cmk_node s2 min_level t e in
                    Some (s3, cadd c2 operator [f; g; vars'] h, h)
                end
              end
            | _, _, _ => None
            end
          end
      end
    end
  end.

Lemma capply_quant_S : forall n s c q o f g vars,
  capply_quant lt C cget cadd (S n) s c q o f g vars =
    match caqcode q o with
    | None => None
    | Some operator =>
      match (match o with AQXor => cterminal_xor s f g | _ => cterminal_and s f g end) with
      | KFail => None
      | KDone h =>
        cquant_rec lt C cget cadd (S (nlevels s)) s c q (match o with AQNand => enot h | _ => h end) vars
      | KNodes fnode0 gnode0 =>
        if lt f g
        then caq_body (fun s0 c0 a b v => capply_quant lt C cget cadd n s0 c0 q o a b v)
                      s c q o operator f fnode0 g gnode0 vars
        else caq_body (fun s0 c0 a b v => capply_quant lt C cget cadd n s0 c0 q o a b v)
                      s c q o operator g gnode0 f fnode0 vars
      end
    end.
Proof.
  intros n s c q o f g vars. simpl. destruct (caqcode q o); [|reflexivity].
  destruct (match o with AQXor => cterminal_xor s f g | _ => cterminal_and s f g end); try reflexivity.
  destruct (lt f g); reflexivity.
Qed.

Lemma aqeval_comm : forall o x y, aqeval o x y = aqeval o y x.
Proof. intros [] [] []; reflexivity. Qed.

(** the cofactor pair chosen for an operand is [ccof2] of DD/ApplyBcdd.v *)
Lemma pair_is_ccof2 : forall (e : edge) (nd : node) (other : nat), nstored nd = nlevel nd ->
  (if Nat.leb (nlevel nd) other then ccofs (etag e) nd else Some (e, e))
  = ccof2 e nd (Nat.min (nlevel nd) other).
Proof.
  intros e nd other Es. unfold ccof2. rewrite Es.
  destruct (Nat.leb_spec (nlevel nd) other) as [Hle|Hgt].
  - rewrite Nat.min_l by exact Hle. rewrite Nat.eqb_refl. reflexivity.
  - rewrite Nat.min_r by lia. destruct (Nat.eqb_spec (nlevel nd) other); [lia | reflexivity].
Qed.

(** [cplain]: the operator without quantification *)
Lemma qc_plain : forall o s c f g phi psi, BcOK s -> QOKC s c -> DenC s f phi -> DenC s g psi ->
  qcres s (cplain lt C cget cadd s c o f g) (fun c0 => aqeval o (phi c0) (psi c0)).
Proof.
  intros o s c f g phi psi B Q Df Dg. destruct o; unfold cplain.
  - apply (qc_apply_bin lt C cget cadd Hlossy Sg CAnd s c f g phi psi B Q Df Dg).
  - apply (qc_apply_bin lt C cget cadd Hlossy Sg CXor s c f g phi psi B Q Df Dg).
  - apply (qcresult_not C cget Sg s _ _ (qc_apply_bin lt C cget cadd Hlossy Sg CAnd s c f g phi psi B Q Df Dg)).
Qed.

Theorem capply_quant_ok : forall q o k, caqcode q o = Some k ->
  forall fuel s c f g vars phi psi L,
  BcOK s -> QOKC s c -> DenC s f phi -> DenC s g psi -> ref_ok s (eref vars) -> VChainC s vars L ->
  nlevels s - Nat.min (rlevel s (eref f)) (rlevel s (eref g)) < fuel ->
  qcres s (capply_quant lt C cget cadd fuel s c q o f g vars)
        (qlevs (qf q) L (fun c0 => aqeval o (phi c0) (psi c0))).
Proof.
  intros q o k Ek. induction fuel as [|n IH]; intros s c f g vars phi psi L B Q Df Dg Ov V Hfuel; [lia|].
  pose proof (bc_wf s B) as H.
  rewrite capply_quant_S, Ek.
  (* the terminal cases, by the operator the code uses *)
  set (cop_of := match o with AQXor => CXor | _ => CAnd end).
  assert (Et : (match o with AQXor => cterminal_xor s f g | _ => cterminal_and s f g end)
               = cterminal s cop_of f g) by (unfold cop_of; destruct o; reflexivity).
  rewrite Et. pose proof (cterminal_sound s cop_of f g phi psi B Df Dg) as T.
  destruct (cterminal s cop_of f g) as [h|fn gn|]; [| |contradiction].
  - (* decided: quantify the result *)
    assert (Dh : DenC s (match o with AQNand => enot h | _ => h end)
                      (fun c0 => aqeval o (phi c0) (psi c0))).
    { unfold cop_of in T. destruct o; simpl in T; [exact T | exact T|].
      apply (denc_ext s (enot h) _ _ (denc_not s h _ T)). reflexivity. }
    pose proof (rlevel_le s H (eref (match o with AQNand => enot h | _ => h end))).
    apply (cquant_rec_ok lt C cget cadd Hlossy Sg q (S (nlevels s)) s c _ vars _ L B Q Dh Ov V). lia.
  - destruct T as [idf [idg [Erf [Ef [Erg Eg]]]]].
    assert (Core : forall a ida anode b idb bnode pa pb,
               DenC s a pa -> DenC s b pb ->
               eref a = RN ida -> find_node s ida = Some anode ->
               eref b = RN idb -> find_node s idb = Some bnode ->
               nlevels s - Nat.min (nlevel anode) (nlevel bnode) < S n ->
               qcres s (caq_body (fun s0 c0 a0 b0 v => capply_quant lt C cget cadd n s0 c0 q o a0 b0 v)
                                 s c q o k a anode b bnode vars)
                     (qlevs (qf q) L (fun c0 => aqeval o (pa c0) (pb c0)))).
    { clear Et Df Dg phi psi Hfuel Erf Ef Erg Eg idf idg fn gn f g.
      intros f idf fnd g idg gnd phi psi Df Dg Erf Ef Erg Eg Hfuel.
      pose proof (wf_level s H idf fnd Ef) as Hlf. pose proof (wf_level s H idg gnd Eg) as Hlg.
      unfold caq_body. cbv zeta.
      rewrite (wf_stored s H idf fnd Ef), (wf_stored s H idg gnd Eg).
      set (m := Nat.min (nlevel fnd) (nlevel gnd)) in *.
      set (Phi := fun c0 : nat -> nat => aqeval o (phi c0) (psi c0)).
      assert (Ip : indep phi (nlevel fnd)).
      { rewrite <- (rlevel_node s idf fnd Ef), <- Erf. apply (denc_indep s _ phi H Df). }
      assert (Iq : indep psi (nlevel gnd)).
      { rewrite <- (rlevel_node s idg gnd Eg), <- Erg. apply (denc_indep s _ psi H Dg). }
      assert (IP : indep Phi m).
      { intros x y Hx Hy Exy. unfold Phi. f_equal.
        - apply (indep_mono phi _ m Ip ltac:(lia)); auto.
        - apply (indep_mono psi _ m Iq ltac:(lia)); auto. }
      assert (XP : cext Phi) by (apply (cext_indep Phi m IP)).
      assert (Hm : m < nlevels s) by lia.
      destruct (cpop_ok s q vars L m Phi B Ov V Hm IP) as [vars' [L' [Epop [Ov' [V' [Hge HL]]]]]].
      rewrite Epop.
      apply (qcresult_ok_ext C cget Sg s _ (qlevs (qf q) L' Phi));
        [|intros c0 Hc; symmetry; apply HL; exact Hc].
      clear HL V Ov L vars Epop.
      destruct (eref vars') as [tv|vid] eqn:Erv.
      { rewrite (vchainc_T_inv s vars' tv L' V' Erv). simpl qlevs.
        apply (qc_plain o s c f g phi psi B Q Df Dg). }
      destruct Ov' as [vnd Evn]. rewrite Evn. rewrite (wf_stored s H vid vnd Evn).
      set (vlvl := nlevel vnd) in *.
      destruct (vchainc_N_inv s vars' vid vnd L' V' Erv Evn) as [vt0 [ve0 [L'' [Evch [EL' Vt]]]]].
      destruct (Nat.ltb vlvl m && is_unique q) eqn:Eu.
      { apply andb_true_iff in Eu. destruct Eu as [Hlt Eq]. apply Nat.ltb_lt in Hlt.
        assert (Hq : q = QUnique) by (destruct q; simpl in Eq; try discriminate; reflexivity). subst q.
        apply (qc_false C cget Sg s c _ B Q). intros c0 Hc. rewrite EL'. simpl qlevs.
        apply (qlev_xor_nodep vlvl (qlevs (qf QUnique) L'' Phi)); [|exact Hc].
        apply nodep_qlevs; [exact XP|]. apply (indep_nodep Phi m vlvl IP Hlt). }
      assert (Hvl : m <= vlvl).
      { destruct (is_unique q) eqn:Eq.
        - rewrite andb_true_r in Eu. apply Nat.ltb_ge in Eu. exact Eu.
        - specialize (Hge eq_refl). rewrite (rlevel_node s vid vnd Evn) in Hge. exact Hge. }
      clear Eu Hge.
      destruct (Nat.ltb_spec vlvl m) as [Hbad|_]; [lia|].
      destruct (cget c k [f; g; vars']) as [h|] eqn:Ecache.
      { destruct (proj1 (proj2 (proj2 (proj2 Q _ _ _ Ecache))) q o f g vars' Ek eq_refl)
          as [phi0 [psi0 [L0 [D0 [D0' [V0 Dh]]]]]].
        apply (qcresult_ok_here C cget Sg s c _ _ B Q).
        rewrite (vchainc_fun s _ _ _ V0 V') in Dh.
        apply (denc_ext s h _ _ Dh). apply qlevs_ext. intros c0 Hc. unfold Phi.
        rewrite (denc_unique s _ phi0 phi D0 Df c0 Hc), (denc_unique s _ psi0 psi D0' Dg c0 Hc).
        reflexivity. }
      destruct (cvt_ok s vars' vid vnd L' m B Erv Evn V' Hvl) as [vt' [Lr [Evt [Ovt [Vr [Hnin HLr]]]]]].
      fold vlvl in Evt, HLr. rewrite Evt.
      rewrite (pair_is_ccof2 f fnd (nlevel gnd) (wf_stored s H idf fnd Ef)).
      rewrite (pair_is_ccof2 g gnd (nlevel fnd) (wf_stored s H idg gnd Eg)).
      rewrite (Nat.min_comm (nlevel gnd) (nlevel fnd)). fold m.
      destruct (ccof2_ok s f idf fnd phi m B Df Erf Ef ltac:(lia)) as [ft [fe [Ecf [Dft [Dfe [Lft Lfe]]]]]].
      destruct (ccof2_ok s g idg gnd psi m B Dg Erg Eg ltac:(lia)) as [gt' [ge [Ecg [Dgt [Dge [Lgt Lge]]]]]].
      rewrite Ecf, Ecg.
      destruct (IH s c ft gt' vt' _ _ Lr B Q Dft Dgt Ovt Vr ltac:(lia))
        as [s1 [c1 [t [E1 [B1 [X1 [Q1 D1]]]]]]].
      rewrite E1.
      assert (Dfe1 : DenC s1 fe (cofn phi m 1)) by (apply (denc_extends s s1 _ _ B X1 Dfe)).
      assert (Dge1 : DenC s1 ge (cofn psi m 1)) by (apply (denc_extends s s1 _ _ B X1 Dge)).
      assert (Hf1 : nlevels s1 - Nat.min (rlevel s1 (eref fe)) (rlevel s1 (eref ge)) < n).
      { rewrite (ext_nlevels _ _ X1), (ext_rlevel _ _ _ X1 (proj1 Dfe)), (ext_rlevel _ _ _ X1 (proj1 Dge)). lia. }
      destruct (IH s1 c1 fe ge vt' _ _ Lr B1 Q1 Dfe1 Dge1 (ext_ref_ok _ _ _ X1 Ovt)
                   (vchainc_extends _ _ _ _ X1 Vr) Hf1)
        as [s2 [c2 [e [E2 [B2 [X2 [Q2 D2]]]]]]].
      rewrite E2.
      change (fun c0 : nat -> nat => aqeval o (cofn phi m 0 c0) (cofn psi m 0 c0))
        with (cofn Phi m 0) in D1.
      change (fun c0 : nat -> nat => aqeval o (cofn phi m 1 c0) (cofn psi m 1 c0))
        with (cofn Phi m 1) in D2.
      assert (D1' : DenC s2 t (qlevs (qf q) Lr (cofn Phi m 0))) by (apply (denc_extends s1 s2 _ _ B1 X2 D1)).
      assert (X02 : extends s s2) by (eapply extends_trans; eauto).
      destruct (Nat.eqb_spec m vlvl) as [Eqv|Hnev].
      + destruct (qc_combine lt C cget cadd Hlossy Sg q s2 c2 t e _ _ B2 Q2 D1' D2)
          as [s3 [c3 [res [E3 [B3 [X3 [Q3 D3]]]]]]].
        rewrite E3.
        assert (X03 : extends s s3) by (eapply extends_trans; eauto).
        assert (Dres : DenC s3 res (qlevs (qf q) L' Phi)).
        { apply (denc_ext s3 res _ _ D3). intros c0 Hc. rewrite HLr. simpl qlevs. unfold qlev.
          rewrite !cofn_qlevs by (auto; lia). reflexivity. }
        exists s3, (cadd c3 k [f; g; vars'] res), res.
        split; [reflexivity|]. split; [exact B3|]. split; [exact X03|]. split; [|exact Dres].
        pose proof (caqcode_range q o k Ek) as Hk.
        apply (qcacheokc_add C cget cadd Hlossy Sg s3 c3 _ _ _ Q3); [lia|].
        apply (cqentry_aq Sg s3 q o k f g vars' res phi psi L' Ek);
          [apply (denc_extends s s3 _ _ B X03 Df) | apply (denc_extends s s3 _ _ B X03 Dg)
           | apply (vchainc_extends _ _ _ _ X03 V') | exact Dres].
      + destruct (cmk_node s2 m t e) as [s3 h] eqn:Em.
        assert (Hl2 : m < nlevels s2) by (rewrite (ext_nlevels _ _ X02); exact Hm).
        assert (II : forall i, i < 2 -> indep (qlevs (qf q) Lr (cofn Phi m i)) (S m)).
        { intros i Hi. apply indep_qlevs. apply (indep_cofn Phi m m i IP (le_n _) Hi). }
        destruct (cnode_step s2 m t e _ _ s3 h B2 Hl2 D1' D2 (II 0 ltac:(lia)) (II 1 ltac:(lia)) Em)
          as [B3 [X3 Dh]].
        assert (X03 : extends s s3) by (eapply extends_trans; eauto).
        assert (Dres : DenC s3 h (qlevs (qf q) L' Phi)).
        { apply (denc_ext s3 h _ _ Dh). intros c0 Hc. rewrite HLr. apply qlevs_shannon; assumption. }
        exists s3, (cadd c2 k [f; g; vars'] h), h.
        split; [reflexivity|]. split; [exact B3|]. split; [exact X03|]. split; [|exact Dres].
        pose proof (caqcode_range q o k Ek) as Hk.
        apply (qcacheokc_add C cget cadd Hlossy Sg s3 c2 _ _ _
                 (qcacheokc_extends C cget Sg s2 s3 c2 B2 X3 Q2)); [lia|].
        apply (cqentry_aq Sg s3 q o k f g vars' h phi psi L' Ek);
          [apply (denc_extends s s3 _ _ B X03 Df) | apply (denc_extends s s3 _ _ B X03 Dg)
           | apply (vchainc_extends _ _ _ _ X03 V') | exact Dres]. }
    rewrite Erf, Erg, (rlevel_node s idf fn Ef), (rlevel_node s idg gn Eg) in Hfuel.
    destruct (lt f g).
    + apply (Core f idf fn g idg gn phi psi Df Dg Erf Ef Erg Eg Hfuel).
    + apply (qcresult_ok_ext C cget Sg s _ (qlevs (qf q) L (fun c0 => aqeval o (psi c0) (phi c0)))).
      * apply (Core g idg gn f idf fn psi phi Dg Df Erg Eg Erf Ef). rewrite Nat.min_comm. exact Hfuel.
      * apply qlevs_ext. intros c0 _. apply aqeval_comm.
Qed.

(** ** The dispatch tables *)

Lemma qc_aq : forall q o k s c f g vars phi psi L, caqcode q o = Some k ->
  BcOK s -> QOKC s c -> DenC s f phi -> DenC s g psi -> ref_ok s (eref vars) -> VChainC s vars L ->
  qcres s (aq lt C cget cadd s c q o f g vars) (qlevs (qf q) L (fun c0 => aqeval o (phi c0) (psi c0))).
Proof.
  intros q o k s c f g vars phi psi L Ek B Q Df Dg Ov V. unfold aq.
  apply (capply_quant_ok q o k Ek (S (nlevels s)) s c f g vars phi psi L B Q Df Dg Ov V). lia.
Qed.

(** the dual quantifier at the level-indexed layer *)
Lemma qlevs_dual : forall q L phi, q <> QUnique -> forall c, bchoice c ->
  negb (qlevs (qf (qdual q)) L phi c) = qlevs (qf q) L (fun c0 => negb (phi c0)) c.
Proof.
  intros q L phi Hq. induction L as [|l r IH]; intros c Hc; [reflexivity|].
  simpl qlevs. unfold qlev, cofn. rewrite <- !IH by (apply bchoice_upd; auto).
  destruct q; [| |contradiction]; unfold qf; simpl;
    destruct (qlevs _ r phi (cupd c l 0)), (qlevs _ r phi (cupd c l 1)); reflexivity.
Qed.

Theorem capply_quant_dispatch_ok : forall q op s c f g vars phi psi L, q <> QUnique ->
  BcOK s -> QOKC s c -> DenC s f phi -> DenC s g psi -> ref_ok s (eref vars) -> VChainC s vars L ->
  qcres s (capply_quant_dispatch lt C cget cadd s c q (qdual q) op f g vars)
        (qlevs (qf q) L (fun c0 => eval_bop op (phi c0) (psi c0))).
Proof.
  intros q op s c f g vars phi psi L Hq B Q Df Dg Ov V.
  pose proof (denc_not s f phi Df) as Dnf. pose proof (denc_not s g psi Dg) as Dng.
  assert (Hqd : qdual q <> QUnique) by (destruct q; simpl; congruence).
  assert (KA : exists k, caqcode q AQAnd = Some k) by (destruct q; simpl; eauto; contradiction).
  assert (KX : exists k, caqcode q AQXor = Some k) by (destruct q; simpl; eauto; contradiction).
  assert (KAd : exists k, caqcode (qdual q) AQAnd = Some k) by (destruct q; simpl; eauto; contradiction).
  assert (KXd : exists k, caqcode (qdual q) AQXor = Some k) by (destruct q; simpl; eauto; contradiction).
  destruct KA as [ka Eka]. destruct KX as [kx Ekx]. destruct KAd as [kad Ekad]. destruct KXd as [kxd Ekxd].
  (* the rows with a complemented result: not (QN ...) = Q (not ...) *)
  assert (Neg : forall res Psi Phi,
             qcres s res (qlevs (qf (qdual q)) L Psi) ->
             (forall c0, bchoice c0 -> negb (Psi c0) = Phi c0) ->
             qcres s (onot C res) (qlevs (qf q) L Phi)).
  { intros res Psi Phi R E.
    apply (qcresult_ok_ext C cget Sg s _ _ _ (qcresult_not C cget Sg s _ _ R)).
    intros c0 Hc. rewrite (qlevs_dual q L Psi Hq c0 Hc). apply qlevs_ext; assumption. }
  Local Ltac pw phi psi := let c0 := fresh "c0" in intros c0 _; cbv beta; simpl;
                           destruct (phi c0); destruct (psi c0); reflexivity.
  destruct op; unfold capply_quant_dispatch.
  - apply (qcresult_ok_ext C cget Sg s _ _ _ (qc_aq q AQAnd ka s c f g vars _ _ L Eka B Q Df Dg Ov V)).
    apply qlevs_ext. pw phi psi.
  - apply (Neg _ _ _ (qc_aq (qdual q) AQAnd kad s c _ _ vars _ _ L Ekad B Q Dnf Dng Ov V)). pw phi psi.
  - apply (qcresult_ok_ext C cget Sg s _ _ _ (qc_aq q AQXor kx s c f g vars _ _ L Ekx B Q Df Dg Ov V)).
    apply qlevs_ext. pw phi psi.
  - apply (Neg _ _ _ (qc_aq (qdual q) AQXor kxd s c _ _ vars _ _ L Ekxd B Q Df Dg Ov V)). pw phi psi.
  - apply (Neg _ _ _ (qc_aq (qdual q) AQAnd kad s c _ _ vars _ _ L Ekad B Q Df Dg Ov V)). pw phi psi.
  - apply (qcresult_ok_ext C cget Sg s _ _ _ (qc_aq q AQAnd ka s c _ _ vars _ _ L Eka B Q Dnf Dng Ov V)).
    apply qlevs_ext. pw phi psi.
  - apply (Neg _ _ _ (qc_aq (qdual q) AQAnd kad s c _ _ vars _ _ L Ekad B Q Df Dng Ov V)). pw phi psi.
  - apply (qcresult_ok_ext C cget Sg s _ _ _ (qc_aq q AQAnd ka s c _ _ vars _ _ L Eka B Q Dnf Dg Ov V)).
    apply qlevs_ext. pw phi psi.
Qed.

Theorem capply_quant_unique_dispatch_ok : forall op s c f g vars phi psi L,
  BcOK s -> QOKC s c -> DenC s f phi -> DenC s g psi -> ref_ok s (eref vars) -> VChainC s vars L ->
  qcres s (capply_quant_unique_dispatch lt C cget cadd s c op f g vars)
        (qlevs (qf QUnique) L (fun c0 => eval_bop op (phi c0) (psi c0))).
Proof.
  intros op s c f g vars phi psi L B Q Df Dg Ov V.
  pose proof (denc_not s f phi Df) as Dnf. pose proof (denc_not s g psi Dg) as Dng.
  Local Ltac pw2 phi psi := apply qlevs_ext; let c0 := fresh "c0" in intros c0 _; cbv beta; simpl;
                            destruct (phi c0); destruct (psi c0); reflexivity.
  destruct op; unfold capply_quant_unique_dispatch.
  - apply (qcresult_ok_ext C cget Sg s _ _ _ (qc_aq QUnique AQAnd _ s c f g vars _ _ L eq_refl B Q Df Dg Ov V)). pw2 phi psi.
  - apply (qcresult_ok_ext C cget Sg s _ _ _ (qc_aq QUnique AQNand _ s c _ _ vars _ _ L eq_refl B Q Dnf Dng Ov V)). pw2 phi psi.
  - apply (qcresult_ok_ext C cget Sg s _ _ _ (qc_aq QUnique AQXor _ s c f g vars _ _ L eq_refl B Q Df Dg Ov V)). pw2 phi psi.
  - apply (qcresult_ok_ext C cget Sg s _ _ _ (qc_aq QUnique AQXor _ s c _ g vars _ _ L eq_refl B Q Dnf Dg Ov V)). pw2 phi psi.
  - apply (qcresult_ok_ext C cget Sg s _ _ _ (qc_aq QUnique AQNand _ s c f g vars _ _ L eq_refl B Q Df Dg Ov V)). pw2 phi psi.
  - apply (qcresult_ok_ext C cget Sg s _ _ _ (qc_aq QUnique AQAnd _ s c _ _ vars _ _ L eq_refl B Q Dnf Dng Ov V)). pw2 phi psi.
  - apply (qcresult_ok_ext C cget Sg s _ _ _ (qc_aq QUnique AQNand _ s c f _ vars _ _ L eq_refl B Q Df Dng Ov V)). pw2 phi psi.
  - apply (qcresult_ok_ext C cget Sg s _ _ _ (qc_aq QUnique AQAnd _ s c _ g vars _ _ L eq_refl B Q Dnf Dg Ov V)). pw2 phi psi.
Qed.

(** [apply_forall_edge] / [apply_exists_edge] / [apply_unique_edge] *)
Theorem capply_quant_edge_ok : forall q op s c f g vars phi psi L,
  BcOK s -> QOKC s c -> DenC s f phi -> DenC s g psi -> ref_ok s (eref vars) -> VChainC s vars L ->
  qcres s (capply_quant_edge lt C cget cadd s c q op f g vars)
        (qlevs (qf q) L (fun c0 => eval_bop op (phi c0) (psi c0))).
Proof.
  intros q op s c f g vars phi psi L B Q Df Dg Ov V. destruct q; unfold capply_quant_edge.
  - apply (capply_quant_dispatch_ok QForall op s c f g vars phi psi L ltac:(discriminate) B Q Df Dg Ov V).
  - apply (capply_quant_dispatch_ok QExists op s c f g vars phi psi L ltac:(discriminate) B Q Df Dg Ov V).
  - apply (capply_quant_unique_dispatch_ok op s c f g vars phi psi L B Q Df Dg Ov V).
Qed.

End AQ.
