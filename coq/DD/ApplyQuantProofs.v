(** * Soundness of the fused [apply_quant] of DD/Quant.v

    [apply_quant_ok]: for all 8 operators and the 3 quantifiers the result
    denotes the quantification ([qlevs]) of the operator applied pointwise to
    the two operands - i.e. the plain operator followed by the respective
    quantification - for every BddOK table, [QCacheOK] cache, variable set
    ([VChain]) and sufficient fuel. *)

From Coq Require Import List NArith PArith Bool Arith Lia FMapPositive.
From OxiVerif Require Import DD.Table DD.TableProofs DD.Canon DD.Sem DD.Build DD.BuildProofs
  DD.Apply DD.ApplyProofs DD.Quant DD.QuantLemmas DD.QuantProofs.
Import ListNotations.

Section AQ.
Variable gt : ref -> ref -> bool.
Variable C : Type.
Variable cget : C -> N -> list ref -> option ref.
Variable cadd : C -> N -> list ref -> ref -> C.
Hypothesis Hlossy : lossy cget cadd.
Variable Sg : N -> option (list (nat * ref)).

Notation QOK := (QCacheOK cget Sg).
Notation qres := (qresult_ok cget Sg).

(** the part of [apply_quant] after the terminal cases, [rec] = the recursive call *)
Definition aq_body (rec : snap -> C -> ref -> ref -> ref -> option (snap * C * ref))
           (s : snap) (c : C) (q : quantifier) (op : bop) (f g vars : ref) : option (snap * C * ref) :=
  match inner s f, inner s g with
  | Some fnode, Some gnode =>
    let flevel := nstored fnode in
    let glevel := nstored gnode in
    let min_level := Nat.min flevel glevel in
    match (if is_unique q then Some vars else set_pop (S (nlevels s)) s vars min_level) with
    | None => None
    | Some (RT _) => apply_bin gt C cget cadd (S (nlevels s)) s c op f g
    | Some (RN vid as vars') =>
      match find_node s vid with
      | None => None
      | Some vnode =>
        let vlevel := nstored vnode in
        if Nat.ltb vlevel min_level && is_unique q then
          match term_of s false with Some t => Some (s, c, RT t) | None => None end
        else if Nat.ltb vlevel min_level then
          apply_bin gt C cget cadd (S (nlevels s)) s c op f g
        else
          match cget c (aqcode q op) [f; g; vars'] with
          | Some h => Some (s, c, h)
          | None =>
            match (if Nat.eqb vlevel min_level
                   then match nchildren vnode with [vt; _] => Some (eref vt) | _ => None end
                   else Some vars'),
                  (if Nat.leb flevel glevel
                   then match nchildren fnode with [t; e] => Some (eref t, eref e) | _ => None end
                   else Some (f, f)),
                  (if Nat.leb glevel flevel
                   then match nchildren gnode with [t; e] => Some (eref t, eref e) | _ => None end
                   else Some (g, g)) with
            | Some vt, Some (ft, fe), Some (gt', ge) =>
              match rec s c ft gt' vt with
              | None => None
              | Some (s1, c1, t) =>
                match rec s1 c1 fe ge vt with
                | None => None
                | Some (s2, c2, e) =>
                  if Nat.eqb min_level vlevel then
                    match apply_bin gt C cget cadd (S (nlevels s2)) s2 c2 (qop q) t e with
                    | None => None
                    | Some (s3, c3, res) =>
                      Some (s3, cadd c3 (aqcode q op) [f; g; vars'] res, res)
                    end
                  else
                    let '(s3, h) := mk_node s2 min_level [E t; E e] in
                    Some (s3, cadd c2 (aqcode q op) [f; g; vars'] (eref h), eref h)
                end
              end
            | _, _, _ => None
            end
          end
      end
    end
  | _, _ => None
  end.

Lemma apply_quant_S : forall n s c q op f g vars,
  apply_quant gt C cget cadd (S n) s c q op f g vars =
    match terminal_bin gt s op f g with
    | TFail => None
    | TNot h =>
      match apply_not C cget cadd (S (nlevels s)) s c h with
      | None => None
      | Some (s1, c1, inverse) => quant_rec gt C cget cadd (S (nlevels s1)) s1 c1 q inverse vars
      end
    | TDone h => quant_rec gt C cget cadd (S (nlevels s)) s c q h vars
    | TBin _ f' g' =>
      aq_body (fun s0 c0 a b v => apply_quant gt C cget cadd n s0 c0 q op a b v) s c q op f' g' vars
    end.
Proof. reflexivity. Qed.

Lemma qres_trans : forall s s1 res Phi, extends s s1 -> qres s1 res Phi -> qres s res Phi.
Proof.
  intros s s1 res Phi X [s' [c' [r [E [B' [X' [Q' D']]]]]]].
  exists s', c', r. split; [exact E|]. split; [exact B'|].
  split; [eapply extends_trans; eauto|]. split; assumption.
Qed.

(** the cofactor pair chosen for an operand is [cof2] of DD/Apply.v *)
Lemma pair_is_cof2 : forall (r : ref) (nd : node) (other : nat), nstored nd = nlevel nd ->
  (if Nat.leb (nlevel nd) other
   then match nchildren nd with [t; e] => Some (eref t, eref e) | _ => None end
   else Some (r, r)) = cof2 r nd (Nat.min (nlevel nd) other).
Proof.
  intros r nd other Es. unfold cof2. rewrite Es.
  destruct (Nat.leb_spec (nlevel nd) other) as [Hle|Hgt].
  - rewrite Nat.min_l by exact Hle. rewrite Nat.eqb_refl. reflexivity.
  - rewrite Nat.min_r by lia. destruct (Nat.eqb_spec (nlevel nd) other); [lia | reflexivity].
Qed.

Theorem apply_quant_ok : forall q op fuel s c f g vars phi psi L,
  BddOK s -> QOK s c -> Den s f phi -> Den s g psi -> ref_ok s vars -> VChain s vars L ->
  nlevels s - Nat.min (rlevel s f) (rlevel s g) < fuel ->
  qres s (apply_quant gt C cget cadd fuel s c q op f g vars)
       (qlevs (qf q) L (fun c0 => eval_bop op (phi c0) (psi c0))).
Proof.
  intros q op. induction fuel as [|n IH]; intros s c f g vars phi psi L B Q Df Dg Ov V Hfuel; [lia|].
  pose proof (bo_wf s B) as H.
  rewrite apply_quant_S.
  pose proof (terminal_bin_sound gt s op f g phi psi B Df Dg) as T.
  destruct (terminal_bin gt s op f g) as [h|h|o a b|] eqn:Etb; [| | |contradiction].
  - (* the operator is decided: quantify the result *)
    pose proof (rlevel_le s H h).
    apply (quant_rec_ok gt C cget cadd Hlossy Sg q (S (nlevels s)) s c h vars _ L B Q T Ov V). lia.
  - (* the operator reduces to a negation *)
    destruct T as [_ [rho [Dr Hrho]]].
    destruct (q_apply_not C cget cadd Hlossy Sg s c h rho B Q Dr) as [s1 [c1 [inv [E1 [B1 [X1 [Q1 D1]]]]]]].
    rewrite E1. apply (qres_trans s s1 _ _ X1).
    apply (qresult_ok_ext C cget Sg s1 _ (qlevs (qf q) L (fun c0 => negb (rho c0)))).
    + pose proof (rlevel_le s1 (bo_wf s1 B1) inv).
      apply (quant_rec_ok gt C cget cadd Hlossy Sg q (S (nlevels s1)) s1 c1 inv vars _ L B1 Q1 D1
               (ext_ref_ok _ _ _ X1 Ov) (vchain_extends _ _ _ _ X1 V)). lia.
    + apply qlevs_ext. intros c0 Hc. symmetry. apply Hrho. exact Hc.
  - (* both operands inner *)
    destruct T as [-> [[idf ->] [[idg ->] Hab]]].
    assert (Core : forall ida idb pa pb, Den s (RN ida) pa -> Den s (RN idb) pb ->
               nlevels s - Nat.min (rlevel s (RN ida)) (rlevel s (RN idb)) < S n ->
               qres s (aq_body (fun s0 c0 a0 b0 v => apply_quant gt C cget cadd n s0 c0 q op a0 b0 v)
                               s c q op (RN ida) (RN idb) vars)
                    (qlevs (qf q) L (fun c0 => eval_bop op (pa c0) (pb c0)))).
    { clear Hab Etb Df Dg phi psi Hfuel idf idg a b.
      intros idf idg phi psi Df Dg Hfuel.
      destruct (proj1 Df) as [fnd Ef]. destruct (proj1 Dg) as [gnd Eg].
      rewrite (rlevel_node s idf fnd Ef), (rlevel_node s idg gnd Eg) in Hfuel.
      pose proof (wf_level s H idf fnd Ef) as Hlf. pose proof (wf_level s H idg gnd Eg) as Hlg.
      unfold aq_body. simpl inner. rewrite Ef, Eg. cbv zeta.
      rewrite (wf_stored s H idf fnd Ef), (wf_stored s H idg gnd Eg).
      set (m := Nat.min (nlevel fnd) (nlevel gnd)) in *.
      set (Phi := fun c0 : nat -> nat => eval_bop op (phi c0) (psi c0)).
      assert (Ip : indep phi (nlevel fnd))
        by (rewrite <- (rlevel_node s idf fnd Ef); apply (den_indep s _ phi H Df)).
      assert (Iq : indep psi (nlevel gnd))
        by (rewrite <- (rlevel_node s idg gnd Eg); apply (den_indep s _ psi H Dg)).
      assert (IP : indep Phi m).
      { intros x y Hx Hy Exy. unfold Phi. f_equal.
        - apply (indep_mono phi _ m Ip ltac:(lia)); auto.
        - apply (indep_mono psi _ m Iq ltac:(lia)); auto. }
      assert (XP : cext Phi) by (apply (cext_indep Phi m IP)).
      assert (Hm : m < nlevels s) by lia.
      (* the (popped) variable set *)
      assert (Hpop : exists vars' L',
                 (if is_unique q then Some vars else set_pop (S (nlevels s)) s vars m) = Some vars' /\
                 ref_ok s vars' /\ VChain s vars' L' /\
                 (is_unique q = false -> m <= rlevel s vars') /\
                 forall c0, bchoice c0 -> qlevs (qf q) L Phi c0 = qlevs (qf q) L' Phi c0).
      { destruct (is_unique q) eqn:Eq.
        - exists vars, L. split; [reflexivity|]. split; [exact Ov|]. split; [exact V|].
          split; [discriminate | reflexivity].
        - pose proof (rlevel_le s H vars).
          destruct (set_pop_ok s B (S (nlevels s)) vars L m Ov V ltac:(lia) ltac:(lia))
            as [vars' [L' [E [O' [V' [Hu [_ [pre [EL Hpre]]]]]]]]].
          exists vars', L'. split; [exact E|]. split; [exact O'|]. split; [exact V'|].
          split; [intros _; exact Hu|]. intros c0 Hc. rewrite EL, qlevs_app.
          apply qlevs_nodep_idem; [apply qf_idem; exact Eq | apply cext_qlevs; exact XP | | exact Hc].
          intros l Hl. apply nodep_qlevs; [exact XP|]. apply (indep_nodep Phi m l IP). apply Hpre. exact Hl. }
      destruct Hpop as [vars' [L' [Epop [Ov' [V' [Hge HL]]]]]]. rewrite Epop.
      apply (qresult_ok_ext C cget Sg s _ (qlevs (qf q) L' Phi));
        [|intros c0 Hc; symmetry; apply HL; exact Hc].
      clear HL V Ov L vars Epop.
      destruct vars' as [tv|vid].
      { rewrite (vchain_T_inv s tv L' V'). simpl qlevs.
        apply (q_apply_bin gt C cget cadd Hlossy Sg op s c _ _ phi psi B Q Df Dg). }
      destruct Ov' as [vnd Evn]. rewrite Evn. rewrite (wf_stored s H vid vnd Evn).
      destruct (vchain_N_inv s vid vnd L' V' Evn) as [vt [ve [L'' [Evch [EL' Vt]]]]].
      pose proof (vchain_asc s B _ _ V') as Asc. rewrite (rlevel_node s vid vnd Evn), EL' in Asc.
      destruct Asc as [_ Asc]. set (vlvl := nlevel vnd) in *.
      destruct (Nat.ltb vlvl m && is_unique q) eqn:Eu.
      { apply andb_true_iff in Eu. destruct Eu as [Hlt Eq]. apply Nat.ltb_lt in Hlt.
        assert (Hq : q = QUnique) by (destruct q; simpl in Eq; try discriminate; reflexivity). subst q.
        apply (q_false C cget Sg s c _ B Q). intros c0 Hc. rewrite EL'. simpl qlevs.
        apply (qlev_xor_nodep vlvl (qlevs (qf QUnique) L'' Phi)); [|exact Hc].
        apply nodep_qlevs; [exact XP|]. apply (indep_nodep Phi m vlvl IP Hlt). }
      assert (Hvl : m <= vlvl).
      { destruct (is_unique q) eqn:Eq.
        - rewrite andb_true_r in Eu. apply Nat.ltb_ge in Eu. exact Eu.
        - specialize (Hge eq_refl). rewrite (rlevel_node s vid vnd Evn) in Hge. exact Hge. }
      clear Eu Hge.
      destruct (Nat.ltb_spec vlvl m) as [Hbad|_]; [lia|].
      destruct (cget c (aqcode q op) [RN idf; RN idg; RN vid]) as [h|] eqn:Ecache.
      { destruct (proj1 (proj2 (proj2 (proj2 Q _ _ _ Ecache))) q op (RN idf) (RN idg) (RN vid) eq_refl eq_refl)
          as [phi0 [psi0 [L0 [D0 [D0' [V0 Dh]]]]]].
        apply (qresult_ok_here C cget Sg s c _ _ B Q).
        rewrite (vchain_fun s _ _ _ V0 V') in Dh.
        apply (den_ext s h _ _ Dh). apply qlevs_ext. intros c0 Hc. unfold Phi.
        rewrite (den_unique s _ phi0 phi D0 Df c0 Hc), (den_unique s _ psi0 psi D0' Dg c0 Hc).
        reflexivity. }
      (* the variable set for the recursive calls *)
      assert (Hvt : exists vt' Lr,
                 (if Nat.eqb vlvl m
                  then match nchildren vnd with [vt0; _] => Some (eref vt0) | _ => None end
                  else Some (RN vid)) = Some vt' /\ ref_ok s vt' /\ VChain s vt' Lr /\
                 ~ In m Lr /\
                 (if Nat.eqb m vlvl then L' = m :: Lr else L' = Lr)).
      { rewrite (Nat.eqb_sym m vlvl). destruct (Nat.eqb_spec vlvl m) as [Eq|Hne].
        - rewrite Evch. exists (eref vt), L''. split; [reflexivity|].
          assert (Hvt0 : nth_error (nchildren vnd) 0 = Some vt) by (rewrite Evch; reflexivity).
          split; [apply (child_nth s H vid vnd 0 vt Evn Hvt0)|]. split; [exact Vt|].
          split; [apply (asc_notin L'' (S vlvl) m Asc); lia | rewrite <- Eq; exact EL'].
        - exists (RN vid), L'. split; [reflexivity|]. split; [exists vnd; exact Evn|]. split; [exact V'|].
          split; [|reflexivity]. rewrite EL'. intros [E|Hin]; [lia|].
          pose proof (asc_ge L'' (S vlvl) m Asc Hin). lia. }
      destruct Hvt as [vt' [Lr [Evt [Ovt [Vr [Hnin HLr]]]]]]. rewrite Evt.
      (* the cofactor pairs *)
      rewrite (pair_is_cof2 (RN idf) fnd (nlevel gnd) (wf_stored s H idf fnd Ef)).
      rewrite (pair_is_cof2 (RN idg) gnd (nlevel fnd) (wf_stored s H idg gnd Eg)).
      rewrite (Nat.min_comm (nlevel gnd) (nlevel fnd)). fold m.
      destruct (cof2_ok s idf fnd phi m B Df Ef ltac:(lia)) as [ft [fe [Ecf [Dft [Dfe [Lft Lfe]]]]]].
      destruct (cof2_ok s idg gnd psi m B Dg Eg ltac:(lia)) as [gt' [ge [Ecg [Dgt [Dge [Lgt Lge]]]]]].
      rewrite Ecf, Ecg.
      destruct (IH s c ft gt' vt' _ _ Lr B Q Dft Dgt Ovt Vr ltac:(lia))
        as [s1 [c1 [t [E1 [B1 [X1 [Q1 D1]]]]]]].
      rewrite E1.
      assert (Dfe1 : Den s1 fe (cofn phi m 1)) by (apply (den_extends s s1 _ _ B X1 Dfe)).
      assert (Dge1 : Den s1 ge (cofn psi m 1)) by (apply (den_extends s s1 _ _ B X1 Dge)).
      assert (Hf1 : nlevels s1 - Nat.min (rlevel s1 fe) (rlevel s1 ge) < n).
      { rewrite (ext_nlevels _ _ X1), (ext_rlevel _ _ _ X1 (proj1 Dfe)), (ext_rlevel _ _ _ X1 (proj1 Dge)). lia. }
      destruct (IH s1 c1 fe ge vt' _ _ Lr B1 Q1 Dfe1 Dge1 (ext_ref_ok _ _ _ X1 Ovt)
                   (vchain_extends _ _ _ _ X1 Vr) Hf1)
        as [s2 [c2 [e [E2 [B2 [X2 [Q2 D2]]]]]]].
      rewrite E2.
      change (fun c0 : nat -> nat => eval_bop op (cofn phi m 0 c0) (cofn psi m 0 c0))
        with (cofn Phi m 0) in D1.
      change (fun c0 : nat -> nat => eval_bop op (cofn phi m 1 c0) (cofn psi m 1 c0))
        with (cofn Phi m 1) in D2.
      assert (D1' : Den s2 t (qlevs (qf q) Lr (cofn Phi m 0))) by (apply (den_extends s1 s2 _ _ B1 X2 D1)).
      assert (X02 : extends s s2) by (eapply extends_trans; eauto).
      destruct (Nat.eqb_spec m vlvl) as [Eqv|Hnev].
      + destruct (q_apply_bin gt C cget cadd Hlossy Sg (qop q) s2 c2 t e _ _ B2 Q2 D1' D2)
          as [s3 [c3 [res [E3 [B3 [X3 [Q3 D3]]]]]]].
        rewrite E3.
        assert (X03 : extends s s3) by (eapply extends_trans; eauto).
        assert (Dres : Den s3 res (qlevs (qf q) L' Phi)).
        { apply (den_ext s3 res _ _ D3). intros c0 Hc. rewrite HLr. simpl qlevs. unfold qlev.
          rewrite !cofn_qlevs by (auto; lia). reflexivity. }
        exists s3, (cadd c3 (aqcode q op) [RN idf; RN idg; RN vid] res), res.
        split; [reflexivity|]. split; [exact B3|]. split; [exact X03|]. split; [|exact Dres].
        apply (qcacheok_add C cget cadd Hlossy Sg s3 c3 _ _ _ Q3 (aqcode_gt q op)).
        apply (qentry_aq Sg s3 q op (RN idf) (RN idg) (RN vid) res phi psi L');
          [apply (den_extends s s3 _ _ B X03 Df) | apply (den_extends s s3 _ _ B X03 Dg)
           | apply (vchain_extends _ _ _ _ X03 V') | exact Dres].
      + destruct (mk_node s2 m [Build.E t; Build.E e]) as [s3 h] eqn:Em.
        assert (Hl2 : m < nlevels s2) by (rewrite (ext_nlevels _ _ X02); exact Hm).
        assert (II : forall i, i < 2 -> indep (qlevs (qf q) Lr (cofn Phi m i)) (S m)).
        { intros i Hi. apply indep_qlevs. apply (indep_cofn Phi m m i IP (le_n _) Hi). }
        destruct (node_step s2 m t e _ _ s3 h B2 Hl2 D1' D2 (II 0 ltac:(lia)) (II 1 ltac:(lia)) Em)
          as [B3 [X3 Dh]].
        assert (X03 : extends s s3) by (eapply extends_trans; eauto).
        assert (Dres : Den s3 (eref h) (qlevs (qf q) L' Phi)).
        { apply (den_ext s3 (eref h) _ _ Dh). intros c0 Hc. rewrite HLr.
          apply qlevs_shannon; assumption. }
        exists s3, (cadd c2 (aqcode q op) [RN idf; RN idg; RN vid] (eref h)), (eref h).
        split; [reflexivity|]. split; [exact B3|]. split; [exact X03|]. split; [|exact Dres].
        apply (qcacheok_add C cget cadd Hlossy Sg s3 c2 _ _ _
                 (qcacheok_extends C cget Sg s2 s3 c2 B2 X3 Q2) (aqcode_gt q op)).
        apply (qentry_aq Sg s3 q op (RN idf) (RN idg) (RN vid) (eref h) phi psi L');
          [apply (den_extends s s3 _ _ B X03 Df) | apply (den_extends s s3 _ _ B X03 Dg)
           | apply (vchain_extends _ _ _ _ X03 V') | exact Dres]. }
    destruct Hab as [[-> ->]|[-> [-> Hcomm]]].
    + apply (Core idf idg phi psi Df Dg Hfuel).
    + apply (qresult_ok_ext C cget Sg s _ (qlevs (qf q) L (fun c0 => eval_bop op (psi c0) (phi c0)))).
      * apply (Core idg idf psi phi Dg Df). rewrite Nat.min_comm. exact Hfuel.
      * apply qlevs_ext. intros c0 _. apply Hcomm.
Qed.

End AQ.
