(** * The recursive apply algorithms of the TDD kind on hash-consed tables

    Executable definitions only (proofs: DD/ApplyTdd*.v).  Mirrors
    oxidd-rules-tdd/src/lib.rs ([TDDOp], [terminal_bin], [reduce],
    [collect_children]) and oxidd-rules-tdd/src/apply_rec.rs ([apply_not],
    [apply_bin], [apply_ite_rec] with its rewrites, [var_edge], [f_edge] /
    [u_edge] / [t_edge], [eval_edge] with its bit-packed choices vector) and the
    default [TVLFunction::cofactors_edge] of oxidd-core/src/function.rs.

    DD/Tdd.v (property C11, first stage) models the same functions on TREES;
    here the state is the node table of a manager: a [snap] (DD/Table.v) with
    [s_kind = KTdd], ternary nodes (children in the order true, unknown,
    false), the three terminals with value codes 0 = False, 1 = Unknown,
    2 = True.  Edges carry no tag, so the algorithms work on references
    ([ref]); nodes are created by [mk_node] (DD/Build.v: the TDD [reduce] is the
    k-ary "all children equal" rule followed by [LevelView::get_or_insert]).
    The three-valued logic is NOT redefined: [tri], [k_not], [table], [ite3],
    [binop] are those of DD/Tdd.v.

    Recursion is on explicit fuel, [None] = fuel exhausted or one of the code's
    [unwrap]s would panic (missing terminal, dangling reference, both operands
    terminal in the expansion).  [S (nlevels s)] is always enough fuel (proved).
    The apply cache is abstract as in DD/Apply.v: any type [C] with
    [cget]/[cadd], keyed by (operator code, operand list), consulted and
    extended exactly where the code calls [apply_cache().get] /
    [apply_cache().add].  The edge order [f > g] used to normalise commutative
    operand pairs is the parameter [gt]. *)

From Coq Require Import List NArith PArith Bool Arith FMapPositive.
From OxiVerif Require Import DD.Table DD.Build DD.Apply DD.Tdd.
Import ListNotations.

(** ** Terminals *)

(** [TDDTerminal as usize] = the value code of a terminal in a snapshot *)
Definition tcode (v : tri) : N :=
  match v with TF => 0 | TU => 1 | TT => 2 end%N.

Definition tdecode (c : N) : option tri :=
  match c with
  | 0%N => Some TF
  | 1%N => Some TU
  | 2%N => Some TT
  | _ => None
  end.

(** [Manager::get_terminal(v)]: the id of the terminal that carries [v] *)
Definition term3 (s : snap) (v : tri) : option N := rassoc_N (s_terms s) (tcode v).

(** [Manager::get_node]: [Node::Inner(node)] or [Node::Terminal(value)];
    [None] = dangling reference or a terminal whose value is not a
    [TDDTerminal] *)
Inductive tview := TVI (nd : node) | TVT (v : tri).

Definition td_view (s : snap) (r : ref) : option tview :=
  match r with
  | RN id => match find_node s id with Some nd => Some (TVI nd) | None => None end
  | RT t =>
    match term_val s t with
    | Some c => match tdecode c with Some v => Some (TVT v) | None => None end
    | None => None
    end
  end.

(** a guard [Terminal(t) if *t == v] *)
Definition is_tv (v : tri) (x : tview) : bool :=
  match x with TVT w => tri_eqb v w | TVI _ => false end.

(** [Node::is_any_terminal] *)
Definition is_term (x : tview) : bool :=
  match x with TVT _ => true | TVI _ => false end.

(** ** Operators *)

(** [TDDOp as u8] (Not, And, Or, Nand, Nor, Xor, Equiv, Imp, ImpStrict, Ite) *)
Definition top_code (o : binop) : N :=
  match o with
  | And => 1 | Or => 2 | Nand => 3 | Nor => 4
  | Xor => 5 | Equiv => 6 | Imp => 7 | ImpStrict => 8
  end%N.
Definition tcode_not : N := 0%N.
Definition tcode_ite : N := 9%N.

(** [enum Operation]; [DFail] = [get_terminal(..).unwrap()] panics *)
Inductive td_res :=
| DDone (r : ref)
| DNot (r : ref)
| DBin (o : binop) (a b : ref)
| DFail.

(** [Done(m.get_terminal(v).unwrap())] *)
Definition get_term3 (s : snap) (v : tri) : td_res :=
  match term3 s v with Some t => DDone (RT t) | None => DFail end.

Section Gt.
(** the (unobservable) edge order used to normalise commutative operand pairs *)
Variable gt : ref -> ref -> bool.

(** [_ if f > g => Binary(op, g, f), _ => Binary(op, f, g)] *)
Definition td_norm (o : binop) (f g : ref) : td_res :=
  if gt f g then DBin o g f else DBin o f g.

(** [terminal_bin::<M, OP>], arm by arm in the order of the source; [vf], [vg]
    are [m.get_node(f)], [m.get_node(g)].  A guard
    [(Terminal(t), _) | (_, Terminal(t)) if *t == X] is tried for both
    alternatives, i.e. "f or g is the terminal X". *)
Definition td_tb (s : snap) (op : binop) (f g : ref) (vf vg : tview) : td_res :=
  match op with
  | And =>
    if ref_eqb f g then DDone f
    else if is_tv TF vf || is_tv TF vg then get_term3 s TF
    else if is_tv TT vf then DDone g
    else if is_tv TT vg then DDone f
    else td_norm And f g
  | Or =>
    if ref_eqb f g then DDone f
    else if is_tv TT vf || is_tv TT vg then get_term3 s TT
    else if is_tv TF vf then DDone g
    else if is_tv TF vg then DDone f
    else td_norm Or f g
  | Nand =>
    if ref_eqb f g then DNot f
    else if is_tv TF vf || is_tv TF vg then get_term3 s TT
    else if is_tv TT vf then DNot g
    else if is_tv TT vg then DNot f
    else td_norm Nand f g
  | Nor =>
    if ref_eqb f g then DNot f
    else if is_tv TT vf || is_tv TT vg then get_term3 s TF
    else if is_tv TF vf then DNot g
    else if is_tv TF vg then DNot f
    else td_norm Nor f g
  | Xor =>
    if ref_eqb f g then get_term3 s TF
    else if is_tv TF vf then DDone g
    else if is_tv TF vg then DDone f
    else if is_tv TT vf then DNot g
    else if is_tv TT vg then DNot f
    else td_norm Xor f g
  | Equiv =>
    if ref_eqb f g then get_term3 s TT
    else if is_tv TT vf then DDone g
    else if is_tv TT vg then DDone f
    else if is_tv TF vf then DNot g
    else if is_tv TF vg then DNot f
    else td_norm Equiv f g
  | Imp =>
    if ref_eqb f g then get_term3 s TT
    else if is_tv TF vf then get_term3 s TT
    else if is_tv TT vg then get_term3 s TT
    else if is_tv TT vf then DDone g
    else if is_tv TF vg then DNot f
    else DBin Imp f g
  | ImpStrict =>
    if ref_eqb f g then get_term3 s TF
    else if is_tv TT vf then get_term3 s TF
    else if is_tv TF vg then get_term3 s TF
    else if is_tv TF vf then DDone g
    else if is_tv TT vg then DNot f
    else DBin ImpStrict f g
  end.

(** [node.level()]: the stored level of an inner node, [None] = a terminal
    ([LevelNo::MAX], below every level); [std::cmp::min] on such levels is
    [lmin] of DD/Tdd.v *)
Definition tlevel (x : tview) : option nat :=
  match x with TVI nd => Some (nstored nd) | TVT _ => None end.

(** [collect_children(node)] *)
Definition children3 (nd : node) : option (ref * ref * ref) :=
  match nchildren nd with
  | [t; u; e] => Some (eref t, eref u, eref e)
  | _ => None
  end.

(** "Collect cofactors of all top-most nodes":
    [if flevel == level { collect_children(fnode.unwrap_inner()) } else { (f, f, f) }] *)
Definition td_cof (r : ref) (x : tview) (lvl : nat) : option (ref * ref * ref) :=
  match x with
  | TVI nd => if Nat.eqb (nstored nd) lvl then children3 nd else Some (r, r, r)
  | TVT _ => Some (r, r, r)
  end.

Section Cache.
Variable C : Type.
Variable cget : C -> N -> list ref -> option ref.
Variable cadd : C -> N -> list ref -> ref -> C.

(** [apply_not] *)
Fixpoint td_apply_not (fuel : nat) (s : snap) (c : C) (f : ref) : option (snap * C * ref) :=
  match fuel with
  | O => None
  | S n =>
    match td_view s f with
    | None => None
    | Some (TVT v) =>
      match term3 s (k_not v) with Some t => Some (s, c, RT t) | None => None end
    | Some (TVI nd) =>
      match cget c tcode_not [f] with
      | Some h => Some (s, c, h)
      | None =>
        match children3 nd with
        | None => None
        | Some (f0, f1, f2) =>
          match td_apply_not n s c f0 with
          | None => None
          | Some (s1, c1, t) =>
            match td_apply_not n s1 c1 f1 with
            | None => None
            | Some (s2, c2, u) =>
              match td_apply_not n s2 c2 f2 with
              | None => None
              | Some (s3, c3, e) =>
                let '(s4, h) := mk_node s3 (nstored nd) [E t; E u; E e] in
                Some (s4, cadd c3 tcode_not [f] (eref h), eref h)
              end
            end
          end
        end
      end
    end
  end.

(** [apply_bin::<M, OP>]: terminal cases; cache query under the normalised
    (operator, operands) triple; ternary Shannon expansion on the top-most
    level of [f] and [g] - the recursion uses [f], [g] and [OP], not the
    normalised operands; [reduce]; cache insertion under the same triple *)
Fixpoint td_apply_bin (fuel : nat) (s : snap) (c : C) (op : binop) (f g : ref)
  : option (snap * C * ref) :=
  match fuel with
  | O => None
  | S n =>
    match td_view s f, td_view s g with
    | Some vf, Some vg =>
      match td_tb s op f g vf vg with
      | DFail => None
      | DDone h => Some (s, c, h)
      | DNot r => td_apply_not fuel s c r
      | DBin o a b =>
        match cget c (top_code o) [a; b] with
        | Some h => Some (s, c, h)
        | None =>
          match lmin (tlevel vf) (tlevel vg) with
          | None => None           (* both terminals: [unwrap_inner] would panic *)
          | Some lvl =>
            match td_cof f vf lvl, td_cof g vg lvl with
            | Some (f0, f1, f2), Some (g0, g1, g2) =>
              match td_apply_bin n s c op f0 g0 with
              | None => None
              | Some (s1, c1, t) =>
                match td_apply_bin n s1 c1 op f1 g1 with
                | None => None
                | Some (s2, c2, u) =>
                  match td_apply_bin n s2 c2 op f2 g2 with
                  | None => None
                  | Some (s3, c3, e) =>
                    let '(s4, h) := mk_node s3 lvl [E t; E u; E e] in
                    Some (s4, cadd c3 (top_code o) [a; b] (eref h), eref h)
                  end
                end
              end
            | _, _ => None
            end
          end
        end
      end
    | _, _ => None
    end
  end.

(** the terminal cases of [apply_ite_rec] after the three equality tests
    (everything between [let fnode = ..] and the cache query), in the order of
    the code *)
Inductive ite_res :=
| IDone (r : ref)                     (* return an existing edge *)
| IBin (op : binop) (a b : ref)       (* return apply_bin::<op>(a, b) *)
| INot (a : ref)                      (* return apply_not(a) *)
| IRec                                (* no short-cut: cache query and expansion *)
| IFail.                              (* [get_terminal(Unknown).unwrap()] panics *)

Definition td_ite_sc (s : snap) (f g h : ref) (vf vg vh : tview) : ite_res :=
  match
    (* if let Node::Terminal(t) = fnode { ... } *)
    match vf with
    | TVT TT => Some (IDone g)
    | TVT TF => Some (IDone h)
    | TVT TU =>
      if is_term vg && is_term vh
      then Some (match term3 s TU with Some t => IDone (RT t) | None => IFail end)
      else None
    | TVI _ => None
    end
  with
  | Some r => r
  | None =>
    (* match (manager.get_node(&g), manager.get_node(&h)) *)
    match vg, vh with
    | TVT TT, TVI _ => IBin Or f h
    | TVT TU, TVI _ => IRec
    | TVT TF, TVI _ => IBin ImpStrict f h
    | TVI _, TVT TT => IBin Imp f g
    | TVI _, TVT TU => IRec
    | TVI _, TVT TF => IBin And f g
    | TVT TF, TVT TT => INot f
    | TVT TT, TVT TF => IDone f
    | TVT _, TVT _ => IRec
    | TVI _, TVI _ => IRec
    end
  end.

(** [apply_ite_rec] *)
Fixpoint td_apply_ite (fuel : nat) (s : snap) (c : C) (f g h : ref)
  : option (snap * C * ref) :=
  match fuel with
  | O => None
  | S n =>
    if ref_eqb g h then Some (s, c, g)
    else if ref_eqb f g then td_apply_bin fuel s c Or f h
    else if ref_eqb f h then td_apply_bin fuel s c And f g
    else
      match td_view s f, td_view s g, td_view s h with
      | Some vf, Some vg, Some vh =>
        match td_ite_sc s f g h vf vg vh with
        | IFail => None
        | IDone r => Some (s, c, r)
        | IBin op a b => td_apply_bin fuel s c op a b
        | INot a => td_apply_not fuel s c a
        | IRec =>
          match cget c tcode_ite [f; g; h] with
          | Some r => Some (s, c, r)
          | None =>
            match lmin (lmin (tlevel vf) (tlevel vg)) (tlevel vh) with
            | None => None
            | Some lvl =>
              match td_cof f vf lvl, td_cof g vg lvl, td_cof h vh lvl with
              | Some (f0, f1, f2), Some (g0, g1, g2), Some (h0, h1, h2) =>
                match td_apply_ite n s c f0 g0 h0 with
                | None => None
                | Some (s1, c1, t) =>
                  match td_apply_ite n s1 c1 f1 g1 h1 with
                  | None => None
                  | Some (s2, c2, u) =>
                    match td_apply_ite n s2 c2 f2 g2 h2 with
                    | None => None
                    | Some (s3, c3, e) =>
                      let '(s4, r) := mk_node s3 lvl [E t; E u; E e] in
                      Some (s4, cadd c3 tcode_ite [f; g; h] (eref r), eref r)
                    end
                  end
                end
              | _, _, _ => None
              end
            end
          end
        end
      | _, _, _ => None
      end
  end.

End Cache.
End Gt.

(** ** Constants and variables *)

(** [f_edge] / [u_edge] / [t_edge]: [manager.get_terminal(v).unwrap()] *)
Definition td_const (s : snap) (v : tri) : option ref :=
  match term3 s v with Some t => Some (RT t) | None => None end.

(** [var_edge]: the node (level of [v], [True, Unknown, False]) *)
Definition td_var (s : snap) (v : nat) : option (snap * ref) :=
  match nth_error (s_v2l s) v, term3 s TT, term3 s TU, term3 s TF with
  | Some lvl, Some t2, Some t1, Some t0 =>
    let '(s', e) := get_or_insert s lvl [E (RT t2); E (RT t1); E (RT t0)] in
    Some (s', eref e)
  | _, _, _, _ => None
  end.

(** ** Cofactors *)

(** [cofactors_edge] / [cofactors_node]: the children (cofactor 0, 1, 2) of
    the root node, [None] for a terminal *)
Definition td_cofactors (s : snap) (r : ref) : option (ref * ref * ref) :=
  match r with
  | RT _ => None
  | RN id => match find_node s id with Some nd => children3 nd | None => None end
  end.

(** ** Evaluation *)

(** [var_to_level] applied to the argument list; [None] = a variable number
    out of range (the code panics) *)
Fixpoint td_level_args (s : snap) (args : list (nat * tri)) : option (list (nat * tri)) :=
  match args with
  | [] => Some []
  | (v, x) :: r =>
    match nth_error (s_v2l s) v, td_level_args s r with
    | Some lvl, Some r' => Some ((lvl, x) :: r')
    | _, _ => None
    end
  end.

(** the inner loop [inner] of [eval_edge] over the abstract choices map
    (level |-> child number) *)
Fixpoint td_eval_walk (fuel : nat) (s : snap) (r : ref) (ch : nat -> nat) : option tri :=
  match r with
  | RT t => match term_val s t with Some c => tdecode c | None => None end
  | RN id =>
    match fuel with
    | O => None
    | S n =>
      match find_node s id with
      | None => None
      | Some nd =>
        match nth_error (nchildren nd) (ch (nstored nd)) with
        | None => None
        | Some e => td_eval_walk n s (eref e) ch
        end
      end
    end
  end.

(** the same loop reading the bit-packed [choices: Vec<u32>] of the code (two
    bits per level, sixteen levels per block; [block_get] of DD/Tdd.v) *)
Fixpoint td_eval_walk_packed (fuel : nat) (s : snap) (r : ref) (blocks : list N) : option tri :=
  match r with
  | RT t => match term_val s t with Some c => tdecode c | None => None end
  | RN id =>
    match fuel with
    | O => None
    | S n =>
      match find_node s id with
      | None => None
      | Some nd =>
        let lvl := nstored nd in
        let block := nth (N.to_nat (N.of_nat lvl / elements_per_block)) blocks 0%N in
        match nth_error (nchildren nd) (N.to_nat (block_get block (N.of_nat lvl))) with
        | None => None
        | Some e => td_eval_walk_packed n s (eref e) blocks
        end
      end
    end
  end.

(** [eval_edge]: [vec![0u32; num_levels.div_ceil(16)]], one [block_set] per
    argument in list order ([pack_choices] of DD/Tdd.v), then [inner] *)
Definition td_eval (s : snap) (r : ref) (args : list (nat * tri)) : option tri :=
  match td_level_args s args with
  | None => None
  | Some largs =>
    td_eval_walk_packed (S (nlevels s)) s r
      (pack_choices largs
         (repeat 0%N (N.to_nat ((N.of_nat (nlevels s) + 15) / elements_per_block))))
  end.

(** the abstract version (choices as a function), for the proofs *)
Definition td_eval_abs (s : snap) (r : ref) (args : list (nat * tri)) : option tri :=
  match td_level_args s args with
  | None => None
  | Some largs => td_eval_walk (S (nlevels s)) s r (set_choices largs (fun _ => 0))
  end.

(** ** The invariant the theorems assume, as a checker for real snapshots *)

(** a well-formed TDD table that has the three terminals and no others *)
Definition td_ok_b (s : snap) : bool :=
  wf_b s && kind_eqb (s_kind s) KTdd
  && forallb (fun p : N * N => N.leb (snd p) 2) (s_terms s)
  && existsb (fun p : N * N => N.eqb (snd p) 0) (s_terms s)
  && existsb (fun p : N * N => N.eqb (snd p) 1) (s_terms s)
  && existsb (fun p : N * N => N.eqb (snd p) 2) (s_terms s).

(** ** Unfolding of an edge: the tree of DD/Tdd.v that an edge stands for *)

Fixpoint td_unfold (fuel : nat) (s : snap) (r : ref) : option tdd :=
  match r with
  | RT t => match term_val s t with
            | Some c => match tdecode c with Some v => Some (Leaf v) | None => None end
            | None => None
            end
  | RN id =>
    match fuel with
    | O => None
    | S n =>
      match find_node s id with
      | None => None
      | Some nd =>
        match nchildren nd with
        | [t; u; e] =>
          match td_unfold n s (eref t), td_unfold n s (eref u), td_unfold n s (eref e) with
          | Some a, Some b, Some c => Some (Node (nlevel nd) a b c)
          | _, _, _ => None
          end
        | _ => None
        end
      end
    end
  end.
