(** * Foundations for the TDD apply proofs (DD/ApplyTdd.v)

    - [TdOK]: the invariant (well-formed TDD table with exactly the three
      terminals False / Unknown / True), decided by [td_ok_b];
    - [chc]: a three-valued assignment by level ([assignment] of DD/Tdd.v) read
      as a choice function of the interpreter [semk] (true -> child 0,
      unknown -> child 1, false -> child 2);
    - [DenT s r phi]: reference [r] of table [s] denotes the three-valued
      function [phi : tfun] ([tfun = (level -> tri) -> tri] of DD/Tdd.v);
    - independence of levels, the three Shannon cofactors ([fn_restrict]), the
      node step ([mk_node] on three children), canonicity inside one table. *)

From Coq Require Import List NArith PArith Bool Arith Lia FMapPositive.
From OxiVerif Require Import DD.Table DD.TableProofs DD.Canon DD.Build DD.BuildProofs
  DD.Apply DD.ApplyProofs DD.Tdd DD.TddTables DD.ApplyTdd.
Import ListNotations.

Notation cupd := TableProofs.upd.
Notation aupd := Tdd.upd.

(** ** The coding of terminal values *)

Lemma tdecode_tcode : forall v, tdecode (tcode v) = Some v.
Proof. intros []; reflexivity. Qed.

Lemma tcode_tdecode : forall c v, tdecode c = Some v -> tcode v = c.
Proof.
  intros c v. destruct c as [|[[p|p|]|[p|p|]|]]; simpl; intros E; inversion E; reflexivity.
Qed.

Lemma tcode_inj : forall a b, tcode a = tcode b -> a = b.
Proof. intros [] [] E; simpl in E; congruence. Qed.

Lemma tcode_le : forall v, (tcode v <= 2)%N.
Proof. intros []; simpl; lia. Qed.

Lemma tdecode_total : forall c, (c <= 2)%N -> exists v, tdecode c = Some v.
Proof.
  intros c Hc. destruct c as [|[[p|p|]|[p|p|]|]]; simpl; eauto; lia.
Qed.

(** ** The invariant *)

Record TdOK (s : snap) : Prop := mkTdOK {
  to_wf : WF s;
  to_kind : s_kind s = KTdd;
  to_codes : forall t c, term_val s t = Some c -> (c <= 2)%N;
  to_terms : forall v, exists t, term_val s t = Some (tcode v)
}.

Theorem td_ok_b_spec : forall s, td_ok_b s = true <-> TdOK s.
Proof.
  intros s. unfold td_ok_b. rewrite !andb_true_iff, wf_b_spec, forallb_forall, !existsb_exists.
  split.
  - intros [[[[[H Hk] Hc] [p0 [I0 E0]]] [p1 [I1 E1]]] [p2 [I2 E2]]].
    apply N.eqb_eq in E0. apply N.eqb_eq in E1. apply N.eqb_eq in E2.
    destruct p0 as [t0 v0], p1 as [t1 v1], p2 as [t2 v2]. simpl in *. subst.
    constructor; auto.
    + destruct (s_kind s); simpl in Hk; congruence.
    + intros t c E. apply assoc_N_In in E. specialize (Hc _ E). simpl in Hc.
      apply N.leb_le in Hc. exact Hc.
    + intros [].
      * exists t0. apply In_assoc_N; [apply (wf_term_ids s H) | exact I0].
      * exists t1. apply In_assoc_N; [apply (wf_term_ids s H) | exact I1].
      * exists t2. apply In_assoc_N; [apply (wf_term_ids s H) | exact I2].
  - intros B. pose proof (to_wf s B) as H.
    destruct (to_terms s B TF) as [t0 E0]. destruct (to_terms s B TU) as [t1 E1].
    destruct (to_terms s B TT) as [t2 E2].
    split; [split; [split; [split; [split|]|]|]|].
    + exact H.
    + rewrite (to_kind s B). reflexivity.
    + intros [t v] Hin. simpl. apply N.leb_le.
      assert (E : term_val s t = Some v) by (apply In_assoc_N; [apply (wf_term_ids s H) | exact Hin]).
      apply (to_codes s B t v E).
    + exists (t0, 0%N). split; [apply assoc_N_In; exact E0 | reflexivity].
    + exists (t1, 1%N). split; [apply assoc_N_In; exact E1 | reflexivity].
    + exists (t2, 2%N). split; [apply assoc_N_In; exact E2 | reflexivity].
Qed.

Lemma td_kary : forall s, TdOK s -> kary (s_kind s).
Proof. intros s B. rewrite (to_kind s B). split; discriminate. Qed.

Lemma tdok_extends : forall s s', TdOK s -> extends s s' -> WF s' -> TdOK s'.
Proof.
  intros s s' B X H'. constructor.
  - exact H'.
  - rewrite (ext_kind _ _ X). apply (to_kind s B).
  - intros t c. rewrite (ext_term_val _ _ t X). apply (to_codes s B).
  - intros v. destruct (to_terms s B v) as [t E]. exists t. rewrite (ext_term_val _ _ t X). exact E.
Qed.

(** [get_terminal] *)
Lemma term3_spec : forall s v t, WF s -> term3 s v = Some t -> term_val s t = Some (tcode v).
Proof.
  intros s v t H E. apply rassoc_N_In in E. apply In_assoc_N; [apply (wf_term_ids s H) | exact E].
Qed.

Lemma term3_total : forall s v, TdOK s -> exists t, term3 s v = Some t.
Proof.
  intros s v B. unfold term3. destruct (to_terms s B v) as [t Ht].
  apply assoc_N_In in Ht. eapply rassoc_N_total; eauto.
Qed.

Lemma term3_extends : forall s s' v, extends s s' -> term3 s' v = term3 s v.
Proof. intros s s' v X. unfold term3. rewrite (ext_terms _ _ X). reflexivity. Qed.

(** ** Assignments as choices *)

(** the child a three-valued assignment selects at every level *)
Definition chc (a : assignment) : nat -> nat := fun l => choice_of (a l).

Definition tri_of_choice (i : nat) : tri :=
  match i with 0 => TT | 1 => TU | _ => TF end.

Definition asg_of (c : nat -> nat) : assignment := fun l => tri_of_choice (c l).

Lemma choice_of_lt : forall v, choice_of v < 3.
Proof. intros []; simpl; lia. Qed.

Lemma tri_of_choice_of : forall v, tri_of_choice (choice_of v) = v.
Proof. intros []; reflexivity. Qed.

Lemma choice_of_tri_of : forall i, i < 3 -> choice_of (tri_of_choice i) = i.
Proof. intros [|[|[|k]]] Hi; simpl; try reflexivity; lia. Qed.

Lemma chc_choice_ok : forall s a, TdOK s -> choice_ok s (chc a).
Proof. intros s a B l. rewrite (to_kind s B). apply choice_of_lt. Qed.

Lemma chc_asg_of : forall s c, TdOK s -> choice_ok s c -> forall l, chc (asg_of c) l = c l.
Proof.
  intros s c B Hc l. unfold chc, asg_of. apply choice_of_tri_of.
  specialize (Hc l). rewrite (to_kind s B) in Hc. exact Hc.
Qed.

Lemma chc_upd : forall a l v x, chc (aupd a l v) x = cupd (chc a) l (choice_of v) x.
Proof. intros a l v x. unfold chc, aupd, cupd. destruct (Nat.eqb x l); reflexivity. Qed.

(** ** Denotations *)

Definition DenT (s : snap) (r : ref) (phi : tfun) : Prop :=
  ref_ok s r /\
  forall a : assignment, semk s (S (nlevels s)) r (chc a) = Some (tcode (phi a)).

Lemma dent_ext : forall s r phi phi', DenT s r phi -> (forall a, phi a = phi' a) -> DenT s r phi'.
Proof. intros s r phi phi' [A B] E. split; [exact A|]. intros a. rewrite <- E. auto. Qed.

Lemma dent_unique : forall s r phi phi', DenT s r phi -> DenT s r phi' -> forall a, phi a = phi' a.
Proof.
  intros s r phi phi' [_ A] [_ B] a. apply tcode_inj.
  specialize (A a). specialize (B a). congruence.
Qed.

(** the value of a reference is the code of one of the table's terminals *)
Lemma semk_code3 : forall s, TdOK s -> forall f r c v, semk s f r c = Some v -> (v <= 2)%N.
Proof.
  intros s B. induction f as [|f IH]; intros r c v E.
  - destruct r as [t|id]; [rewrite semk_T in E; apply (to_codes s B t v E) | discriminate].
  - destruct r as [t|id]; [rewrite semk_T in E; apply (to_codes s B t v E)|].
    rewrite semk_S in E. destruct (find_node s id) as [nd|]; [|discriminate].
    destruct (nth_error (nchildren nd) (c (nlevel nd))) as [e|]; [|discriminate].
    eapply IH; eauto.
Qed.

(** every stored reference denotes a function *)
Lemma dent_exists : forall s r, TdOK s -> ref_ok s r -> exists phi, DenT s r phi.
Proof.
  intros s r B Hok.
  exists (fun a => match semk s (S (nlevels s)) r (chc a) with
                   | Some c => match tdecode c with Some v => v | None => TF end
                   | None => TF
                   end).
  split; [exact Hok|]. intros a.
  pose proof (rlevel_le s (to_wf s B) r).
  destruct (semk_total s (to_wf s B) (S (nlevels s)) r (chc a) Hok (chc_choice_ok s a B) ltac:(lia))
    as [v Ev].
  rewrite Ev. destruct (tdecode_total v (semk_code3 s B _ _ _ _ Ev)) as [x Ex].
  rewrite Ex, (tcode_tdecode v x Ex). reflexivity.
Qed.

Lemma dent_extends : forall s s' r phi, TdOK s -> extends s s' -> DenT s r phi -> DenT s' r phi.
Proof.
  intros s s' r phi B X [A D]. split; [apply (ext_ref_ok _ _ _ X A)|].
  intros a. rewrite (ext_nlevels _ _ X), (semk_extends s s' (to_wf s B) X _ _ _ A). auto.
Qed.

Lemma dent_term : forall s t v, term_val s t = Some (tcode v) -> DenT s (RT t) (fn_const v).
Proof. intros s t v E. split; [exists (tcode v); exact E|]. intros a. rewrite semk_T. exact E. Qed.

Lemma dent_const : forall s v t, TdOK s -> term3 s v = Some t -> DenT s (RT t) (fn_const v).
Proof. intros s v t B E. apply dent_term. apply term3_spec; [apply (to_wf s B) | exact E]. Qed.

(** ** [td_view] *)

Lemma td_view_total : forall s r, TdOK s -> ref_ok s r -> exists v, td_view s r = Some v.
Proof.
  intros s [t|id] B [x E]; simpl; rewrite E; [|eauto].
  destruct (tdecode_total x (to_codes s B t x E)) as [v Ev]. rewrite Ev. eauto.
Qed.

Lemma td_view_TVI : forall s r nd, td_view s r = Some (TVI nd) ->
  exists id, r = RN id /\ find_node s id = Some nd.
Proof.
  intros s [t|id] nd; simpl.
  - destruct (term_val s t) as [c|]; [|discriminate]. destruct (tdecode c); discriminate.
  - destruct (find_node s id) as [n|] eqn:E; [|discriminate]. intros Hx. inversion Hx; subst. eauto.
Qed.

Lemma td_view_TVT : forall s r v, td_view s r = Some (TVT v) ->
  exists t, r = RT t /\ term_val s t = Some (tcode v).
Proof.
  intros s [t|id] v; simpl.
  - destruct (term_val s t) as [c|] eqn:E; [|discriminate].
    destruct (tdecode c) as [w|] eqn:Ew; [|discriminate]. intros Hx. inversion Hx; subst.
    exists t. rewrite (tcode_tdecode c v Ew). auto.
  - destruct (find_node s id); discriminate.
Qed.

Lemma td_view_term : forall s t v, term_val s t = Some (tcode v) -> td_view s (RT t) = Some (TVT v).
Proof. intros s t v E. simpl. rewrite E, tdecode_tcode. reflexivity. Qed.

Lemma td_view_node : forall s id nd, find_node s id = Some nd -> td_view s (RN id) = Some (TVI nd).
Proof. intros s id nd E. simpl. rewrite E. reflexivity. Qed.

Lemma view_dent_T : forall s r v phi, DenT s r phi -> td_view s r = Some (TVT v) ->
  forall a, phi a = v.
Proof.
  intros s r v phi [_ D] V a. destruct (td_view_TVT s r v V) as [t [-> E]].
  specialize (D a). rewrite semk_T, E in D. apply tcode_inj. congruence.
Qed.

(** two terminal views of different references carry different values *)
Lemma td_view_T_inj : forall s r1 r2 v, WF s ->
  td_view s r1 = Some (TVT v) -> td_view s r2 = Some (TVT v) -> r1 = r2.
Proof.
  intros s r1 r2 v H V1 V2.
  destruct (td_view_TVT s r1 v V1) as [t1 [-> E1]]. destruct (td_view_TVT s r2 v V2) as [t2 [-> E2]].
  f_equal. apply (term_val_inj s t1 t2 _ H E1 E2).
Qed.

(** ** Independence of the levels above a reference *)

Definition indepT (phi : tfun) (L : nat) : Prop :=
  forall a a', (forall l, L <= l -> a l = a' l) -> phi a = phi a'.

Lemma dent_indep : forall s r phi, WF s -> DenT s r phi -> indepT phi (rlevel s r).
Proof.
  intros s r phi H [_ D] a a' E. apply tcode_inj.
  pose proof (D a) as A. pose proof (D a') as A'.
  rewrite (semk_ext s H _ r (chc a) (chc a')) in A; [congruence|].
  intros l Hl. unfold chc. rewrite (E l Hl). reflexivity.
Qed.

(** in particular a denoted function is extensional *)
Lemma dent_pointwise : forall s r phi a a', WF s -> DenT s r phi ->
  (forall l, a l = a' l) -> phi a = phi a'.
Proof. intros s r phi a a' H D E. apply (dent_indep s r phi H D). intros l _. apply E. Qed.

Lemma indepT_mono : forall phi L L', indepT phi L -> L' <= L -> indepT phi L'.
Proof. intros phi L L' I Hle a a' E. apply I. intros l Hl. apply E. lia. Qed.

Lemma indepT_cof : forall phi L lvl v, indepT phi L -> lvl <= L ->
  indepT (fn_restrict phi lvl v) (S lvl).
Proof.
  intros phi L lvl v I Hle a a' E. unfold fn_restrict. apply I.
  intros l Hl. unfold aupd. destruct (Nat.eqb_spec l lvl); [reflexivity|]. apply E. lia.
Qed.

(** setting a level to the value it already has changes nothing *)
Lemma dent_upd_self : forall s r phi a lvl, WF s -> DenT s r phi ->
  fn_restrict phi lvl (a lvl) a = phi a.
Proof.
  intros s r phi a lvl H D. unfold fn_restrict. apply (dent_pointwise s r phi _ _ H D).
  intros l. unfold aupd. destruct (Nat.eqb_spec l lvl); [subst; reflexivity | reflexivity].
Qed.

(** ** Canonicity inside one table *)

Lemma dent_canon : forall s r1 r2 phi, TdOK s -> DenT s r1 phi -> DenT s r2 phi -> r1 = r2.
Proof.
  intros s r1 r2 phi B [O1 D1] [O2 D2]. pose proof (to_wf s B) as H.
  apply (canon_kary s H (td_kary s B) r1 r2 O1 O2).
  intros c Hc.
  rewrite (semk_ext s H _ r1 c (chc (asg_of c))) by (intros l _; symmetry; apply (chc_asg_of s c B Hc)).
  rewrite (semk_ext s H _ r2 c (chc (asg_of c))) by (intros l _; symmetry; apply (chc_asg_of s c B Hc)).
  rewrite D1, D2. reflexivity.
Qed.

(** a reference whose function ignores all levels above [L] sits at level [L]
    or deeper (a consequence of canonicity) *)
Lemma dent_level : forall s r phi L, TdOK s -> DenT s r phi -> L <= nlevels s ->
  indepT phi L -> L <= rlevel s r.
Proof.
  intros s r phi L B [Hok D] HL I.
  pose proof (to_wf s B) as H. pose proof (td_kary s B) as Hk.
  destruct (le_lt_dec L (rlevel s r)) as [Hle|Hlt]; [exact Hle|]. exfalso.
  destruct r as [t|id]; [simpl in Hlt; lia|].
  destruct Hok as [nd E]. rewrite (rlevel_node s id nd E) in Hlt.
  apply (reduced_kary s Hk _ (wf_reduced s H id nd E)).
  intros x y Hx Hy.
  destruct (In_nth_error _ _ Hx) as [i Hi]. destruct (In_nth_error _ _ Hy) as [j Hj].
  destruct (child_nth s H id nd i x E Hi) as [Ox Lx].
  destruct (child_nth s H id nd j y E Hj) as [Oy Ly].
  apply (child_edge_eq s id id nd nd x y H (proj1 Hk) E E Hx Hy).
  apply (canon_kary s H Hk _ _ Ox Oy). intros c Hc.
  pose proof (child_index s H id nd i x E Hi) as Hi2.
  pose proof (child_index s H id nd j y E Hj) as Hj2.
  pose proof (child_sem s H id nd i x c E Hi) as Sx.
  pose proof (child_sem s H id nd j y c E Hj) as Sy.
  unfold semn in Sx, Sy. rewrite Sx, Sy.
  set (ci := cupd c (nlevel nd) i). set (cj := cupd c (nlevel nd) j).
  assert (Hci : choice_ok s ci) by (apply choice_ok_upd; assumption).
  assert (Hcj : choice_ok s cj) by (apply choice_ok_upd; assumption).
  rewrite (semk_ext s H _ (RN id) ci (chc (asg_of ci)))
    by (intros l _; symmetry; apply (chc_asg_of s ci B Hci)).
  rewrite (semk_ext s H _ (RN id) cj (chc (asg_of cj)))
    by (intros l _; symmetry; apply (chc_asg_of s cj B Hcj)).
  rewrite !D. f_equal. f_equal. apply I.
  intros l Hl. unfold asg_of, ci, cj, cupd. destruct (Nat.eqb_spec l (nlevel nd)); [lia | reflexivity].
Qed.

(** a reference that denotes a constant is the terminal with that value *)
Lemma dent_const_term : forall s r v, TdOK s -> DenT s r (fn_const v) ->
  exists t, r = RT t /\ term_val s t = Some (tcode v).
Proof.
  intros s r v B D. pose proof (to_wf s B) as H.
  assert (L : nlevels s <= rlevel s r).
  { apply (dent_level s r _ (nlevels s) B D (le_n _)). intros a a' _. reflexivity. }
  destruct r as [t|id].
  - exists t. split; [reflexivity|].
    pose proof (proj2 D (fun _ => TT)) as E. rewrite semk_T in E. exact E.
  - exfalso. destruct (proj1 D) as [nd E]. rewrite (rlevel_node s id nd E) in L.
    pose proof (wf_level s H id nd E). lia.
Qed.

(** ** Shannon cofactors of a reference *)

Lemma td_children : forall s id nd, TdOK s -> find_node s id = Some nd ->
  exists x y z, nchildren nd = [x; y; z].
Proof.
  intros s id nd B E. pose proof (wf_arity s (to_wf s B) id nd E) as L.
  rewrite (to_kind s B) in L. simpl in L.
  destruct (nchildren nd) as [|x [|y [|z [|w r]]]]; simpl in L; try discriminate. eauto.
Qed.

Lemma children3_total : forall s id nd, TdOK s -> find_node s id = Some nd ->
  exists x y z, nchildren nd = [x; y; z] /\ children3 nd = Some (eref x, eref y, eref z).
Proof.
  intros s id nd B E. destruct (td_children s id nd B E) as [x [y [z Ech]]].
  exists x, y, z. split; [exact Ech|]. unfold children3. rewrite Ech. reflexivity.
Qed.

Lemma dent_child : forall s id nd v e phi, TdOK s -> DenT s (RN id) phi ->
  find_node s id = Some nd -> nth_error (nchildren nd) (choice_of v) = Some e ->
  DenT s (eref e) (fn_restrict phi (nlevel nd) v).
Proof.
  intros s id nd v e phi B [_ D] E He. pose proof (to_wf s B) as H.
  split; [apply (child_nth s H id nd _ e E He)|].
  intros a. pose proof (child_sem s H id nd _ e (chc a) E He) as S. unfold semn in S. rewrite S.
  unfold fn_restrict. rewrite <- D. apply (semk_ext s H). intros l _. symmetry. apply chc_upd.
Qed.

Lemma dent_skip : forall s r phi lvl v, WF s -> DenT s r phi -> lvl < rlevel s r ->
  DenT s r (fn_restrict phi lvl v).
Proof.
  intros s r phi lvl v H D Hl. apply (dent_ext s r phi); [exact D|].
  intros a. unfold fn_restrict. apply (dent_indep s r phi H D).
  intros l Hle. unfold aupd. destruct (Nat.eqb_spec l lvl); [lia | reflexivity].
Qed.

(** what [td_cof] returns for a reference at or below the split level *)
Lemma td_cof_ok : forall s r x phi lvl, TdOK s -> DenT s r phi -> td_view s r = Some x ->
  lvl <= rlevel s r -> lvl < nlevels s ->
  exists f0 f1 f2, td_cof r x lvl = Some (f0, f1, f2) /\
    DenT s f0 (fn_restrict phi lvl TT) /\ DenT s f1 (fn_restrict phi lvl TU) /\
    DenT s f2 (fn_restrict phi lvl TF) /\
    lvl < rlevel s f0 /\ lvl < rlevel s f1 /\ lvl < rlevel s f2.
Proof.
  intros s r x phi lvl B D V Hle Hl. pose proof (to_wf s B) as H. destruct x as [nd|w].
  - destruct (td_view_TVI s r nd V) as [id [-> E]]. simpl td_cof.
    rewrite (rlevel_node s id nd E) in Hle. rewrite (wf_stored s H id nd E).
    destruct (Nat.eqb_spec (nlevel nd) lvl) as [Heq|Hne].
    + destruct (children3_total s id nd B E) as [x [y [z [Ech E3]]]]. rewrite E3.
      assert (Hx : nth_error (nchildren nd) (choice_of TT) = Some x) by (rewrite Ech; reflexivity).
      assert (Hy : nth_error (nchildren nd) (choice_of TU) = Some y) by (rewrite Ech; reflexivity).
      assert (Hz : nth_error (nchildren nd) (choice_of TF) = Some z) by (rewrite Ech; reflexivity).
      exists (eref x), (eref y), (eref z). subst lvl. split; [reflexivity|].
      split; [apply (dent_child s id nd TT x phi B D E Hx)|].
      split; [apply (dent_child s id nd TU y phi B D E Hy)|].
      split; [apply (dent_child s id nd TF z phi B D E Hz)|].
      split; [apply (child_nth s H id nd _ x E Hx)|].
      split; [apply (child_nth s H id nd _ y E Hy) | apply (child_nth s H id nd _ z E Hz)].
    + assert (Hlt : lvl < rlevel s (RN id)) by (rewrite (rlevel_node s id nd E); lia).
      exists (RN id), (RN id), (RN id). split; [reflexivity|].
      repeat (split; [apply dent_skip; auto|]). auto.
  - destruct (td_view_TVT s r w V) as [t [-> _]]. simpl td_cof.
    exists (RT t), (RT t), (RT t). split; [reflexivity|].
    repeat (split; [apply dent_skip; auto|]). simpl. auto.
Qed.

(** the level [tlevel] reports is [rlevel] (terminals: below all levels) *)
Lemma tlevel_rlevel : forall s r x, WF s -> td_view s r = Some x ->
  match tlevel x with
  | Some l => l = rlevel s r /\ l < nlevels s
  | None => rlevel s r = nlevels s
  end.
Proof.
  intros s r x H V. destruct x as [nd|w]; simpl.
  - destruct (td_view_TVI s r nd V) as [id [-> E]].
    rewrite (wf_stored s H id nd E), (rlevel_node s id nd E).
    split; [reflexivity | apply (wf_level s H id nd E)].
  - destruct (td_view_TVT s r w V) as [t [-> _]]. reflexivity.
Qed.

(** the cofactor of an existing function w.r.t. a level at or above its root exists *)
Lemma dent_cof_exists : forall s r Phi lvl v, TdOK s -> DenT s r Phi ->
  lvl <= rlevel s r -> lvl < nlevels s -> exists r', DenT s r' (fn_restrict Phi lvl v).
Proof.
  intros s r Phi lvl v B D Hle Hl.
  destruct (td_view_total s r B (proj1 D)) as [x V].
  destruct (td_cof_ok s r x Phi lvl B D V Hle Hl) as [f0 [f1 [f2 [_ [D0 [D1 [D2 _]]]]]]].
  destruct v; eauto.
Qed.

(** ** The node step shared by the three algorithms *)

(** the function assembled from three cofactor results *)
Definition pick3 (lvl : nat) (P0 P1 P2 : tfun) : tfun :=
  fun a => match a lvl with TT => P0 a | TU => P1 a | TF => P2 a end.

Lemma node_stepT : forall s lvl t u e P0 P1 P2 s' h, TdOK s -> lvl < nlevels s ->
  DenT s t P0 -> DenT s u P1 -> DenT s e P2 ->
  indepT P0 (S lvl) -> indepT P1 (S lvl) -> indepT P2 (S lvl) ->
  mk_node s lvl [E t; E u; E e] = (s', h) ->
  TdOK s' /\ extends s s' /\ DenT s' (eref h) (pick3 lvl P0 P1 P2).
Proof.
  intros s lvl t u e P0 P1 P2 s' h B Hl Dt Du De I0 I1 I2 Hm.
  pose proof (to_wf s B) as H. pose proof (td_kary s B) as Hk.
  assert (Lt : S lvl <= rlevel s t) by (apply (dent_level s t P0); auto).
  assert (Lu : S lvl <= rlevel s u) by (apply (dent_level s u P1); auto).
  assert (Le : S lvl <= rlevel s e) by (apply (dent_level s e P2); auto).
  assert (Hch : children_ok s lvl [E t; E u; E e]).
  { split; [rewrite (to_kind s B); reflexivity|].
    intros x [<-|[<-|[<-|[]]]]; simpl; (split; [|split; [lia | reflexivity]]);
      [apply (proj1 Dt) | apply (proj1 Du) | apply (proj1 De)]. }
  destruct (mk_node_wf s lvl _ s' h H Hk Hl Hch Hm) as [W [X [O [T [Sold [Sh _]]]]]].
  split; [apply (tdok_extends s s' B X W)|]. split; [exact X|].
  split; [exact O|]. intros a. unfold pick3.
  assert (Ec : chc a lvl = choice_of (a lvl)) by reflexivity.
  destruct (a lvl); simpl in Ec.
  - rewrite (Sh (chc a) 2 (E e) Ec eq_refl). simpl. apply (proj2 De a).
  - rewrite (Sh (chc a) 1 (E u) Ec eq_refl). simpl. apply (proj2 Du a).
  - rewrite (Sh (chc a) 0 (E t) Ec eq_refl). simpl. apply (proj2 Dt a).
Qed.

(** recombining the three cofactor results *)
Lemma pick3_restrict : forall s r phi lvl (G : tri -> tri -> tri) a, WF s -> DenT s r phi ->
  pick3 lvl (fun a => G TT (fn_restrict phi lvl TT a)) (fun a => G TU (fn_restrict phi lvl TU a))
            (fun a => G TF (fn_restrict phi lvl TF a)) a = G (a lvl) (phi a).
Proof.
  intros s r phi lvl G a H D. unfold pick3.
  rewrite <- (dent_upd_self s r phi a lvl H D). destruct (a lvl); reflexivity.
Qed.

(** if the function to be built already has a reference, [mk_node] returns it
    and leaves the table alone *)
Lemma mk_node_stableT : forall s lvl t u e P0 P1 P2 s' h r0, TdOK s -> lvl < nlevels s ->
  DenT s t P0 -> DenT s u P1 -> DenT s e P2 ->
  indepT P0 (S lvl) -> indepT P1 (S lvl) -> indepT P2 (S lvl) ->
  mk_node s lvl [E t; E u; E e] = (s', h) ->
  DenT s r0 (pick3 lvl P0 P1 P2) ->
  s' = s /\ eref h = r0.
Proof.
  intros s lvl t u e P0 P1 P2 s' h r0 B Hl Dt Du De I0 I1 I2 Hm D0.
  destruct (node_stepT s lvl t u e P0 P1 P2 s' h B Hl Dt Du De I0 I1 I2 Hm) as [B' [X Dh]].
  assert (Eh : eref h = r0) by (apply (dent_canon s' _ _ _ B' Dh (dent_extends s s' _ _ B X D0))).
  split; [|exact Eh].
  unfold mk_node in Hm. destruct (all_equal [E t; E u; E e]); [inversion Hm; reflexivity|].
  unfold get_or_insert in Hm. destruct (find_dup s lvl [E t; E u; E e]); inversion Hm; [reflexivity|].
  exfalso. subst h. simpl in Eh. subst r0. destruct (proj1 D0) as [nd En].
  rewrite fresh_id_free in En. discriminate.
Qed.

(** the three cofactors of a function that has a reference have references *)
Lemma pick3_cofs : forall s r0 Phi lvl, TdOK s -> DenT s r0 Phi -> lvl < nlevels s ->
  indepT Phi lvl ->
  exists q0 q1 q2, DenT s q0 (fn_restrict Phi lvl TT) /\ DenT s q1 (fn_restrict Phi lvl TU) /\
                   DenT s q2 (fn_restrict Phi lvl TF).
Proof.
  intros s r0 Phi lvl B D0 Hl J.
  assert (L0 : lvl <= rlevel s r0) by (apply (dent_level s r0 _ lvl B D0 ltac:(lia) J)).
  destruct (dent_cof_exists s r0 _ lvl TT B D0 L0 Hl) as [q0 Dq0].
  destruct (dent_cof_exists s r0 _ lvl TU B D0 L0 Hl) as [q1 Dq1].
  destruct (dent_cof_exists s r0 _ lvl TF B D0 L0 Hl) as [q2 Dq2].
  eauto 7.
Qed.
