(** * TDD [eval_edge] on hash-consed tables (DD/ApplyTdd.v: [td_eval],
      [td_eval_walk], [td_eval_walk_packed], [td_level_args])

    - [td_eval_walk_sem]: the walk computes the interpreter [semk];
    - [td_eval_packed_eq]: the walk over the bit-packed [choices: Vec<u32>] (two
      bits per level, [block_set] / [block_get] of DD/Tdd.v) reads back what the
      abstract level |-> child map holds ([pack_choices_repr] of
      DD/TddPacked.v is a statement about the vector alone and is reused);
    - [td_eval_ok]: [eval] returns the value of the reference's function under
      the assignment denoted by the argument list (last pair wins, a variable
      that is not mentioned selects child 0 = true);
    - [td_eval_assignment]: for an argument list that gives every variable its
      value under [av] (complete, consistent, any order, repetitions allowed)
      [eval] returns [tfun_of s r av]. *)

From Coq Require Import List NArith PArith Bool Arith Lia FMapPositive.
From OxiVerif Require Import DD.Table DD.TableProofs DD.Canon DD.Build DD.BuildProofs
  DD.Apply DD.ApplyProofs DD.Tdd DD.TddTables DD.TddBasic DD.TddCanon DD.TddEval DD.TddPacked
  DD.ApplyTdd DD.ApplyTddBase DD.ApplyTddProofs DD.ApplyTddIte DD.ApplyTddTop.
Import ListNotations.

(** ** The walk is the interpreter *)

Theorem td_eval_walk_sem : forall s, WF s -> forall fuel r ch,
  td_eval_walk fuel s r ch =
  match semk s fuel r ch with Some c => tdecode c | None => None end.
Proof.
  intros s H. induction fuel as [|n IH]; intros r ch.
  - destruct r as [t|id]; simpl; [|reflexivity].
    rewrite semk_T. reflexivity.
  - destruct r as [t|id]; simpl td_eval_walk.
    + rewrite semk_T. reflexivity.
    + rewrite semk_S. destruct (find_node s id) as [nd|] eqn:En; [|reflexivity].
      rewrite (wf_stored s H id nd En).
      destruct (nth_error (nchildren nd) (ch (nlevel nd))) as [e|]; [apply IH | reflexivity].
Qed.

(** ** The packed vector *)

Lemma td_eval_walk_packed_eq : forall s, WF s -> forall blocks ch,
  repr blocks ch -> nlevels s <= 16 * length blocks ->
  forall fuel r, td_eval_walk_packed fuel s r blocks = td_eval_walk fuel s r ch.
Proof.
  intros s H blocks ch Hr Hn. induction fuel as [|n IH]; intros r.
  - destruct r; reflexivity.
  - destruct r as [t|id]; [reflexivity|]. simpl.
    destruct (find_node s id) as [nd|] eqn:En; [|reflexivity].
    pose proof (wf_level s H id nd En) as Hl. rewrite (wf_stored s H id nd En).
    fold (blk (nlevel nd)). rewrite (Hr (nlevel nd)) by lia. rewrite Nat2N.id.
    destruct (nth_error (nchildren nd) (ch (nlevel nd))) as [e|]; [apply IH | reflexivity].
Qed.

Lemma td_level_args_In : forall s args largs, td_level_args s args = Some largs ->
  forall l x, In (l, x) largs -> exists v, In (v, x) args /\ nth_error (s_v2l s) v = Some l.
Proof.
  intros s. induction args as [|[v0 x0] r IH]; intros largs E l x Hin; simpl in E.
  - inversion E; subst. destruct Hin.
  - destruct (nth_error (s_v2l s) v0) as [l0|] eqn:E0; [|discriminate].
    destruct (td_level_args s r) as [r'|] eqn:Er; [|discriminate]. inversion E; subst. clear E.
    destruct Hin as [Hin|Hin].
    + inversion Hin; subst. exists v0. split; [left; reflexivity | exact E0].
    + destruct (IH r' eq_refl l x Hin) as [v [A B]]. exists v. split; [right; exact A | exact B].
Qed.

Lemma td_level_args_In_rev : forall s args largs, td_level_args s args = Some largs ->
  forall v x l, In (v, x) args -> nth_error (s_v2l s) v = Some l -> In (l, x) largs.
Proof.
  intros s. induction args as [|[v0 x0] r IH]; intros largs E v x l Hin Hv; simpl in E; [destruct Hin|].
  destruct (nth_error (s_v2l s) v0) as [l0|] eqn:E0; [|discriminate].
  destruct (td_level_args s r) as [r'|] eqn:Er; [|discriminate]. inversion E; subst. clear E.
  destruct Hin as [Hin|Hin].
  - inversion Hin; subst. rewrite E0 in Hv. inversion Hv. left. reflexivity.
  - right. apply (IH r' eq_refl v x l Hin Hv).
Qed.

Lemma td_level_args_total : forall s args, WF s ->
  (forall v x, In (v, x) args -> v < nlevels s) -> exists largs, td_level_args s args = Some largs.
Proof.
  intros s args H. induction args as [|[v0 x0] r IH]; intros Hb; simpl; [eauto|].
  assert (Hv : v0 < length (s_v2l s)).
  { rewrite (wf_perm_len s H). apply (Hb v0 x0). left. reflexivity. }
  destruct (wf_perm_v2l s H v0 Hv) as [l0 [E0 _]]. rewrite E0.
  destruct IH as [r' Er]; [intros v x Hin; apply (Hb v x); right; exact Hin|]. rewrite Er. eauto.
Qed.

(** the levels an argument list mentions exist *)
Lemma td_level_args_bound : forall s args largs, WF s -> td_level_args s args = Some largs ->
  forall l x, In (l, x) largs -> l < nlevels s.
Proof.
  intros s args largs H E l x Hin.
  destruct (td_level_args_In s args largs E l x Hin) as [v [_ Ev]].
  assert (Hv : v < length (s_v2l s)) by (apply nth_error_Some; congruence).
  destruct (wf_perm_v2l s H v Hv) as [l' [E1 E2]]. rewrite Ev in E1. inversion E1; subst l'.
  unfold nlevels. apply nth_error_Some. congruence.
Qed.

(** the packed vector computes the same as the abstract map *)
Theorem td_eval_packed_eq : forall s r args, WF s -> td_eval s r args = td_eval_abs s r args.
Proof.
  intros s r args H. unfold td_eval, td_eval_abs.
  destruct (td_level_args s args) as [largs|] eqn:El; [|reflexivity].
  set (k := N.to_nat ((N.of_nat (nlevels s) + 15) / elements_per_block)).
  assert (Hk : nlevels s <= 16 * k).
  { unfold k, elements_per_block.
    pose proof (N.div_mod (N.of_nat (nlevels s) + 15) 16 ltac:(discriminate)).
    pose proof (N.mod_upper_bound (N.of_nat (nlevels s) + 15) 16 ltac:(discriminate)). lia. }
  destruct (pack_choices_repr largs (repeat 0%N k) (fun _ => 0)) as [H1 H2].
  - intros l Hl. rewrite nth_repeat. apply block_get_0.
  - intros l v Hin. rewrite repeat_length. pose proof (td_level_args_bound s args largs H El l v Hin). lia.
  - apply (td_eval_walk_packed_eq s H _ _ H1). rewrite H2, repeat_length. exact Hk.
Qed.

(** ** [eval] computes the function of the reference *)

Theorem td_eval_ok : forall s r phi args largs, TdOK s -> DenT s r phi ->
  td_level_args s args = Some largs ->
  td_eval s r args = Some (phi (assignment_of largs (fun _ => TT))).
Proof.
  intros s r phi args largs B D El. pose proof (to_wf s B) as H.
  rewrite (td_eval_packed_eq s r args H). unfold td_eval_abs. rewrite El.
  rewrite (td_eval_walk_sem s H).
  rewrite (semk_ext s H _ r _ (chc (assignment_of largs (fun _ => TT)))).
  - rewrite (proj2 D). apply tdecode_tcode.
  - intros l _. unfold chc. apply set_choices_spec. reflexivity.
Qed.

(** for an argument list that gives every variable its value under [av],
    [eval] returns the value of the reference's function at [av] *)
Theorem td_eval_assignment : forall s r (av : nat -> tri) args, TdOK s -> ref_ok s r ->
  (forall v x, In (v, x) args -> x = av v /\ v < nlevels s) ->
  (forall v, v < nlevels s -> In v (map fst args)) ->
  td_eval s r args = Some (tfun_of s r av).
Proof.
  intros s r av args B Hok Hcons Hall. pose proof (to_wf s B) as H.
  destruct (dent_exists s r B Hok) as [phi D].
  destruct (td_level_args_total s args H (fun v x Hin => proj2 (Hcons v x Hin))) as [largs El].
  rewrite (td_eval_ok s r phi args largs B D El), (tfun_of_den s r phi D). f_equal.
  apply (dent_pointwise s r phi _ _ H D). intros l.
  destruct (in_dec Nat.eq_dec l (map fst largs)) as [Hin|Hnin].
  - apply assignment_of_consistent; [|exact Hin].
    intros l' x Hx. destruct (td_level_args_In s args largs El l' x Hx) as [v [Hv Ev]].
    destruct (Hcons v x Hv) as [-> _].
    assert (Hv' : v < length (s_v2l s)) by (apply nth_error_Some; congruence).
    destruct (wf_perm_v2l s H v Hv') as [l'' [E1 E2]]. rewrite Ev in E1. inversion E1; subst l''.
    unfold lvl_asg. rewrite E2. reflexivity.
  - rewrite assignment_of_notin by exact Hnin. unfold lvl_asg.
    destruct (nth_error (s_l2v s) l) as [v|] eqn:Ev; [|reflexivity]. exfalso. apply Hnin.
    assert (Hl : l < length (s_l2v s)) by (apply nth_error_Some; congruence).
    destruct (wf_perm_l2v s H l Hl) as [v' [E1 E2]]. rewrite Ev in E1. inversion E1; subst v'.
    assert (Hvn : v < nlevels s).
    { unfold nlevels. rewrite <- (wf_perm_len s H). apply nth_error_Some. congruence. }
    specialize (Hall v Hvn). apply in_map_iff in Hall. destruct Hall as [[v0 x0] [Ev0 Hin0]].
    simpl in Ev0. subst v0.
    apply in_map_iff. exists (l, x0). split; [reflexivity|].
    apply (td_level_args_In_rev s args largs El v x0 l Hin0 E2).
Qed.
