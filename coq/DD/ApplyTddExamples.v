(** * The hypotheses of the C11 table-level theorems are satisfiable, and the
      model runs

    - [tex0]: the fresh TDD manager with two variables (no node, the three
      terminals) is [TdOK]; the table built from it by the model (x0, x1,
      x0 AND x1, ite(x0, x1, U), NOT of it) is [TdOK] again, and the cache the
      run leaves behind is a non-empty [TCacheOK] cache;
    - [vm_compute] runs: value tables over all 9 three-valued assignments of
      the connectives on it (against the fixed tables), [eval] with the packed
      choices vector, [cofactors], the unfolding into the tree type of
      DD/Tdd.v and the tree algorithm on the unfolded operands. *)

From Coq Require Import List NArith PArith Bool Arith Lia FMapPositive.
From OxiVerif Require Import DD.Table DD.TableProofs DD.Build DD.BuildProofs
  DD.Apply DD.ApplyProofs DD.Tdd DD.TddTables DD.ApplyTdd DD.ApplyTddBase DD.ApplyTddProofs
  DD.ApplyTddIte DD.ApplyTddTop DD.ApplyTddEval DD.ApplyTddTree.
Import ListNotations.

(** an edge order (by node id), standing for the address order of the code *)
Definition tgt_id (a b : ref) : bool :=
  match a, b with
  | RN x, RN y => Pos.ltb y x
  | RN _, RT _ => true
  | RT x, RT y => N.ltb y x
  | RT _, RN _ => false
  end.

(** a fresh manager with two variables: no node, terminals False / Unknown / True *)
Definition tex0 : snap :=
  mkSnap KTdd (PositiveMap.empty node) [(0, 0); (1, 1); (2, 2)]%N [0; 1] [0; 1] [].

Example tex0_ok : TdOK tex0.
Proof. apply td_ok_b_spec. vm_compute. reflexivity. Qed.

Example tex0_cache_ok : TCacheOK ac_get tex0 [].
Proof. apply tac_empty_ok. Qed.

Definition tbin (s : snap) (c : acache) (op : binop) (f g : ref) :=
  td_apply_bin tgt_id acache ac_get ac_add (S (nlevels s)) s c op f g.
Definition tite (s : snap) (c : acache) (f g h : ref) :=
  td_apply_ite tgt_id acache ac_get ac_add (S (nlevels s)) s c f g h.
Definition tnot (s : snap) (c : acache) (f : ref) :=
  td_apply_not acache ac_get ac_add (S (nlevels s)) s c f.

(** x0, x1, a = x0 AND x1, i = ite(x0, x1, U), n = NOT i, built by the model
    (the case of the smoke test of the harness) *)
Definition tex_build : option (snap * acache * (ref * ref * ref * ref * ref)) :=
  match td_var tex0 0 with
  | Some (s1, x0) =>
    match td_var s1 1, td_const s1 TU with
    | Some (s2, x1), Some u =>
      match tbin s2 [] And x0 x1 with
      | Some (s3, c3, a) =>
        match tite s3 c3 x0 x1 u with
        | Some (s4, c4, i) =>
          match tnot s4 c4 i with
          | Some (s5, c5, n) => Some (s5, c5, (x0, x1, a, i, n))
          | None => None
          end
        | None => None
        end
      | None => None
      end
    | _, _ => None
    end
  | None => None
  end.

Definition tex1 : snap := match tex_build with Some (s, _, _) => s | None => tex0 end.
Definition tex_c : acache := match tex_build with Some (_, c, _) => c | None => [] end.
Definition tex_x0 : ref := match tex_build with Some (_, _, (x, _, _, _, _)) => x | None => RT 0 end.
Definition tex_x1 : ref := match tex_build with Some (_, _, (_, x, _, _, _)) => x | None => RT 0 end.
Definition tex_a : ref := match tex_build with Some (_, _, (_, _, x, _, _)) => x | None => RT 0 end.
Definition tex_i : ref := match tex_build with Some (_, _, (_, _, _, x, _)) => x | None => RT 0 end.
Definition tex_n : ref := match tex_build with Some (_, _, (_, _, _, _, x)) => x | None => RT 0 end.

Example tex_build_runs :
  tex_build <> None /\ tex_x0 = RN 2 /\ tex_x1 = RN 3 /\ tex_a = RN 5 /\ tex_i = RN 6 /\ tex_n = RN 9 /\
  PositiveMap.cardinal (s_nodes tex1) = 8 /\ length tex_c = 6.
Proof. vm_compute. repeat split; try reflexivity. discriminate. Qed.

(** the table the model built satisfies the invariant (a non-trivial state
    for the hypotheses of every theorem) *)
Example tex1_ok : TdOK tex1.
Proof. apply td_ok_b_spec. vm_compute. reflexivity. Qed.

(** ... and the cache it left behind is a correct, non-empty cache (not by
    computation: by the theorems, step by step) *)
Example tex_cache_ok : TCacheOK ac_get tex1 tex_c /\ tex_c <> [].
Proof.
  split; [|vm_compute; discriminate].
  pose proof tex0_ok as B0.
  destruct (td_var_ok tex0 0 B0 ltac:(vm_compute; lia)) as [l0 [s1 [x0 [_ [_ [E1 [B1 [X1 [D0 _]]]]]]]]].
  destruct (td_var_ok s1 1 B1 ltac:(rewrite (ext_nlevels _ _ X1); vm_compute; lia))
    as [l1 [s2 [x1 [_ [_ [E2 [B2 [X2 [D1 _]]]]]]]]].
  destruct (td_const_ok s1 TU B1) as [tu [Eu [Du _]]].
  pose proof (dent_extends s1 s2 _ _ B1 X2 D0) as D0'.
  pose proof (dent_extends s1 s2 _ _ B1 X2 Du) as Du'.
  destruct (td_apply_bin_ok tgt_id acache ac_get ac_add ac_lossy And (S (nlevels s2)) s2 [] x0 x1 _ _ B2
              (tac_empty_ok s2) D0' D1 ltac:(lia)) as [s3 [c3 [a [E3 [B3 [X3 [O3 [Da _]]]]]]]].
  pose proof (dent_extends s2 s3 _ _ B2 X3 D0') as D0''.
  pose proof (dent_extends s2 s3 _ _ B2 X3 D1) as D1''.
  pose proof (dent_extends s2 s3 _ _ B2 X3 Du') as Du''.
  destruct (td_apply_ite_ok tgt_id acache ac_get ac_add ac_lossy (S (nlevels s3)) s3 c3 x0 x1 (RT tu) _ _ _ B3
              O3 D0'' D1'' Du'' ltac:(lia)) as [s4 [c4 [i [E4 [B4 [X4 [O4 [Di _]]]]]]]].
  destruct (td_apply_not_ok acache ac_get ac_add ac_lossy (S (nlevels s4)) s4 c4 i _ B4 O4 Di ltac:(lia))
    as [s5 [c5 [n [E5 [B5 [X5 [O5 _]]]]]]].
  assert (Eb : tex_build = Some (s5, c5, (x0, x1, a, i, n))).
  { unfold tex_build, tbin, tite, tnot. rewrite E1, E2, Eu, E3, E4, E5. reflexivity. }
  unfold tex1, tex_c. rewrite Eb. exact O5.
Qed.

(** value table of a reference through [eval] (packed choices vector): the 9
    complete assignments, index 3 * i0 + i1, digit 0 = F, 1 = U, 2 = T *)
Definition tri3 : list tri := [TF; TU; TT].
Definition tvt (s : snap) (r : ref) : list (option tri) :=
  flat_map (fun a0 => map (fun a1 => td_eval s r [(0, a0); (1, a1)]) tri3) tri3.

Definition spec2 (f : tri -> tri -> tri) : list (option tri) :=
  flat_map (fun a0 => map (fun a1 => Some (f a0 a1)) tri3) tri3.

Example tex_tables :
  tvt tex1 tex_x0 = spec2 (fun a _ => a) /\
  tvt tex1 tex_x1 = spec2 (fun _ b => b) /\
  tvt tex1 tex_a = spec2 k_and /\
  tvt tex1 tex_i = spec2 (fun a b => ite3 a b TU) /\
  tvt tex1 tex_n = spec2 (fun a b => k_not (ite3 a b TU)).
Proof. vm_compute. repeat split; reflexivity. Qed.

Definition run_tvt (res : option (snap * acache * ref)) : list (option tri) :=
  match res with Some (s, _, r) => tvt s r | None => [] end.

(** all eight connectives on (x0 AND x1, ite(x0, x1, U)) against their tables *)
Example tex_connectives : forall op,
  run_tvt (tbin tex1 tex_c op tex_a tex_i) = spec2 (fun a b => table op (k_and a b) (ite3 a b TU)).
Proof. intros []; vm_compute; reflexivity. Qed.

(** ite with the operands permuted: the rewrites to or / and / imp / imp_strict / not *)
Example tex_ite_rewrites :
  run_tvt (tite tex1 tex_c tex_a tex_a tex_i) = spec2 (fun a b => ite3 (k_and a b) (k_and a b) (ite3 a b TU)) /\
  run_tvt (tite tex1 tex_c tex_a tex_i tex_a) = spec2 (fun a b => ite3 (k_and a b) (ite3 a b TU) (k_and a b)) /\
  (match td_const tex1 TT, td_const tex1 TF with
   | Some t, Some f =>
     run_tvt (tite tex1 tex_c tex_a t tex_i) = spec2 (fun a b => ite3 (k_and a b) TT (ite3 a b TU)) /\
     run_tvt (tite tex1 tex_c tex_a f tex_i) = spec2 (fun a b => ite3 (k_and a b) TF (ite3 a b TU)) /\
     run_tvt (tite tex1 tex_c tex_a tex_i t) = spec2 (fun a b => ite3 (k_and a b) (ite3 a b TU) TT) /\
     run_tvt (tite tex1 tex_c tex_a tex_i f) = spec2 (fun a b => ite3 (k_and a b) (ite3 a b TU) TF) /\
     run_tvt (tite tex1 tex_c tex_a f t) = spec2 (fun a b => k_not (k_and a b))
   | _, _ => False
   end).
Proof. vm_compute. repeat split; reflexivity. Qed.

(** repeating an operation on the table that holds its result: the same
    reference, nothing created (instance of history independence) *)
Example tex_stable :
  match tbin tex1 [] And tex_x0 tex_x1 with
  | Some (s, _, r) => r = tex_a /\ s_nodes s = s_nodes tex1
  | None => False
  end.
Proof. vm_compute. split; reflexivity. Qed.

(** cofactors = the children in the order true, unknown, false *)
Example tex_cofactors :
  td_cofactors tex1 tex_a = Some (tex_x1, RN 4, RT 0) /\ td_cofactors tex1 (RT 1) = None.
Proof. vm_compute. split; reflexivity. Qed.

(** the unfolding into the tree type of DD/Tdd.v, and the tree algorithm *)
Example tex_unfold :
  unfoldT tex1 tex_x0 = Some (tdd_var 0) /\
  unfoldT tex1 tex_a
  = Some (Node 0 (tdd_var 1) (Node 1 (Leaf TU) (Leaf TU) (Leaf TF)) (Leaf TF)) /\
  unfoldT tex1 tex_a = Tdd.apply_bin_auto gt_size And (tdd_var 0) (tdd_var 1) /\
  unfoldT tex1 tex_i = Tdd.apply_ite_auto gt_size (tdd_var 0) (tdd_var 1) (Leaf TU).
Proof. vm_compute. repeat split; reflexivity. Qed.
