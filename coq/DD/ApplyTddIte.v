(** * Correctness of the TDD if-then-else on hash-consed tables
      (DD/ApplyTdd.v: [td_ite_sc], [td_apply_ite] = [apply_ite_rec] of
      oxidd-rules-tdd/src/apply_rec.rs)

    - [td_ite_sc_sound]: every terminal short-cut taken after the three
      equality tests ([g == h], [f == g], [f == h] all failed) agrees with the FIXED 27-entry table [ite3] of DD/Tdd.v
      (= the rule of the property text, [ite3_is_text]): a returned edge denotes
      [fn_ite phi psi theta]; a rewrite to a binary operator / to negation is
      an identity of the tables; "no short-cut" only if not all three operands
      are terminals;
    - [td_apply_ite_ok]: the result denotes [fn_ite phi psi theta], the table
      is only extended, [TdOK]/[TCacheOK] are preserved, an existing reference
      of the result function is returned unchanged. *)

From Coq Require Import List NArith PArith Bool Arith Lia FMapPositive.
From OxiVerif Require Import DD.Table DD.TableProofs DD.Canon DD.Build DD.BuildProofs
  DD.Apply DD.ApplyProofs DD.Tdd DD.TddTables DD.ApplyTdd DD.ApplyTddBase DD.ApplyTddProofs.
Import ListNotations.

(** ** The terminal short-cuts *)

Definition sc_postT (s : snap) (f g h : ref) (vf vg vh : tview) (phi psi theta : tfun)
    (res : ite_res) : Prop :=
  match res with
  | IDone r => DenT s r (fn_ite phi psi theta)
  | IBin op a b =>
    (a = f /\ b = g /\ forall x, fn_ite phi psi theta x = fn_bin op phi psi x) \/
    (a = f /\ b = h /\ forall x, fn_ite phi psi theta x = fn_bin op phi theta x)
  | INot a => a = f /\ forall x, fn_ite phi psi theta x = fn_not phi x
  | IRec => is_term vf = false \/ is_term vg = false \/ is_term vh = false
  | IFail => False
  end.

Theorem td_ite_sc_sound : forall s f g h vf vg vh phi psi theta, TdOK s ->
  DenT s f phi -> DenT s g psi -> DenT s h theta ->
  td_view s f = Some vf -> td_view s g = Some vg -> td_view s h = Some vh ->
  g <> h -> f <> g -> f <> h ->
  sc_postT s f g h vf vg vh phi psi theta (td_ite_sc s f g h vf vg vh).
Proof.
  intros s f g h vf vg vh phi psi theta B Df Dg Dh Vf Vg Vh Ngh Nfg Nfh.
  pose proof (to_wf s B) as H.
  assert (Ff : forall v, vf = TVT v -> forall a, phi a = v)
    by (intros v -> a; apply (view_dent_T s f v phi Df Vf a)).
  assert (Fg : forall v, vg = TVT v -> forall a, psi a = v)
    by (intros v -> a; apply (view_dent_T s g v psi Dg Vg a)).
  assert (Fh : forall v, vh = TVT v -> forall a, theta a = v)
    by (intros v -> a; apply (view_dent_T s h v theta Dh Vh a)).
  destruct (term3_total s TU B) as [tu Etu].
  pose proof (dent_const s TU tu B Etu) as Du.
  Local Ltac pw3T Ff Fg Fh phi psi theta :=
    let a := fresh "a" in
    intros a; unfold fn_ite, fn_bin, fn_not, fn_const; cbv beta;
    try (pose proof (Ff _ eq_refl a));
    try (pose proof (Fg _ eq_refl a));
    try (pose proof (Fh _ eq_refl a));
    destruct (phi a); destruct (psi a); destruct (theta a); try discriminate; reflexivity.
  unfold td_ite_sc. rewrite Etu.
  destruct vf as [nf|[]], vg as [ng|[]], vh as [nh|[]]; simpl is_term; simpl andb; cbv iota beta;
    unfold sc_postT;
    first [ solve [ simpl; tauto ]
          | solve [ exfalso; apply Ngh; apply (td_view_T_inj s g h _ H Vg Vh) ]
          | solve [ exfalso; apply Nfg; apply (td_view_T_inj s f g _ H Vf Vg) ]
          | solve [ exfalso; apply Nfh; apply (td_view_T_inj s f h _ H Vf Vh) ]
          | solve [ eapply dent_ext; [exact Df | pw3T Ff Fg Fh phi psi theta] ]
          | solve [ eapply dent_ext; [exact Dg | pw3T Ff Fg Fh phi psi theta] ]
          | solve [ eapply dent_ext; [exact Dh | pw3T Ff Fg Fh phi psi theta] ]
          | solve [ eapply dent_ext; [exact Du | pw3T Ff Fg Fh phi psi theta] ]
          | solve [ left; split; [reflexivity|]; split; [reflexivity|]; pw3T Ff Fg Fh phi psi theta ]
          | solve [ right; split; [reflexivity|]; split; [reflexivity|]; pw3T Ff Fg Fh phi psi theta ]
          | solve [ split; [reflexivity|]; pw3T Ff Fg Fh phi psi theta ] ].
Qed.

Section IteSec.
Variable gt : ref -> ref -> bool.
Variable C : Type.
Variable cget : C -> N -> list ref -> option ref.
Variable cadd : C -> N -> list ref -> ref -> C.
Hypothesis Hlossy : lossy cget cadd.

Lemma td_apply_ite_S : forall n s c f g h,
  td_apply_ite gt C cget cadd (S n) s c f g h =
    if ref_eqb g h then Some (s, c, g)
    else if ref_eqb f g then td_apply_bin gt C cget cadd (S n) s c Or f h
    else if ref_eqb f h then td_apply_bin gt C cget cadd (S n) s c And f g
    else
      match td_view s f, td_view s g, td_view s h with
      | Some vf, Some vg, Some vh =>
        match td_ite_sc s f g h vf vg vh with
        | IFail => None
        | IDone r => Some (s, c, r)
        | IBin op a b => td_apply_bin gt C cget cadd (S n) s c op a b
        | INot a => td_apply_not C cget cadd (S n) s c a
        | IRec =>
          match cget c tcode_ite [f; g; h] with
          | Some r => Some (s, c, r)
          | None =>
            match lmin (lmin (tlevel vf) (tlevel vg)) (tlevel vh) with
            | None => None
            | Some lvl =>
              match td_cof f vf lvl, td_cof g vg lvl, td_cof h vh lvl with
              | Some (f0, f1, f2), Some (g0, g1, g2), Some (h0, h1, h2) =>
                match td_apply_ite gt C cget cadd n s c f0 g0 h0 with
                | None => None
                | Some (s1, c1, t) =>
                  match td_apply_ite gt C cget cadd n s1 c1 f1 g1 h1 with
                  | None => None
                  | Some (s2, c2, u) =>
                    match td_apply_ite gt C cget cadd n s2 c2 f2 g2 h2 with
                    | None => None
                    | Some (s3, c3, e) =>
                      let '(s4, r) := mk_node s3 lvl [E t; E u; E e] in
                      Some (s4, cadd c3 tcode_ite [f; g; h] (eref r), eref r)
                    end
                  end
                end
              | _, _, _ => None
              end
            end
          end
        end
      | _, _, _ => None
      end.
Proof. reflexivity. Qed.

(** the split level of three operands that are not all terminals *)
Lemma lmin3_level : forall s f g h vf vg vh, WF s ->
  td_view s f = Some vf -> td_view s g = Some vg -> td_view s h = Some vh ->
  (is_term vf = false \/ is_term vg = false \/ is_term vh = false) ->
  lmin (lmin (tlevel vf) (tlevel vg)) (tlevel vh)
  = Some (Nat.min (Nat.min (rlevel s f) (rlevel s g)) (rlevel s h)) /\
  Nat.min (Nat.min (rlevel s f) (rlevel s g)) (rlevel s h) < nlevels s.
Proof.
  intros s f g h vf vg vh H Vf Vg Vh Hi.
  pose proof (tlevel_rlevel s f vf H Vf) as Lf. pose proof (tlevel_rlevel s g vg H Vg) as Lg.
  pose proof (tlevel_rlevel s h vh H Vh) as Lh.
  pose proof (rlevel_le s H f). pose proof (rlevel_le s H g). pose proof (rlevel_le s H h).
  destruct vf as [nf|a], vg as [ng|b], vh as [nh|d]; simpl in *;
    repeat match goal with
           | L : _ = _ /\ _ |- _ => destruct L as [-> ?]
           end;
    try (split; [f_equal; lia | lia]);
    exfalso; destruct Hi as [Hi|[Hi|Hi]]; discriminate.
Qed.

Theorem td_apply_ite_ok : forall fuel s c f g h phi psi theta,
  TdOK s -> TCacheOK cget s c -> DenT s f phi -> DenT s g psi -> DenT s h theta ->
  nlevels s - Nat.min (Nat.min (rlevel s f) (rlevel s g)) (rlevel s h) < fuel ->
  tresult_ok C cget s c (td_apply_ite gt C cget cadd fuel s c f g h) (fn_ite phi psi theta).
Proof.
  induction fuel as [|n IH]; intros s c f g h phi psi theta B O Df Dg Dh Hfuel; [lia|].
  pose proof (to_wf s B) as H.
  rewrite td_apply_ite_S.
  Local Ltac pwI phi psi theta :=
    let a := fresh "a" in
    intros a; unfold fn_ite, fn_bin; cbv beta;
    repeat match goal with
           | Hx : forall a : assignment, _ = _ |- _ => pose proof (Hx a); clear Hx
           end;
    destruct (phi a); destruct (psi a); destruct (theta a); try discriminate; reflexivity.
  destruct (ref_eqb g h) eqn:Egh.
  { apply ref_eqb_eq in Egh. subst h.
    pose proof (dent_unique s g psi theta Dg Dh) as U.
    apply tresult_ok_here; auto. apply (dent_ext s g psi); [exact Dg|]. pwI phi psi theta. }
  destruct (ref_eqb f g) eqn:Efg.
  { apply ref_eqb_eq in Efg. subst g.
    pose proof (dent_unique s f phi psi Df Dg) as U.
    apply (tresult_ok_ext C cget s c _ (fn_bin Or phi theta)).
    - apply (td_apply_bin_ok gt C cget cadd Hlossy Or (S n) s c f h phi theta B O Df Dh). lia.
    - pwI phi psi theta. }
  destruct (ref_eqb f h) eqn:Efh.
  { apply ref_eqb_eq in Efh. subst h.
    pose proof (dent_unique s f phi theta Df Dh) as U.
    apply (tresult_ok_ext C cget s c _ (fn_bin And phi psi)).
    - apply (td_apply_bin_ok gt C cget cadd Hlossy And (S n) s c f g phi psi B O Df Dg). lia.
    - pwI phi psi theta. }
  destruct (td_view_total s f B (proj1 Df)) as [vf Vf].
  destruct (td_view_total s g B (proj1 Dg)) as [vg Vg].
  destruct (td_view_total s h B (proj1 Dh)) as [vh Vh].
  rewrite Vf, Vg, Vh.
  assert (Nq : forall x y, ref_eqb x y = false -> x <> y).
  { intros x y E ->. assert (X : ref_eqb y y = true) by (apply ref_eqb_eq; reflexivity). congruence. }
  pose proof (td_ite_sc_sound s f g h vf vg vh phi psi theta B Df Dg Dh Vf Vg Vh
                (Nq _ _ Egh) (Nq _ _ Efg) (Nq _ _ Efh)) as T.
  destruct (td_ite_sc s f g h vf vg vh) as [r|op a b|a| |] eqn:Esc; simpl in T; [| | | |contradiction].
  - apply tresult_ok_here; auto.
  - destruct T as [[-> [-> Hr]]|[-> [-> Hr]]].
    + apply (tresult_ok_ext C cget s c _ (fn_bin op phi psi)).
      * apply (td_apply_bin_ok gt C cget cadd Hlossy op (S n) s c f g phi psi B O Df Dg). lia.
      * intros x. symmetry. apply Hr.
    + apply (tresult_ok_ext C cget s c _ (fn_bin op phi theta)).
      * apply (td_apply_bin_ok gt C cget cadd Hlossy op (S n) s c f h phi theta B O Df Dh). lia.
      * intros x. symmetry. apply Hr.
  - destruct T as [-> Hr].
    apply (tresult_ok_ext C cget s c _ (fn_not phi)).
    + apply (td_apply_not_ok C cget cadd Hlossy (S n) s c f phi B O Df). lia.
    + intros x. symmetry. apply Hr.
  - (* no short-cut *)
    destruct (cget c tcode_ite [f; g; h]) as [r|] eqn:Ec.
    { destruct (O _ _ _ Ec eq_refl) as [pa [pb [pc [Da [Db [Dc Dr]]]]]].
      apply tresult_ok_here; auto. apply (dent_ext s r _ _ Dr). intros x. unfold fn_ite.
      rewrite (dent_unique s _ pa phi Da Df x), (dent_unique s _ pb psi Db Dg x),
              (dent_unique s _ pc theta Dc Dh x). reflexivity. }
    destruct (lmin3_level s f g h vf vg vh H Vf Vg Vh T) as [El Hlvl]. rewrite El.
    set (lvl := Nat.min (Nat.min (rlevel s f) (rlevel s g)) (rlevel s h)) in *.
    destruct (td_cof_ok s f vf phi lvl B Df Vf ltac:(lia) Hlvl)
      as [f0 [f1 [f2 [Ecf [Df0 [Df1 [Df2 [Lf0 [Lf1 Lf2]]]]]]]]].
    destruct (td_cof_ok s g vg psi lvl B Dg Vg ltac:(lia) Hlvl)
      as [g0 [g1 [g2 [Ecg [Dg0 [Dg1 [Dg2 [Lg0 [Lg1 Lg2]]]]]]]]].
    destruct (td_cof_ok s h vh theta lvl B Dh Vh ltac:(lia) Hlvl)
      as [h0 [h1 [h2 [Ech [Dh0 [Dh1 [Dh2 [Lh0 [Lh1 Lh2]]]]]]]]].
    rewrite Ecf, Ecg, Ech.
    set (G := fun v : tri =>
                fn_ite (fn_restrict phi lvl v) (fn_restrict psi lvl v) (fn_restrict theta lvl v)).
    destruct (IH s c f0 g0 h0 _ _ _ B O Df0 Dg0 Dh0 ltac:(lia)) as [s1 [c1 [t [E1 [B1 [X1 [O1 [R1 S1]]]]]]]].
    rewrite E1.
    assert (Df1s : DenT s1 f1 (fn_restrict phi lvl TU)) by (apply (dent_extends s s1 _ _ B X1 Df1)).
    assert (Dg1s : DenT s1 g1 (fn_restrict psi lvl TU)) by (apply (dent_extends s s1 _ _ B X1 Dg1)).
    assert (Dh1s : DenT s1 h1 (fn_restrict theta lvl TU)) by (apply (dent_extends s s1 _ _ B X1 Dh1)).
    assert (Hf1 : nlevels s1 - Nat.min (Nat.min (rlevel s1 f1) (rlevel s1 g1)) (rlevel s1 h1) < n).
    { rewrite (ext_nlevels _ _ X1), (ext_rlevel _ _ _ X1 (proj1 Df1)),
              (ext_rlevel _ _ _ X1 (proj1 Dg1)), (ext_rlevel _ _ _ X1 (proj1 Dh1)). lia. }
    destruct (IH s1 c1 f1 g1 h1 _ _ _ B1 O1 Df1s Dg1s Dh1s Hf1) as [s2 [c2 [u [E2 [B2 [X2 [O2 [R2 S2]]]]]]]].
    rewrite E2.
    assert (X02 : extends s s2) by (eapply extends_trans; eauto).
    assert (Df2s : DenT s2 f2 (fn_restrict phi lvl TF)) by (apply (dent_extends s s2 _ _ B X02 Df2)).
    assert (Dg2s : DenT s2 g2 (fn_restrict psi lvl TF)) by (apply (dent_extends s s2 _ _ B X02 Dg2)).
    assert (Dh2s : DenT s2 h2 (fn_restrict theta lvl TF)) by (apply (dent_extends s s2 _ _ B X02 Dh2)).
    assert (Hf2 : nlevels s2 - Nat.min (Nat.min (rlevel s2 f2) (rlevel s2 g2)) (rlevel s2 h2) < n).
    { rewrite (ext_nlevels _ _ X02), (ext_rlevel _ _ _ X02 (proj1 Df2)),
              (ext_rlevel _ _ _ X02 (proj1 Dg2)), (ext_rlevel _ _ _ X02 (proj1 Dh2)). lia. }
    destruct (IH s2 c2 f2 g2 h2 _ _ _ B2 O2 Df2s Dg2s Dh2s Hf2) as [s3 [c3 [e [E3 [B3 [X3 [O3 [R3 S3]]]]]]]].
    rewrite E3.
    assert (Ip : indepT phi (rlevel s f)) by (apply (dent_indep s _ phi H Df)).
    assert (Iq : indepT psi (rlevel s g)) by (apply (dent_indep s _ psi H Dg)).
    assert (Ir : indepT theta (rlevel s h)) by (apply (dent_indep s _ theta H Dh)).
    assert (J : indepT (fn_ite phi psi theta) lvl).
    { intros x y Exy. unfold fn_ite.
      rewrite (indepT_mono phi _ lvl Ip ltac:(lia) x y Exy).
      rewrite (indepT_mono psi _ lvl Iq ltac:(lia) x y Exy).
      rewrite (indepT_mono theta _ lvl Ir ltac:(lia) x y Exy). reflexivity. }
    apply (expand_finish C cget cadd Hlossy s s1 s2 s3 c c3 lvl t u e (fn_ite phi psi theta) G
             tcode_ite [f; g; h] S1 S2 S3); auto.
    + intros v x y Exy. unfold G, fn_ite.
      rewrite (indepT_cof phi _ lvl v Ip ltac:(lia) x y Exy).
      rewrite (indepT_cof psi _ lvl v Iq ltac:(lia) x y Exy).
      rewrite (indepT_cof theta _ lvl v Ir ltac:(lia) x y Exy). reflexivity.
    + intros x. unfold G, fn_ite, pick3.
      rewrite <- (dent_upd_self s f phi x lvl H Df), <- (dent_upd_self s g psi x lvl H Dg),
              <- (dent_upd_self s h theta x lvl H Dh).
      destruct (x lvl); reflexivity.
    + intros v r0 D0.
      assert (L : lvl <= rlevel s r0) by (apply (dent_level s r0 _ lvl B D0 ltac:(lia) J)).
      destruct (dent_cof_exists s r0 _ lvl v B D0 L Hlvl) as [q Dq]. exists q. exact Dq.
    + intros s4 r X04 Dr _. exists phi, psi, theta.
      split; [apply (dent_extends s s4 _ _ B X04 Df)|].
      split; [apply (dent_extends s s4 _ _ B X04 Dg)|].
      split; [apply (dent_extends s s4 _ _ B X04 Dh) | exact Dr].
Qed.

End IteSec.
